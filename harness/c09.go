package main

import (
	"fmt"
	"math/rand"

	"github.com/crillab/gophersat/solver"
)

// HistOp is Solve (Con == nil) or AppendClause(Con).
type HistOp struct {
	Con *Con `json:"con,omitempty"`
}

type HistCase struct {
	P   *Prob    `json:"p"`
	Ops []HistOp `json:"ops"`
}

func (c *HistCase) norm() {
	c.P.norm()
	for i := range c.Ops {
		if c.Ops[i].Con != nil {
			c.Ops[i].Con.norm()
		}
	}
}

// addable reports whether the constraint can be handed to AppendClause: NewPBClause panics on a
// degree < 1 (documented), so constraints that are trivially true after normalisation are not added.
func clausesOf(con *Con) []*solver.Clause {
	switch con.Kind {
	case "clause":
		lits := make([]solver.Lit, len(con.Lits))
		for i, l := range con.Lits {
			lits[i] = solver.IntToLit(int32(l))
		}
		return []*solver.Clause{solver.NewClause(lits)}
	}
	var res []*solver.Clause
	for _, pc := range con.PB() {
		if pc.AtLeast < 1 {
			continue
		}
		res = append(res, pc.Clause())
	}
	return res
}

func genAdded(r *rand.Rand, n int) *Con {
	nn := n + r.Intn(3) // may mention up to 2 brand-new variables
	if nn < 1 {
		nn = 1
	}
	switch r.Intn(10) {
	case 0, 1, 2, 3:
		c := Con{Kind: "clause", Lits: genClause(r, nn, 1, 3, 0.2, 0.1)}
		return &c
	case 4:
		c := Con{Kind: "clause", Lits: []int{}} // immediately contradictory
		if r.Intn(3) != 0 {
			c.Lits = []int{randLit(r, nn)}
		}
		return &c
	case 5, 6:
		c := genCardCon(r, nn, false)
		return &c
	default:
		c := genPBCon(r, nn, []int{1, 2, 4}[r.Intn(3)])
		return &c
	}
}

func genC09(r *rand.Rand, idx int, tier string) *HistCase {
	nmax := 8
	if tier == "thorough" {
		nmax = 12
	}
	fams := []string{"cnf", "cnf", "card", "pb", "unitrich", "cnf3"}
	fam := fams[r.Intn(len(fams))]
	n := 2 + r.Intn(nmax-1)
	if fam == "cnf3" {
		n = 3 + r.Intn(nmax-2)
	}
	p := genProblem(r, fam, n)
	if p.Front == "dimacs" {
		p.Front = "slicenb"
	}
	c := &HistCase{P: p}
	nops := 1 + r.Intn(8)
	cur := p.NbVars()
	for i := 0; i < nops; i++ {
		if r.Intn(3) == 0 {
			c.Ops = append(c.Ops, HistOp{})
		} else {
			con := genAdded(r, cur)
			c.Ops = append(c.Ops, HistOp{Con: con})
			for _, l := range con.Lits {
				if abs(l) > cur {
					cur = abs(l)
				}
			}
		}
	}
	c.Ops = append(c.Ops, HistOp{})
	return c
}

func runC09(e *emitter, idx int, c *HistCase) {
	ops := make([]Sx, 0, len(c.Ops))
	for _, op := range c.Ops {
		if op.Con == nil {
			ops = append(ops, L(I(0)))
		} else if len(clausesOf(op.Con)) > 0 { // a trivially true constraint is not added (see clausesOf): not part of the history
			uc := op.Con.UC()
			ops = append(ops, Sx{List: append([]Sx{I(1)}, uc.List...)})
		}
	}
	csx := L(c.P.Sx(), Sx{List: ops})
	meta := Meta{Class: c.P.Class + "/" + c.P.Front, Desc: c}
	e.begin(idx, csx, meta)
	var answers []Sx
	status, msg := guard(caseTimeout, func() {
		pb, err := c.P.Build()
		if err != nil {
			panic(fmt.Sprintf("parse error: %v", err))
		}
		s := solver.New(pb)
		for _, op := range c.Ops {
			if op.Con == nil {
				st := s.Solve()
				var model []bool
				if st == solver.Sat {
					model = s.Model()
					if inv := stateOK(s); inv != "" {
						panic("invariant: " + inv)
					}
				}
				answers = append(answers, L(I(verdictCode(st)), Bools(model)))
			} else {
				for _, cl := range clausesOf(op.Con) {
					s.AppendClause(cl)
				}
			}
		}
	})
	meta.Msg = msg
	e.emit(csx, Sx{List: append([]Sx{I(status)}, answers...)}, meta)
	if status == 2 {
		e.out.Sync()
		panic("timeout: restart")
	}
}

// ---------------------------------------------------------------- C10

type AssumeCase struct {
	P      *Prob   `json:"p"`
	Rounds [][]int `json:"rounds"`
	Rst    int     `json:"rst,omitempty"` // > 0: the restart policy fires at one quiet point out of Rst (hook)
}

func genC10(r *rand.Rand, idx int, tier string) *AssumeCase {
	nmax := 9
	if tier == "thorough" {
		nmax = 14
	}
	fams := []string{"cnf", "cnf", "unitrich", "cnf3", "cnf3"}
	fam := fams[r.Intn(len(fams))]
	n := 2 + r.Intn(nmax-1)
	if fam == "cnf3" {
		n = 3 + r.Intn(nmax-2)
	}
	p := genProblem(r, fam, n)
	if p.Front == "dimacs" {
		p.Front = "slicenb"
	}
	c := &AssumeCase{P: p}
	if r.Intn(3) == 0 {
		c.Rst = 1 + r.Intn(6)
	}
	nv := p.NbVars()
	nr := 1 + r.Intn(6)
	var prev []int
	for i := 0; i < nr; i++ {
		var ls []int
		if nv > 0 {
			switch r.Intn(8) {
			case 0: // empty list
			case 1: // same list twice
				ls = cp(prev)
			case 2: // both polarities of a variable
				l := randLit(r, nv)
				ls = []int{l, -l}
			case 3: // contradict the previous round
				for _, l := range prev {
					ls = append(ls, -l)
				}
			case 4: // repeated literal
				l := randLit(r, nv)
				ls = []int{l, l, randLit(r, nv)}
			default:
				ls = distinctLits(r, nv, 1+r.Intn(min(nv, 4)))
			}
		}
		if ls == nil {
			ls = []int{}
		}
		c.Rounds = append(c.Rounds, ls)
		prev = ls
	}
	return c
}

func runC10(e *emitter, idx int, c *AssumeCase) {
	nv := c.P.NbVars()
	rounds := make([][]int, len(c.Rounds))
	for i, ls := range c.Rounds { // after shrinking the base problem, keep assumptions within its variables
		rounds[i] = []int{}
		for _, l := range ls {
			if l != 0 && abs(l) <= nv {
				rounds[i] = append(rounds[i], l)
			}
		}
	}
	csx := L(c.P.Sx(), IntLists(rounds))
	meta := Meta{Class: c.P.Class + "/" + c.P.Front, Desc: c}
	e.begin(idx, csx, meta)
	var answers []Sx
	status, msg := guard(caseTimeout, func() {
		pb, err := c.P.Build()
		if err != nil {
			panic(fmt.Sprintf("parse error: %v", err))
		}
		s := solver.New(pb)
		if c.Rst > 0 {
			setRestart(s, c.Rst)
		}
		for _, ls := range rounds {
			lits := make([]solver.Lit, len(ls))
			for i, l := range ls {
				lits[i] = solver.IntToLit(int32(l))
			}
			s.Assume(lits)
			st := s.Solve()
			var model []bool
			if st == solver.Sat {
				model = s.Model()
			}
			answers = append(answers, L(I(verdictCode(st)), Bools(model)))
		}
	})
	meta.Msg = msg
	e.emit(csx, Sx{List: append([]Sx{I(status)}, answers...)}, meta)
	if status == 2 {
		e.out.Sync()
		panic("timeout: restart")
	}
}
