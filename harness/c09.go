package main

import (
	"fmt"
	"math/rand"

	"github.com/crillab/gophersat/solver"
)

// HistOp is Solve (Con == nil, Guide == 0), AppendClause(Con), or a GUIDED step (Guide > 0): when the runner reaches it
// right after a Sat answer it replaces it by up to Guide concrete operations built from the model just returned and from
// the literals known to be decided at the top level -- constraints the model only just satisfies (one true literal, the
// others false, preferably false by a top-level fact), followed by the negation of what made them true.  The descriptor
// written with the case holds the concrete operations only, so that replay and shrinking are deterministic.
type HistOp struct {
	Con   *Con `json:"con,omitempty"`
	Guide int  `json:"guide,omitempty"`
}

type HistCase struct {
	P   *Prob    `json:"p"`
	Ops []HistOp `json:"ops"`
}

func (c *HistCase) norm() {
	c.P.norm()
	for i := range c.Ops {
		if c.Ops[i].Con != nil {
			c.Ops[i].Con.norm()
		}
	}
}

// addable reports whether the constraint can be handed to AppendClause: NewPBClause panics on a
// degree < 1 (documented), so constraints that are trivially true after normalisation are not added.
func clausesOf(con *Con) []*solver.Clause {
	switch con.Kind {
	case "clause":
		lits := make([]solver.Lit, len(con.Lits))
		for i, l := range con.Lits {
			lits[i] = solver.IntToLit(int32(l))
		}
		return []*solver.Clause{solver.NewClause(lits)}
	}
	var res []*solver.Clause
	for _, pc := range con.PB() {
		if pc.AtLeast < 1 {
			continue
		}
		res = append(res, pc.Clause())
	}
	return res
}

func genAdded(r *rand.Rand, n int) *Con {
	nn := n + r.Intn(3) // may mention up to 2 brand-new variables
	if nn < 1 {
		nn = 1
	}
	switch r.Intn(10) {
	case 0, 1, 2, 3:
		c := Con{Kind: "clause", Lits: genClause(r, nn, 1, 3, 0.2, 0.1)}
		return &c
	case 4:
		c := Con{Kind: "clause", Lits: []int{}} // immediately contradictory
		if r.Intn(3) != 0 {
			c.Lits = []int{randLit(r, nn)}
		}
		return &c
	case 5, 6:
		c := genCardCon(r, nn, false)
		return &c
	default:
		c := genPBCon(r, nn, []int{1, 2, 4}[r.Intn(3)])
		return &c
	}
}

func genC09(r *rand.Rand, idx int, tier string) *HistCase {
	nmax := 8
	if tier == "thorough" {
		nmax = 12
	}
	fams := []string{"cnf", "cnf", "card", "pb", "unitrich", "cnf3"}
	fam := fams[r.Intn(len(fams))]
	n := 2 + r.Intn(nmax-1)
	if fam == "cnf3" {
		n = 3 + r.Intn(nmax-2)
	}
	p := genProblem(r, fam, n)
	if p.Front == "dimacs" {
		p.Front = "slicenb"
	}
	c := &HistCase{P: p}
	if r.Intn(3) == 0 {
		// model-guided history: a few top-level facts first, a Solve, then additions aimed at the model returned
		cur := p.NbVars()
		if cur < 1 {
			cur = 1
		}
		for i := r.Intn(3); i > 0; i-- {
			c.Ops = append(c.Ops, HistOp{Con: &Con{Kind: "clause", Lits: []int{randLit(r, cur)}}})
		}
		for i := 1 + r.Intn(3); i > 0; i-- {
			c.Ops = append(c.Ops, HistOp{}, HistOp{Guide: 2 + r.Intn(3)})
		}
		c.Ops = append(c.Ops, HistOp{})
		return c
	}
	nops := 1 + r.Intn(8)
	cur := p.NbVars()
	for i := 0; i < nops; i++ {
		if r.Intn(3) == 0 {
			c.Ops = append(c.Ops, HistOp{})
		} else {
			con := genAdded(r, cur)
			c.Ops = append(c.Ops, HistOp{Con: con})
			for _, l := range con.Lits {
				if abs(l) > cur {
					cur = abs(l)
				}
			}
		}
	}
	c.Ops = append(c.Ops, HistOp{})
	return c
}

// opsSx renders the concrete operations of a history (guided steps that were never reached are not part of it).
func opsSx(c *HistCase) Sx {
	ops := make([]Sx, 0, len(c.Ops))
	for _, op := range c.Ops {
		if op.Guide > 0 {
			continue
		}
		if op.Con == nil {
			ops = append(ops, L(I(0)))
		} else if len(clausesOf(op.Con)) > 0 { // a trivially true constraint is not added (see clausesOf): not part of the history
			uc := op.Con.UC()
			ops = append(ops, Sx{List: append([]Sx{I(1)}, uc.List...)})
		}
	}
	return Sx{List: ops}
}

// guidedOps builds up to k operations aimed at the model m (m[i]: value of variable i+1) and at the top-level facts
// (fact[v] = +1 / -1: variable v is known true / false at the top level: unit clauses of the history so far).
func guidedOps(r *rand.Rand, k int, m []bool, fact map[int]int) []HistOp {
	n := len(m)
	if n == 0 {
		return nil
	}
	val := func(l int) bool { return m[abs(l)-1] == (l > 0) }
	var falseByFact, falseFree, trueFree []int
	for v := 1; v <= n; v++ {
		for _, l := range []int{v, -v} {
			switch {
			case fact[v] != 0 && !val(l):
				falseByFact = append(falseByFact, l)
			case fact[v] == 0 && !val(l):
				falseFree = append(falseFree, l)
			case fact[v] == 0 && val(l):
				trueFree = append(trueFree, l)
			}
		}
	}
	pick := func(xs []int) (int, bool) {
		if len(xs) == 0 {
			return 0, false
		}
		return xs[r.Intn(len(xs))], true
	}
	var out []HistOp
	for len(out) < k {
		t, ok := pick(trueFree)
		if !ok {
			break
		}
		// a constraint that m only just satisfies: t is its only true literal (or one of exactly K true ones)
		lits := []int{t}
		used := map[int]bool{abs(t): true}
		for i := 1 + r.Intn(3); i > 0; i-- {
			src := falseByFact
			if len(src) == 0 || r.Intn(4) == 0 {
				src = falseFree
			}
			if l, ok := pick(src); ok && !used[abs(l)] {
				used[abs(l)] = true
				lits = append(lits, l)
			}
		}
		r.Shuffle(len(lits), func(i, j int) { lits[i], lits[j] = lits[j], lits[i] })
		con := &Con{Kind: "clause", Lits: lits}
		if r.Intn(4) == 0 && len(trueFree) >= 2 {
			// cardinality: two true literals, at least two required
			if t2, ok := pick(trueFree); ok && !used[abs(t2)] {
				con = &Con{Kind: "atleast", Lits: append(append([]int{}, lits...), t2), K: 2}
			}
		}
		out = append(out, HistOp{Con: con})
		if r.Intn(3) == 0 {
			out = append(out, HistOp{})
		}
		// ... and then what made it true is taken away
		if r.Intn(5) != 0 {
			out = append(out, HistOp{Con: &Con{Kind: "clause", Lits: []int{-t}}})
		}
		if r.Intn(2) == 0 {
			break
		}
	}
	return out
}

func runC09(e *emitter, idx int, c *HistCase) {
	csx := L(c.P.Sx(), opsSx(c))
	meta := Meta{Class: c.P.Class + "/" + c.P.Front, Desc: c}
	guided := false
	for _, op := range c.Ops {
		if op.Guide > 0 {
			guided = true
		}
	}
	if guided {
		meta.Class = c.P.Class + "-guided/" + c.P.Front
	}
	e.begin(idx, csx, meta)
	var answers []Sx
	gr := rand.New(rand.NewSource(int64(idx)*7919 + 13))
	status, msg := guard(caseTimeout, func() {
		pb, err := c.P.Build()
		if err != nil {
			panic(fmt.Sprintf("parse error: %v", err))
		}
		s := solver.New(pb)
		fact := map[int]int{}
		for _, cl := range c.P.Clauses() {
			if len(cl) == 1 {
				fact[abs(cl[0])] = sign(cl[0])
			}
		}
		var lastModel []bool
		for i := 0; i < len(c.Ops); i++ {
			op := c.Ops[i]
			if op.Guide > 0 {
				// replace the guided step by concrete operations (none when the last answer was not Sat)
				var conc []HistOp
				if lastModel != nil {
					conc = guidedOps(gr, op.Guide, lastModel, fact)
				}
				rest := append([]HistOp{}, c.Ops[i+1:]...)
				c.Ops = append(append(c.Ops[:i:i], conc...), rest...)
				i--
				continue
			}
			if op.Con != nil && op.Con.Kind == "clause" && len(op.Con.Lits) == 1 {
				fact[abs(op.Con.Lits[0])] = sign(op.Con.Lits[0])
			}
			if op.Con == nil {
				st := s.Solve()
				var model []bool
				if st == solver.Sat {
					model = s.Model()
					if inv := stateOK(s); inv != "" {
						panic("invariant: " + inv)
					}
				}
				answers = append(answers, L(I(verdictCode(st)), Bools(model)))
				lastModel = model
			} else {
				for _, cl := range clausesOf(op.Con) {
					s.AppendClause(cl)
				}
			}
		}
	})
	meta.Msg = msg
	if guided {
		// the history as it was run: concrete operations only
		var conc []HistOp
		for _, op := range c.Ops {
			if op.Guide == 0 {
				conc = append(conc, op)
			}
		}
		c.Ops = conc
		csx = L(c.P.Sx(), opsSx(c))
		meta.Desc = c
	}
	e.emit(csx, Sx{List: append([]Sx{I(status)}, answers...)}, meta)
	if status == 2 {
		e.out.Sync()
		panic("timeout: restart")
	}
}

// ---------------------------------------------------------------- C10

type AssumeCase struct {
	P      *Prob   `json:"p"`
	Rounds [][]int `json:"rounds"`
	Rst    int     `json:"rst,omitempty"` // > 0: the restart policy fires at one quiet point out of Rst (hook)
}

func genC10(r *rand.Rand, idx int, tier string) *AssumeCase {
	nmax := 9
	if tier == "thorough" {
		nmax = 14
	}
	fams := []string{"cnf", "cnf", "unitrich", "cnf3", "cnf3"}
	fam := fams[r.Intn(len(fams))]
	n := 2 + r.Intn(nmax-1)
	if fam == "cnf3" {
		n = 3 + r.Intn(nmax-2)
	}
	p := genProblem(r, fam, n)
	if p.Front == "dimacs" {
		p.Front = "slicenb"
	}
	c := &AssumeCase{P: p}
	if r.Intn(3) == 0 {
		c.Rst = 1 + r.Intn(6)
	}
	nv := p.NbVars()
	nr := 1 + r.Intn(6)
	var prev []int
	for i := 0; i < nr; i++ {
		var ls []int
		if nv > 0 {
			switch r.Intn(8) {
			case 0: // empty list
			case 1: // same list twice
				ls = cp(prev)
			case 2: // both polarities of a variable
				l := randLit(r, nv)
				ls = []int{l, -l}
			case 3: // contradict the previous round
				for _, l := range prev {
					ls = append(ls, -l)
				}
			case 4: // repeated literal
				l := randLit(r, nv)
				ls = []int{l, l, randLit(r, nv)}
			default:
				ls = distinctLits(r, nv, 1+r.Intn(min(nv, 4)))
			}
		}
		if ls == nil {
			ls = []int{}
		}
		c.Rounds = append(c.Rounds, ls)
		prev = ls
	}
	return c
}

func runC10(e *emitter, idx int, c *AssumeCase) {
	nv := c.P.NbVars()
	rounds := make([][]int, len(c.Rounds))
	for i, ls := range c.Rounds { // after shrinking the base problem, keep assumptions within its variables
		rounds[i] = []int{}
		for _, l := range ls {
			if l != 0 && abs(l) <= nv {
				rounds[i] = append(rounds[i], l)
			}
		}
	}
	csx := L(c.P.Sx(), IntLists(rounds))
	meta := Meta{Class: c.P.Class + "/" + c.P.Front, Desc: c}
	e.begin(idx, csx, meta)
	var answers []Sx
	status, msg := guard(caseTimeout, func() {
		pb, err := c.P.Build()
		if err != nil {
			panic(fmt.Sprintf("parse error: %v", err))
		}
		s := solver.New(pb)
		if c.Rst > 0 {
			setRestart(s, c.Rst)
		}
		for _, ls := range rounds {
			lits := make([]solver.Lit, len(ls))
			for i, l := range ls {
				lits[i] = solver.IntToLit(int32(l))
			}
			s.Assume(lits)
			st := s.Solve()
			var model []bool
			if st == solver.Sat {
				model = s.Model()
			}
			answers = append(answers, L(I(verdictCode(st)), Bools(model)))
		}
	})
	meta.Msg = msg
	e.emit(csx, Sx{List: append([]Sx{I(status)}, answers...)}, meta)
	if status == 2 {
		e.out.Sync()
		panic("timeout: restart")
	}
}

func sign(x int) int {
	if x < 0 {
		return -1
	}
	return 1
}
