package main

import (
	"fmt"
	"math/rand"
	"strings"

	"github.com/crillab/gophersat/explain"
	"github.com/crillab/gophersat/solver"
)

// CnfCase: a CNF for package explain, with a method (C07) or a certificate and entry point (C08).
type CnfCase struct {
	N       int     `json:"n"`
	Clauses [][]int `json:"clauses"`
	Method  string  `json:"method,omitempty"` // mus deletion insertion maxsat
	Cert    [][]int `json:"cert,omitempty"`
	Entry   string  `json:"entry,omitempty"` // reader chan
	// C08: another certificate checked FIRST on the same Problem value (its verdict is not judged): "checking leaves the
	// problem reusable with the same answer" also after a certificate that was rejected half-way
	Pre [][]int `json:"pre,omitempty"`
}

func (c *CnfCase) norm() {
	m := 0
	fix := func(cls [][]int) {
		for i := range cls {
			if cls[i] == nil {
				cls[i] = []int{}
			}
			for _, l := range cls[i] {
				if abs(l) > m {
					m = abs(l)
				}
			}
		}
	}
	fix(c.Clauses)
	fix(c.Cert)
	fix(c.Pre)
	if c.N < m {
		c.N = m
	}
}

func (c *CnfCase) problem() *explain.Problem {
	pb, err := explain.ParseCNF(strings.NewReader(dimacsText(c.N, c.Clauses)))
	if err != nil {
		panic(fmt.Sprintf("parse error: %v", err))
	}
	return pb
}

func deepCopy(cls [][]int) [][]int {
	res := make([][]int, len(cls))
	for i, c := range cls {
		res[i] = append([]int{}, c...)
	}
	return res
}

func sameClauses(a, b [][]int) bool {
	if len(a) != len(b) {
		return false
	}
	for i := range a {
		if len(a[i]) != len(b[i]) {
			return false
		}
		for j := range a[i] {
			if a[i][j] != b[i][j] {
				return false
			}
		}
	}
	return true
}

func methodCode(m string) int {
	switch m {
	case "mus":
		return 0
	case "deletion":
		return 1
	case "insertion":
		return 2
	case "maxsat":
		return 3
	}
	panic("unknown method " + m)
}

// genUnsatCore returns clauses over fresh-ish variables that are unsatisfiable together.
func genUnsatCore(r *rand.Rand, n int) [][]int {
	switch r.Intn(5) {
	case 4: // a unit clause g guarding a core that needs search: g, (-g a b), (-g a -b), (-g -a b), (-g -a -b)
		if n < 3 {
			return [][]int{{1}, {-1}}
		}
		perm := r.Perm(n)
		g, a, b := randSign(r, perm[0]+1), perm[1]+1, perm[2]+1
		return [][]int{{g}, {-g, a, b}, {-g, a, -b}, {-g, -a, b}, {-g, -a, -b}}
	case 0: // x, -x
		v := 1 + r.Intn(n)
		return [][]int{{v}, {-v}}
	case 1: // all sign patterns over 2 variables
		a, b := 1+r.Intn(n), 1+r.Intn(n)
		for b == a && n > 1 {
			b = 1 + r.Intn(n)
		}
		if a == b {
			return [][]int{{a}, {-a}}
		}
		return [][]int{{a, b}, {a, -b}, {-a, b}, {-a, -b}}
	case 2: // implication chain x1 -> x2 -> ... -> -x1 with x1 forced
		k := 2 + r.Intn(min(n, 4)-1+1)
		if k > n {
			k = n
		}
		perm := r.Perm(n)
		vs := make([]int, k)
		for i := range vs {
			vs[i] = perm[i] + 1
		}
		cls := [][]int{{vs[0]}}
		for i := 0; i+1 < k; i++ {
			cls = append(cls, []int{-vs[i], vs[i+1]})
		}
		cls = append(cls, []int{-vs[k-1]})
		return cls
	default: // random dense 2..3-CNF, probably unsat
		var cls [][]int
		m := 3*min(n, 4) + r.Intn(4)
		for i := 0; i < m; i++ {
			cls = append(cls, genClause(r, min(n, 3), 1, 2, 0, 0))
		}
		return cls
	}
}

func genCnfForMus(r *rand.Rand, tier string) *CnfCase {
	nmax := 6
	if tier == "thorough" {
		nmax = 8
	}
	n := 2 + r.Intn(nmax-1)
	var cls [][]int
	switch r.Intn(5) {
	case 0: // satisfiable or not, random
		for i := 1 + r.Intn(2*n+4); i > 0; i-- {
			cls = append(cls, genClause(r, n, 1, 3, 0.05, 0.03))
		}
	case 1: // two independent cores
		cls = append(cls, genUnsatCore(r, n)...)
		cls = append(cls, genUnsatCore(r, n)...)
	default: // one core plus noise
		cls = append(cls, genUnsatCore(r, n)...)
		for i := r.Intn(n + 3); i > 0; i-- {
			cls = append(cls, genClause(r, n, 1, 3, 0, 0))
		}
	}
	if r.Intn(5) == 0 && len(cls) > 0 { // a clause written with a repeated literal (x x, x y x)
		k := r.Intn(len(cls))
		if r.Intn(2) == 0 { // prefer a unit clause
			for j, cl := range cls {
				if len(cl) == 1 {
					k = j
					break
				}
			}
		}
		if len(cls[k]) > 0 {
			c := append([]int{}, cls[k]...)
			c = append(c, c[r.Intn(len(c))])
			if r.Intn(2) == 0 {
				c = append(c, c[0])
			}
			cls[k] = c
		}
	}
	if r.Intn(12) == 0 { // the empty clause (a line "0"), once or twice: the only MUS is then one empty clause
		cls = append(cls, []int{})
		if r.Intn(3) == 0 {
			cls = append(cls, []int{})
		}
	}
	if r.Intn(6) == 0 && len(cls) > 0 { // repeated clause
		cls = append(cls, append([]int{}, cls[r.Intn(len(cls))]...))
	}
	r.Shuffle(len(cls), func(i, j int) { cls[i], cls[j] = cls[j], cls[i] })
	if len(cls) > 14 {
		cls = cls[:14]
	}
	c := &CnfCase{N: n, Clauses: cls}
	c.norm()
	return c
}

func genC07(r *rand.Rand, idx int, tier string) *CnfCase {
	c := genCnfForMus(r, tier)
	c.Method = []string{"mus", "deletion", "insertion", "maxsat"}[idx%4]
	return c
}

func runC07(e *emitter, idx int, c *CnfCase) {
	csx := L(I(c.N), IntLists(c.Clauses), I(methodCode(c.Method)))
	meta := Meta{Class: c.Method, Desc: c}
	e.begin(idx, csx, meta)
	errCode, nbc, unchanged := 0, 0, 1
	var result [][]int
	status, msg := guard(caseTimeout, func() {
		pb := c.problem()
		before := deepCopy(pb.Clauses)
		nbv, nbcl := pb.NbVars, pb.NbClauses
		var mus *explain.Problem
		var err error
		switch c.Method {
		case "mus":
			mus, err = pb.MUS()
		case "deletion":
			mus, err = pb.MUSDeletion()
		case "insertion":
			mus, err = pb.MUSInsertion()
		case "maxsat":
			mus, err = pb.MUSMaxSat()
		}
		if err != nil || mus == nil {
			errCode = 1
		} else {
			result = deepCopy(mus.Clauses)
			nbc = mus.NbClauses
		}
		if !sameClauses(before, pb.Clauses) || pb.NbVars != nbv || pb.NbClauses != nbcl {
			unchanged = 0
		}
	})
	meta.Msg = msg
	e.emit(csx, L(I(status), I(errCode), IntLists(result), I(nbc), I(unchanged)), meta)
	if status == 2 {
		e.out.Sync()
		panic("timeout: restart")
	}
}

// ---------------------------------------------------------------- C08

func solverTrace(n int, cls [][]int) [][]int {
	var cert [][]int
	func() {
		defer func() { recover() }()
		pb := solver.ParseSliceNb(deepCopy(cls), n)
		s := solver.New(pb)
		s.Certified = true
		s.CertChan = make(chan string)
		go func() {
			defer func() { recover(); close(s.CertChan) }()
			s.Solve()
		}()
		for line := range s.CertChan {
			if cl, ok := parseCertLine(line); ok {
				if cl == nil {
					cl = []int{}
				}
				cert = append(cert, cl)
			}
		}
	}()
	return cert
}

func genC08(r *rand.Rand, idx int, tier string) *CnfCase {
	nmax := 7
	if tier == "thorough" {
		nmax = 10
	}
	n := 2 + r.Intn(nmax-1)
	var cls [][]int
	under := false
	if r.Intn(3) == 0 {
		c := genCnfForMus(r, tier)
		cls, n = c.Clauses, c.N
	} else {
		m := int(float64(n)*(3.5+r.Float64()*2)) + 1
		if r.Intn(3) == 0 {
			under = true
			// under-constrained: satisfiable, so that a non-consequence exists and accepting one can be seen
			m = int(float64(n)*(0.8+r.Float64()*1.7)) + 1
		}
		for i := 0; i < m; i++ {
			cls = append(cls, genClause(r, n, 2, 3, 0.05, 0.03))
		}
	}
	c := &CnfCase{N: n, Clauses: cls, Entry: []string{"reader", "chan"}[r.Intn(2)]}
	var cert [][]int
	kind := r.Intn(6)
	if under && r.Intn(2) == 0 {
		kind = 0
	}
	switch kind {
	case 0: // random clause sequence
		for i := 1 + r.Intn(5); i > 0; i-- {
			cert = append(cert, genClause(r, n, 0, 3, 0.1, 0.1))
		}
	default:
		cert = solverTrace(n, cls)
		if len(cert) > 0 {
			k := r.Intn(len(cert))
			switch r.Intn(7) {
			case 0: // drop a literal
				if len(cert[k]) > 0 {
					j := r.Intn(len(cert[k]))
					cert[k] = append(append([]int{}, cert[k][:j]...), cert[k][j+1:]...)
				}
			case 1: // flip a literal
				if len(cert[k]) > 0 {
					j := r.Intn(len(cert[k]))
					cert[k] = append([]int{}, cert[k]...)
					cert[k][j] = -cert[k][j]
				}
			case 2: // remove a line
				cert = append(cert[:k:k], cert[k+1:]...)
			case 3: // permute lines
				r.Shuffle(len(cert), func(i, j int) { cert[i], cert[j] = cert[j], cert[i] })
			case 4: // a tautological line mentioning l, followed by a line from which l was dropped
				if len(cert[k]) >= 2 {
					j := r.Intn(len(cert[k]))
					l := cert[k][j]
					y := 1 + r.Intn(n)
					short := append(append([]int{}, cert[k][:j]...), cert[k][j+1:]...)
					taut := []int{l, y, -y}
					rest := append([][]int{taut, short}, cert[k+1:]...)
					cert = append(cert[:k:k], rest...)
				}
			}
		}
	}
	c.Cert = cert
	if r.Intn(3) == 0 || (under && r.Intn(2) == 0) {
		// mostly non-consequences (rejected), short
		for i := 1 + r.Intn(3); i > 0; i-- {
			c.Pre = append(c.Pre, genClause(r, n, 1, 2, 0.05, 0.05))
		}
	}
	c.norm()
	return c
}

func certText(cert [][]int) string {
	var b strings.Builder
	for _, cl := range cert {
		for _, l := range cl {
			fmt.Fprintf(&b, "%d ", l)
		}
		b.WriteString("0\n")
	}
	return b.String()
}

func runC08(e *emitter, idx int, c *CnfCase) {
	entry := 0
	if c.Entry == "chan" {
		entry = 1
	}
	csx := L(I(c.N), IntLists(c.Clauses), IntLists(c.Cert), I(entry))
	meta := Meta{Class: c.Entry, Desc: c}
	e.begin(idx, csx, meta)
	valid, errCode, restored, second := 0, 0, 1, 0
	status, msg := guard(caseTimeout, func() {
		pb := c.problem()
		before := deepCopy(pb.Clauses)
		nbcl := pb.NbClauses
		checkCert := func(cert [][]int) (bool, error) {
			if c.Entry == "chan" {
				ch := make(chan string)
				go func() {
					for _, cl := range cert {
						var b strings.Builder
						for _, l := range cl {
							fmt.Fprintf(&b, "%d ", l)
						}
						b.WriteString("0")
						ch <- b.String()
					}
					close(ch)
				}()
				v, err := pb.UnsatChan(ch)
				for range ch { // the checker may return early: let the producer finish
				}
				return v, err
			}
			return pb.Unsat(strings.NewReader(certText(cert)))
		}
		check := func() (bool, error) { return checkCert(c.Cert) }
		if len(c.Pre) > 0 {
			checkCert(c.Pre)
		}
		v, err := check()
		if err != nil {
			errCode = 1
		}
		if v {
			valid = 1
		}
		if !sameClauses(before, pb.Clauses) || pb.NbClauses != nbcl {
			restored = 0
		}
		v2, _ := check()
		if v2 {
			second = 1
		}
	})
	meta.Msg = msg
	e.emit(csx, L(I(status), I(valid), I(errCode), I(restored), I(second)), meta)
	if status == 2 {
		e.out.Sync()
		panic("timeout: restart")
	}
}

func runC08s(e *emitter, idx int, c *CnfCase) {
	csx := L(I(c.N), IntLists(c.Clauses))
	meta := Meta{Class: "subset", Desc: c}
	e.begin(idx, csx, meta)
	errCode := 0
	var result [][]int
	status, msg := guard(caseTimeout, func() {
		pb := c.problem()
		sub, err := pb.UnsatSubset()
		if err != nil || sub == nil {
			errCode = 1
			return
		}
		result = deepCopy(sub.Clauses)
	})
	meta.Msg = msg
	e.emit(csx, L(I(status), I(errCode), IntLists(result)), meta)
	if status == 2 {
		e.out.Sync()
		panic("timeout: restart")
	}
}

func randSign(r *rand.Rand, v int) int {
	if r.Intn(2) == 0 {
		return -v
	}
	return v
}
