package main

import (
	"fmt"
	"math/rand"
	"strings"

	"github.com/crillab/gophersat/solver"
)

// OptCase: a problem, a cost function and the entry point.
type OptCase struct {
	P        *Prob  `json:"p"`
	CostLits []int  `json:"costlits"`
	CostWs   []int  `json:"costws"` // ignored when NilWs
	NilWs    bool   `json:"nilws"`  // SetCostFunc(lits, nil): all weights are 1
	NoCost   bool   `json:"nocost"` // no cost function at all
	Entry    string `json:"entry"`  // optimal | minimize | optimal-chan
	CP       bool   `json:"cp"`
	// Decoy: another cost function is installed first (by SetCostFunc, or by the min: line of the OPB text) and then
	// replaced by the real one with SetCostFunc: the last call is the one that counts.
	Decoy     bool  `json:"decoy,omitempty"`
	DecoyLits []int `json:"decoylits,omitempty"`
	DecoyWs   []int `json:"decoyws,omitempty"`
}

func (c *OptCase) norm() {
	c.P.norm()
	if len(c.DecoyWs) > len(c.DecoyLits) {
		c.DecoyWs = c.DecoyWs[:len(c.DecoyLits)]
	}
	for len(c.DecoyWs) < len(c.DecoyLits) {
		c.DecoyWs = append(c.DecoyWs, 1)
	}
	if len(c.CostWs) > len(c.CostLits) {
		c.CostWs = c.CostWs[:len(c.CostLits)]
	}
	for len(c.CostWs) < len(c.CostLits) {
		c.CostWs = append(c.CostWs, 1)
	}
}

func (c *OptCase) costSx() Sx {
	var items []Sx
	if c.NoCost {
		return L()
	}
	for i, l := range c.CostLits {
		w := 1
		if !c.NilWs {
			w = c.CostWs[i]
		}
		items = append(items, L(I(w), I(l)))
	}
	return Sx{List: items}
}

func (c *OptCase) hasNegCost() bool {
	if c.NoCost || c.NilWs {
		return false
	}
	for _, w := range c.CostWs {
		if w < 0 {
			return true
		}
	}
	return false
}

// opbTerm renders one term of an OPB constraint.
func opbTerm(w, l int) string {
	name := fmt.Sprintf("x%d", l)
	if l < 0 {
		name = fmt.Sprintf("~x%d", -l)
	}
	return fmt.Sprintf("%+d %s", w, name)
}

// opbText renders the problem (gteq / eq constraints only) and the cost function as OPB.
func opbText(p *Prob, c *OptCase) string {
	var b strings.Builder
	fmt.Fprintf(&b, "* #variable= %d #constraint= %d\n", p.NbVars(), len(p.Cons))
	if c != nil && c.Decoy {
		b.WriteString("min:")
		for i, l := range c.DecoyLits {
			b.WriteString(" " + opbTerm(c.DecoyWs[i], l))
		}
		b.WriteString(" ;\n")
	} else if c != nil && !c.NoCost {
		b.WriteString("min:")
		for i, l := range c.CostLits {
			b.WriteString(" " + opbTerm(c.CostWs[i], l))
		}
		b.WriteString(" ;\n")
	}
	for _, con := range p.Cons {
		var terms []string
		for i, l := range con.Lits {
			terms = append(terms, opbTerm(con.Ws[i], l))
		}
		op := ">="
		if con.Kind == "eq" {
			op = "="
		}
		fmt.Fprintf(&b, "%s %s %d ;\n", strings.Join(terms, " "), op, con.K)
	}
	return b.String()
}

// toOPBCons rewrites every constraint as gteq / eq with explicit weights (the generator's own rewriting;
// the meaning given to the judge is that of the rewritten constraint, i.e. of the text).
func toOPBCons(cons []Con) []Con {
	res := make([]Con, 0, len(cons))
	ones := func(n, v int) []int {
		w := make([]int, n)
		for i := range w {
			w[i] = v
		}
		return w
	}
	for _, c := range cons {
		switch c.Kind {
		case "gteq", "eq":
			if c.Ws == nil {
				c.Ws = ones(len(c.Lits), 1)
			}
			res = append(res, c)
		case "clause", "alo1":
			res = append(res, Con{Kind: "gteq", Lits: c.Lits, Ws: ones(len(c.Lits), 1), K: 1})
		case "atleast", "card":
			res = append(res, Con{Kind: "gteq", Lits: c.Lits, Ws: ones(len(c.Lits), 1), K: c.K})
		case "atmost":
			res = append(res, Con{Kind: "gteq", Lits: c.Lits, Ws: ones(len(c.Lits), -1), K: -c.K})
		case "amo1":
			res = append(res, Con{Kind: "gteq", Lits: c.Lits, Ws: ones(len(c.Lits), -1), K: -1})
		case "ex1":
			res = append(res, Con{Kind: "eq", Lits: c.Lits, Ws: ones(len(c.Lits), 1), K: 1})
		case "lteq":
			ws := make([]int, len(c.Ws))
			for i, w := range c.Ws {
				ws[i] = -w
			}
			res = append(res, Con{Kind: "gteq", Lits: c.Lits, Ws: ws, K: -c.K})
		}
	}
	return res
}

func genCost(r *rand.Rand, n int, c *OptCase, allowNeg bool) {
	k := r.Intn(min(n, 6) + 1)
	c.CostLits = distinctLits(r, n, k)
	c.CostWs = make([]int, len(c.CostLits))
	for i := range c.CostWs {
		c.CostWs[i] = r.Intn(7) // 0..6, zeros and repeats on purpose
		if allowNeg && r.Intn(3) == 0 {
			c.CostWs[i] = -1 - r.Intn(4)
		}
	}
}

// genC03 is the generator shared with C14opt, C18, C19, C20 and the C16 mix: those runners render or install the cost
// function themselves, once, so the "replaced cost function" route stays with C03 (genC03Decoy).
func genC03(r *rand.Rand, idx int, tier string) *OptCase {
	c := genC03Decoy(r, idx, tier)
	if c.Decoy {
		c.Decoy, c.DecoyLits, c.DecoyWs = false, nil, nil
		if c.P.Front == "opb" {
			c.NilWs = false
		}
	}
	return c
}

func genC03Decoy(r *rand.Rand, idx int, tier string) *OptCase {
	nmax := 9
	if tier == "thorough" {
		nmax = 13
	}
	fams := []string{"cnf", "card", "pb", "pb", "cnf3", "longclauses", "unitrich", "cover"}
	fam := fams[r.Intn(len(fams))]
	n := 2 + r.Intn(nmax-1)
	if fam == "cnf3" {
		n = 3 + r.Intn(nmax-2)
	}
	if fam == "cover" {
		return genCover(r, 3+r.Intn(nmax-2))
	}
	p := genProblem(r, fam, n)
	if p.Front == "dimacs" || p.Front == "slicenb" {
		p.Front, p.N = "slice", 0
	}
	c := &OptCase{P: p, Entry: []string{"optimal", "minimize", "optimal-chan"}[r.Intn(3)]}
	nv := p.NbVars()
	switch {
	case nv == 0 || r.Intn(12) == 0:
		c.NoCost = true
	default:
		genCost(r, nv, c, false)
		if r.Intn(5) == 0 {
			c.NilWs = true
		}
	}
	if !c.NoCost && len(c.CostLits) > 0 && r.Intn(3) == 0 {
		// some cost literals are decided by unit constraints (forced false or true at top level), with a large coefficient
		for k := 1 + r.Intn(2); k > 0; k-- {
			i := r.Intn(len(c.CostLits))
			l := c.CostLits[i]
			if r.Intn(3) != 0 {
				l = -l
			}
			p.Cons = append(p.Cons, Con{Kind: "clause", Lits: []int{l}})
			if !c.NilWs && r.Intn(2) == 0 {
				c.CostWs[i] = 5 + r.Intn(20)
			}
		}
		if r.Intn(2) == 0 { // units first
			last := p.Cons[len(p.Cons)-1]
			copy(p.Cons[1:], p.Cons[:len(p.Cons)-1])
			p.Cons[0] = last
		}
	}
	if !c.NoCost && r.Intn(12) == 0 {
		addDecoy(r, nv, c)
	}
	// OPB text route (with min: line), sometimes with negative cost coefficients
	if (fam == "pb" || fam == "card") && r.Intn(3) == 0 {
		p.Front = "opb"
		p.Cons = toOPBCons(p.Cons)
		p.Class += "-opb"
		if !c.Decoy {
			c.NilWs = false
		}
		if !c.NoCost && !c.Decoy && r.Intn(4) == 0 {
			genCost(r, max(1, p.MaxVarAll()), c, true)
		}
		p.Text = "" // rendered in run (needs the cost function)
	}
	return c
}

// addDecoy: a first cost function, over other literals and weights, that the real one replaces.
func addDecoy(r *rand.Rand, n int, c *OptCase) {
	c.Decoy = true
	k := 1 + r.Intn(min(n, 5))
	c.DecoyLits = distinctLits(r, n, k)
	c.DecoyWs = make([]int, k)
	for i := range c.DecoyWs {
		c.DecoyWs[i] = 1 + r.Intn(9)
	}
}

// genCover: weighted covering problems: clauses of 2..3 positive literals (each must be covered), sometimes an at-most
// constraint, a cost over every variable with weights in 2..5 (no weight 1: consecutive optima differ by less than the
// smallest weight) or 1..4.  Many models, many distinct costs, and the first model found is rarely the best.
func genCover(r *rand.Rand, n int) *OptCase {
	var cons []Con
	m := n + r.Intn(n+1)
	for i := 0; i < m; i++ {
		k := 2 + r.Intn(2)
		lits := distinctLits(r, n, min(n, k))
		for j := range lits {
			if lits[j] < 0 && r.Intn(8) != 0 {
				lits[j] = -lits[j]
			}
		}
		cons = append(cons, Con{Kind: "clause", Lits: lits})
	}
	if r.Intn(3) == 0 {
		k := min(n, 3+r.Intn(3))
		cons = append(cons, Con{Kind: "atmost", Lits: distinctLits(r, n, k), K: 1 + r.Intn(k-1)})
	}
	p := &Prob{Front: "slice", Cons: cons, Class: "cover"}
	if len(cons) > m || r.Intn(3) == 0 {
		p.Front = "pb"
	}
	c := &OptCase{P: p, Entry: []string{"optimal", "minimize", "minimize", "optimal-chan"}[r.Intn(4)]}
	nv := p.NbVars()
	lo := 2
	if r.Intn(3) == 0 {
		lo = 1
	}
	for v := 1; v <= nv; v++ {
		if r.Intn(6) == 0 {
			continue
		}
		c.CostLits = append(c.CostLits, v)
		c.CostWs = append(c.CostWs, lo+r.Intn(4))
	}
	if len(c.CostLits) == 0 {
		c.CostLits, c.CostWs = []int{1}, []int{2}
	}
	if r.Intn(10) == 0 {
		addDecoy(r, nv, c)
	}
	return c
}

// MaxVarAll counts every mentioned variable (the OPB reader does, even with coefficient 0).
func (p *Prob) MaxVarAll() int {
	m := 0
	for _, c := range p.Cons {
		for _, l := range c.Lits {
			if l < 0 {
				l = -l
			}
			if l > m {
				m = l
			}
		}
	}
	return m
}

func runC03(e *emitter, idx int, c *OptCase) {
	p := c.P
	n := p.NbVars()
	if p.Front == "opb" {
		n = p.MaxVarAll()
		for _, l := range c.CostLits {
			if !c.NoCost && abs(l) > n {
				n = abs(l)
			}
		}
		if c.Decoy {
			for _, l := range c.DecoyLits {
				if abs(l) > n {
					n = abs(l)
				}
			}
		}
		p.Text = opbText(p, c)
	}
	psx := p.Sx()
	psx.List[0] = I(n)
	csx := L(psx, c.costSx())
	meta := Meta{Class: p.Class + "/" + p.Front + "/" + c.Entry, Desc: c, Extra: map[string]interface{}{"negcost": c.hasNegCost(), "cp": c.CP, "nonclausal": p.nonClausal()}}
	e.begin(idx, csx, meta)
	verdict, weight := 0, 0
	var model []bool
	status, msg := guard(caseTimeout, func() {
		pb, err := p.Build()
		if err != nil {
			panic(fmt.Sprintf("parse error: %v", err))
		}
		if p.Front != "opb" && c.Decoy {
			dl := make([]solver.Lit, len(c.DecoyLits))
			for i, l := range c.DecoyLits {
				dl[i] = solver.IntToLit(int32(l))
			}
			pb.SetCostFunc(dl, cp(c.DecoyWs))
		}
		if (p.Front != "opb" || c.Decoy) && !c.NoCost {
			lits := make([]solver.Lit, len(c.CostLits))
			for i, l := range c.CostLits {
				lits[i] = solver.IntToLit(int32(l))
			}
			if c.NilWs {
				pb.SetCostFunc(lits, nil)
			} else {
				pb.SetCostFunc(lits, cp(c.CostWs))
			}
		}
		s := solver.New(pb)
		s.CuttingPlanes = c.CP
		switch c.Entry {
		case "minimize":
			cost := s.Minimize()
			unsat := cost == -1
			if unsat && c.hasNegCost() { // -1 can also be a genuine cost: Model() panics exactly when no model was found
				func() {
					defer func() {
						if recover() != nil {
							unsat = true
						}
					}()
					unsat = false
					model = s.Model()
				}()
			}
			if unsat {
				verdict, weight = 2, -1
			} else {
				verdict, weight = 1, cost
				model = s.Model()
			}
		default:
			var res solver.Result
			if c.Entry == "optimal-chan" {
				ch := make(chan solver.Result, 1)
				done := make(chan solver.Result)
				var pan interface{}
				go func() {
					defer func() {
						if e := recover(); e != nil {
							pan = panicInfo(e)
							done <- solver.Result{}
						}
					}()
					done <- s.Optimal(ch, nil)
				}()
				go func() {
					for range ch {
					}
				}()
				res = <-done
				if pan != nil {
					panic(pan)
				}
			} else {
				res = s.Optimal(nil, nil)
			}
			verdict = verdictCode(res.Status)
			weight = res.Weight
			if res.Status == solver.Unsat {
				weight = -1
			}
			model = res.Model
		}
	})
	meta.Msg = msg
	e.emit(csx, L(I(status), I(verdict), I(weight), Bools(model)), meta)
	if status == 2 {
		e.out.Sync()
		panic("timeout: restart")
	}
}

func abs(x int) int {
	if x < 0 {
		return -x
	}
	return x
}
