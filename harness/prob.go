package main

import (
	"fmt"
	"math/rand"
	"strings"

	"github.com/crillab/gophersat/solver"
)

// Con is one constraint as the caller writes it: the constructor used and its
// arguments.  UCs gives its meaning (sum rel rhs), which is what the Coq judge
// evaluates; Build* calls the real constructor.
type Con struct {
	Kind string `json:"kind"` // clause atleast atmost gteq lteq eq amo1 alo1 ex1 card
	Lits []int  `json:"lits"`
	Ws   []int  `json:"ws,omitempty"` // gteq / lteq / eq only (nil: all 1, gteq only); fixed up by norm()
	K    int    `json:"k"`
}

// norm repairs a descriptor after shrinking (weights follow literals).
func (c *Con) norm() {
	if c.Ws != nil && len(c.Ws) != len(c.Lits) {
		if len(c.Ws) > len(c.Lits) {
			c.Ws = c.Ws[:len(c.Lits)]
		} else {
			for len(c.Ws) < len(c.Lits) {
				c.Ws = append(c.Ws, 1)
			}
		}
	}
	if c.Ws == nil && (c.Kind == "lteq" || c.Kind == "eq") {
		c.Ws = make([]int, len(c.Lits))
		for i := range c.Ws {
			c.Ws[i] = 1
		}
	}
}

const (
	relGe = 0
	relLe = 1
	relEq = 2
)

func ucSx(rel, rhs int, lits, ws []int) Sx {
	items := []Sx{I(rel), I(rhs)}
	for i, l := range lits {
		w := 1
		if ws != nil {
			w = ws[i]
		}
		if w == 0 {
			continue // see MaxVar
		}
		items = append(items, L(I(w), I(l)))
	}
	return Sx{List: items}
}

// UC returns the user-level meaning of the constraint.
func (c Con) UC() Sx {
	switch c.Kind {
	case "clause", "alo1":
		return ucSx(relGe, 1, c.Lits, nil)
	case "atleast", "card":
		return ucSx(relGe, c.K, c.Lits, nil)
	case "atmost":
		return ucSx(relLe, c.K, c.Lits, nil)
	case "amo1":
		return ucSx(relLe, 1, c.Lits, nil)
	case "ex1":
		return ucSx(relEq, 1, c.Lits, nil)
	case "gteq":
		return ucSx(relGe, c.K, c.Lits, c.Ws)
	case "lteq":
		return ucSx(relLe, c.K, c.Lits, c.Ws)
	case "eq":
		return ucSx(relEq, c.K, c.Lits, c.Ws)
	}
	panic("unknown kind " + c.Kind)
}

func cp(xs []int) []int {
	if xs == nil {
		return nil
	}
	r := make([]int, len(xs))
	copy(r, xs)
	return r
}

// PB returns the constraint through the public PB constructors (fresh slices: they take ownership).
func (c Con) PB() []solver.PBConstr {
	switch c.Kind {
	case "clause", "alo1":
		return []solver.PBConstr{solver.PropClause(cp(c.Lits)...)}
	case "atleast", "card":
		return []solver.PBConstr{solver.AtLeast(cp(c.Lits), c.K)}
	case "atmost":
		return []solver.PBConstr{solver.AtMost(cp(c.Lits), c.K)}
	case "amo1":
		return []solver.PBConstr{solver.AtMost(cp(c.Lits), 1)}
	case "ex1":
		return []solver.PBConstr{solver.AtLeast(cp(c.Lits), 1), solver.AtMost(cp(c.Lits), 1)}
	case "gteq":
		return []solver.PBConstr{solver.GtEq(cp(c.Lits), cp(c.Ws), c.K)}
	case "lteq":
		return []solver.PBConstr{solver.LtEq(cp(c.Lits), cp(c.Ws), c.K)}
	case "eq":
		return solver.Eq(cp(c.Lits), cp(c.Ws), c.K)
	}
	panic("unknown kind " + c.Kind)
}

// Card returns the constraint through the cardinality constructors.
func (c Con) Card() []solver.CardConstr {
	switch c.Kind {
	case "clause", "alo1":
		return []solver.CardConstr{solver.AtLeast1(cp(c.Lits)...)}
	case "atleast", "card":
		return []solver.CardConstr{{Lits: cp(c.Lits), AtLeast: c.K}}
	case "amo1":
		return []solver.CardConstr{solver.AtMost1(cp(c.Lits)...)}
	case "ex1":
		return solver.Exactly1(cp(c.Lits)...)
	case "atmost":
		neg := make([]int, len(c.Lits))
		for i, l := range c.Lits {
			neg[i] = -l
		}
		return []solver.CardConstr{{Lits: neg, AtLeast: len(neg) - c.K}}
	}
	panic("kind not available for cardinality front end: " + c.Kind)
}

// Prob is a generated problem with the front end it goes through.
type Prob struct {
	Front string `json:"front"` // slice slicenb dimacs card pb opb
	N     int    `json:"n"`     // declared number of variables (slicenb, dimacs); otherwise 0
	Cons  []Con  `json:"cons"`
	Text  string `json:"text,omitempty"` // dimacs / opb text when Front is textual
	Class string `json:"class"`
	CP    bool   `json:"cp,omitempty"` // C05: count / enumerate with the cutting-planes strategy on
}

func (p *Prob) norm() {
	for i := range p.Cons {
		p.Cons[i].norm()
	}
}

func (p *Prob) MaxVar() int {
	m := 0
	for _, c := range p.Cons {
		for i, l := range c.Lits {
			if c.Ws != nil && i < len(c.Ws) && c.Ws[i] == 0 {
				// a term with coefficient 0 does not mention its variable (the constructors drop it)
				continue
			}
			if l < 0 {
				l = -l
			}
			if l > m {
				m = l
			}
		}
	}
	return m
}

// cardDegree is the degree the cardinality front end sees for the constraint.
func (c Con) cardDegree() int {
	switch c.Kind {
	case "clause", "alo1", "ex1":
		return 1
	case "atleast", "card":
		return c.K
	case "amo1":
		return len(c.Lits) - 1
	case "atmost":
		return len(c.Lits) - c.K
	}
	return 1
}

// NbVars is the number of variables a caller expects the solver to report.
// The cardinality front end has no declaration of variables and skips
// constraints that are trivially true before looking at their literals: there
// the variables are those of the constraints that are not trivially true.
func (p *Prob) NbVars() int {
	if p.Front == "card" {
		m := 0
		for _, c := range p.Cons {
			if c.cardDegree() <= 0 {
				continue
			}
			for _, l := range c.Lits {
				if l < 0 {
					l = -l
				}
				if l > m {
					m = l
				}
			}
		}
		return m
	}
	m := p.MaxVar()
	if p.N > m {
		return p.N
	}
	return m
}

func (p *Prob) Sx() Sx {
	cs := make([]Sx, 0, len(p.Cons))
	for _, c := range p.Cons {
		if p.Front == "card" && c.cardDegree() <= 0 {
			continue // trivially true, and its variables are not counted (see NbVars)
		}
		cs = append(cs, c.UC())
	}
	return L(I(p.NbVars()), Sx{List: cs})
}

func (p *Prob) Clauses() [][]int {
	res := make([][]int, len(p.Cons))
	for i, c := range p.Cons {
		res[i] = cp(c.Lits)
		if res[i] == nil {
			res[i] = []int{}
		}
	}
	return res
}

func dimacsText(n int, clauses [][]int) string {
	var b strings.Builder
	fmt.Fprintf(&b, "p cnf %d %d\n", n, len(clauses))
	for _, c := range clauses {
		for _, l := range c {
			fmt.Fprintf(&b, "%d ", l)
		}
		b.WriteString("0\n")
	}
	return b.String()
}

// Build parses the problem with the real front end.
func (p *Prob) Build() (*solver.Problem, error) {
	switch p.Front {
	case "slice":
		return solver.ParseSlice(p.Clauses()), nil
	case "slicenb":
		return solver.ParseSliceNb(p.Clauses(), p.N), nil
	case "dimacs":
		text := p.Text
		if text == "" {
			text = dimacsText(p.NbVars(), p.Clauses())
		}
		return solver.ParseCNF(strings.NewReader(text))
	case "card":
		var cs []solver.CardConstr
		for _, c := range p.Cons {
			cs = append(cs, c.Card()...)
		}
		return solver.ParseCardConstrs(cs), nil
	case "pb":
		var cs []solver.PBConstr
		for _, c := range p.Cons {
			cs = append(cs, c.PB()...)
		}
		return solver.ParsePBConstrs(cs), nil
	case "opb":
		return solver.ParseOPB(strings.NewReader(p.Text))
	}
	panic("unknown front " + p.Front)
}

// ---------------------------------------------------------------- generators

func randLit(r *rand.Rand, n int) int {
	v := r.Intn(n) + 1
	if r.Intn(2) == 0 {
		return -v
	}
	return v
}

// distinctLits returns k literals over distinct variables among 1..n.
func distinctLits(r *rand.Rand, n, k int) []int {
	if k > n {
		k = n
	}
	perm := r.Perm(n)
	lits := make([]int, k)
	for i := 0; i < k; i++ {
		lits[i] = perm[i] + 1
		if r.Intn(2) == 0 {
			lits[i] = -lits[i]
		}
	}
	return lits
}

// genClause: length in [kmin,kmax]; with probability dup a literal is repeated, with probability taut a complementary pair is inserted.
func genClause(r *rand.Rand, n, kmin, kmax int, dup, taut float64) []int {
	k := kmin
	if kmax > kmin {
		k += r.Intn(kmax - kmin + 1)
	}
	var c []int
	if r.Float64() < dup || r.Float64() < taut {
		c = make([]int, k)
		for i := range c {
			c[i] = randLit(r, n)
		}
		if k >= 2 && r.Float64() < taut {
			c[r.Intn(k)] = -c[0]
			if c[0] == -c[0] {
				panic("zero literal")
			}
		}
		if k >= 2 && r.Float64() < dup {
			i := 1 + r.Intn(k-1)
			c[i] = c[0]
		}
	} else {
		c = distinctLits(r, n, k)
	}
	return c
}

func genCNF(r *rand.Rand, n, m, kmin, kmax int, dup, taut float64) []Con {
	cons := make([]Con, m)
	for i := range cons {
		cons[i] = Con{Kind: "clause", Lits: genClause(r, n, kmin, kmax, dup, taut)}
	}
	return cons
}

// genCardCon returns a random cardinality-style constraint over distinct variables.
func genCardCon(r *rand.Rand, n int, forCardFront bool) Con {
	k := 1 + r.Intn(min(n, 5))
	lits := distinctLits(r, n, k)
	switch r.Intn(8) {
	case 0:
		return Con{Kind: "clause", Lits: lits}
	case 1:
		return Con{Kind: "amo1", Lits: lits}
	case 2:
		return Con{Kind: "ex1", Lits: lits}
	case 3: // degree anywhere from <=0 to > len
		return Con{Kind: "atleast", Lits: lits, K: r.Intn(len(lits)+3) - 1}
	case 4:
		return Con{Kind: "atmost", Lits: lits, K: r.Intn(len(lits)+2) - 1}
	case 5: // unit-forcing: degree = len
		return Con{Kind: "atleast", Lits: lits, K: len(lits)}
	case 6: // the AMO watcher shape: degree = len-1
		return Con{Kind: "atleast", Lits: lits, K: max(1, len(lits)-1)}
	default:
		return Con{Kind: "atleast", Lits: lits, K: 1 + r.Intn(len(lits))}
	}
}

// genPBCon returns a random linear constraint, coefficients in [-W,W] (zero included), any rhs.
func genPBCon(r *rand.Rand, n, W int) Con {
	k := 1 + r.Intn(min(n, 6))
	lits := distinctLits(r, n, k)
	ws := make([]int, len(lits))
	sumAbs := 0
	sumPos, sumNeg := 0, 0
	for i := range ws {
		ws[i] = r.Intn(2*W+1) - W
		if r.Intn(4) != 0 && ws[i] == 0 {
			ws[i] = 1 + r.Intn(W)
		}
		if ws[i] > 0 {
			sumPos += ws[i]
			sumAbs += ws[i]
		} else {
			sumNeg += ws[i]
			sumAbs -= ws[i]
		}
	}
	kinds := []string{"gteq", "gteq", "lteq", "eq"}
	kind := kinds[r.Intn(len(kinds))]
	// rhs from below the minimum to above the maximum of the sum
	rhs := sumNeg - 1 + r.Intn(sumPos-sumNeg+3)
	if kind == "eq" && r.Intn(2) == 0 {
		// pick a reachable value: evaluate on a random assignment
		rhs = 0
		for i := range ws {
			if r.Intn(2) == 0 {
				rhs += ws[i]
			}
		}
	}
	return Con{Kind: kind, Lits: lits, Ws: ws, K: rhs}
}

func min(a, b int) int {
	if a < b {
		return a
	}
	return b
}
func max(a, b int) int {
	if a > b {
		return a
	}
	return b
}

// genProblem draws a problem of the given family.
func genProblem(r *rand.Rand, family string, n int) *Prob {
	switch family {
	case "cnf":
		m := 1 + r.Intn(4*n+2)
		kmax := max(2, min(n, 3+r.Intn(3)))
		p := &Prob{Front: "slice", Cons: genCNF(r, n, m, 1+r.Intn(2), kmax, 0.1, 0.05), Class: "cnf"}
		switch r.Intn(4) {
		case 0:
			p.Front = "slicenb"
			p.N = p.MaxVar() + r.Intn(3)
		case 1:
			p.Front = "dimacs"
			p.N = p.MaxVar() + r.Intn(3)
		}
		return p
	case "cnf3": // 3-SAT near the threshold
		m := int(float64(n)*(3.6+r.Float64()*1.4)) + 1
		return &Prob{Front: "slice", Cons: genCNF(r, n, m, 3, 3, 0, 0), Class: "cnf3"}
	case "longclauses": // few long clauses: models need several decisions
		m := 1 + r.Intn(3)
		k := min(n, 3+r.Intn(3))
		return &Prob{Front: "slice", Cons: genCNF(r, n, m, k, k, 0, 0), Class: "longclauses"}
	case "unitrich": // many unit clauses: decided at parse time
		m := 1 + r.Intn(3*n+1)
		return &Prob{Front: "slice", Cons: genCNF(r, n, m, 1, 3, 0.05, 0.05), Class: "unitrich"}
	case "card":
		m := 1 + r.Intn(n+3)
		cons := make([]Con, m)
		for i := range cons {
			cons[i] = genCardCon(r, n, true)
		}
		p := &Prob{Front: "card", Cons: cons, Class: "card"}
		if r.Intn(2) == 0 {
			p.Front = "pb"
		}
		return p
	case "pb":
		m := 1 + r.Intn(n+3)
		W := []int{1, 2, 4, 9}[r.Intn(4)]
		cons := make([]Con, m)
		for i := range cons {
			switch r.Intn(5) {
			case 0:
				cons[i] = genCardCon(r, n, false)
			default:
				cons[i] = genPBCon(r, n, W)
			}
		}
		return &Prob{Front: "pb", Cons: cons, Class: "pb"}
	}
	panic("unknown family " + family)
}
