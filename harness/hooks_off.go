//go:build !verif

package main

import "github.com/crillab/gophersat/solver"

const hooksOn = false

func setNbMax(s *solver.Solver, n int)  {}
func stateOK(s *solver.Solver) string   { return "" }
func learned(s *solver.Solver) []string { return nil }
