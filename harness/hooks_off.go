//go:build !verif

package main

import "github.com/crillab/gophersat/solver"

const hooksOn = false

func setNbMax(s *solver.Solver, n int)   {}
func setRestart(s *solver.Solver, k int) {}
func stateOK(s *solver.Solver) string    { return "" }
func learned(s *solver.Solver) []string  { return nil }

func traceOn(s *solver.Solver, max, every int, quiet, withConstrs bool) {}
func traceSnaps(s *solver.Solver) []Snap                                { return nil }

func pbSetOp(op int, w1 []int, c1 int, w2 []int, c2 int, model, trail []int, a, b int) (int, int) {
	panic("hooks off: VerifPBSetOp is not available")
}

func explainUnsat(clauses [][]int, nb int, units []int, tagged []bool) bool {
	panic("hooks off: explain.VerifUnsat is not available")
}
