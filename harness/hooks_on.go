//go:build verif

package main

import "github.com/crillab/gophersat/solver"

const hooksOn = true

func setNbMax(s *solver.Solver, n int)  { s.VerifSetNbMax(n) }
func stateOK(s *solver.Solver) string   { return s.VerifStateOK() }
func learned(s *solver.Solver) []string { return s.VerifLearned() }
