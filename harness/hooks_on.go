//go:build verif

package main

import (
	"github.com/crillab/gophersat/explain"
	"github.com/crillab/gophersat/solver"
)

const hooksOn = true

func setNbMax(s *solver.Solver, n int)   { s.VerifSetNbMax(n) }
func setRestart(s *solver.Solver, k int) { s.VerifRestartEvery(k) }
func stateOK(s *solver.Solver) string    { return s.VerifStateOK() }
func learned(s *solver.Solver) []string  { return s.VerifLearned() }

func traceOn(s *solver.Solver, max, every int, quiet, withConstrs bool) {
	s.VerifTraceOn(max, every, quiet, withConstrs)
}

func traceSnaps(s *solver.Solver) []Snap {
	vs := s.VerifSnaps()
	res := make([]Snap, len(vs))
	for i, v := range vs {
		res[i] = Snap{Kind: v.Kind, Lvl: v.Lvl, Trail: v.Trail, Model: v.Model, Reasons: v.Reasons, Assumptions: v.Assumptions,
			Conflict: v.Conflict, Constrs: v.Constrs, Done: v.Done, ResKind: v.ResKind, Learnt: v.Learnt, Unit: v.Unit,
			Props: v.Props, NewLvl: v.NewLvl, NbOrig: v.NbOrig, CP: v.CP, Restarts: v.Restarts, HeapContent: v.HeapContent, HeapIndices: v.HeapIndices, Watched: v.Watched, PBFlags: v.PBFlags}
	}
	return res
}

func pbSetOp(op int, w1 []int, c1 int, w2 []int, c2 int, model, trail []int, a, b int) (int, int) {
	return solver.VerifPBSetOp(op, w1, c1, w2, c2, model, trail, a, b)
}

func explainUnsat(clauses [][]int, nb int, units []int, tagged []bool) bool {
	return explain.VerifUnsat(clauses, nb, units, tagged)
}
