package main

import (
	"fmt"
	"math/rand"
	"strings"

	"github.com/crillab/gophersat/explain"
	"github.com/crillab/gophersat/maxsat"
	"github.com/crillab/gophersat/solver"
)

// FmtCase: an abstract object of one of the four text formats, a layout stream and (after the
// pre-render step done by the extracted Coq renderer) the text.
type FmtCase struct {
	Fmt     string  `json:"fmt"` // dimacs opb wcnf explain
	N       int     `json:"n"`
	Clauses [][]int `json:"clauses,omitempty"` // dimacs, explain
	Cons    []Con   `json:"cons,omitempty"`    // opb: kinds gteq / eq
	CostL   []int   `json:"costl,omitempty"`
	CostW   []int   `json:"costw,omitempty"`
	HasCost bool    `json:"hascost,omitempty"`
	Top     int     `json:"top,omitempty"`   // wcnf (0 = absent)
	Items   [][]int `json:"items,omitempty"` // wcnf: weight followed by the literals
	Lay     []int   `json:"lay"`
	Text    []int   `json:"text,omitempty"`
	Pin     string  `json:"pin,omitempty"` // name of a pinned finding (corpus only)
}

func fmtCode(f string) int { return map[string]int{"dimacs": 0, "opb": 1, "wcnf": 2, "explain": 3}[f] }

func (c *FmtCase) objSx() Sx {
	switch c.Fmt {
	case "dimacs", "explain":
		return L(I(c.N), IntLists(c.Clauses))
	case "opb":
		var cost []Sx
		for i, l := range c.CostL {
			cost = append(cost, L(I(c.CostW[i]), I(l)))
		}
		cons := make([]Sx, len(c.Cons))
		for i, k := range c.Cons {
			rel := relGe
			if k.Kind == "eq" {
				rel = relEq
			}
			fields := []Sx{I(rel), I(k.K)}
			for j, l := range k.Lits {
				fields = append(fields, L(I(k.Ws[j]), I(l))) // zero coefficients are written in the text: kept
			}
			cons[i] = Sx{List: fields}
		}
		return L(L(I(c.N), Sx{List: cons}), Sx{List: cost}, B(c.HasCost))
	}
	return L(I(c.N), I(c.Top), IntLists(c.Items))
}

func genC13(r *rand.Rand, idx int, tier string) *FmtCase {
	c := &FmtCase{Fmt: []string{"dimacs", "dimacs", "opb", "opb", "wcnf", "explain"}[r.Intn(6)]}
	nmax := 8
	if tier == "thorough" {
		nmax = 11
	}
	n := 1 + r.Intn(nmax)
	switch c.Fmt {
	case "dimacs", "explain":
		m := r.Intn(3*n + 3)
		for i := 0; i < m; i++ {
			kmin := 0
			if c.Fmt == "explain" || r.Intn(8) != 0 {
				kmin = 1
			}
			cl := genClause(r, n, kmin, 4, 0.1, 0.05)
			if cl == nil {
				cl = []int{}
			}
			c.Clauses = append(c.Clauses, cl)
		}
		if c.Clauses == nil {
			c.Clauses = [][]int{}
		}
		c.N = n + []int{0, 0, 1, 3}[r.Intn(4)]
	case "opb":
		m := 1 + r.Intn(n+3)
		var cons []Con
		for i := 0; i < m; i++ {
			if r.Intn(4) == 0 {
				cons = append(cons, genCardCon(r, n, false))
			} else {
				cons = append(cons, genPBCon(r, n, []int{1, 2, 4, 9}[r.Intn(4)]))
			}
		}
		c.Cons = toOPBCons(cons)
		mv := 0
		for _, k := range c.Cons {
			for _, l := range k.Lits {
				if abs(l) > mv {
					mv = abs(l)
				}
			}
		}
		if r.Intn(3) != 0 {
			c.HasCost = true
			k := r.Intn(min(n, 5) + 1)
			c.CostL = distinctLits(r, n, k)
			c.CostW = make([]int, len(c.CostL))
			for i := range c.CostW {
				c.CostW[i] = r.Intn(7)
				if r.Intn(5) == 0 {
					c.CostW[i] = -1 - r.Intn(5)
				}
			}
			for _, l := range c.CostL {
				if abs(l) > mv {
					mv = abs(l)
				}
			}
		}
		c.N = mv
	default:
		m := 1 + r.Intn(n+4)
		sum := 0
		for i := 0; i < m; i++ {
			w := 1 + r.Intn(5)
			sum += w
			kmin := 1
			if r.Intn(15) == 0 {
				kmin = 0
			}
			item := append([]int{w}, genClause(r, n, kmin, 4, 0.05, 0.03)...)
			c.Items = append(c.Items, item)
		}
		c.N = n + []int{0, 0, 1, 3}[r.Intn(4)]
		switch r.Intn(4) {
		case 0:
			c.Top = 0
		case 1:
			c.Top = sum + 1
		default:
			c.Top = 2 + r.Intn(5)
		}
	}
	for i := 5 + r.Intn(80); i > 0; i-- {
		if r.Intn(3) == 0 {
			c.Lay = append(c.Lay, 0)
		} else {
			c.Lay = append(c.Lay, r.Intn(9))
		}
	}
	return c
}

func runC13gen(e *emitter, idx int, c *FmtCase) {
	csx := L(I(fmtCode(c.Fmt)), Ints(c.Lay), c.objSx())
	meta := Meta{Class: "gen/" + c.Fmt, Desc: c}
	e.begin(idx, csx, meta)
	e.emit(csx, L(), meta)
}

func runC13(e *emitter, idx int, c *FmtCase) {
	b := make([]byte, len(c.Text))
	for i, v := range c.Text {
		b[i] = byte(v)
	}
	text := string(b)
	csx := L(I(fmtCode(c.Fmt)), c.objSx(), Bytes(text))
	meta := Meta{Class: c.Fmt, Desc: c, Extra: map[string]interface{}{"pin": c.Pin}}
	e.begin(idx, csx, meta)
	errCode := 0
	var rest []Sx
	status, msg := guard(caseTimeout, func() {
		switch c.Fmt {
		case "dimacs":
			pb, err := solver.ParseCNF(strings.NewReader(text))
			if err != nil {
				errCode = 1
				meta.Msg = err.Error()
				rest = []Sx{I(0), I(-1)}
				return
			}
			cnt := -1
			if pb.NbVars <= 12 {
				cnt = solver.New(pb).CountModels()
			}
			rest = []Sx{I(pb.NbVars), I(cnt)}
		case "opb":
			pb, err := solver.ParseOPB(strings.NewReader(text))
			if err != nil {
				errCode = 1
				meta.Msg = err.Error()
				rest = []Sx{I(0), I(-1), I(0), I(0)}
				return
			}
			nb := pb.NbVars
			cnt := -1
			if nb <= 12 {
				cnt = solver.New(pb).CountModels()
			}
			pb2, _ := solver.ParseOPB(strings.NewReader(text))
			res := solver.New(pb2).Optimal(nil, nil)
			w := res.Weight
			if res.Status == solver.Unsat {
				w = -1
			}
			rest = []Sx{I(nb), I(cnt), I(verdictCode(res.Status)), I(w)}
		case "wcnf":
			s, err := maxsat.ParseWCNF(strings.NewReader(text))
			if err != nil {
				errCode = 1
				meta.Msg = err.Error()
				rest = []Sx{I(0), I(-1), L()}
				return
			}
			ch := make(chan solver.Result)
			go func() {
				for range ch {
				}
			}()
			res := s.Optimal(ch, nil)
			cost := res.Weight
			if res.Status != solver.Sat {
				cost = -1
			}
			rest = []Sx{I(verdictCode(res.Status)), I(cost), Bools(res.Model)}
		default:
			pb, err := explain.ParseCNF(strings.NewReader(text))
			if err != nil {
				errCode = 1
				meta.Msg = err.Error()
				rest = []Sx{I(0), I(0), L()}
				return
			}
			cls := deepCopy(pb.Clauses)
			rest = []Sx{I(pb.NbVars), I(pb.NbClauses), IntLists(cls)}
		}
	})
	if msg != "" {
		meta.Msg = msg
	}
	if rest == nil {
		rest = []Sx{}
	}
	e.emit(csx, Sx{List: append([]Sx{I(status), I(errCode)}, rest...)}, meta)
	if status == 2 {
		e.out.Sync()
		panic("timeout: restart")
	}
	_ = fmt.Sprint
}
