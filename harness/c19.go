package main

import (
	"bytes"
	"context"
	"fmt"
	"math/rand"
	"os"
	"os/exec"
	"path/filepath"
	"strings"
	"time"
)

var cliBinary, cliDir string

// CliCase: one file and one flag for the executable.
type CliCase struct {
	Kind string   `json:"kind"` // cnf opb wcnf bf bad
	Flag string   `json:"flag"` // "" count certified mus cp verbose
	P    *Prob    `json:"p,omitempty"`
	Opt  *OptCase `json:"opt,omitempty"`
	MS   *MSCase  `json:"ms,omitempty"`
	Ast  *AstD    `json:"ast,omitempty"`
	Bad  string   `json:"bad,omitempty"` // suffix | missing | garbage-cnf | garbage-opb | garbage-bf
}

func (c *CliCase) norm() {
	if c.P != nil {
		c.P.norm()
	}
	if c.Opt != nil {
		c.Opt.norm()
	}
	if c.MS != nil {
		c.MS.norm()
	}
}

func astText(a *AstD) string { // fully parenthesised rendering
	switch a.Op {
	case "var":
		return a.Name
	case "not":
		return "^(" + astText(a.Args[0]) + ")"
	case "bin":
		op := []string{";", "=", "->", "|", "&"}[a.O]
		return "(" + astText(a.Args[0]) + " " + op + " " + astText(a.Args[1]) + ")"
	}
	return "{" + strings.Join(a.Names, ", ") + "}"
}

func genC19(r *rand.Rand, idx int, tier string) *CliCase {
	c := &CliCase{}
	switch r.Intn(12) {
	case 0, 1, 2, 3, 4:
		c.Kind = "cnf"
		fams := []string{"cnf", "cnf3", "unitrich", "amorich", "pigeon"}
		fam := fams[r.Intn(len(fams))]
		switch fam {
		case "amorich":
			c.P = genAMORich(r, 3+r.Intn(6))
			if c.P.Front != "slice" {
				c.P = genProblem(r, "cnf", 3+r.Intn(6))
			}
		case "pigeon":
			c.P = &Prob{Front: "slice", Cons: pigeonhole(2 + r.Intn(2)), Class: "pigeon"}
		default:
			c.P = genProblem(r, fam, 3+r.Intn(7))
		}
		c.P.Front = "dimacs"
		c.P.N = c.P.MaxVar() + r.Intn(2)
		c.Flag = []string{"", "", "count", "certified", "mus", "cp", "verbose"}[r.Intn(7)]
		if c.Flag == "mus" {
			mc := genCnfForMus(r, tier)
			c.P = &Prob{Front: "dimacs", N: mc.N, Class: "mus"}
			for _, cl := range mc.Clauses {
				c.P.Cons = append(c.P.Cons, Con{Kind: "clause", Lits: cl})
			}
		}
	case 5, 6, 7:
		c.Kind = "opb"
		o := genC03(r, idx, tier)
		for o.P.Front != "opb" {
			idx += 7919
			o = genC03(caseRand(int64(idx), idx), idx, tier)
		}
		c.Opt = o
		c.Flag = []string{"", "", "count", "cp", "verbose"}[r.Intn(5)]
	case 8, 9:
		c.Kind = "wcnf"
		m := genC04(r, idx, tier)
		for m.Route == "api" {
			idx += 7919
			m = genC04(caseRand(int64(idx), idx), idx, tier)
		}
		c.MS = m
		c.Flag = []string{"", "verbose"}[r.Intn(2)]
	case 10:
		c.Kind = "bf"
		k := 1 + r.Intn(5)
		names := make([]string, k)
		for i := range names {
			names[i] = []string{"a", "b", "c", "d", "e"}[i]
		}
		c.Ast = genAst(r, names, 1+r.Intn(4))
	default:
		c.Kind = "bad"
		c.Bad = []string{"suffix", "missing", "garbage-cnf", "garbage-opb", "garbage-bf", "garbage-wcnf"}[r.Intn(6)]
	}
	return c
}

func (c *CliCase) fileAndSx() (name, content string, obj Sx, kind int) {
	switch c.Kind {
	case "cnf":
		n := c.P.NbVars()
		return "f.cnf", dimacsText(n, c.P.Clauses()), L(I(n), IntLists(c.P.Clauses())), 0
	case "opb":
		p := c.Opt.P
		n := p.MaxVarAll()
		for _, l := range c.Opt.CostLits {
			if !c.Opt.NoCost && abs(l) > n {
				n = abs(l)
			}
		}
		psx := p.Sx()
		psx.List[0] = I(n)
		return "f.opb", opbText(p, c.Opt), L(psx, c.Opt.costSx()), 1
	case "wcnf":
		return "f.wcnf", c.MS.wcnfText(), c.MS.sx(), 2
	case "bf":
		return "f.bf", astText(c.Ast) + "\n", c.Ast.sx(), 3
	}
	switch c.Bad {
	case "suffix":
		return "f.txt", "p cnf 1 1\n1 0\n", L(), 4
	case "missing":
		return "", "", L(), 4
	case "garbage-cnf":
		return "f.cnf", "p cnf 2 1\n1 x 0\n", L(), 4
	case "garbage-opb":
		return "f.opb", "+1 x1 +1 x2 >> 1 ;\n", L(), 4
	case "garbage-wcnf":
		return "f.wcnf", "p wcnf two 1\n1 1 0\n", L(), 4
	default:
		return "f.bf", "a & | b\n", L(), 4
	}
}

func flagCode(f string) int {
	return map[string]int{"": 0, "count": 1, "certified": 2, "mus": 3, "cp": 4, "verbose": 5}[f]
}

func runC19(e *emitter, idx int, c *CliCase) {
	name, content, obj, kind := c.fileAndSx()
	csx := L(I(kind), I(flagCode(c.Flag)), obj)
	nonclausal := false
	if c.Kind == "opb" {
		nonclausal = true
	}
	if c.Kind == "cnf" && c.Flag == "cp" {
		nonclausal = true // DetectAtMostOne may introduce cardinality constraints
	}
	meta := Meta{Class: c.Kind + "/" + c.Flag, Desc: c, Extra: map[string]interface{}{"flag": c.Flag, "cp": c.Flag == "cp", "nonclausal": nonclausal}}
	e.begin(idx, csx, meta)
	exit := -1
	var stdout []byte
	status, msg := guard(caseTimeout+5*time.Second, func() {
		dir := filepath.Join(cliDir, fmt.Sprintf("c%d", idx))
		os.MkdirAll(dir, 0o755)
		defer os.RemoveAll(dir)
		path := filepath.Join(dir, "missing.cnf")
		if name != "" {
			path = filepath.Join(dir, name)
			if err := os.WriteFile(path, []byte(content), 0o644); err != nil {
				panic(err)
			}
		}
		args := []string{}
		if c.Flag != "" {
			args = append(args, "-"+c.Flag)
		}
		args = append(args, path)
		ctx, cancel := context.WithTimeout(context.Background(), caseTimeout)
		defer cancel()
		cmd := exec.CommandContext(ctx, cliBinary, args...)
		var out, errb bytes.Buffer
		cmd.Stdout = &out
		cmd.Stderr = &errb
		err := cmd.Run()
		if ctx.Err() != nil {
			panic("process timeout")
		}
		exit = 0
		if err != nil {
			if ee, ok := err.(*exec.ExitError); ok {
				exit = ee.ExitCode()
			} else {
				panic(err)
			}
		}
		stdout = out.Bytes()
		if exit != 0 {
			s := errb.String()
			if i := strings.Index(s, "panic:"); i >= 0 {
				s = s[i:]
			}
			meta.Msg = "stderr: " + clean(s)
		}
	})
	if msg != "" {
		meta.Msg = msg
	}
	if len(stdout) > 200000 {
		stdout = stdout[:200000]
	}
	e.emit(csx, L(I(status), I(exit), Bytes(string(stdout))), meta)
}
