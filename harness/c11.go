package main

import (
	"bytes"
	"fmt"
	"math/rand"
	"strconv"
	"strings"

	"github.com/crillab/gophersat/bf"
)

// Form is a formula tree: op in var true false not and or implies eq xor uniq.
type Form struct {
	Op   string  `json:"op"`
	V    int     `json:"v,omitempty"`
	Args []*Form `json:"args,omitempty"`
	Vs   []int   `json:"vs,omitempty"`
}

type FormCase struct {
	F *Form `json:"f"`
}

func (f *Form) norm() {
	if f == nil {
		return
	}
	for _, a := range f.Args {
		a.norm()
	}
	switch f.Op {
	case "var":
		if f.V < 1 {
			f.V = 1
		}
	case "not":
		if len(f.Args) != 1 {
			f.Op = "and"
		}
	case "implies", "eq", "xor":
		if len(f.Args) != 2 {
			f.Op = "and"
		}
	}
}

func (f *Form) sx() Sx {
	switch f.Op {
	case "var":
		return L(I(0), I(f.V))
	case "true":
		return L(I(1))
	case "false":
		return L(I(2))
	case "uniq":
		items := []Sx{I(9)}
		for _, v := range f.Vs {
			items = append(items, I(v))
		}
		return Sx{List: items}
	}
	code := map[string]int{"not": 3, "and": 4, "or": 5, "implies": 6, "eq": 7, "xor": 8}[f.Op]
	items := []Sx{I(code)}
	for _, a := range f.Args {
		items = append(items, a.sx())
	}
	return Sx{List: items}
}

func vname(v int) string { return "v" + strconv.Itoa(v) }

func (f *Form) build() bf.Formula {
	switch f.Op {
	case "var":
		return bf.Var(vname(f.V))
	case "true":
		return bf.True
	case "false":
		return bf.False
	case "not":
		return bf.Not(f.Args[0].build())
	case "implies":
		return bf.Implies(f.Args[0].build(), f.Args[1].build())
	case "eq":
		return bf.Eq(f.Args[0].build(), f.Args[1].build())
	case "xor":
		return bf.Xor(f.Args[0].build(), f.Args[1].build())
	case "uniq":
		names := make([]string, len(f.Vs))
		for i, v := range f.Vs {
			names[i] = vname(v)
		}
		return bf.Unique(names...)
	}
	subs := make([]bf.Formula, len(f.Args))
	for i, a := range f.Args {
		subs[i] = a.build()
	}
	if f.Op == "or" {
		return bf.Or(subs...)
	}
	return bf.And(subs...)
}

// negBigUniq: an exactly-one group of more than 4 names occurs in a non-positive position.
func (f *Form) negBigUniq(pol int) bool { // pol: 1 positive, -1 negative, 0 both
	switch f.Op {
	case "uniq":
		return len(f.Vs) > 4 && pol != 1
	case "not":
		return f.Args[0].negBigUniq(-pol)
	case "implies":
		return f.Args[0].negBigUniq(-pol) || f.Args[1].negBigUniq(pol)
	case "eq", "xor":
		return f.Args[0].negBigUniq(0) || f.Args[1].negBigUniq(0)
	}
	for _, a := range f.Args {
		if a.negBigUniq(pol) {
			return true
		}
	}
	return false
}

func (f *Form) hasUniq() bool {
	if f.Op == "uniq" {
		return true
	}
	for _, a := range f.Args {
		if a.hasUniq() {
			return true
		}
	}
	return false
}

func genForm(r *rand.Rand, nv, depth int, positiveUniqOnly bool, pol int) *Form {
	if depth == 0 || r.Intn(5) == 0 {
		switch r.Intn(12) {
		case 0:
			return &Form{Op: "true"}
		case 1:
			return &Form{Op: "false"}
		default:
			return &Form{Op: "var", V: 1 + r.Intn(nv)}
		}
	}
	switch r.Intn(11) {
	case 0, 1:
		return &Form{Op: "not", Args: []*Form{genForm(r, nv, depth-1, positiveUniqOnly, -pol)}}
	case 2, 3, 4, 5:
		k := r.Intn(4) // 0..3 subformulas: empty and singleton included
		f := &Form{Op: []string{"and", "or"}[r.Intn(2)], Args: []*Form{}}
		for i := 0; i < k; i++ {
			f.Args = append(f.Args, genForm(r, nv, depth-1, positiveUniqOnly, pol))
		}
		return f
	case 6:
		return &Form{Op: "implies", Args: []*Form{genForm(r, nv, depth-1, positiveUniqOnly, -pol), genForm(r, nv, depth-1, positiveUniqOnly, pol)}}
	case 7:
		return &Form{Op: "eq", Args: []*Form{genForm(r, nv, depth-1, positiveUniqOnly, 0), genForm(r, nv, depth-1, positiveUniqOnly, 0)}}
	case 8:
		return &Form{Op: "xor", Args: []*Form{genForm(r, nv, depth-1, positiveUniqOnly, 0), genForm(r, nv, depth-1, positiveUniqOnly, 0)}}
	default:
		if positiveUniqOnly && pol != 1 {
			return &Form{Op: "var", V: 1 + r.Intn(nv)}
		}
		k := r.Intn(min(nv, 7) + 1)
		perm := r.Perm(nv)
		vs := make([]int, k)
		for i := range vs {
			vs[i] = perm[i] + 1
		}
		return &Form{Op: "uniq", Vs: vs}
	}
}

// pinned conjoins f with one literal per variable of f (all of them, or all but one): solving then amounts to evaluating
// the translation of f AT ONE ASSIGNMENT, so a translation that is wrong on a few assignments only -- which a solver
// hides by finding another model -- is met as often as those assignments are drawn.
func pinned(r *rand.Rand, f *Form) *Form {
	seen := map[int]bool{}
	var vars []int
	var walk func(g *Form)
	walk = func(g *Form) {
		if g.Op == "var" && !seen[g.V] {
			seen[g.V] = true
			vars = append(vars, g.V)
		}
		for _, v := range g.Vs {
			if !seen[v] {
				seen[v] = true
				vars = append(vars, v)
			}
		}
		for _, a := range g.Args {
			walk(a)
		}
	}
	walk(f)
	args := []*Form{f}
	skip := -1
	if len(vars) > 0 && r.Intn(3) == 0 {
		skip = r.Intn(len(vars))
	}
	// assignments with few true variables are the interesting ones for exactly-one groups
	ptrue := []float64{0.5, 0.25, 0.15}[r.Intn(3)]
	for i, v := range vars {
		if i == skip {
			continue
		}
		l := &Form{Op: "var", V: v}
		if r.Float64() >= ptrue {
			l = &Form{Op: "not", Args: []*Form{l}}
		}
		args = append(args, l)
	}
	if r.Intn(2) == 0 { // the pins first
		args = append(args[1:], args[0])
	}
	return &Form{Op: "and", Args: args}
}

// groupPoints: every exactly-one group of 2..9 names, positive and negated, evaluated at every assignment of its names
// with at most two of them true (all, each one, each pair), the names pinned by literals: 344 formulas that decide the
// translation of a group (pairwise below the threshold, the grid of auxiliary variables above it, the negated forms)
// point by point.  They are the first cases of every C11 run.
var groupPointCases = func() []*Form {
	var out []*Form
	for k := 2; k <= 9; k++ {
		vs := make([]int, k)
		for i := range vs {
			vs[i] = i + 1
		}
		var sets [][]int
		sets = append(sets, nil)
		for i := 0; i < k; i++ {
			sets = append(sets, []int{i})
		}
		for i := 0; i < k; i++ {
			for j := i + 1; j < k; j++ {
				sets = append(sets, []int{i, j})
			}
		}
		for _, neg := range []bool{false, true} {
			for _, set := range sets {
				g := &Form{Op: "uniq", Vs: append([]int{}, vs...)}
				if neg {
					g = &Form{Op: "not", Args: []*Form{g}}
				}
				args := []*Form{g}
				on := map[int]bool{}
				for _, i := range set {
					on[i] = true
				}
				for i := 0; i < k; i++ {
					l := &Form{Op: "var", V: i + 1}
					if !on[i] {
						l = &Form{Op: "not", Args: []*Form{l}}
					}
					args = append(args, l)
				}
				out = append(out, &Form{Op: "and", Args: args})
			}
		}
	}
	return out
}()

func genC11(r *rand.Rand, idx int, tier string, positiveUniqOnly bool) *FormCase {
	if !positiveUniqOnly && idx < len(groupPointCases) {
		return &FormCase{F: groupPointCases[idx]}
	}
	c := genC11base(r, idx, tier, positiveUniqOnly)
	if r.Intn(4) == 0 {
		c.F = pinned(r, c.F)
	}
	return c
}

func genC11base(r *rand.Rand, idx int, tier string, positiveUniqOnly bool) *FormCase {
	nv := 1 + r.Intn(5)
	depth := 1 + r.Intn(4)
	switch r.Intn(14) {
	case 0: // exactly-one groups of every size, above and below the threshold, possibly negated
		nv = 1 + r.Intn(9)
		k := r.Intn(nv + 1)
		perm := r.Perm(nv)
		vs := make([]int, k)
		for i := range vs {
			vs[i] = perm[i] + 1
		}
		var f *Form = &Form{Op: "uniq", Vs: vs}
		if r.Intn(2) == 0 {
			f = &Form{Op: "and", Args: []*Form{f, genForm(r, nv, 2, positiveUniqOnly, 1)}}
		}
		if !positiveUniqOnly && r.Intn(4) == 0 {
			f = &Form{Op: "not", Args: []*Form{f}}
		}
		return &FormCase{F: f}
	case 2: // two large exactly-one groups over overlapping names: same end points, different or reordered middles
		nv = 6 + r.Intn(3)
		k := 5 + r.Intn(2)
		perm := r.Perm(nv)
		g1 := make([]int, k)
		for i := range g1 {
			g1[i] = perm[i] + 1
		}
		g2 := append([]int{}, g1...)
		switch r.Intn(3) {
		case 0: // reorder the middle
			g2[1], g2[2] = g2[2], g2[1]
		case 1: // replace a middle name when possible
			if nv > k {
				g2[1+r.Intn(k-2)] = perm[k] + 1
			} else {
				g2[1], g2[3] = g2[3], g2[1]
			}
		default:
			r.Shuffle(len(g2), func(i, j int) { g2[i], g2[j] = g2[j], g2[i] })
		}
		f := &Form{Op: "and", Args: []*Form{{Op: "uniq", Vs: g1}, {Op: "uniq", Vs: g2}}}
		if r.Intn(2) == 0 {
			f = &Form{Op: "or", Args: []*Form{f, {Op: "var", V: 1 + r.Intn(nv)}}}
		}
		return &FormCase{F: f}
	case 1: // nested or-in-and-in-or to depth 4
		var build func(d int, or bool) *Form
		build = func(d int, or bool) *Form {
			if d == 0 {
				f := &Form{Op: "var", V: 1 + r.Intn(nv)}
				if r.Intn(2) == 0 {
					return &Form{Op: "not", Args: []*Form{f}}
				}
				return f
			}
			f := &Form{Op: "and"}
			if or {
				f.Op = "or"
			}
			for i := 1 + r.Intn(3); i > 0; i-- {
				f.Args = append(f.Args, build(d-1, !or))
			}
			f.Args = append(f.Args, build(0, false))
			return f
		}
		return &FormCase{F: build(2+r.Intn(3), r.Intn(2) == 0)}
	}
	if tier == "thorough" {
		nv = 1 + r.Intn(6)
	}
	return &FormCase{F: genForm(r, nv, depth, positiveUniqOnly, 1)}
}

func runC11(e *emitter, idx int, c *FormCase) {
	csx := c.F.sx()
	meta := Meta{Class: "formula", Desc: c, Extra: map[string]interface{}{"neguniq": c.F.negBigUniq(1), "uniq": c.F.hasUniq()}}
	e.begin(idx, csx, meta)
	isnil, foreign := 0, 0
	var pairs []Sx
	status, msg := guard(caseTimeout, func() {
		model := bf.Solve(c.F.build())
		if model == nil {
			isnil = 1
			return
		}
		for name, val := range model {
			v, err := strconv.Atoi(strings.TrimPrefix(name, "v"))
			if err != nil || !strings.HasPrefix(name, "v") || v < 1 {
				foreign++
				continue
			}
			pairs = append(pairs, L(I(v), B(val)))
		}
	})
	meta.Msg = msg
	e.emit(csx, L(I(status), I(isnil), I(foreign), Sx{List: pairs}), meta)
	if status == 2 {
		e.out.Sync()
		panic("timeout: restart")
	}
}

func runC12(e *emitter, idx int, c *FormCase) {
	csx := c.F.sx()
	meta := Meta{Class: "formula", Desc: c, Extra: map[string]interface{}{"uniq": c.F.hasUniq()}}
	e.begin(idx, csx, meta)
	nbv, nbc, foreign := -1, -1, 0
	var names []Sx
	clauses := [][]int{}
	status, msg := guard(caseTimeout, func() {
		var buf bytes.Buffer
		if err := bf.Dimacs(c.F.build(), &buf); err != nil {
			panic(fmt.Sprintf("Dimacs error: %v", err))
		}
		for _, line := range strings.Split(buf.String(), "\n") {
			fields := strings.Fields(line)
			if len(fields) == 0 {
				continue
			}
			switch fields[0] {
			case "p":
				if len(fields) != 4 || fields[1] != "cnf" {
					panic("bad header: " + line)
				}
				a, err1 := strconv.Atoi(fields[2])
				b, err2 := strconv.Atoi(fields[3])
				if err1 != nil || err2 != nil || nbv != -1 {
					panic("bad header: " + line)
				}
				nbv, nbc = a, b
			case "c":
				rest := strings.TrimSpace(strings.TrimPrefix(line, "c"))
				eq := strings.LastIndex(rest, "=")
				if eq < 0 {
					continue
				}
				idx, err := strconv.Atoi(rest[eq+1:])
				if err != nil {
					panic("bad comment: " + line)
				}
				name := rest[:eq]
				v, err := strconv.Atoi(strings.TrimPrefix(name, "v"))
				if err != nil || !strings.HasPrefix(name, "v") {
					foreign++
					continue
				}
				names = append(names, L(I(v), I(idx)))
			default:
				var cl []int
				closed := false
				for _, f := range fields {
					l, err := strconv.Atoi(f)
					if err != nil {
						panic("bad clause line: " + line)
					}
					if l == 0 {
						closed = true
						break
					}
					cl = append(cl, l)
				}
				if !closed {
					panic("clause line without terminator: " + line)
				}
				if cl == nil {
					cl = []int{}
				}
				clauses = append(clauses, cl)
			}
		}
		if nbv == -1 {
			panic("no header")
		}
	})
	meta.Msg = msg
	e.emit(csx, L(I(status), I(nbv), I(nbc), Sx{List: names}, IntLists(clauses), I(foreign)), meta)
	if status == 2 {
		e.out.Sync()
		panic("timeout: restart")
	}
}
