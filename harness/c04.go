package main

import (
	"fmt"
	"math/rand"
	"strings"

	"github.com/crillab/gophersat/maxsat"
	"github.com/crillab/gophersat/solver"
)

// MSCon is a weighted constraint sum(coeff*lit) >= atleast; Weight 0 = hard.
type MSCon struct {
	Lits    []int `json:"lits"`
	Coeffs  []int `json:"coeffs"` // nil: all 1
	AtLeast int   `json:"atleast"`
	Weight  int   `json:"weight"`
}

// MSCase is a MaxSAT instance and the route it takes.
type MSCase struct {
	Route string  `json:"route"` // api | wcnf-chan | wcnf-nil
	Cons  []MSCon `json:"cons"`
	N     int     `json:"n"`   // declared variables (wcnf)
	Top   int     `json:"top"` // 0: absent (wcnf)
	// api route: the caller's data is used more than once.  Share: constraints whose coefficient vectors are equal are
	// given ONE slice (as a caller who writes the vector once would); Twice: the problem is built twice from the same
	// constraint values and the second one is solved.  maxsat.New copies what it is given, so neither may matter.
	Share bool `json:"share,omitempty"`
	Twice bool `json:"twice,omitempty"`
}

func (c *MSCase) norm() {
	for i := range c.Cons {
		k := &c.Cons[i]
		if k.Coeffs != nil {
			if len(k.Coeffs) > len(k.Lits) {
				k.Coeffs = k.Coeffs[:len(k.Lits)]
			}
			for len(k.Coeffs) < len(k.Lits) {
				k.Coeffs = append(k.Coeffs, 1)
			}
		}
		if k.Weight < 0 {
			k.Weight = 0
		}
	}
}

func (c *MSCase) maxVar() int {
	m := 0
	for _, k := range c.Cons {
		for _, l := range k.Lits {
			if abs(l) > m {
				m = abs(l)
			}
		}
	}
	return m
}

func (c *MSCase) nvars() int {
	if c.Route != "api" && c.N > c.maxVar() {
		return c.N
	}
	return c.maxVar()
}

// hardWCNF: per the WCNF format a clause is hard when a top weight is given and its weight reaches it.
func (c *MSCase) isHard(k MSCon) bool {
	if c.Route == "api" {
		return k.Weight == 0
	}
	return c.Top > 0 && k.Weight >= c.Top
}

func (c *MSCase) sx() Sx {
	items := make([]Sx, 0, len(c.Cons))
	for _, k := range c.Cons {
		w := k.Weight
		if c.isHard(k) {
			w = 0
		}
		fields := []Sx{I(w), I(relGe), I(k.AtLeast)}
		for i, l := range k.Lits {
			co := 1
			if k.Coeffs != nil {
				co = k.Coeffs[i]
			}
			fields = append(fields, L(I(co), I(l)))
		}
		items = append(items, Sx{List: fields})
	}
	return L(I(c.nvars()), Sx{List: items})
}

func (c *MSCase) flags() map[string]interface{} {
	neg, zero, al0 := false, false, false
	for _, k := range c.Cons {
		for _, co := range k.Coeffs {
			if co < 0 {
				neg = true
			}
			if co == 0 {
				zero = true
			}
		}
		if k.AtLeast <= 0 {
			al0 = true
		}
	}
	return map[string]interface{}{"negcoef": neg, "zerocoef": zero, "atleast0": al0, "route": c.Route}
}

func genC04(r *rand.Rand, idx int, tier string) *MSCase {
	nmax := 7
	if tier == "thorough" {
		nmax = 10
	}
	n := 1 + r.Intn(nmax)
	c := &MSCase{Route: []string{"api", "api", "wcnf-chan", "wcnf-nil"}[r.Intn(4)]}
	m := 1 + r.Intn(n+4)
	for i := 0; i < m; i++ {
		k := MSCon{AtLeast: 1}
		k.Lits = distinctLits(r, n, 1+r.Intn(min(n, 4)))
		if r.Intn(3) != 0 {
			k.Weight = 1 + r.Intn(5)
		}
		if c.Route == "api" {
			switch r.Intn(4) {
			case 0: // cardinality constraint, implicit unit coefficients
				k.AtLeast = 1 + r.Intn(len(k.Lits))
			case 1: // PB constraint
				k.Coeffs = make([]int, len(k.Lits))
				sum := 0
				for j := range k.Coeffs {
					k.Coeffs[j] = 1 + r.Intn(4)
					if r.Intn(12) == 0 {
						k.Coeffs[j] = 0
					}
					if r.Intn(12) == 0 {
						k.Coeffs[j] = -1 - r.Intn(3)
					}
					if k.Coeffs[j] > 0 {
						sum += k.Coeffs[j]
					}
				}
				k.AtLeast = r.Intn(sum + 2)
				// now and then the coefficient vector of an earlier constraint again (over other literals)
				if r.Intn(4) == 0 {
					for _, prev := range c.Cons {
						if len(prev.Coeffs) == len(k.Lits) && len(prev.Coeffs) > 0 {
							k.Coeffs = append([]int{}, prev.Coeffs...)
							c.Share = true
							break
						}
					}
				}
			}
		} else if k.Weight == 0 {
			k.Weight = 1 + r.Intn(5) // wcnf: every clause has a weight >= 1; hardness comes from top
		}
		c.Cons = append(c.Cons, k)
	}
	if c.Route == "api" {
		c.Twice = r.Intn(4) == 0
	} else if r.Intn(8) == 0 {
		// an empty clause: "<w> 0" is a legal line; soft it is a constant cost, hard it makes the instance unsatisfiable
		pos := r.Intn(len(c.Cons) + 1)
		k := MSCon{AtLeast: 1, Lits: []int{}, Weight: 1 + r.Intn(5)}
		c.Cons = append(c.Cons[:pos:pos], append([]MSCon{k}, c.Cons[pos:]...)...)
		if r.Intn(3) == 0 {
			c.Cons = append(c.Cons, MSCon{AtLeast: 1, Lits: []int{}, Weight: 1 + r.Intn(5)})
		}
	}
	if c.Route != "api" {
		c.N = c.maxVar() + []int{0, 0, 1, 3}[r.Intn(4)]
		if c.N < 1 {
			c.N = 1
		}
		sum := 0
		for _, k := range c.Cons {
			sum += k.Weight
		}
		switch r.Intn(4) {
		case 0:
			c.Top = 0
		case 1:
			c.Top = sum + 1
		default:
			c.Top = 2 + r.Intn(5) // small top: some clauses become hard
		}
	}
	return c
}

func (c *MSCase) wcnfText() string {
	var b strings.Builder
	if c.Top > 0 {
		fmt.Fprintf(&b, "p wcnf %d %d %d\n", c.nvars(), len(c.Cons), c.Top)
	} else {
		fmt.Fprintf(&b, "p wcnf %d %d\n", c.nvars(), len(c.Cons))
	}
	for _, k := range c.Cons {
		fmt.Fprintf(&b, "%d", k.Weight)
		for _, l := range k.Lits {
			fmt.Fprintf(&b, " %d", l)
		}
		b.WriteString(" 0\n")
	}
	return b.String()
}

func runC04(e *emitter, idx int, c *MSCase) {
	csx := c.sx()
	meta := Meta{Class: c.Route, Desc: c, Extra: c.flags()}
	e.begin(idx, csx, meta)
	n := c.nvars()
	verdict, cost, keysok := 0, -1, 1
	model := make([]bool, 0)
	status, msg := guard(caseTimeout, func() {
		if c.Route == "api" {
			names := map[string]bool{}
			constrs := make([]maxsat.Constr, len(c.Cons))
			shared := map[string][]int{}
			for i, k := range c.Cons {
				lits := make([]maxsat.Lit, len(k.Lits))
				for j, l := range k.Lits {
					name := fmt.Sprintf("v%d", abs(l))
					names[name] = true
					if l < 0 {
						lits[j] = maxsat.Not(name)
					} else {
						lits[j] = maxsat.Var(name)
					}
				}
				coeffs := cp(k.Coeffs)
				if c.Share && k.Coeffs != nil {
					key := fmt.Sprint(k.Coeffs)
					if prev, ok := shared[key]; ok {
						coeffs = prev
					} else {
						shared[key] = coeffs
					}
				}
				constrs[i] = maxsat.Constr{Lits: lits, Coeffs: coeffs, AtLeast: k.AtLeast, Weight: k.Weight}
			}
			pb := maxsat.New(constrs...)
			if c.Twice {
				pb = maxsat.New(constrs...)
			}
			mod, cst := pb.Solve()
			if mod == nil {
				verdict, cost = 2, -1
				return
			}
			verdict, cost = 1, cst
			model = make([]bool, n)
			for name, val := range mod {
				var v int
				if _, err := fmt.Sscanf(name, "v%d", &v); err != nil || v < 1 || v > n || !names[name] {
					keysok = 0
					continue
				}
				model[v-1] = val
			}
			if len(mod) != len(names) {
				keysok = 0
			}
			return
		}
		s, err := maxsat.ParseWCNF(strings.NewReader(c.wcnfText()))
		if err != nil {
			panic(fmt.Sprintf("parse error: %v", err))
		}
		var res solver.Result
		if c.Route == "wcnf-nil" {
			res = s.Optimal(nil, nil)
		} else {
			ch := make(chan solver.Result)
			go func() {
				for range ch {
				}
			}()
			res = s.Optimal(ch, nil)
		}
		verdict = verdictCode(res.Status)
		if res.Status == solver.Sat {
			cost = res.Weight
			model = res.Model
		}
	})
	meta.Msg = msg
	e.emit(csx, L(I(status), I(verdict), I(cost), Bools(model), I(keysok)), meta)
	if status == 2 {
		e.out.Sync()
		panic("timeout: restart")
	}
}
