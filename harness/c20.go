package main

import (
	"fmt"
	"math/rand"
	"strings"
	"time"

	"github.com/crillab/gophersat/maxsat"
	"github.com/crillab/gophersat/solver"
)

// StreamCase: an optimisation / MaxSAT / enumeration problem with a consumer behaviour.
type StreamCase struct {
	Opt   *OptCase `json:"opt,omitempty"`
	MS    *MSCase  `json:"ms,omitempty"`
	Enum  *Prob    `json:"enum,omitempty"`
	Cap   int      `json:"cap"`
	Delay int      `json:"delay"` // max microseconds between receives (0: none)
	DSeed int64    `json:"dseed"`
}

func (c *StreamCase) norm() {
	if c.Opt != nil {
		c.Opt.norm()
	}
	if c.MS != nil {
		c.MS.norm()
	}
	if c.Enum != nil {
		c.Enum.norm()
	}
	if c.Cap < 0 {
		c.Cap = 0
	}
}

func genC20(r *rand.Rand, idx int, tier string, kind string) *StreamCase {
	c := &StreamCase{Cap: []int{0, 0, 1, 3, 64}[r.Intn(5)], Delay: []int{0, 0, 200, 2000}[r.Intn(4)], DSeed: r.Int63()}
	switch kind {
	case "C20o":
		o := genC03(r, idx, tier)
		for o.P.Front == "opb" || o.NoCost && r.Intn(2) == 0 {
			o = genC03(r, idx+7919, tier)
			idx += 7919
		}
		o.Entry = "optimal-chan"
		c.Opt = o
	case "C20m":
		m := genC04(r, idx, tier)
		for m.Route == "api" {
			m = genC04(r, idx+7919, tier)
			idx += 7919
		}
		m.Route = "wcnf-chan"
		c.MS = m
	default:
		p := genC05(r, 1000+idx, "quick")
		c.Enum = p
		if p.NbVars() > 8 { // up to 2^n models are delivered: no artificial delay on the larger ones
			c.Delay = 0
		}
	}
	return c
}

func resSx(res solver.Result) Sx {
	w := res.Weight
	return L(I(verdictCode(res.Status)), I(w), Bools(res.Model))
}

// consume receives everything from ch with the case's delays; returns when ch is closed.
func consume[T any](c *StreamCase, ch chan T, sink func(T)) {
	dr := rand.New(rand.NewSource(c.DSeed))
	for v := range ch {
		sink(v)
		if c.Delay > 0 {
			time.Sleep(time.Duration(dr.Intn(c.Delay)) * time.Microsecond)
		}
	}
}

func runC20(e *emitter, idx int, c *StreamCase) {
	var csx Sx
	class := ""
	switch {
	case c.Opt != nil:
		p := c.Opt.P
		class = "optimal/" + p.Class
		csx = L(p.Sx(), c.Opt.costSx())
	case c.MS != nil:
		class = "maxsat"
		csx = c.MS.sx()
	default:
		class = "enumerate/" + c.Enum.Class
		csx = c.Enum.Sx()
	}
	meta := Meta{Class: class, Desc: c, Extra: map[string]interface{}{"cap": c.Cap, "delay": c.Delay}}
	e.begin(idx, csx, meta)
	var recv []Sx
	closed := 0
	var ret Sx = L(I(0), I(0), L())
	if c.Enum != nil {
		ret = I(0)
	}
	status, msg := guard(caseTimeout, func() {
		type outcome struct {
			res solver.Result
			n   int
			pan interface{}
		}
		done := make(chan outcome, 1)
		switch {
		case c.Enum != nil:
			pb, err := c.Enum.Build()
			if err != nil {
				panic(fmt.Sprintf("parse error: %v", err))
			}
			s := solver.New(pb)
			ch := make(chan []bool, c.Cap)
			go func() {
				defer func() {
					if e := recover(); e != nil {
						done <- outcome{pan: panicInfo(e)}
					}
				}()
				done <- outcome{n: s.Enumerate(ch, nil)}
			}()
			consume(c, ch, func(m []bool) { recv = append(recv, Bools(m)) })
			closed = 1
			o := <-done
			if o.pan != nil {
				panic(o.pan)
			}
			ret = I(o.n)
		default:
			var opt solver.Interface
			if c.Opt != nil {
				pb, err := c.Opt.P.Build()
				if err != nil {
					panic(fmt.Sprintf("parse error: %v", err))
				}
				if !c.Opt.NoCost {
					lits := make([]solver.Lit, len(c.Opt.CostLits))
					for i, l := range c.Opt.CostLits {
						lits[i] = solver.IntToLit(int32(l))
					}
					if c.Opt.NilWs {
						pb.SetCostFunc(lits, nil)
					} else {
						pb.SetCostFunc(lits, cp(c.Opt.CostWs))
					}
				}
				opt = solver.New(pb)
			} else {
				s, err := maxsat.ParseWCNF(strings.NewReader(c.MS.wcnfText()))
				if err != nil {
					panic(fmt.Sprintf("parse error: %v", err))
				}
				opt = s
			}
			ch := make(chan solver.Result, c.Cap)
			go func() {
				defer func() {
					if e := recover(); e != nil {
						done <- outcome{pan: panicInfo(e)}
					}
				}()
				done <- outcome{res: opt.Optimal(ch, nil)}
			}()
			consume(c, ch, func(r solver.Result) { recv = append(recv, resSx(r)) })
			closed = 1
			o := <-done
			if o.pan != nil {
				panic(o.pan)
			}
			ret = resSx(o.res)
		}
	})
	meta.Msg = msg
	e.emit(csx, L(I(status), I(c.Cap), Sx{List: recv}, I(closed), ret), meta)
	if status == 2 {
		e.out.Sync()
		panic("timeout: restart")
	}
}
