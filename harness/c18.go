package main

import (
	"fmt"
	"math/rand"
	"strings"

	"github.com/crillab/gophersat/solver"
)

// PrintCase: a problem (with optional cost function) and the printer under test.
type PrintCase struct {
	Opt     *OptCase `json:"opt"`
	Printer string   `json:"printer"` // cnf pb solver solver-solved
	Used    bool     `json:"used,omitempty"` // cnf / pb: the Problem is printed after a solver built from it has searched
}

func genC18(r *rand.Rand, idx int, tier string) *PrintCase {
	o := genC03(r, idx, tier)
	if !o.NoCost && !o.NilWs && len(o.CostWs) > 0 && r.Intn(6) == 0 { // cost functions with negative coefficients are printed too
		for i := range o.CostWs {
			if r.Intn(2) == 0 {
				o.CostWs[i] = -1 - r.Intn(5)
			}
		}
	}
	c := &PrintCase{Opt: o}
	isCNF := !o.P.nonClausal() && o.P.Front != "opb"
	switch {
	case isCNF && r.Intn(2) == 0:
		c.Printer = "cnf"
		o.NoCost = true
	default:
		c.Printer = []string{"pb", "pb", "solver", "solver-solved"}[r.Intn(4)]
	}
	if (c.Printer == "cnf" || c.Printer == "pb") && r.Intn(4) == 0 {
		c.Used = true
	}
	return c
}

func printerCode(p string) int {
	return map[string]int{"cnf": 0, "pb": 1, "solver": 2, "solver-solved": 3}[p]
}

func runC18(e *emitter, idx int, c *PrintCase) {
	o := c.Opt
	p := o.P
	n := p.NbVars()
	if p.Front == "opb" {
		n = p.MaxVarAll()
		for _, l := range o.CostLits {
			if !o.NoCost && abs(l) > n {
				n = abs(l)
			}
		}
		p.Text = opbText(p, o)
	}
	psx := p.Sx()
	psx.List[0] = I(n)
	csx := L(I(printerCode(c.Printer)), psx, o.costSx())
	meta := Meta{Class: c.Printer + "/" + p.Class + "/" + p.Front, Desc: c}
	if c.Used {
		meta.Class = c.Printer + "-used/" + p.Class + "/" + p.Front
	}
	e.begin(idx, csx, meta)
	text := ""
	reErr, reNb, reCount, reVerdict, reWeight, origStatus := 0, -1, -1, 0, 0, 0
	status, msg := guard(caseTimeout, func() {
		build := func() *solver.Problem {
			pb, err := p.Build()
			if err != nil {
				panic(fmt.Sprintf("parse error: %v", err))
			}
			if p.Front != "opb" && !o.NoCost {
				lits := make([]solver.Lit, len(o.CostLits))
				for i, l := range o.CostLits {
					lits[i] = solver.IntToLit(int32(l))
				}
				if o.NilWs {
					pb.SetCostFunc(lits, nil)
				} else {
					pb.SetCostFunc(lits, cp(o.CostWs))
				}
			}
			return pb
		}
		pb := build()
		origStatus = verdictCode(pb.Status)
		if c.Used && pb.Status != solver.Unsat {
			solver.New(pb).Solve()
		}
		switch c.Printer {
		case "cnf":
			text = pb.CNF()
		case "pb":
			text = pb.PBString()
		case "solver":
			text = solver.New(pb).PBString()
		default:
			s := solver.New(pb)
			s.Solve()
			text = s.PBString()
		}
		// read the text back with the matching reader
		var pb2 *solver.Problem
		var err error
		if c.Printer == "cnf" {
			pb2, err = solver.ParseCNF(strings.NewReader(text))
		} else {
			pb2, err = solver.ParseOPB(strings.NewReader(text))
		}
		if err != nil {
			reErr = 1
			msgErr := err.Error()
			_ = msgErr
			return
		}
		reNb = pb2.NbVars
		if reNb <= 12 {
			reCount = solver.New(pb2).CountModels()
		}
		var pb3 *solver.Problem
		if c.Printer == "cnf" {
			pb3, _ = solver.ParseCNF(strings.NewReader(text))
		} else {
			pb3, _ = solver.ParseOPB(strings.NewReader(text))
		}
		res := solver.New(pb3).Optimal(nil, nil)
		reVerdict = verdictCode(res.Status)
		reWeight = res.Weight
		if res.Status == solver.Unsat {
			reWeight = -1
		}
	})
	meta.Msg = msg
	meta.Extra = map[string]interface{}{"parse_status": origStatus}
	e.emit(csx, L(I(status), Bytes(text), I(reErr), I(reNb), I(reCount), I(reVerdict), I(reWeight)), meta)
	if status == 2 {
		e.out.Sync()
		panic("timeout: restart")
	}
}
