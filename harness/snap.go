package main

import (
	"fmt"
	"math/rand"

	"github.com/crillab/gophersat/solver"
)

// Snapshots of the search state at the tracing points of the search loop (hooks verifConflict / verifLearnt /
// verifCP / verifQuiet): the state handed to learnClause or cuttingPlanes with what they returned, and the state
// when propagation ended without conflict.  Judged by coq/Judge/J21.v against Model/Learn.v, Model/CPSearch.v.

// Snap mirrors solver.VerifSnap (defined only under the verif tag).
type Snap struct {
	Kind, Lvl   int
	Trail       []int
	Model       []int
	Reasons     [][]int
	Assumptions []int
	Conflict    []int
	Constrs     [][]int
	Done        bool
	ResKind     int
	Learnt      []int
	Unit        int
	Props       []int
	NewLvl      int
	NbOrig      int
	CP          bool
	Restarts    int
	HeapContent []int
	HeapIndices []int
	Watched     [][]int
	PBFlags     [][]int
}

func (sn Snap) Sx() Sx {
	rs := make([]Sx, len(sn.Reasons))
	for i, r := range sn.Reasons {
		rs[i] = Ints(r)
	}
	return L(I(sn.Kind), I(sn.Lvl), Ints(sn.Trail), Ints(sn.Model), L(rs...), Ints(sn.Assumptions), Ints(sn.Conflict),
		IntLists(sn.Constrs), B(sn.Done), I(sn.ResKind), Ints(sn.Learnt), I(sn.Unit), Ints(sn.Props), I(sn.NewLvl), I(sn.NbOrig), B(sn.CP), I(sn.Restarts), Ints(sn.HeapContent), Ints(sn.HeapIndices), IntLists(sn.Watched), IntLists(sn.PBFlags))
}

// SnapCase: a solve with tracing on.
type SnapCase struct {
	P      *Prob    `json:"p"`
	Cfg    SolveCfg `json:"cfg"`
	Assume []int    `json:"assume,omitempty"` // literals assumed before solving (nil: none)
	Max    int      `json:"max"`              // at most that many snapshots
	Every  int      `json:"every"`            // one tracing point out of Every
	Quiet  bool     `json:"quiet"`            // also when propagation ends without conflict
	Full   bool     `json:"full,omitempty"`   // whole-run trace: every tracing point, constraints included (judge "trace")
}

// genHardPB: a conflict-rich mix over n variables: 3-clauses, cardinality constraints over 3..6 literals with a degree
// in the middle, PB constraints with weights 1..W and a reachable degree.  No oracle is needed for the snapshot parts,
// so the size is not bounded by an exhaustive judge.
func genHardPB(r *rand.Rand, n int) *Prob {
	var cons []Con
	nc := n + r.Intn(2*n)
	for i := 0; i < nc; i++ {
		cons = append(cons, Con{Kind: "clause", Lits: distinctLits(r, n, min(n, 3))})
	}
	nk := 2 + r.Intn(n)
	for i := 0; i < nk; i++ {
		k := min(n, 3+r.Intn(4))
		lits := distinctLits(r, n, k)
		if r.Intn(2) == 0 {
			cons = append(cons, Con{Kind: "atleast", Lits: lits, K: 1 + r.Intn(k-1)})
		} else {
			cons = append(cons, Con{Kind: "atmost", Lits: lits, K: 1 + r.Intn(k-1)})
		}
	}
	W := []int{2, 3, 5, 9}[r.Intn(4)]
	np := 2 + r.Intn(n)
	for i := 0; i < np; i++ {
		k := min(n, 3+r.Intn(5))
		lits := distinctLits(r, n, k)
		ws := make([]int, k)
		sum := 0
		for j := range ws {
			ws[j] = 1 + r.Intn(W)
			sum += ws[j]
		}
		kind := []string{"gteq", "gteq", "lteq"}[r.Intn(3)]
		cons = append(cons, Con{Kind: kind, Lits: lits, Ws: ws, K: sum/3 + r.Intn(sum/3+1)})
	}
	r.Shuffle(len(cons), func(i, j int) { cons[i], cons[j] = cons[j], cons[i] })
	return &Prob{Front: "pb", Cons: cons, Class: "hardpb"}
}

func genSnap(r *rand.Rand, part string, idx int, tier string) *SnapCase {
	c := &SnapCase{Max: 4, Every: 1 + r.Intn(5)}
	nhard := 8 + r.Intn(10)
	if tier == "thorough" {
		nhard = 8 + r.Intn(18)
	}
	if r.Intn(3) == 0 {
		c.Every = 1 + r.Intn(40)
	}
	switch part {
	case "S02": // cardinality / PB constraints, CDCL
		sc := genC02(r, idx, tier)
		if r.Intn(3) == 0 {
			sc = genC14(r, idx, tier)
			sc.Cfg.CP = false
		}
		c.P, c.Cfg = sc.P, sc.Cfg
		switch r.Intn(4) {
		case 0, 1:
			c.P = genHardPB(r, nhard)
		case 2:
			c.P = &Prob{Front: []string{"card", "pb"}[r.Intn(2)], Cons: pigeonCard(3 + r.Intn(3)), Class: "pigeoncard"}
		}
		c.Quiet = r.Intn(2) == 0
	case "S14": // cutting planes
		sc := genC14(r, idx, tier)
		c.P, c.Cfg = sc.P, sc.Cfg
		switch r.Intn(4) {
		case 0, 1:
			c.P = genHardPB(r, nhard)
		case 2:
			c.P = &Prob{Front: []string{"card", "pb"}[r.Intn(2)], Cons: pigeonCard(3 + r.Intn(3)), Class: "pigeoncard"}
		}
		c.Quiet = r.Intn(3) == 0
	case "S10": // CNF under assumptions
		ac := genC10(r, idx, tier)
		c.P = ac.P
		if r.Intn(2) == 0 { // conflict-rich base
			n := 10 + r.Intn(12)
			c.P = &Prob{Front: "slice", Cons: genCNF(r, n, int(float64(n)*(3.7+r.Float64())), 3, 3, 0, 0), Class: "cnf3big"}
			ac.Rounds = [][]int{distinctLits(r, n, 1+r.Intn(4))}
		}
		if len(ac.Rounds) > 0 {
			c.Assume = ac.Rounds[r.Intn(len(ac.Rounds))]
		}
		if c.Assume == nil {
			c.Assume = []int{}
		}
		c.Quiet = r.Intn(2) == 0
	default: // S01: CNF
		sc := genC06(r, idx, tier)
		sc.Cfg.Cert, sc.Cfg.Slow = false, false
		if sc.P.Class == "cnf3huge" {
			sc = genC01(r, idx+nbTinyCNF, tier)
			sc.Cfg.Cert = false
		}
		c.P, c.Cfg = sc.P, sc.Cfg
		c.Quiet = r.Intn(3) == 0
	}
	if c.Quiet && r.Intn(2) == 0 {
		c.Every = 1 + r.Intn(12)
	}
	if r.Intn(3) == 0 {
		c.Cfg.Rst = 1 + r.Intn(8)
	} else {
		c.Cfg.Rst = 0
	}
	if r.Intn(3) == 0 { // dense: every tracing point of the first part of the run (the watch and heap invariants are
		// broken long before an answer is wrong: look at many consecutive quiet points)
		c.Max, c.Every, c.Quiet = 40, 1, true
	}
	return c
}

// genTrace: a solve whose whole run is traced (parts T01 T02 T10): every tracing point, at most traceMax of them.
const traceMax = 300

func genTrace(r *rand.Rand, part string, idx int, tier string) *SnapCase {
	c := genSnap(r, "S"+part[1:], idx, tier)
	c.Full, c.Quiet, c.Every, c.Max = true, true, 1, traceMax
	return c
}

func runSnap(e *emitter, idx int, c *SnapCase) {
	csx := c.P.Sx()
	meta := Meta{Class: c.P.Class + "/" + c.P.Front, Desc: c, Extra: map[string]interface{}{"cp": c.Cfg.CP, "hooks": hooksOn, "assume": c.Assume != nil}}
	e.begin(idx, csx, meta)
	var snaps []Snap
	var verdict int
	var model []bool
	status, msg := guard(caseTimeout, func() {
		pb, err := c.P.Build()
		if err != nil {
			panic(fmt.Sprintf("parse error: %v", err))
		}
		if c.Cfg.AMO {
			pb.DetectAtMostOne()
		}
		s := solver.New(pb)
		s.CuttingPlanes = c.Cfg.CP
		if c.Cfg.NbMax > 0 {
			setNbMax(s, c.Cfg.NbMax)
		}
		traceOn(s, c.Max, c.Every, c.Quiet, c.Full)
		if c.Cfg.Rst > 0 {
			setRestart(s, c.Cfg.Rst)
		}
		defer func() { snaps = traceSnaps(s) }() // also after a panic inside the analysis: the open snapshot has Done=false
		if c.Assume != nil && pb.Status != solver.Unsat {
			lits := make([]solver.Lit, len(c.Assume))
			for i, l := range c.Assume {
				lits[i] = solver.IntToLit(int32(l))
			}
			if s.Assume(lits) == solver.Unsat {
				verdict = 2
				return
			}
		}
		verdict = verdictCode(s.Solve())
		if verdict == 1 {
			model = s.Model()
		}
	})
	meta.Msg = msg
	items := make([]Sx, len(snaps))
	nk := [3]int{}
	for i, sn := range snaps {
		items[i] = sn.Sx()
		if sn.Kind >= 0 && sn.Kind < 3 {
			nk[sn.Kind]++
		}
	}
	meta.Extra.(map[string]interface{})["snaps"] = nk
	if status == 1 && len(snaps) > 0 && !snaps[len(snaps)-1].Done {
		status = 0 // a panic inside the analysis: judged through the open snapshot (the model must predict it)
		meta.Extra.(map[string]interface{})["panic_in_analysis"] = true
	}
	if c.Full {
		// whole-run trace: the original constraints once (from the first snapshot), the learned ones in every snapshot
		var orig [][]int
		for i := range snaps {
			sn := snaps[i]
			if i == 0 {
				orig = sn.Constrs[:sn.NbOrig]
			}
			sn.Constrs = sn.Constrs[sn.NbOrig:]
			sn.Watched, sn.PBFlags = nil, nil // the whole-run judge does not read them
			sn.NbOrig = 0
			items[i] = sn.Sx()
		}
		truncated := len(snaps) >= c.Max
		meta.Extra.(map[string]interface{})["truncated"] = truncated
		e.emit(csx, L(I(status), L(items...), IntLists(orig), I(verdict), Bools(model), B(truncated)), meta)
	} else {
		e.emit(csx, L(I(status), L(items...)), meta)
	}
	if status == 2 {
		e.out.Sync()
		panic("timeout: restart")
	}
}
