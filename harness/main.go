package main

import (
	"encoding/json"
	"flag"
	"fmt"
	"math/rand"
	"os"
	"strings"
	"sync"
	"time"
)

func caseRand(seed int64, idx int) *rand.Rand {
	return rand.New(rand.NewSource(seed*1000003 + int64(idx)*7919 + 17))
}

func main() {
	prop := flag.String("prop", "", "property id")
	tier := flag.String("tier", "quick", "quick|thorough")
	seed := flag.Int64("seed", 1, "seed")
	from := flag.Int("from", 0, "first case index")
	count := flag.Int("n", 1000, "number of cases")
	out := flag.String("out", "", "output file (appended)")
	progress := flag.String("progress", "", "progress file")
	descs := flag.String("descs", "", "file with one JSON case descriptor per line: run these instead of generating")
	conc := flag.Int("conc", 1, "number of goroutines running cases concurrently (C16)")
	tmo := flag.Int("timeout", 10, "time limit per case, in seconds")
	flag.StringVar(&cliBinary, "cli", "", "path of the gophersat executable (C19)")
	flag.StringVar(&cliDir, "clidir", "", "scratch directory for the files given to the executable (C19)")
	flag.Parse()
	f := os.Stdout
	if *out != "" {
		var err error
		f, err = os.OpenFile(*out, os.O_APPEND|os.O_CREATE|os.O_WRONLY, 0o644)
		if err != nil {
			fmt.Fprintln(os.Stderr, err)
			os.Exit(2)
		}
		defer f.Close()
	}
	caseTimeout = time.Duration(*tmo) * time.Second
	e := &emitter{out: f, progress: *progress, mu: &sync.Mutex{}}
	var lines []string
	if *descs != "" {
		data, err := os.ReadFile(*descs)
		if err != nil {
			fmt.Fprintln(os.Stderr, err)
			os.Exit(2)
		}
		for _, l := range strings.Split(string(data), "\n") {
			if strings.TrimSpace(l) != "" {
				lines = append(lines, l)
			}
		}
		if *count > len(lines) {
			*count = len(lines)
		}
	}
	runOne := func(e *emitter, propName string, idx, gidx int) {
		prop := &propName

		r := caseRand(*seed, gidx)
		desc := ""
		if lines != nil {
			desc = lines[idx]
		}
		switch *prop {
		case "C05":
			var p *Prob
			if desc != "" {
				p = &Prob{}
				mustJSON(desc, p)
				p.norm()
			} else {
				p = genC05(r, gidx, *tier)
			}
			runC05(e, idx, p)
		case "C01", "C02", "C06":
			var c *SolveCase
			if desc != "" {
				c = &SolveCase{}
				mustJSON(desc, c)
				c.P.norm()
			} else if *prop == "C02" {
				c = genC02(r, gidx, *tier)
			} else if *prop == "C06" {
				c = genC06(r, gidx, *tier)
			} else {
				c = genC01(r, gidx, *tier)
			}
			runSolve(e, idx, c, *prop == "C06")
		case "P15":
			var c *SolveCase
			if desc != "" {
				c = &SolveCase{}
				mustJSON(desc, c)
				c.P.norm()
			} else {
				c = genC15(r, gidx, *tier)
			}
			runAmoStruct(e, idx, c)
		case "G14":
			var c *PBOpCase
			if desc != "" {
				c = &PBOpCase{}
				mustJSON(desc, c)
			} else {
				c = genPBOp(r, gidx, *tier)
			}
			runPBOp(e, idx, c)
		case "G08":
			var c *UPCase
			if desc != "" {
				c = &UPCase{}
				mustJSON(desc, c)
			} else {
				c = genUP(r, gidx, *tier)
			}
			runUP(e, idx, c)
		case "G02":
			var c *GoirCase
			if desc != "" {
				c = &GoirCase{}
				mustJSON(desc, c)
			} else {
				c = genGoir(r, gidx, *tier)
			}
			runGoir(e, idx, c)
		case "P01", "P02":
			var p *Prob
			if desc != "" {
				p = &Prob{}
				mustJSON(desc, p)
				p.norm()
			} else {
				p = genParse(r, *prop, gidx, *tier)
			}
			runParse(e, idx, p)
		case "S01", "S02", "S10", "S14", "T01", "T02", "T10", "T14":
			var c *SnapCase
			if desc != "" {
				c = &SnapCase{}
				mustJSON(desc, c)
				c.P.norm()
			} else if (*prop)[0] == 'T' {
				c = genTrace(r, *prop, gidx, *tier)
			} else {
				c = genSnap(r, *prop, gidx, *tier)
			}
			runSnap(e, idx, c)
		case "C03":
			var c *OptCase
			if desc != "" {
				c = &OptCase{}
				mustJSON(desc, c)
				c.norm()
			} else {
				c = genC03Decoy(r, gidx, *tier)
			}
			runC03(e, idx, c)
		case "C04":
			var c *MSCase
			if desc != "" {
				c = &MSCase{}
				mustJSON(desc, c)
				c.norm()
			} else {
				c = genC04(r, gidx, *tier)
			}
			runC04(e, idx, c)
		case "C09":
			var c *HistCase
			if desc != "" {
				c = &HistCase{}
				mustJSON(desc, c)
				c.norm()
			} else {
				c = genC09(r, gidx, *tier)
			}
			runC09(e, idx, c)
		case "C10":
			var c *AssumeCase
			if desc != "" {
				c = &AssumeCase{}
				mustJSON(desc, c)
				c.P.norm()
			} else {
				c = genC10(r, gidx, *tier)
			}
			runC10(e, idx, c)
		case "C14", "C15", "C15solve":
			var c *SolveCase
			if desc != "" {
				c = &SolveCase{}
				mustJSON(desc, c)
				c.P.norm()
			} else if *prop == "C14" {
				c = genC14(r, gidx, *tier)
			} else {
				c = genC15(r, gidx, *tier)
			}
			switch *prop {
			case "C14":
				runC14(e, idx, c)
			case "C15":
				runC15(e, idx, c)
			default:
				runSolve(e, idx, c, false)
			}
		case "C14opt":
			var c *OptCase
			if desc != "" {
				c = &OptCase{}
				mustJSON(desc, c)
				c.norm()
			} else {
				c = genC14opt(r, gidx, *tier)
			}
			runC03(e, idx, c)
		case "C07", "C08", "C08s":
			var c *CnfCase
			if desc != "" {
				c = &CnfCase{}
				mustJSON(desc, c)
				c.norm()
			} else if *prop == "C07" {
				c = genC07(r, gidx, *tier)
			} else if *prop == "C08" {
				c = genC08(r, gidx, *tier)
			} else {
				c = genCnfForMus(r, *tier)
			}
			switch *prop {
			case "C07":
				runC07(e, idx, c)
			case "C08":
				runC08(e, idx, c)
			default:
				runC08s(e, idx, c)
			}
		case "C11", "C12":
			var c *FormCase
			if desc != "" {
				c = &FormCase{}
				mustJSON(desc, c)
				c.F.norm()
			} else {
				c = genC11(r, gidx, *tier, *prop == "C12")
			}
			if *prop == "C11" {
				runC11(e, idx, c)
			} else {
				runC12(e, idx, c)
			}
		case "C20o", "C20m", "C20e":
			var c *StreamCase
			if desc != "" {
				c = &StreamCase{}
				mustJSON(desc, c)
				c.norm()
			} else {
				c = genC20(r, gidx, *tier, *prop)
			}
			runC20(e, idx, c)
		case "C17gen", "C17":
			var c *TextCase
			if desc != "" {
				c = &TextCase{}
				mustJSON(desc, c)
			} else {
				c = genC17(r, gidx, *tier)
			}
			if *prop == "C17gen" {
				runC17gen(e, idx, c)
			} else {
				runC17(e, idx, c)
			}
		case "C19":
			var c *CliCase
			if desc != "" {
				c = &CliCase{}
				mustJSON(desc, c)
				c.norm()
			} else {
				c = genC19(r, gidx, *tier)
			}
			runC19(e, idx, c)
		case "C18":
			var c *PrintCase
			if desc != "" {
				c = &PrintCase{}
				mustJSON(desc, c)
				c.Opt.norm()
			} else {
				c = genC18(r, gidx, *tier)
			}
			runC18(e, idx, c)
		case "C13gen", "C13":
			var c *FmtCase
			if desc != "" {
				c = &FmtCase{}
				mustJSON(desc, c)
			} else {
				c = genC13(r, gidx, *tier)
			}
			if *prop == "C13gen" {
				runC13gen(e, idx, c)
			} else {
				runC13(e, idx, c)
			}
		default:
			fmt.Fprintln(os.Stderr, "unknown property", *prop)
			os.Exit(2)
		}
	}
	if *conc <= 1 {
		for idx := *from; idx < *count; idx++ {
			runOne(e, *prop, idx, idx)
		}
	} else {
		// C16: k goroutines run data-independent cases of different kinds at the same time
		jobs := make(chan int)
		var wg sync.WaitGroup
		mix := []string{"C01", "C05", "C03", "C04", "C07", "C11", "C02", "C09"}
		judges := map[string]string{"C01": "solve", "C02": "solve", "C05": "C05", "C03": "C03", "C04": "C04", "C07": "C07", "C11": "C11", "C09": "C09"}
		for w := 0; w < *conc; w++ {
			wg.Add(1)
			go func() {
				defer wg.Done()
				for idx := range jobs {
					p := mix[idx%len(mix)]
					runOne(e.with(judges[p]), p, idx, 20000+idx)
				}
			}()
		}
		for idx := *from; idx < *count; idx++ {
			jobs <- idx
		}
		close(jobs)
		wg.Wait()
	}
	if *progress != "" {
		os.WriteFile(*progress, []byte("done\n"), 0o644)
	}
}

func mustJSON(s string, v interface{}) {
	if err := json.Unmarshal([]byte(s), v); err != nil {
		fmt.Fprintln(os.Stderr, "bad descriptor:", err)
		os.Exit(2)
	}
}
