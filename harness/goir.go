package main

import (
	"math/rand"

	"github.com/crillab/gophersat/solver"
)

// Part G02: the constraint constructors of solver/pb.go and solver/card.go are run on generated arguments; the result AND
// what the caller's slices hold afterwards (the constructors "take ownership": they write through their arguments) are
// compared with what the interpreter of coq/Model/GoIR.v computes on the syntax trees regenerated from the same sources
// (coq/Gen/GoSrc.v, judge coq/Judge/J25.v).  This checks the translator and the slice semantics of the embedded language —
// the two things the refinement theorems of coq/Properties/C02g.v trust — against the Go compiler, on every run.
//
// case: (fn (arg ...))      arg: (0 z) int | (1) nil slice | (2 (z ...)) non-nil slice | (3 arg ...) struct
// obs:  (status panicked result (arg-after ...))
//       value: (0 z) | (1) nil | (2 (z ...)) | (3 value ...) struct | (4 value ...) slice of structs

type GoirCase struct {
	Fn   int     `json:"fn"`
	Lits []int   `json:"lits"`
	LNil bool    `json:"lnil"`
	Ws   []int   `json:"ws"`
	WNil bool    `json:"wnil"`
	N    int     `json:"n"`
	Tag  string  `json:"tag"`
}

var goirNames = []string{"WeightSum", "PropClause", "AtLeast", "AtMost", "GtEq", "LtEq", "Eq", "AtLeast1", "AtMost1", "Exactly1"}

func slArg(xs []int, isNil bool) Sx {
	if isNil {
		return L(I(1))
	}
	return L(I(2), Ints(xs))
}

func slVal(xs []int) Sx {
	if xs == nil {
		return L(I(1))
	}
	return L(I(2), Ints(xs))
}

func pbVal(c solver.PBConstr) Sx { return L(I(3), slVal(c.Lits), slVal(c.Weights), L(I(0), I(c.AtLeast))) }
func cardVal(c solver.CardConstr) Sx { return L(I(3), slVal(c.Lits), L(I(0), I(c.AtLeast))) }

func mkSlice(xs []int, isNil bool) []int {
	if isNil {
		return nil
	}
	out := make([]int, len(xs))
	copy(out, xs)
	return out
}

func genGoir(r *rand.Rand, idx int, tier string) *GoirCase {
	c := &GoirCase{Fn: r.Intn(len(goirNames))}
	// the interesting functions more often
	if r.Intn(2) == 0 {
		c.Fn = 4 + r.Intn(3)
	}
	maxLen := 6
	if tier == "thorough" {
		maxLen = 12
	}
	n := r.Intn(maxLen + 1)
	switch r.Intn(10) {
	case 0:
		c.LNil = true
		n = 0
	case 1:
		n = 0 // empty, not nil
	}
	c.Lits = make([]int, n)
	for i := range c.Lits {
		v := 1 + r.Intn(8)
		if r.Intn(2) == 0 {
			v = -v
		}
		c.Lits[i] = v
	}
	m := n
	switch r.Intn(12) {
	case 0:
		c.WNil = true
		m = 0
	case 1:
		m = 0 // empty, not nil
	case 2:
		m = r.Intn(maxLen + 1) // any length: a panic when it differs
	case 3:
		if n > 0 {
			m = n - 1
		} else {
			m = 1
		}
	}
	c.Ws = make([]int, m)
	wmax := 3
	if r.Intn(4) == 0 {
		wmax = 40
	}
	zeroRich := r.Intn(4) == 0
	for i := range c.Ws {
		c.Ws[i] = r.Intn(2*wmax+1) - wmax
		if zeroRich && r.Intn(2) == 0 {
			c.Ws[i] = 0
		}
	}
	c.N = r.Intn(2*wmax*(n+1)+1) - wmax*(n+1)/2
	c.Tag = goirNames[c.Fn]
	return c
}

func runGoir(e *emitter, idx int, c *GoirCase) {
	lits := mkSlice(c.Lits, c.LNil)
	ws := mkSlice(c.Ws, c.WNil)
	var args []Sx
	var after func() []Sx
	var call func() Sx
	la, wa, na := slArg(c.Lits, c.LNil), slArg(c.Ws, c.WNil), L(I(0), I(c.N))
	switch c.Fn {
	case 0:
		pc := solver.PBConstr{Lits: lits, Weights: ws, AtLeast: c.N}
		args = []Sx{L(I(3), la, wa, na)}
		call = func() Sx { return L(I(0), I(pc.WeightSum())) }
		after = func() []Sx { return []Sx{L(I(3), slVal(lits), slVal(ws), na)} }
	case 1:
		args = []Sx{la}
		call = func() Sx { return pbVal(solver.PropClause(lits...)) }
		after = func() []Sx { return []Sx{slVal(lits)} }
	case 2:
		args = []Sx{la, na}
		call = func() Sx { return pbVal(solver.AtLeast(lits, c.N)) }
		after = func() []Sx { return []Sx{slVal(lits), na} }
	case 3:
		args = []Sx{la, na}
		call = func() Sx { return pbVal(solver.AtMost(lits, c.N)) }
		after = func() []Sx { return []Sx{slVal(lits), na} }
	case 4, 5:
		args = []Sx{la, wa, na}
		call = func() Sx {
			if c.Fn == 4 {
				return pbVal(solver.GtEq(lits, ws, c.N))
			}
			return pbVal(solver.LtEq(lits, ws, c.N))
		}
		after = func() []Sx { return []Sx{slVal(lits), slVal(ws), na} }
	case 6:
		args = []Sx{la, wa, na}
		call = func() Sx {
			res := solver.Eq(lits, ws, c.N)
			if res == nil {
				return L(I(1))
			}
			items := []Sx{I(4)}
			for _, p := range res {
				items = append(items, pbVal(p))
			}
			return L(items...)
		}
		after = func() []Sx { return []Sx{slVal(lits), slVal(ws), na} }
	case 7:
		args = []Sx{la}
		call = func() Sx { return cardVal(solver.AtLeast1(lits...)) }
		after = func() []Sx { return []Sx{slVal(lits)} }
	case 8:
		args = []Sx{la}
		call = func() Sx { return cardVal(solver.AtMost1(lits...)) }
		after = func() []Sx { return []Sx{slVal(lits)} }
	default:
		args = []Sx{la}
		call = func() Sx {
			res := solver.Exactly1(lits...)
			items := []Sx{I(4)}
			for _, p := range res {
				items = append(items, cardVal(p))
			}
			return L(items...)
		}
		after = func() []Sx { return []Sx{slVal(lits)} }
	}
	csx := L(I(c.Fn), L(args...))
	meta := Meta{Class: "goir/" + goirNames[c.Fn], Desc: c}
	e.begin(idx, csx, meta)
	var res Sx
	status, msg := guard(caseTimeout, func() { res = call() })
	meta.Msg = msg
	var obs Sx
	switch status {
	case 0:
		obs = L(I(0), I(0), res, L(after()...))
	case 1:
		obs = L(I(0), I(1), L(I(1)), L())
	default:
		obs = L(I(status), I(0), L(I(1)), L())
	}
	e.emit(csx, obs, meta)
	if status == 2 {
		e.out.Sync()
		panic("timeout: restart")
	}
}
