package main

import (
	"fmt"
	"math/rand"
	"strconv"
	"strings"

	"github.com/crillab/gophersat/solver"
)

// parsePBLines reads the constraint lines printed by Clause.PBString / Problem.PBString / Solver.PBString
// ("3 x1 +2 ~x4 >= 1 ;", "1 x3 = 1 ;", "1 ~x3 = 1 ;", "1 x3 = 0 ;") back into constraints. Comment and
// min: lines are skipped. This is plain text splitting: the meaning is given by the Coq judge.
func parsePBLines(text string) []Con {
	var res []Con
	for _, line := range strings.Split(text, "\n") {
		line = strings.TrimSpace(line)
		if line == "" || line[0] == '*' || strings.HasPrefix(line, "min:") {
			continue
		}
		line = strings.TrimSuffix(line, ";")
		fields := strings.Fields(line)
		if len(fields) < 3 {
			panic("unreadable constraint line: " + line)
		}
		op := fields[len(fields)-2]
		rhs, err := strconv.Atoi(fields[len(fields)-1])
		if err != nil {
			panic("unreadable constraint line: " + line)
		}
		c := Con{Kind: "gteq", K: rhs}
		if op == "=" {
			c.Kind = "eq"
		} else if op != ">=" {
			panic("unreadable constraint line: " + line)
		}
		terms := fields[:len(fields)-2]
		for i := 0; i+1 < len(terms); i += 2 {
			w, err := strconv.Atoi(terms[i])
			if err != nil {
				panic("unreadable constraint line: " + line)
			}
			name := terms[i+1]
			neg := false
			if strings.HasPrefix(name, "~") {
				neg = true
				name = name[1:]
			}
			v, err := strconv.Atoi(strings.TrimPrefix(name, "x"))
			if err != nil || !strings.HasPrefix(name, "x") {
				panic("unreadable constraint line: " + line)
			}
			if neg {
				v = -v
			}
			c.Lits = append(c.Lits, v)
			c.Ws = append(c.Ws, w)
		}
		if c.Lits == nil {
			c.Lits, c.Ws = []int{}, []int{}
		}
		res = append(res, c)
	}
	return res
}

func consSx(cons []Con) Sx {
	items := make([]Sx, len(cons))
	for i, c := range cons {
		rel := relGe
		if c.Kind == "eq" {
			rel = relEq
		}
		fields := []Sx{I(rel), I(c.K)}
		for j, l := range c.Lits {
			fields = append(fields, L(I(c.Ws[j]), I(l)))
		}
		items[i] = Sx{List: fields}
	}
	return Sx{List: items}
}

func (p *Prob) nonClausal() bool {
	for _, c := range p.Cons {
		if c.Kind != "clause" && c.Kind != "alo1" {
			return true
		}
	}
	return false
}

func pigeonCard(holes int) []Con { // pigeonhole with cardinality constraints
	var cons []Con
	v := func(p, h int) int { return p*holes + h + 1 }
	for p := 0; p <= holes; p++ {
		c := make([]int, holes)
		for h := 0; h < holes; h++ {
			c[h] = v(p, h)
		}
		cons = append(cons, Con{Kind: "clause", Lits: c})
	}
	for h := 0; h < holes; h++ {
		c := make([]int, holes+1)
		for p := 0; p <= holes; p++ {
			c[p] = v(p, h)
		}
		cons = append(cons, Con{Kind: "amo1", Lits: c})
	}
	return cons
}

func genC14(r *rand.Rand, idx int, tier string) *SolveCase {
	nmax := 9
	if tier == "thorough" {
		nmax = 13
	}
	fams := []string{"cnf", "cnf3", "card", "pb", "pb", "pigeoncard", "pigeon", "amorich"}
	fam := fams[r.Intn(len(fams))]
	var p *Prob
	switch fam {
	case "pigeoncard":
		p = &Prob{Front: []string{"card", "pb"}[r.Intn(2)], Cons: pigeonCard(2 + r.Intn(2)), Class: "pigeoncard"}
	case "pigeon":
		p = &Prob{Front: "slice", Cons: pigeonhole(2 + r.Intn(2)), Class: "pigeon"}
	case "amorich":
		p = genAMORich(r, 3+r.Intn(nmax-3))
	case "cnf3":
		p = genProblem(r, fam, 3+r.Intn(nmax-2))
	default:
		p = genProblem(r, fam, 2+r.Intn(nmax-1))
	}
	c := &SolveCase{P: p, Cfg: SolveCfg{CP: true}}
	if r.Intn(2) == 0 {
		c.Cfg.AMO = true
	}
	if r.Intn(4) == 0 {
		c.Cfg.NbMax = 4
	}
	if r.Intn(4) == 0 {
		c.Cfg.Rst = 1 + r.Intn(6)
	}
	return c
}

// genAMORich: CNF rich in binary clauses: complete and incomplete cliques of negative and mixed literals,
// overlapping cliques, repeated binaries, binaries in no clique, then longer clauses placed AFTER the binaries.
func genAMORich(r *rand.Rand, n int) *Prob {
	var cons []Con
	ngroups := 1 + r.Intn(3)
	for g := 0; g < ngroups; g++ {
		k := 2 + r.Intn(min(n, 5)-1)
		lits := distinctLits(r, n, k)
		if r.Intn(3) != 0 { // the usual encoding: at most one TRUE among positive variables -> binaries over negative literals
			for i := range lits {
				lits[i] = -abs(lits[i])
			}
		}
		for i := 0; i < len(lits); i++ {
			for j := i + 1; j < len(lits); j++ {
				if r.Intn(8) == 0 {
					continue // incomplete clique
				}
				cl := []int{lits[i], lits[j]}
				if r.Intn(2) == 0 {
					cl[0], cl[1] = cl[1], cl[0]
				}
				cons = append(cons, Con{Kind: "clause", Lits: cl})
				if r.Intn(10) == 0 {
					cons = append(cons, Con{Kind: "clause", Lits: cp(cl)}) // repeated binary
				}
			}
		}
	}
	for i := r.Intn(3); i > 0; i-- { // binaries that belong to no clique
		cons = append(cons, Con{Kind: "clause", Lits: distinctLits(r, n, 2)})
	}
	if r.Intn(2) == 0 {
		r.Shuffle(len(cons), func(i, j int) { cons[i], cons[j] = cons[j], cons[i] })
	}
	for i := r.Intn(4); i > 0; i-- {
		cons = append(cons, Con{Kind: "clause", Lits: distinctLits(r, n, 3+r.Intn(2))})
	}
	p := &Prob{Front: "slice", Cons: cons, Class: "amorich"}
	if r.Intn(3) == 0 { // PB constraints after the binaries
		for i := 1 + r.Intn(2); i > 0; i-- {
			p.Cons = append(p.Cons, genCardCon(r, n, false))
		}
		p.Front = "pb"
		p.Class = "amorich-pb"
	}
	return p
}

func runC14(e *emitter, idx int, c *SolveCase) {
	csx := c.P.Sx()
	meta := Meta{Class: c.P.Class + "/" + c.P.Front, Desc: c, Extra: map[string]interface{}{"cp": c.Cfg.CP, "amo": c.Cfg.AMO, "nonclausal": c.P.nonClausal(), "hooks": hooksOn}}
	e.begin(idx, csx, meta)
	var verdict int
	var model []bool
	var learnedCons []Con
	status, msg := guard(caseTimeout, func() {
		pb, err := c.P.Build()
		if err != nil {
			panic(fmt.Sprintf("parse error: %v", err))
		}
		if c.Cfg.AMO {
			pb.DetectAtMostOne()
		}
		s := solver.New(pb)
		s.CuttingPlanes = c.Cfg.CP
		if c.Cfg.NbMax > 0 {
			setNbMax(s, c.Cfg.NbMax)
		}
		if c.Cfg.Rst > 0 {
			setRestart(s, c.Cfg.Rst)
		}
		st := s.Solve()
		verdict = verdictCode(st)
		if st == solver.Sat {
			model = s.Model()
		}
		learnedCons = parsePBLines(strings.Join(learned(s), "\n"))
	})
	meta.Msg = msg
	e.emit(csx, L(I(status), I(verdict), Bools(model), consSx(learnedCons)), meta)
	if status == 2 {
		e.out.Sync()
		panic("timeout: restart")
	}
}

func genC14opt(r *rand.Rand, idx int, tier string) *OptCase {
	c := genC03(r, idx, tier)
	for c.P.Front == "opb" { // keep the OPB route (and its negative-cost finding) out of this check
		c = genC03(r, idx+1000003, tier)
		idx += 1000003
	}
	c.CP = true
	return c
}

// ---------------------------------------------------------------- C15

func runC15(e *emitter, idx int, c *SolveCase) {
	csx := c.P.Sx()
	meta := Meta{Class: c.P.Class + "/" + c.P.Front, Desc: c}
	e.begin(idx, csx, meta)
	var after []Con
	status, msg := guard(caseTimeout, func() {
		pb, err := c.P.Build()
		if err != nil {
			panic(fmt.Sprintf("parse error: %v", err))
		}
		if pb.Status == solver.Unsat { // nothing to compare: the clause list of a trivially Unsat problem is unspecified
			after = []Con{{Kind: "gteq", Lits: []int{}, Ws: []int{}, K: 1}}
			return
		}
		pb.DetectAtMostOne()
		after = parsePBLines(pb.PBString())
	})
	meta.Msg = msg
	e.emit(csx, L(I(status), consSx(after)), meta)
	if status == 2 {
		e.out.Sync()
		panic("timeout: restart")
	}
}

func genC15(r *rand.Rand, idx int, tier string) *SolveCase {
	nmax := 9
	if tier == "thorough" {
		nmax = 12
	}
	var p *Prob
	switch r.Intn(6) {
	case 0:
		p = genProblem(r, "cnf", 2+r.Intn(nmax-1))
	case 1:
		p = &Prob{Front: "slice", Cons: pigeonhole(2 + r.Intn(2)), Class: "pigeon"}
	default:
		p = genAMORich(r, 3+r.Intn(nmax-3))
	}
	if p.Front == "dimacs" {
		p.Front = "slicenb"
	}
	return &SolveCase{P: p, Cfg: SolveCfg{AMO: true}}
}
