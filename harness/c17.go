package main

import (
	"math/rand"
	"sort"
	"strings"

	"github.com/crillab/gophersat/bf"
)

// AstD is a syntax tree of the documented formula syntax.
type AstD struct {
	Op    string   `json:"op"` // var not bin uniq
	Name  string   `json:"name,omitempty"`
	O     int      `json:"o,omitempty"` // bin: 0 ';' 1 '=' 2 '->' 3 '|' 4 '&'
	Args  []*AstD  `json:"args,omitempty"`
	Names []string `json:"names,omitempty"`
}

// TextCase: generation descriptor (Gen, Lay, Corrupt) and, after the pre-render step, the text.
type TextCase struct {
	Gen     *AstD `json:"gen"`
	Lay     []int `json:"lay"`
	Corrupt int64 `json:"corrupt"` // 0: none; otherwise seed of a token-level corruption
	Text    []int `json:"text,omitempty"`
}

func (a *AstD) sx() Sx {
	switch a.Op {
	case "var":
		return L(I(0), Bytes(a.Name))
	case "not":
		return L(I(1), a.Args[0].sx())
	case "bin":
		return L(I(2), I(a.O), a.Args[0].sx(), a.Args[1].sx())
	}
	items := []Sx{I(3)}
	for _, n := range a.Names {
		items = append(items, Bytes(n))
	}
	return Sx{List: items}
}

var namePool = []string{"a", "b", "c", "d", "e", "x1", "if", "_y", "7", "go"}

// astBias >= 0: that operator is drawn six times out of ten (long runs and nestings of ONE operator, on both sides and
// under parentheses: associativity and the handling of lists are statements about repeated operators)
var astBias = -1

func genAst(r *rand.Rand, names []string, depth int) *AstD {
	if depth == 0 || r.Intn(4) == 0 {
		return &AstD{Op: "var", Name: names[r.Intn(len(names))]}
	}
	switch r.Intn(8) {
	case 0:
		return &AstD{Op: "not", Args: []*AstD{genAst(r, names, depth-1)}}
	case 1:
		k := 1 + r.Intn(min(7, len(names)))
		perm := r.Perm(len(names))
		ns := make([]string, k)
		for i := range ns {
			ns[i] = names[perm[i]]
		}
		return &AstD{Op: "uniq", Names: ns}
	default:
		o := r.Intn(5)
		if astBias >= 0 && r.Intn(10) < 6 {
			o = astBias
		}
		return &AstD{Op: "bin", O: o, Args: []*AstD{genAst(r, names, depth-1), genAst(r, names, depth-1)}}
	}
}

func genC17(r *rand.Rand, idx int, tier string) *TextCase {
	k := 1 + r.Intn(5)
	perm := r.Perm(len(namePool))
	names := make([]string, k)
	for i := range names {
		names[i] = namePool[perm[i]]
	}
	depth := 1 + r.Intn(5)
	if tier == "thorough" {
		depth = 1 + r.Intn(6)
	}
	astBias = -1
	if r.Intn(3) == 0 {
		astBias = r.Intn(5)
		if depth < 3 {
			depth = 3
		}
	}
	c := &TextCase{Gen: genAst(r, names, depth)}
	astBias = -1
	for i := 10 + r.Intn(60); i > 0; i-- {
		switch r.Intn(3) {
		case 0:
			c.Lay = append(c.Lay, 0)
		default:
			c.Lay = append(c.Lay, r.Intn(8))
		}
	}
	if r.Intn(3) == 0 {
		c.Corrupt = 1 + r.Int63n(1<<40)
	}
	return c
}

func runC17gen(e *emitter, idx int, c *TextCase) {
	csx := L(Ints(c.Lay), c.Gen.sx())
	meta := Meta{Class: "gen", Desc: c}
	e.begin(idx, csx, meta)
	e.emit(csx, L(), meta)
}

// formulaTokens splits a text of the documented syntax into tokens (names and single punctuation signs), skipping
// blanks and comments.
func formulaTokens(s string) []string {
	var toks []string
	i := 0
	isName := func(b byte) bool {
		return b == '_' || b >= '0' && b <= '9' || b >= 'a' && b <= 'z' || b >= 'A' && b <= 'Z'
	}
	for i < len(s) {
		switch {
		case s[i] == ' ' || s[i] == '\t' || s[i] == '\n' || s[i] == '\r':
			i++
		case strings.HasPrefix(s[i:], "//"):
			for i < len(s) && s[i] != '\n' {
				i++
			}
		case strings.HasPrefix(s[i:], "/*"):
			j := strings.Index(s[i+2:], "*/")
			if j < 0 {
				i = len(s)
			} else {
				i += j + 4
			}
		case isName(s[i]):
			j := i
			for j < len(s) && isName(s[j]) {
				j++
			}
			toks = append(toks, s[i:j])
			i = j
		default:
			toks = append(toks, s[i:i+1])
			i++
		}
	}
	return toks
}

func corruptTokens(r *rand.Rand, toks []string) []string {
	if len(toks) == 0 {
		return []string{")"}
	}
	k := r.Intn(len(toks))
	out := append([]string{}, toks...)
	switch r.Intn(7) {
	case 0: // delete one token
		out = append(out[:k], out[k+1:]...)
	case 1: // duplicate one token
		out = append(out[:k+1], out[k:]...)
	case 2: // swap two neighbours
		if k+1 < len(out) {
			out[k], out[k+1] = out[k+1], out[k]
		}
	case 3: // drop a parenthesis / brace
		for j := 0; j < len(out); j++ {
			p := (k + j) % len(out)
			if out[p] == "(" || out[p] == ")" || out[p] == "{" || out[p] == "}" {
				out = append(out[:p], out[p+1:]...)
				break
			}
		}
	case 4: // append a token
		out = append(out, []string{"a", ")", "&", "}", ";", "|", "^", ","}[r.Intn(8)])
	case 5: // replace one token (in particular a closing parenthesis by a stray token)
		repl := []string{"a", "b", ")", "(", "&", "|", "}", ",", "^", "1"}[r.Intn(10)]
		if r.Intn(2) == 0 { // prefer the last closing parenthesis
			for p := len(out) - 1; p >= 0; p-- {
				if out[p] == ")" {
					k = p
					break
				}
			}
		}
		out[k] = repl
	default: // insert a stray punctuation sign
		out = append(out[:k], append([]string{[]string{",", "}", "-", ">", "(", "{", "&"}[r.Intn(7)]}, out[k:]...)...)
	}
	return out
}

func runC17(e *emitter, idx int, c *TextCase) {
	b := make([]byte, len(c.Text))
	for i, v := range c.Text {
		b[i] = byte(v)
	}
	text := string(b)
	mode := 0
	if c.Corrupt != 0 {
		mode = 1
		text = strings.Join(corruptTokens(rand.New(rand.NewSource(c.Corrupt)), formulaTokens(text)), " ")
	}
	seen := map[string]bool{}
	var names []string
	for _, t := range formulaTokens(text) {
		if (t[0] == '_' || t[0] >= '0' && t[0] <= '9' || t[0] >= 'a' && t[0] <= 'z' || t[0] >= 'A' && t[0] <= 'Z') && !seen[t] {
			seen[t] = true
			names = append(names, t)
		}
	}
	sort.Strings(names)
	if len(names) > 6 {
		names = names[:6]
	}
	nameSx := make([]Sx, len(names))
	for i, n := range names {
		nameSx[i] = Bytes(n)
	}
	astSx := L()
	if mode == 0 {
		astSx = c.Gen.sx()
	}
	csx := L(I(mode), astSx, Bytes(text), Sx{List: nameSx})
	meta := Meta{Class: []string{"rendered", "corrupted"}[mode], Desc: c}
	e.begin(idx, csx, meta)
	errCode := 0
	var tt []bool
	status, msg := guard(caseTimeout, func() {
		f, err := bf.Parse(strings.NewReader(text))
		if err != nil {
			errCode = 1
			if f != nil {
				panic("error returned together with a formula")
			}
			return
		}
		n := len(names)
		for j := 0; j < 1<<n; j++ {
			env := map[string]bool{}
			for i, nm := range names {
				env[nm] = j>>i&1 == 1
			}
			tt = append(tt, f.Eval(env))
		}
	})
	meta.Msg = msg
	e.emit(csx, L(I(status), I(errCode), Bools(tt)), meta)
	if status == 2 {
		e.out.Sync()
		panic("timeout: restart")
	}
}
