package main

import "math/rand"

// Parts G14 / G08: as G02 (goir.go) for the functions translated into the language of coq/Model/GoIR2.v:
//   G14  the cutting-planes helpers of solver/learn_pb.go (clash, divideBy, roundToOne, falsifies, backtrackLevel,
//        onlyFalsified) and abs / min, run through the hook VerifPBSetOp (tag verif);
//   G08  the unit propagation of the certificate checker, (*explain.Problem).unsat, through the hook explain.VerifUnsat.
// The judge coq/Judge/J26.v runs the interpreter on the syntax trees regenerated from the same sources
// (coq/Gen/GoSrc2.v, GoSrcX.v) and compares result, panic and everything the call wrote through its arguments.
//
// G14 case: (op (w1 ...) c1 (w2 ...) c2 (model ...) (trail ...) a b)    obs: (status panicked (w1 ...) c1 res)
// G08 case: ((clause ...) nbClauses (unit ...) (tagged ...))            obs: (status panicked res (unit ...) (tagged ...))

type PBOpCase struct {
	Op    int   `json:"op"`
	W1    []int `json:"w1"`
	C1    int   `json:"c1"`
	W2    []int `json:"w2"`
	C2    int   `json:"c2"`
	Model []int `json:"model"`
	Trail []int `json:"trail"`
	A     int   `json:"a"`
	B     int   `json:"b"`
}

var pbOpNames = []string{"clash", "divideBy", "roundToOne", "falsifies", "backtrackLevel", "onlyFalsified", "abs", "min"}

func genPBOp(r *rand.Rand, idx int, tier string) *PBOpCase {
	c := &PBOpCase{Op: r.Intn(6)}
	if r.Intn(12) == 0 {
		c.Op = 6 + r.Intn(2)
	}
	maxN := 7
	if tier == "thorough" {
		maxN = 14
	}
	n := 1 + r.Intn(maxN)
	wmax := 6
	if r.Intn(3) == 0 {
		wmax = 30
	}
	ws := func(m int) []int {
		out := make([]int, m)
		for i := range out {
			if r.Intn(3) != 0 {
				out[i] = r.Intn(2*wmax+1) - wmax
			}
		}
		return out
	}
	c.W1 = ws(n)
	m := n
	if r.Intn(15) == 0 {
		m = r.Intn(n + 2) // a shorter second constraint: index out of range
	}
	c.W2 = ws(m)
	c.C1 = r.Intn(4*wmax) - wmax
	c.C2 = r.Intn(4*wmax) - wmax
	c.Model = make([]int, n)
	for i := range c.Model {
		if r.Intn(4) != 0 {
			c.Model[i] = r.Intn(9) - 4
		}
	}
	tl := r.Intn(n + 3)
	c.Trail = make([]int, tl)
	for i := range c.Trail {
		c.Trail[i] = r.Intn(2 * n)
	}
	switch c.Op {
	case 1: // coefficient, sometimes 0 (division by zero) or negative
		c.A = r.Intn(9) - 2
		if r.Intn(3) == 0 {
			c.A = 1 + r.Intn(wmax)
		}
	case 2: // locked variable, level
		c.A = r.Intn(n)
		if r.Intn(20) == 0 {
			c.A = n + r.Intn(2)
		}
		c.B = r.Intn(5)
	case 3, 4: // a literal in the internal encoding
		c.A = r.Intn(2 * n)
		if r.Intn(25) == 0 {
			c.A = 2*n + r.Intn(3)
		}
	case 5: // position on the trail, level
		c.A = r.Intn(tl+1) - 1
		c.B = r.Intn(5)
	default:
		c.A = r.Intn(41) - 20
		c.B = r.Intn(41) - 20
	}
	return c
}

func runPBOp(e *emitter, idx int, c *PBOpCase) {
	csx := L(I(c.Op), Ints(c.W1), I(c.C1), Ints(c.W2), I(c.C2), Ints(c.Model), Ints(c.Trail), I(c.A), I(c.B))
	meta := Meta{Class: "goir2/" + pbOpNames[c.Op], Desc: c}
	e.begin(idx, csx, meta)
	w1 := append([]int{}, c.W1...)
	var card, res int
	status, msg := guard(caseTimeout, func() {
		card, res = pbSetOp(c.Op, w1, c.C1, append([]int{}, c.W2...), c.C2, append([]int{}, c.Model...), append([]int{}, c.Trail...), c.A, c.B)
	})
	meta.Msg = msg
	obs := L(I(0), I(0), Ints(w1), I(card), I(res))
	if status == 1 {
		obs = L(I(0), I(1), L(), I(0), I(0))
	} else if status == 2 {
		obs = L(I(2), I(0), L(), I(0), I(0))
	}
	e.emit(csx, obs, meta)
	if status == 2 {
		e.out.Sync()
		panic("timeout: restart")
	}
}

type UPCase struct {
	Clauses [][]int `json:"clauses"`
	Nb      int     `json:"nb"`
	Units   []int   `json:"units"`
	Tagged  []bool  `json:"tagged"`
}

func genUP(r *rand.Rand, idx int, tier string) *UPCase {
	maxV := 6
	if tier == "thorough" {
		maxV = 10
	}
	nv := 1 + r.Intn(maxV)
	nc := r.Intn(2*nv + 3)
	c := &UPCase{}
	unitRich := r.Intn(2) == 0
	for i := 0; i < nc; i++ {
		l := 1 + r.Intn(3)
		if unitRich && r.Intn(2) == 0 {
			l = 1 + r.Intn(2)
		}
		if r.Intn(30) == 0 {
			l = 0
		}
		cl := make([]int, l)
		for j := range cl {
			v := 1 + r.Intn(nv)
			if r.Intn(60) == 0 {
				v = nv + 1 // a variable the units slice does not cover: index out of range
			}
			if r.Intn(2) == 0 {
				v = -v
			}
			cl[j] = v
			if j > 0 && r.Intn(8) == 0 {
				cl[j] = cl[j-1] // the same literal again
			}
		}
		c.Clauses = append(c.Clauses, cl)
	}
	if c.Clauses == nil {
		c.Clauses = [][]int{}
	}
	c.Nb = nc
	if nc > 0 && r.Intn(3) == 0 {
		c.Nb = r.Intn(nc + 1) // the last clauses are certificate lines already added
	}
	c.Units = make([]int, nv)
	for i := range c.Units {
		if r.Intn(4) == 0 {
			c.Units[i] = 1 - 2*r.Intn(2)
		}
	}
	c.Tagged = make([]bool, c.Nb)
	for i := range c.Tagged {
		c.Tagged[i] = r.Intn(5) == 0
	}
	return c
}

func runUP(e *emitter, idx int, c *UPCase) {
	cls := make([]Sx, len(c.Clauses))
	for i, cl := range c.Clauses {
		cls[i] = Ints(cl)
	}
	csx := L(L(cls...), I(c.Nb), Ints(c.Units), Bools(c.Tagged))
	meta := Meta{Class: "goir2/unsat", Desc: c}
	e.begin(idx, csx, meta)
	units := append([]int{}, c.Units...)
	tagged := append([]bool{}, c.Tagged...)
	clauses := make([][]int, len(c.Clauses))
	for i, cl := range c.Clauses {
		clauses[i] = append([]int{}, cl...)
	}
	var res bool
	status, msg := guard(caseTimeout, func() { res = explainUnsat(clauses, c.Nb, units, tagged) })
	meta.Msg = msg
	obs := L(I(0), I(0), B(res), Ints(units), Bools(tagged))
	if status == 1 {
		obs = L(I(0), I(1), B(false), L(), L())
	} else if status == 2 {
		obs = L(I(2), I(0), B(false), L(), L())
	}
	e.emit(csx, obs, meta)
	if status == 2 {
		e.out.Sync()
		panic("timeout: restart")
	}
}
