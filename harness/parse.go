package main

import (
	"fmt"
	"math/rand"
	"strings"

	"github.com/crillab/gophersat/solver"
)

// Parts P01 / P02: the STRUCTURE of the Problem the front ends build (NbVars, Status, Units, Model, Clauses in order, each
// with its literals in order, its weights and its degree) is compared with what the mirrored front ends of
// coq/Model/Simplify.v and coq/Model/Solve.v build from the same arguments (judge coq/Judge/J23.v), and the outputs of the
// constructors GtEq / LtEq / Eq with coq/Model/PBNorm.v.
//
// case: (front input ctors)
//   front 0 ParseSliceNb : input (n (clause ...))            (ParseSlice is n = 0)
//   front 1 ParseCNF     : input (byte ...)
//   front 2 ParseCardConstrs : input ((atleast (lit ...)) ...)
//   front 3 ParsePBConstrs   : input ((atleast (lit ...) nilweights (weight ...)) ...)
//   ctors: ((rel rhs (lit ...) (weight ...) ((atleast (lit ...) nilweights (weight ...)) ...)) ...)   constructor calls and results
// obs: (status err (nbvars statuscode (unit ...) (model ...) ((card (lit ...) pb (weight ...)) ...)))

func pbConstrSx(c solver.PBConstr) Sx {
	return L(I(c.AtLeast), Ints(c.Lits), B(c.Weights == nil), Ints(c.Weights))
}

func problemSx(pb *solver.Problem) Sx {
	units := make([]int, len(pb.Units))
	for i, u := range pb.Units {
		units[i] = int(u.Int())
	}
	model := make([]int, len(pb.Model))
	for i, m := range pb.Model {
		model[i] = int(m)
	}
	cls := make([]Sx, len(pb.Clauses))
	for i, c := range pb.Clauses {
		lits := make([]int, c.Len())
		ws := make([]int, c.Len())
		for j := 0; j < c.Len(); j++ {
			lits[j] = int(c.Get(j).Int())
			ws[j] = c.Weight(j)
		}
		if !c.PseudoBoolean() {
			ws = nil
		}
		cls[i] = L(I(c.Cardinality()), Ints(lits), B(c.PseudoBoolean()), Ints(ws))
	}
	return L(I(pb.NbVars), I(verdictCode(pb.Status)), Ints(units), Ints(model), L(cls...))
}

func genParse(r *rand.Rand, part string, idx int, tier string) *Prob {
	if part == "P02" {
		return genC02(r, idx, tier).P
	}
	return genC01(r, idx, tier).P
}

func runParse(e *emitter, idx int, p *Prob) {
	var front int
	var input Sx
	var ctors []Sx
	var build func() (*solver.Problem, error)
	switch p.Front {
	case "slice", "slicenb":
		n := 0
		if p.Front == "slicenb" {
			n = p.N
		}
		cls := p.Clauses()
		front, input = 0, L(I(n), IntLists(cls))
		build = func() (*solver.Problem, error) {
			if p.Front == "slice" {
				return solver.ParseSlice(p.Clauses()), nil
			}
			return solver.ParseSliceNb(p.Clauses(), n), nil
		}
	case "dimacs":
		text := p.Text
		if text == "" {
			text = dimacsText(p.NbVars(), p.Clauses())
		}
		front, input = 1, Bytes(text)
		build = func() (*solver.Problem, error) { return solver.ParseCNF(strings.NewReader(text)) }
	case "card":
		var cs []solver.CardConstr
		for _, c := range p.Cons {
			cs = append(cs, c.Card()...)
		}
		items := make([]Sx, len(cs))
		for i, c := range cs {
			items[i] = L(I(c.AtLeast), Ints(c.Lits))
		}
		front, input = 2, L(items...)
		build = func() (*solver.Problem, error) {
			cp2 := make([]solver.CardConstr, len(cs))
			for i, c := range cs {
				cp2[i] = solver.CardConstr{Lits: cp(c.Lits), AtLeast: c.AtLeast}
			}
			return solver.ParseCardConstrs(cp2), nil
		}
	case "pb":
		var cs []solver.PBConstr
		for _, c := range p.Cons {
			out := c.PB()
			cs = append(cs, out...)
			if c.Kind == "gteq" || c.Kind == "lteq" || c.Kind == "eq" {
				rel := map[string]int{"gteq": relGe, "lteq": relLe, "eq": relEq}[c.Kind]
				outs := make([]Sx, len(out))
				for i, o := range out {
					outs[i] = pbConstrSx(o)
				}
				ws := c.Ws
				if ws == nil {
					ws = make([]int, len(c.Lits))
					for i := range ws {
						ws[i] = 1
					}
				}
				ctors = append(ctors, L(I(rel), I(c.K), Ints(c.Lits), Ints(ws), L(outs...)))
			}
		}
		items := make([]Sx, len(cs))
		for i, c := range cs {
			items[i] = pbConstrSx(c)
		}
		front, input = 3, L(items...)
		build = func() (*solver.Problem, error) {
			cp2 := make([]solver.PBConstr, len(cs))
			for i, c := range cs {
				cp2[i] = solver.PBConstr{Lits: cp(c.Lits), Weights: cp(c.Weights), AtLeast: c.AtLeast}
			}
			return solver.ParsePBConstrs(cp2), nil
		}
	default:
		panic("front not handled by the parse part: " + p.Front)
	}
	csx := L(I(front), input, L(ctors...))
	meta := Meta{Class: p.Class + "/" + p.Front, Desc: p}
	e.begin(idx, csx, meta)
	var pb *solver.Problem
	var err error
	status, msg := guard(caseTimeout, func() { pb, err = build() })
	meta.Msg = msg
	obs := L(I(status), I(0), L())
	if status == 0 {
		if err != nil {
			meta.Msg = fmt.Sprint(err)
			obs = L(I(status), I(1), L())
		} else {
			obs = L(I(status), I(0), problemSx(pb))
		}
	}
	e.emit(csx, obs, meta)
	if status == 2 {
		e.out.Sync()
		panic("timeout: restart")
	}
}

// Part P15: the clause list of a Problem before and after DetectAtMostOne, compared with coq/Model/Amo.v detect_amo.
// case: (nbvars ((card (lit ...) pb (weight ...)) ...))    obs: (status unsat ((card (lit ...) pb (weight ...)) ...))
func runAmoStruct(e *emitter, idx int, c *SolveCase) {
	var before, after Sx
	var nb int
	unsat := false
	meta := Meta{Class: c.P.Class + "/" + c.P.Front, Desc: c}
	e.begin(idx, c.P.Sx(), meta)
	status, msg := guard(caseTimeout, func() {
		pb, err := c.P.Build()
		if err != nil {
			panic(fmt.Sprintf("parse error: %v", err))
		}
		ps := problemSx(pb)
		nb, before = pb.NbVars, ps.List[4]
		if pb.Status == solver.Unsat {
			unsat = true
			after = L()
			return
		}
		pb.DetectAtMostOne()
		after = problemSx(pb).List[4]
	})
	meta.Msg = msg
	if status != 0 {
		before, after = L(), L()
	}
	e.emit(L(I(nb), before), L(I(status), B(unsat), after), meta)
	if status == 2 {
		e.out.Sync()
		panic("timeout: restart")
	}
}
