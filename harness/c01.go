package main

import (
	"fmt"
	"math/rand"
	"strconv"
	"strings"
	"time"

	"github.com/crillab/gophersat/solver"
)

// SolveCfg is a solver configuration (C01/C06 quantify over these).
type SolveCfg struct {
	Slow  bool `json:"slow,omitempty"` // the certificate consumer pauses 120 ms after each of the first lines
	Cert  bool `json:"cert"`
	NbMax int  `json:"nbmax"`         // 0: default
	Rst   int  `json:"rst,omitempty"` // > 0: the restart policy fires at one quiet point out of Rst (hook)
	CP    bool `json:"cp"`
	AMO   bool `json:"amo"`
}

// SolveCase is the descriptor of a single-solve case.
type SolveCase struct {
	P   *Prob    `json:"p"`
	Cfg SolveCfg `json:"cfg"`
}

var tinyClauses [][]int // all clauses of length 0..3 over literals {1,-1,2,-2}

func init() {
	lits := []int{1, -1, 2, -2}
	tinyClauses = append(tinyClauses, []int{})
	for _, a := range lits {
		tinyClauses = append(tinyClauses, []int{a})
	}
	for _, a := range lits {
		for _, b := range lits {
			tinyClauses = append(tinyClauses, []int{a, b})
		}
	}
	for _, a := range lits {
		for _, b := range lits {
			for _, c := range lits {
				tinyClauses = append(tinyClauses, []int{a, b, c})
			}
		}
	}
}

// tinyCNF enumerates every ordered list of <=2 clauses of <=3 literals over 2 variables (7311 lists).
const nbTinyCNF = 1 + 85 + 85*85

func tinyCNF(k int) []Con {
	switch {
	case k == 0:
		return nil
	case k <= 85:
		return []Con{{Kind: "clause", Lits: cp(tinyClauses[k-1])}}
	default:
		k -= 86
		return []Con{{Kind: "clause", Lits: cp(tinyClauses[k/85])}, {Kind: "clause", Lits: cp(tinyClauses[k%85])}}
	}
}

func pigeonhole(holes int) []Con { // holes+1 pigeons
	var cons []Con
	v := func(p, h int) int { return p*holes + h + 1 }
	for p := 0; p <= holes; p++ {
		c := make([]int, holes)
		for h := 0; h < holes; h++ {
			c[h] = v(p, h)
		}
		cons = append(cons, Con{Kind: "clause", Lits: c})
	}
	for h := 0; h < holes; h++ {
		for p := 0; p <= holes; p++ {
			for q := p + 1; q <= holes; q++ {
				cons = append(cons, Con{Kind: "clause", Lits: []int{-v(p, h), -v(q, h)}})
			}
		}
	}
	return cons
}

func parityChain(r *rand.Rand, n int) []Con { // x1 xor x2 xor ... = b, split in xors of 3 with aux vars: many conflicts
	var cons []Con
	xor3 := func(a, b, c int, val bool) {
		for mask := 0; mask < 8; mask++ {
			ones := 0
			for i := 0; i < 3; i++ {
				if mask>>i&1 == 1 {
					ones++
				}
			}
			if (ones%2 == 1) == val {
				continue
			}
			lits := []int{a, b, c}
			for i := range lits {
				if mask>>i&1 == 1 {
					lits[i] = -lits[i]
				}
			}
			cons = append(cons, Con{Kind: "clause", Lits: lits})
		}
	}
	for i := 1; i+2 <= n; i++ {
		xor3(i, i+1, i+2, r.Intn(2) == 0)
	}
	return cons
}

func genC01(r *rand.Rand, idx int, tier string) *SolveCase {
	cfgs := []SolveCfg{{}, {Cert: true}, {NbMax: 4}, {Cert: true, NbMax: 4}, {NbMax: 20}, {Cert: true, NbMax: 20}}
	cfg := cfgs[idx%len(cfgs)]
	if idx < nbTinyCNF {
		p := &Prob{Front: "slice", Cons: tinyCNF(idx), Class: "tiny"}
		switch idx % 3 {
		case 1:
			p.Front = "slicenb"
			p.N = p.MaxVar() + 2
		case 2:
			p.Front = "dimacs"
			p.N = p.MaxVar() + idx%2
		}
		return &SolveCase{P: p, Cfg: cfg}
	}
	fams := []string{"cnf", "cnf3", "cnf3", "unitrich", "cnf3big", "pigeon", "parity", "cnf", "chain"}
	fam := fams[r.Intn(len(fams))]
	if r.Intn(800) == 0 {
		fam = "unitpairs"
	}
	var p *Prob
	switch fam {
	case "unitpairs":
		// thousands of conflicts that each teach a unit: the learned-clause database is still empty (or nearly) when its first
		// reduction comes, after 2000 conflicts (defect F43: index out of range in reduceLearned)
		n := 4000 + r.Intn(3000)
		cons := make([]Con, 0, 2*n+4)
		for i := 1; i <= n; i++ {
			cons = append(cons, Con{Kind: "clause", Lits: []int{2*i - 1, 2 * i}}, Con{Kind: "clause", Lits: []int{2*i - 1, -2 * i}})
		}
		for i := r.Intn(3); i > 0; i-- { // a few longer clauses so that some learned clauses are stored
			cons = append(cons, Con{Kind: "clause", Lits: genClause(r, 2*n, 3, 3, 0, 0)})
		}
		p = &Prob{Front: "slice", Cons: cons, Class: "unitpairs"}
	case "chain":
		p = &Prob{Front: "slice", Cons: implicationChains(r), Class: "chain"}
	case "cnf3big":
		n := 15 + r.Intn(12)
		if tier == "thorough" {
			n = 15 + r.Intn(16)
		}
		p = genProblem(r, "cnf3", n)
		p.Class = "cnf3big"
	case "pigeon":
		p = &Prob{Front: "slice", Cons: pigeonhole(2 + r.Intn(3)), Class: "pigeon"}
		r.Shuffle(len(p.Cons), func(i, j int) { p.Cons[i], p.Cons[j] = p.Cons[j], p.Cons[i] })
	case "parity":
		p = &Prob{Front: "slice", Cons: parityChain(r, 6+r.Intn(10)), Class: "parity"}
		r.Shuffle(len(p.Cons), func(i, j int) { p.Cons[i], p.Cons[j] = p.Cons[j], p.Cons[i] })
	default:
		p = genProblem(r, fam, 3+r.Intn(12))
	}
	if p.Front == "slice" && r.Intn(3) == 0 {
		p.Front = "dimacs"
		p.N = p.MaxVar() + r.Intn(3)
	}
	if r.Intn(4) == 0 {
		cfg.Rst = 1 + r.Intn(6)
	}
	return &SolveCase{P: p, Cfg: cfg}
}

func genC02(r *rand.Rand, idx int, tier string) *SolveCase {
	fams := []string{"card", "pb", "pb", "card"}
	fam := fams[r.Intn(len(fams))]
	nmax := 10
	if tier == "thorough" {
		nmax = 16
	}
	p := genProblem(r, fam, 1+r.Intn(nmax))
	cfg := SolveCfg{}
	if r.Intn(4) == 0 {
		cfg.Rst = 1 + r.Intn(6)
	}
	return &SolveCase{P: p, Cfg: cfg}
}

func verdictCode(st solver.Status) int {
	switch st {
	case solver.Sat:
		return 1
	case solver.Unsat:
		return 2
	}
	return 0
}

func parseCertLine(line string) ([]int, bool) {
	fields := strings.Fields(line)
	var c []int
	for _, f := range fields {
		v, err := strconv.Atoi(f)
		if err != nil {
			return nil, false
		}
		if v != 0 {
			c = append(c, v)
		}
	}
	return c, true
}

// solveOnce builds the solver for the case and solves it; returns verdict, model, certificate lines, hook message.
func solveOnce(c *SolveCase) (verdict int, model []bool, cert [][]int, inv string) {
	pb, err := c.P.Build()
	if err != nil {
		panic(fmt.Sprintf("parse error: %v", err))
	}
	if c.Cfg.AMO {
		pb.DetectAtMostOne()
	}
	s := solver.New(pb)
	s.CuttingPlanes = c.Cfg.CP
	if c.Cfg.NbMax > 0 {
		setNbMax(s, c.Cfg.NbMax)
	}
	if c.Cfg.Rst > 0 {
		setRestart(s, c.Cfg.Rst)
	}
	var st solver.Status
	if c.Cfg.Cert {
		s.Certified = true
		s.CertChan = make(chan string)
		done := make(chan solver.Status)
		var pan interface{}
		go func() {
			defer func() {
				if e := recover(); e != nil {
					pan = panicInfo(e)
					close(s.CertChan)
					done <- solver.Indet
				}
			}()
			res := s.Solve()
			close(s.CertChan)
			done <- res
		}()
		nread := 0
		for line := range s.CertChan {
			if nread++; c.Cfg.Slow && nread <= 3 {
				time.Sleep(120 * time.Millisecond)
			}
			cl, ok := parseCertLine(line)
			if !ok {
				panic("certificate line is not a clause: " + line)
			}
			if cl == nil {
				cl = []int{}
			}
			cert = append(cert, cl)
		}
		st = <-done
		if pan != nil {
			panic(pan)
		}
	} else {
		st = s.Solve()
	}
	verdict = verdictCode(st)
	if st == solver.Sat {
		model = s.Model()
		inv = stateOK(s)
	}
	return
}

func runSolve(e *emitter, idx int, c *SolveCase, withCert bool) {
	csx := c.P.Sx()
	meta := Meta{Class: c.P.Class + "/" + c.P.Front, Desc: c, Extra: map[string]interface{}{"cert": c.Cfg.Cert, "nbmax": c.Cfg.NbMax, "cp": c.Cfg.CP, "rst": c.Cfg.Rst, "hooks": hooksOn}}
	e.begin(idx, csx, meta)
	var verdict int
	var model []bool
	var cert [][]int
	var inv string
	status, msg := guard(caseTimeout, func() { verdict, model, cert, inv = solveOnce(c) })
	if status == 0 && inv != "" {
		status, msg = 3, inv
	}
	meta.Msg = msg
	obs := L(I(status), I(verdict), Bools(model))
	if withCert {
		obs = L(I(status), I(verdict), Bools(model), B(c.Cfg.Cert), IntLists(cert))
	}
	e.emit(csx, obs, meta)
	if status == 2 {
		e.out.Sync()
		panic("timeout: restart")
	}
}

// genC06: conflict-rich CNF only (no tiny enumeration), certificate always on; a few large instances whose Unsat
// answers are justified by the certificate alone, and a few slow certificate consumers.
func genC06(r *rand.Rand, idx int, tier string) *SolveCase {
	cfgs := []SolveCfg{{Cert: true}, {Cert: true, NbMax: 4}, {Cert: true, NbMax: 20}}
	cfg := cfgs[idx%len(cfgs)]
	var p *Prob
	switch r.Intn(25) / 2 {
	case 0:
		p = &Prob{Front: "slice", Cons: pigeonhole(2 + r.Intn(3)), Class: "pigeon"}
		r.Shuffle(len(p.Cons), func(i, j int) { p.Cons[i], p.Cons[j] = p.Cons[j], p.Cons[i] })
	case 1:
		p = &Prob{Front: "slice", Cons: parityChain(r, 6+r.Intn(12)), Class: "parity"}
		r.Shuffle(len(p.Cons), func(i, j int) { p.Cons[i], p.Cons[j] = p.Cons[j], p.Cons[i] })
	case 2:
		p = genProblem(r, "cnf", 3+r.Intn(12))
	case 12: // large: only the certificate can justify Unsat
		n := 30 + r.Intn(21)
		m := int(float64(n) * (4.1 + r.Float64()*0.5))
		p = &Prob{Front: "slice", Cons: genCNF(r, n, m, 3, 3, 0, 0), Class: "cnf3huge"}
	case 3, 4, 5, 6, 7:
		n := 15 + r.Intn(10)
		m := int(float64(n) * (4.0 + r.Float64()*0.8))
		p = &Prob{Front: "slice", Cons: genCNF(r, n, m, 3, 3, 0, 0), Class: "cnf3big"}
	default:
		n := 6 + r.Intn(13)
		m := int(float64(n) * (3.8 + r.Float64()*1.2))
		p = &Prob{Front: "slice", Cons: genCNF(r, n, m, 3, 3, 0, 0), Class: "cnf3"}
	}
	if r.Intn(100) == 0 {
		cfg.Slow = true
	}
	if r.Intn(4) == 0 {
		cfg.Rst = 1 + r.Intn(6)
	}
	return &SolveCase{P: p, Cfg: cfg}
}


// implicationChains: parse-time unit propagation whose result depends on the ORDER of the clauses.  One or two chains of
// implications x1 -> x2 -> ... written in any direction (forwards, backwards: the units then appear one sweep at a time,
// at decreasing positions; or shuffled), the unit that sets a chain off anywhere in the list, clauses made of the
// negations or of the values of literals the chains decide (so that they end up falsified, unit or satisfied only once
// the whole chain has been followed), and some clauses over other variables in between and behind.
func implicationChains(r *rand.Rand) []Con {
	var cons []Con
	next := 1
	var decided []int // literals the chains make true
	nchains := 1 + r.Intn(2)
	for c := 0; c < nchains; c++ {
		k := 2 + r.Intn(5)
		vars := make([]int, k)
		for i := range vars {
			vars[i] = next
			if r.Intn(3) == 0 {
				vars[i] = -next
			}
			next++
		}
		var chain []Con
		for i := 0; i+1 < k; i++ {
			cl := []int{-vars[i], vars[i+1]}
			if r.Intn(2) == 0 {
				cl[0], cl[1] = cl[1], cl[0]
			}
			chain = append(chain, Con{Kind: "clause", Lits: cl})
		}
		switch r.Intn(3) {
		case 0: // backwards
			for i, j := 0, len(chain)-1; i < j; i, j = i+1, j-1 {
				chain[i], chain[j] = chain[j], chain[i]
			}
		case 1:
			r.Shuffle(len(chain), func(i, j int) { chain[i], chain[j] = chain[j], chain[i] })
		}
		cons = append(cons, chain...)
		decided = append(decided, vars...)
		// the unit that starts the chain: at the end, at the front, or anywhere
		unit := Con{Kind: "clause", Lits: []int{vars[0]}}
		switch r.Intn(3) {
		case 0:
			cons = append(cons, unit)
		case 1:
			cons = append([]Con{unit}, cons...)
		default:
			pos := r.Intn(len(cons) + 1)
			cons = append(cons[:pos:pos], append([]Con{unit}, cons[pos:]...)...)
		}
	}
	free := next
	nfree := 2 + r.Intn(4)
	// clauses over decided literals
	for i := r.Intn(4); i > 0; i-- {
		k := 2 + r.Intn(2)
		cl := make([]int, 0, k)
		for j := 0; j < k; j++ {
			l := decided[r.Intn(len(decided))]
			if r.Intn(4) != 0 {
				l = -l // false once the chain has been followed
			}
			cl = append(cl, l)
		}
		if r.Intn(3) == 0 {
			cl = append(cl, free+r.Intn(nfree))
		}
		pos := r.Intn(len(cons) + 1)
		cons = append(cons[:pos:pos], append([]Con{{Kind: "clause", Lits: cl}}, cons[pos:]...)...)
	}
	// clauses over other variables, mostly behind
	for i := r.Intn(6); i > 0; i-- {
		cl := []int{}
		for j := 2 + r.Intn(2); j > 0; j-- {
			v := free + r.Intn(nfree)
			if r.Intn(2) == 0 {
				v = -v
			}
			cl = append(cl, v)
		}
		if r.Intn(3) == 0 {
			pos := r.Intn(len(cons) + 1)
			cons = append(cons[:pos:pos], append([]Con{{Kind: "clause", Lits: cl}}, cons[pos:]...)...)
		} else {
			cons = append(cons, Con{Kind: "clause", Lits: cl})
		}
	}
	// sometimes the unit of the first chain goes last of all
	if r.Intn(3) == 0 {
		cons = append(cons, Con{Kind: "clause", Lits: []int{decided[0]}})
	}
	return cons
}
