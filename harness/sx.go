package main

import (
	"strconv"
	"strings"
)

// Sx is a nested list of integers: the neutral case format (see coq/Judge/Sx.v).
type Sx struct {
	IsInt bool
	Int   int
	List  []Sx
}

func I(i int) Sx       { return Sx{IsInt: true, Int: i} }
func L(items ...Sx) Sx { return Sx{List: items} }
func B(b bool) Sx {
	if b {
		return I(1)
	}
	return I(0)
}
func Ints(xs []int) Sx {
	l := make([]Sx, len(xs))
	for i, x := range xs {
		l[i] = I(x)
	}
	return Sx{List: l}
}
func Bools(xs []bool) Sx {
	l := make([]Sx, len(xs))
	for i, x := range xs {
		l[i] = B(x)
	}
	return Sx{List: l}
}
func IntLists(xss [][]int) Sx {
	l := make([]Sx, len(xss))
	for i, xs := range xss {
		l[i] = Ints(xs)
	}
	return Sx{List: l}
}
func Bytes(s string) Sx {
	l := make([]Sx, len(s))
	for i := 0; i < len(s); i++ {
		l[i] = I(int(s[i]))
	}
	return Sx{List: l}
}

func (s Sx) write(b *strings.Builder) {
	if s.IsInt {
		b.WriteString(strconv.Itoa(s.Int))
		return
	}
	b.WriteByte('(')
	for i, it := range s.List {
		if i > 0 {
			b.WriteByte(' ')
		}
		it.write(b)
	}
	b.WriteByte(')')
}

func (s Sx) String() string {
	var b strings.Builder
	s.write(&b)
	return b.String()
}

// Coq renders the value as a Gallina term of type sx.
func (s Sx) Coq() string {
	var b strings.Builder
	s.coq(&b)
	return b.String()
}

func (s Sx) coq(b *strings.Builder) {
	if s.IsInt {
		b.WriteString("I (")
		b.WriteString(strconv.Itoa(s.Int))
		b.WriteString(")")
		return
	}
	b.WriteString("L [")
	for i, it := range s.List {
		if i > 0 {
			b.WriteString("; ")
		}
		it.coq(b)
	}
	b.WriteString("]")
}
