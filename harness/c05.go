package main

import (
	"fmt"
	"math/rand"

	"github.com/crillab/gophersat/solver"
)

// C05: counting and enumeration.  obs = (status count enumret closed (models...))
func genC05(r *rand.Rand, idx int, tier string) *Prob {
	p := genC05base(r, idx, tier)
	if idx >= 40 && r.Intn(4) == 0 {
		p.CP = true
	}
	return p
}

func genC05base(r *rand.Rand, idx int, tier string) *Prob {
	// fixed special cases first
	switch {
	case idx < 7: // no constraint at all, n = 0..6
		return &Prob{Front: "slicenb", N: idx, Class: "empty-slicenb"}
	case idx < 14:
		return &Prob{Front: "dimacs", N: idx - 7, Class: "empty-dimacs"}
	case idx < 16:
		return &Prob{Front: []string{"card", "pb"}[idx-14], Class: "empty-" + []string{"card", "pb"}[idx-14]}
	}
	fams := []string{"cnf", "cnf", "longclauses", "longclauses", "unitrich", "card", "pb", "cnf3"}
	fam := fams[r.Intn(len(fams))]
	nmax := 8
	if tier == "thorough" {
		nmax = 11
	}
	n := 1 + r.Intn(nmax)
	if fam == "cnf3" {
		n = 3 + r.Intn(nmax-2)
	}
	p := genProblem(r, fam, n)
	if fam == "longclauses" && r.Intn(2) == 0 { // unused trailing variables
		p.Front = "slicenb"
		p.N = p.MaxVar() + 1 + r.Intn(3)
	}
	return p
}

func runC05(e *emitter, idx int, p *Prob) {
	c := p.Sx()
	meta := Meta{Class: p.Class + "/" + p.Front, Desc: p}
	if p.CP {
		meta.Class += "/cp"
	}
	e.begin(idx, c, meta)
	var count, enumRet, closed int
	var models [][]bool
	status, msg := guard(caseTimeout, func() {
		pb, err := p.Build()
		if err != nil {
			panic(fmt.Sprintf("parse error: %v", err))
		}
		s := solver.New(pb)
		s.CuttingPlanes = p.CP
		count = s.CountModels()
		pb2, err := p.Build()
		if err != nil {
			panic(fmt.Sprintf("parse error: %v", err))
		}
		s2 := solver.New(pb2)
		s2.CuttingPlanes = p.CP
		ch := make(chan []bool)
		done := make(chan int)
		var enumPanic interface{}
		go func() {
			defer func() {
				if e := recover(); e != nil {
					enumPanic = panicInfo(e)
					done <- -1000000
				}
			}()
			done <- s2.Enumerate(ch, nil)
		}()
		for m := range ch {
			models = append(models, m)
		}
		closed = 1
		enumRet = <-done
		if enumRet == -1000000 {
			panic(enumPanic)
		}
	})
	ms := make([]Sx, len(models))
	for i, m := range models {
		ms[i] = Bools(m)
	}
	obs := L(I(status), I(count), I(enumRet), I(closed), Sx{List: ms})
	meta.Msg = msg
	e.emit(c, obs, meta)
	if status == 2 {
		e.out.Sync()
		panic("timeout: restart")
	}
}
