package main

import (
	"encoding/json"
	"fmt"
	"os"
	"runtime"
	"runtime/debug"
	"strings"
	"sync"
	"time"
)

// guard runs f with a time limit and converts a panic into a status.
// status: 0 normal, 1 panic, 2 timeout.  After a timeout the goroutine is
// leaked; the caller (main loop) stops the process so the orchestrator can
// restart it after this case.
func guard(limit time.Duration, f func()) (status int, msg string) {
	type res struct {
		status int
		msg    string
	}
	ch := make(chan res, 1)
	go func() {
		defer func() {
			if e := recover(); e != nil {
				if s, ok := e.(rethrown); ok {
					ch <- res{1, string(s)}
					return
				}
				st := string(debug.Stack())
				ch <- res{1, fmt.Sprintf("%v | %s", e, firstFrames(st))}
			}
		}()
		f()
		ch <- res{0, ""}
	}()
	deadline := time.After(limit)
	extended := false
	for {
		select {
		case r := <-ch:
			return r.status, r.msg
		case <-deadline:
			// A wall-clock limit says nothing when the machine is oversubscribed (other checks, 8 shards of this one):
			// if the run queue is longer than the number of CPUs, wait once more, in proportion.
			if !extended {
				if f := loadFactor(); f > 1 {
					extended = true
					if f > 6 {
						f = 6
					}
					deadline = time.After(time.Duration(float64(limit) * f))
					continue
				}
			}
			if raceBuild {
				// The abandoned goroutine keeps writing the variables the caller is about to read: under the race
				// detector that is reported as a race of the harness with itself.  Stop here; the orchestrator
				// attributes the time-out to the case in flight through the progress file (exit code 67).
				fmt.Fprintln(os.Stderr, "TIMEOUT-IN-CASE")
				os.Exit(67)
			}
			return 2, "timeout"
		}
	}
}

// loadFactor: 1-minute load average divided by the number of CPUs (0 when unknown).
func loadFactor() float64 {
	data, err := os.ReadFile("/proc/loadavg")
	if err != nil {
		return 0
	}
	var l1 float64
	if _, err := fmt.Sscanf(string(data), "%f", &l1); err != nil {
		return 0
	}
	return l1 / float64(runtime.NumCPU())
}

func firstFrames(stack string) string {
	lines := strings.Split(stack, "\n")
	var keep []string
	for _, l := range lines {
		if strings.Contains(l, ".go:") && !strings.Contains(l, "/runtime/") && !strings.Contains(l, "/harness/") && !strings.Contains(l, "runtime/debug") {
			keep = append(keep, strings.TrimSpace(l))
			if len(keep) == 3 {
				break
			}
		}
	}
	return strings.Join(keep, " <- ")
}

func clean(s string) string {
	s = strings.ReplaceAll(s, "\n", " ")
	s = strings.ReplaceAll(s, "\t", " ")
	if len(s) > 400 {
		s = s[:400]
	}
	return s
}

var caseTimeout = 10 * time.Second

// emitter writes finished cases; progress records the case being run so that a
// crash of the whole process (panic in a library goroutine, OOM) is attributed.
type emitter struct {
	out      *os.File
	progress string
	idx      int
	judge    string      // when set, copied into the meta of every emitted line (mixed streams: C16)
	mu       *sync.Mutex // shared by the copies made by with()
}

// with returns a copy of the emitter for one case of a mixed / concurrent stream.
func (e *emitter) with(judge string) *emitter {
	c := *e
	c.judge = judge
	return &c
}

// Meta is the side information of a case: never seen by the judge.
type Meta struct {
	Judge string      `json:"judge,omitempty"`
	Class string      `json:"class"`
	Msg   string      `json:"msg,omitempty"`
	Extra interface{} `json:"extra,omitempty"`
	Desc  interface{} `json:"desc"` // JSON descriptor from which the case can be rebuilt (replay, shrinking)
}

func (m Meta) json() string {
	b, err := json.Marshal(m)
	if err != nil {
		panic(err)
	}
	return string(b)
}

func (e *emitter) begin(idx int, c Sx, meta Meta) {
	e.idx = idx
	meta.Judge = e.judge
	e.mu.Lock()
	defer e.mu.Unlock()
	if e.progress != "" {
		os.WriteFile(e.progress, []byte(fmt.Sprintf("%d\t%s\t%s\n", idx, c.String(), meta.json())), 0o644)
	}
}

// emit writes "idx <tab> (case obs) <tab> meta-json"
func (e *emitter) emit(c Sx, obs Sx, meta Meta) {
	meta.Msg = clean(meta.Msg)
	meta.Judge = e.judge
	e.mu.Lock()
	defer e.mu.Unlock()
	fmt.Fprintf(e.out, "%d\t%s\t%s\n", e.idx, L(c, obs).String(), meta.json())
}

// panicInfo renders a recovered panic value with the first frames of the library code; used by goroutines
// the harness starts itself so that the message survives being re-raised in the guarded goroutine.
type rethrown string

func panicInfo(e interface{}) rethrown {
	if s, ok := e.(rethrown); ok {
		return s
	}
	return rethrown(fmt.Sprintf("%v | %s", e, firstFrames(string(debug.Stack()))))
}
