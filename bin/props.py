"""Per-property configuration of bin/check."""

def _info0_pos(sx, v, meta):
    return v[0] == 'ok' and len(v[2]) > 0 and int(v[2][0]) > 0

import os, re

RACE_PROPS = set(['C16'])


def shared_mutable_globals(repo):
    """Heuristic scan: package-level variables of the library whose value is a slice, map, array, channel or
    pointer (anything that can be written through from two solvers). Error sentinels and interface constants are fine."""
    found = []
    for pkg in ('solver', 'maxsat', 'explain', 'bf', '.'):
        d = os.path.join(repo, pkg)
        for fn in sorted(os.listdir(d)):
            if not fn.endswith('.go') or fn.endswith('_test.go'):
                continue
            src = open(os.path.join(d, fn)).read()
            src = re.sub(r'/\*.*?\*/', '', src, flags=re.S)
            decls = []
            for m in re.finditer(r'^var\s+(\w+)([^\n]*)$', src, re.M):
                decls.append((m.group(1), m.group(2)))
            for blk in re.finditer(r'^var\s*\((.*?)^\)', src, re.M | re.S):
                for l in blk.group(1).splitlines():
                    mm = re.match(r'\s+(\w+)(.*)$', l.split('//')[0])
                    if mm:
                        decls.append((mm.group(1), mm.group(2)))
            for name, rest in decls:
                rest = rest.split('//')[0]
                if re.search(r'(\[\]|\bmap\[|\bchan\b|\bmake\(|\bnew\(|=\s*&|^\s*\*|\[\d+\])', rest):
                    found.append(('shared-mutable-global', '%s/%s: var %s%s' % (pkg, fn, name, rest.strip()[:80])))
    return found


def _solve_nontrivial(sx, v, meta):
    # non-trivial: not decided by the empty problem, i.e. the case has at least 2 constraints
    return sx.count('(0 1 ') + sx.count('(1 ') + sx.count('(2 ') >= 2

def _c12_stats(lines, verdicts):
    k = {'1': 'identical_to_model_export', '0': 'decided_by_enumeration', '2': 'undecided_drift'}
    out = {}
    for v in verdicts:
        if v[0] == 'ok' and len(v[2]) > 3:
            out[k.get(v[2][3], '?')] = out.get(k.get(v[2][3], '?'), 0) + 1
    return out


def _verdict_stats(lines, verdicts):
    sat = sum(1 for v in verdicts if v[0] == 'ok' and v[2][:1] == ['1'])
    unsat = sum(1 for v in verdicts if v[0] == 'ok' and v[2][:1] == ['2'])
    return dict(verdict_sat=sat, verdict_unsat=unsat)

def _hist_nontrivial(sx, v, meta):
    return v[0] == 'ok' and len(v[2]) > 0 and int(v[2][0]) >= 2

PROPS = {
    'C13': dict(
        parts=[dict(harness='C13', judge='C13', cases=dict(quick=6000, thorough=60000), judge_module='Judge.J13', judge_fn='judge_C13',
                    prerender=dict(gen='C13gen', renderer='render13'))],
        no_shrink=True,
        rule='abstract objects of the four formats (DIMACS CNF with empty / duplicate / tautological clauses and declared-but-unused '
             'variables; OPB with >= and = constraints, coefficients of either sign and 0, trivially true/false constraints, optional '
             'min: line; WCNF with weights 1..5, top absent / above the sum / small; explain DIMACS) over 1..8 (quick) / 1..11 '
             '(thorough) variables are rendered by the extracted Coq renderers render_dimacs / render_opb / render_wcnf / '
             'render_explain with a random layout stream (blanks, tabs, line breaks inside clauses, comment lines, CRLF, trailing '
             'blanks, optional signs and coefficients, missing final newline) -- the texts the C13 theorems quantify over -- and '
             'read by the Go readers; no error, and count / optimum / MaxSAT optimum and model / clause list equal to those of '
             'the abstract object; non-trivial = text of at least 20 bytes',
        nontrivial=lambda sx, v, meta: v[0] == 'ok' and len(v[2]) > 1 and int(v[2][1]) >= 20,
        assumptions=['no line of 65536 bytes or more (bufio.Scanner limit, finding O5/E3/W2)',
                     'negative cost coefficients are left to C03 (finding D6)'],
    ),
    'C18': dict(
        theorem_files=['C18', 'GoTypes'],
        judge='C18', judge_module='Judge.J13', judge_fn='judge_C18',
        cases=dict(quick=2000, thorough=60000),
        rule='(round 5: a quarter of the cnf / pb cases print the Problem after a solver built from it has searched) the C03 problem generator (CNF, cardinality, PB through the constructors and through OPB texts, with and without cost '
             'function, incl. problems decided at parse time) x printers Problem.CNF (CNF problems), Problem.PBString, '
             'Solver.PBString before and after Solve; the printed text is read by the Coq readers parse_dimacs / parse_opb and must '
             'have the models and the cost per model of the original problem (variables that no longer occur are free), and is read '
             'again by the Go readers whose count and optimum must agree; non-trivial = text of at least 30 bytes',
        nontrivial=lambda sx, v, meta: v[0] == 'ok' and len(v[2]) > 1 and int(v[2][1]) >= 30,
        assumptions=['variables that the simplification removed entirely do not appear in the OPB rendering: compared as free variables'],
    ),
    'C19': dict(
        theorem_files=['C19', 'GoTypes'],
        parts=[dict(harness='C19', judge='C19', cases=dict(quick=900, thorough=9000), judge_module='Judge.J19', judge_fn='judge_C19',
                    extra_args=['-cli', '{BUILD}/gophersat', '-clidir', '{WORK}'])],
        rule='the executable built from /repo is run on generated files: .cnf (mixed / 3-SAT / unit-rich / binary-rich / pigeonhole, '
             'flags none, -count, -certified, -mus, -cp, -verbose), .opb (cardinality / PB problems with a min: line, flags none, '
             '-count, -cp, -verbose), .wcnf (flags none, -verbose), .bf (fully parenthesised formulas), and unreadable inputs '
             '(unknown suffix, missing file, malformed content of each kind); stdout is read by the Coq readers of Model/Cli.v and '
             'judged against the oracles (model of the file, unsatisfiable, strictly decreasing o-lines ending in the optimum attained '
             'by the v-line, exact count, certificate replayed by rup_check, MUS validity), exit status 0 / non-zero; non-trivial = '
             'every judged run',
        nontrivial=lambda sx, v, meta: v[0] == 'ok',
        assumptions=['exit status and stdout are observed, not proved', 'OPB files with negative cost coefficients are left to C03 (finding D6)'],
    ),
    'C17': dict(
        parts=[dict(harness='C17', judge='C17', cases=dict(quick=6000, thorough=60000), judge_module='Judge.J17', judge_fn='judge_C17',
                    prerender=dict(gen='C17gen', renderer='render17'))],
        no_shrink=True,
        rule='(round 5: a third of the trees are biased towards one operator, six draws out of ten) syntax trees of depth 1..5 (6 thorough) over 1..5 names drawn from {a b c d e x1 if _y 7 go} (keywords and a number '
             'included), all five binary operators, negation, exactly-one groups of 1..4 names; each tree is rendered by the '
             'extracted Coq printer print_chars with a random layout stream (redundant parentheses, blanks, tabs, newlines, '
             'comments) -- exactly the texts C17_roundtrip_chars quantifies over -- and given to bf.Parse; the truth table of the '
             'returned formula over the names must equal that of the tree; one third of the texts are then corrupted at token level '
             '(delete / duplicate / swap a token, drop a parenthesis or brace, append or insert a stray token) and the outcome '
             '(error, or the truth table) must be the one of the mirrored parser; non-trivial = text of at least 12 characters',
        nontrivial=lambda sx, v, meta: v[0] == 'ok' and (len(v[2]) < 2 or int(v[2][1]) >= 12 or int(v[2][0]) == 1),
        assumptions=['exactly-one groups have at most 4 names here because Formula.Eval cannot evaluate larger groups (auxiliary variables)',
                     'strings, floats, hex numbers as names are outside the documented syntax and outside the tokenizer model'],
    ),
    'C20': dict(
        parts=[dict(harness='C20o', judge='C20o', cases=dict(quick=2500, thorough=25000), judge_module='Judge.J20', judge_fn='judge_C20o', extra_args=['-timeout', '3']),
               dict(harness='C20m', judge='C20m', cases=dict(quick=1500, thorough=15000), extra_args=['-timeout', '3']),
               dict(harness='C20e', judge='C20e', cases=dict(quick=1500, thorough=15000), extra_args=['-timeout', '6'])],
        rule='solver.Optimal on the C03 problems (API route), maxsat Optimal on WCNF instances, Enumerate on the C05 problems, each with '
             'a result channel of capacity 0/0/1/3/64 and a consumer that sleeps 0, <200us or <2ms (seeded) between receives; the '
             'consumer-side trace (values, close, return value) must be accepted by the protocol acceptor of the channel model, every '
             'delivered result is judged (model of all constraints, true cost, strictly decreasing, last = oracle optimum; each model '
             'once, count = oracle count); a deadlock shows as a timeout, a send on a closed channel or double close as a crash; '
             'non-trivial = at least 2 results delivered',
        nontrivial=lambda sx, v, meta: v[0] == 'ok' and len(v[2]) > 1 and int(v[2][1 if len(v[2]) > 2 else 0]) >= 2,
        assumptions=['goroutine schedules are sampled (GOMAXPROCS 4, random consumer delays), not enumerated'],
    ),
    'C16': dict(
        parts=[dict(harness='C16', judge='by-meta', cases=dict(quick=1600, thorough=16000), binary='gsh-race', nshards=4,
                    extra_args=['-conc', '4'], env={'GORACE': 'halt_on_error=1 exitcode=66', 'GOMAXPROCS': ['1', '2', '8', '4']})],
        static=shared_mutable_globals,
        rule='4 harness processes built with -race (GOMAXPROCS 1, 2, 8, 4), each running 4 goroutines that take data-independent cases '
             'from a mixed stream (Solve on CNF and PB, CountModels+Enumerate, Optimal/Minimize, MaxSAT, MUS extraction incl. '
             'UnsatSubset, bf.Solve, AppendClause histories) at the same time; every result is judged exactly as in the sequential '
             'checks C01-C11 (so each instance returns what it returns alone, up to the property-level relation); any race report '
             'stops the process and is a violation; plus a static scan for package-level slices/maps/pointers in the library. '
             'Non-trivial = every judged case',
        nontrivial=lambda sx, v, meta: v[0] == 'ok',
        assumptions=['interleavings are those the Go scheduler produced in this run; the race detector only sees executed accesses',
                     'Verbose output is off'],
    ),
    'C11': dict(
        judge='C11', judge_module='Judge.J11', judge_fn='judge_C11',
        cases=dict(quick=10000, thorough=100000),
        rule='(round 5: the first 344 cases are the exactly-one groups of 2..9 names, positive and negated, pinned at every assignment with at most two names true; a quarter of the other formulas are conjoined with literals for all their variables) random formula trees, depth 1..4 over 1..5 (6 thorough) names: variables, constants at every position, negation, '
             'n-ary and/or with 0..3 subformulas, implies, equivalence, xor, exactly-one groups of 0..7 names; 10% exactly-one '
             'groups of 0..9 names alone or conjoined, a quarter of them negated; 10% alternating or/and nests of depth 2..4; the '
             'returned map is checked under EVERY completion of the variables it does not mention; non-trivial = satisfiable and '
             'the model mentions at least 2 variables',
        nontrivial=lambda sx, v, meta: v[0] == 'ok' and len(v[2]) > 1 and int(v[2][1]) >= 2,
        stats=_verdict_stats,
        assumptions=[],
    ),
    'C12': dict(
        judge='C12', judge_module='Judge.J11', judge_fn='judge_C12',
        cases=dict(quick=8000, thorough=80000),
        rule='the C11 formula generator with exactly-one groups in positive positions only (as the property states); the exported text is split into header, '
             'name comments and clauses; header counts, literal ranges, distinctness of the name/index map are checked and, for '
             'EVERY assignment of the formula variables, "the formula is true" is compared with "the export has a model agreeing '
             'with it on the named variables" (verified reference search); non-trivial = formula with at least one model and an '
             'export of at least 2 variables',
        nontrivial=lambda sx, v, meta: v[0] == 'ok' and len(v[2]) > 2 and int(v[2][0]) > 0 and int(v[2][1]) >= 2,
        stats=_c12_stats,
        assumptions=['when the exported problem is identical (numbering, clause and literal order) to the export of the mirrored '
                     'translation coq/Model/Bf.v the model equivalence is theorem C12_models; otherwise it is decided by enumeration '
                     'with unit-propagation pruning up to 26 exported variables and reported as undecided drift beyond'],
    ),
    'C06': dict(
        theorem_files=['C06', 'C06l', 'GoTypes', 'Snap'],
        parts=[dict(harness='C06', judge='C06', cases=dict(quick=3000, thorough=60000), judge_module='Judge.J06', judge_fn='judge_C06'),
               dict(harness='S01', judge='snaps', cases=dict(quick=1500, thorough=15000), judge_module='Judge.J21', judge_fn='judge_snaps')],
        rule='conflict-rich CNF with certificate generation on (channel) x learned-clause limit default/4/20: 3-SAT near the '
             'threshold over 6..18 and 15..24 variables, 4% over 30..50 variables (there an Unsat answer is justified by its '
             'certificate alone), pigeonhole, parity chains, mixed CNF; 1% of the runs read the certificate slowly (120 ms pauses); '
             'every emitted line is replayed in order by the verified checker rup_check (coq/Model/Rup.v, C06_checker), Unsat '
             'answers must contain or UP-derive the empty clause, verdict and model are judged as in C01; non-trivial = at '
             'least one certificate line was emitted'
             ' Second part (S01): solves with the search-state tracing hooks on; at up to 4 tracing points per solve the state handed to conflict analysis (trail, levels, reasons, conflict) and its result, and the state when propagation ended without conflict, are judged by coq/Judge/J21.v: the state meets the hypotheses of the theorems about Model/Learn.v / Model/CPSearch.v, the analysis returned what the model computes on that state, no constraint is falsified (nor, for clauses and cardinality constraints, propagating) at a quiet point',
        nontrivial=lambda sx, v, meta: v[0] == 'ok' and len(v[2]) > 1 and int(v[2][-1]) > 0,
        stats=_verdict_stats,
        assumptions=['the stdout sink is exercised in C19'],
    ),
    'C07': dict(
        judge='C07', judge_module='Judge.J06', judge_fn='judge_C07',
        cases=dict(quick=4000, thorough=40000),
        rule='CNF problems over 2..6 (quick) / 2..8 (thorough) variables, up to 14 clauses: one core plus noise, two independent '
             'cores, random, with unit clauses, repeated clauses, trivially conflicting units; x methods MUS, MUSDeletion, '
             'MUSInsertion, MUSMaxSat (rotating); receiver deep-copied before and compared after; non-trivial = unsatisfiable input '
             'whose MUS has at least 2 clauses',
        nontrivial=lambda sx, v, meta: v[0] == 'ok' and len(v[2]) > 1 and int(v[2][0]) == 2 and int(v[2][1]) >= 2,
        assumptions=['clauses are compared as literal lists (a MUS clause must appear with the same literal order as in the input)'],
    ),
    'C08': dict(
        theorem_files=['C08', 'C08g'],
        parts=[dict(harness='C08', judge='C08', cases=dict(quick=5000, thorough=50000), judge_module='Judge.J06', judge_fn='judge_C08'),
               dict(harness='C08s', judge='C08s', cases=dict(quick=2000, thorough=20000)),
               dict(harness='G08', judge='goirup', cases=dict(quick=6000, thorough=60000), judge_module='Judge.J26', judge_fn='judge_goir_up', kernel_cases=60, kernel_maxlen=1500, needs_hooks=True)],
        rule='(round 5: a third of the pairs are preceded by ANOTHER certificate, mostly rejected, on the same Problem value; a third of the instances are under-constrained, half of those with random certificates) part 3 (G08): the unit propagation of the checker, (*Problem).unsat of explain/problem.go, run through the hook explain.VerifUnsat on generated states (clauses with repeated literals, empty clauses, certificate lines already added, partial bindings, tags): result, panic and the bindings and tags it leaves equal what the interpreter of coq/Model/GoIR2.v computes on the syntax tree regenerated from that source (coq/Gen/GoSrcX.v, judge coq/Judge/J26.v). '
             'part 1: (CNF problem, certificate) pairs over 2..7 (quick) / 2..10 (thorough) variables: genuine solver traces, traces '
             'with one literal dropped or flipped, one line removed, lines permuted, random clause sequences (with tautological and '
             'repeated-literal lines); reader and channel entry points; each pair checked twice on the same Problem; '
             'accepted => every line entailed (oracle); every line RUP for the verified checker => accepted. part 2: UnsatSubset on '
             'CNF problems with one or several cores; non-trivial = certificate with at least 2 lines / unsatisfiable input',
        nontrivial=lambda sx, v, meta: v[0] == 'ok' and (sx.count('(') > 12),
        assumptions=[],
    ),
    'C14': dict(
        theorem_files=['C14', 'C14s', 'C14c', 'C14g', 'Judges', 'Snap', 'TracePB'],
        parts=[dict(harness='C14', judge='C14', cases=dict(quick=6000, thorough=50000), judge_module='Judge.J14', judge_fn='judge_C14'),
               dict(harness='C14opt', judge='C03', cases=dict(quick=3000, thorough=30000)),
               dict(harness='S14', judge='snaps', cases=dict(quick=3000, thorough=30000), judge_module='Judge.J21', judge_fn='judge_snaps'),
               dict(harness='T14', judge='tracepb', cases=dict(quick=600, thorough=6000), judge_module='Judge.J24', judge_fn='judge_trace_pb', kernel_cases=12, kernel_maxlen=40000),
               dict(harness='G14', judge='goirpb', cases=dict(quick=8000, thorough=80000), judge_module='Judge.J26', judge_fn='judge_goir_pbop', kernel_cases=60, kernel_maxlen=1500, needs_hooks=True)],
        rule='part 1: problems (CNF, 3-SAT, cardinality, PB, pigeonhole as clauses and as cardinality constraints, binary-rich CNF '
             'with and without PB constraints; 2..9 variables quick, 2..13 thorough) solved with CuttingPlanes=true, half of them '
             'after DetectAtMostOne, a quarter with a learned-constraint limit of 4; every answer is judged against the oracle '
             '(which subsumes strategy on = strategy off) and every learned constraint still held by the solver (hook) must be '
             'entailed by the problem; part 2: the C03 optimisation cases (API route) with CuttingPlanes=true; part 3 (S14): '
             'solves with the tracing hooks on: the state handed to cuttingPlanes at up to 4 conflicts per solve meets state_wf3b '
             '(hypothesis of C14_search_sound / C14_search_total) and the call returned what Model/CPSearch.cutting_planes '
             'computes on it (learned constraint up to the order of its terms, propagated literals, level); part 4 (T14): whole runs of '
             'the cutting-planes loop replayed on coq/Model/SearchPB.v by coq/Judge/J24.v (every step checked, the successor of each '
             'conflict computed by the model from cutting_planes_full, observed state and answer demanded, C14c_replay_unsat/sat). Non-trivial = '
             'at least 2 constraints',
        nontrivial=_solve_nontrivial, stats=_verdict_stats,
        assumptions=['termination and absence of panics are observed per run, not proved'],
    ),
    'C15': dict(
        parts=[dict(harness='C15', judge='C15', cases=dict(quick=6000, thorough=50000), judge_module='Judge.J14', judge_fn='judge_C15'),
               dict(harness='C15solve', judge='solve', cases=dict(quick=3000, thorough=30000)),
               dict(harness='P15', judge='amostruct', cases=dict(quick=4000, thorough=40000), judge_module='Judge.J23', judge_fn='judge_amo_struct', kernel_cases=40, kernel_maxlen=1500)],
        rule='binary-rich CNF problems (1..3 groups of 2..5 literals encoded pairwise, 2/3 over negative literals, 1/8 of the pairs '
             'missing, 1/10 repeated, plus binaries in no group, long clauses and sometimes cardinality constraints placed after '
             'the binaries; also random CNF and pigeonhole; 3..9 variables quick, 3..12 thorough); part 1: Problem after '
             'DetectAtMostOne (read back from PBString) has exactly the models of the input, by enumeration; part 2: solving after '
             'detection gives the oracle verdict and a model of the input; part 3 (P15): the clause list after DetectAtMostOne equals, in '
             'order, coq/Model/Amo.v detect_amo applied to the clause list before it (coq/Judge/J23.v). Non-trivial = detection removed at least one clause',
        nontrivial=lambda sx, v, meta: v[0] == 'ok' and len(v[2]) > 1 and int(v[2][1]) > 0,
        assumptions=[],
    ),
    'C09': dict(
        theorem_files=['C09', 'Judges'],
        judge='C09m', judge_module='Judge.JModel', judge_fn='judge_C09_m',
        cases=dict(quick=6000, thorough=60000),
        rule='(round 5: a third of the histories are model-guided: after a Sat answer the next additions are built from the model returned and the known top-level facts, constraints it only just satisfies followed by the negation of what made them true) base problems (CNF, unit-rich, 3-SAT, cardinality, PB; 2..8 variables quick, 2..12 thorough) x histories of 1..8 '
             'operations Solve | AppendClause(c) ending with a Solve; c = clause (20% repeated literal, 10% tautology, up to 2 '
             'brand-new variables), empty or unit clause, cardinality constraint, PB constraint (through PBConstr.Clause()); '
             'non-trivial = history with at least 2 Solve operations',
        nontrivial=_hist_nontrivial,
        assumptions=['constraints whose normalised degree is < 1 are not added (NewPBClause documents a panic)',
                     'added cardinality/PB constraints mention each variable once'],
    ),
    'C10': dict(
        theorem_files=['C10', 'C06l', 'C01c', 'Judges', 'Snap', 'Trace'],
        parts=[dict(harness='C10', judge='C10m', cases=dict(quick=6000, thorough=60000), judge_module='Judge.JModel', judge_fn='judge_C10_m'),
               dict(harness='S10', judge='snaps', cases=dict(quick=3000, thorough=30000), judge_module='Judge.J21', judge_fn='judge_snaps'),
               dict(harness='T10', judge='trace', cases=dict(quick=500, thorough=5000), judge_module='Judge.J22', judge_fn='judge_trace', kernel_cases=12, kernel_maxlen=40000)],
        rule='base CNF problems (mixed, unit-rich, 3-SAT; 2..9 variables quick, 2..14 thorough) x 1..6 rounds of Assume+Solve; '
             'a round is: empty list, the previous list again, both polarities of a variable, the negation of the previous '
             'round, a repeated literal, or 1..4 literals over distinct variables; non-trivial = at least 2 rounds'
             ' Second part (S10): solves with the search-state tracing hooks on; at up to 4 tracing points per solve the state handed to conflict analysis (trail, levels, reasons, conflict) and its result, and the state when propagation ended without conflict, are judged by coq/Judge/J21.v: the state meets the hypotheses of the theorems about Model/Learn.v / Model/CPSearch.v, the analysis returned what the model computes on that state, no constraint is falsified (nor, for clauses and cardinality constraints, propagating) at a quiet point'
             ' Third part (T10): WHOLE RUNS of the search loop: tracing at every tracing point (up to 300 per solve, a third of the solves with restarts forced by the hook VerifRestartEvery, learned-clause limit lowered by VerifSetNbMax); coq/Judge/J22.v rebuilds the command list of coq/Model/Search.v from the snapshots (decisions, propagations with their reasons, conflicts, restarts, forgotten clauses), runs the mirrored loop on it -- the successor of each conflict is computed by Model.Learn.conflict_step --, demands the observed state after every group of commands and the observed answer at the end, and replays the whole list with Model.Search.replay (J_trace_unsat / J_trace_sat: the answer is then proved right for this run)',
        nontrivial=_hist_nontrivial,
        assumptions=['assumed literals are over variables of the problem'],
    ),
    'C01': dict(
        theorem_files=['C01', 'C01s', 'C01c', 'C01h', 'GoTypes', 'Judges', 'Snap', 'Trace'],
        parts=[dict(harness='C01', judge='solve_m', cases=dict(quick=10000, thorough=60000), judge_module='Judge.JModel', judge_fn='judge_solve_case_m'),
               dict(harness='S01', judge='snaps', cases=dict(quick=3000, thorough=30000), judge_module='Judge.J21', judge_fn='judge_snaps'),
               dict(harness='T01', judge='trace', cases=dict(quick=500, thorough=5000), judge_module='Judge.J22', judge_fn='judge_trace', kernel_cases=12, kernel_maxlen=40000),
               dict(harness='P01', judge='parse', cases=dict(quick=9000, thorough=40000), judge_module='Judge.J23', judge_fn='judge_parse', kernel_cases=60, kernel_maxlen=1500)],
        exhaustive=dict(quick=True, thorough=True),
        rule='(round 5: implication chains written forwards / backwards / shuffled with their unit anywhere; one case in 800 has thousands of pairs (x v y)(x v -y) whose conflicts each teach a unit, so that the first database reduction meets an empty list; restarts forced by the hook can become due right after a conflict) cases 0..7310 = EVERY ordered list of <=2 clauses of <=3 literals over 2 variables (duplicates, tautologies, '
             'empty and unit clauses included) through ParseSlice / ParseSliceNb(+2 unused variables) / ParseCNF, then random '
             'CNF (mixed lengths with 10% duplicate literals and 5% tautologies, unit-rich, 3-SAT near the threshold for '
             'n in [3,14] and [15,30], pigeonhole 2-4, parity chains); configuration rotates over certificate on/off x '
             'learned-clause limit default/4/20 (hook). Non-trivial = at least 2 clauses; distinct = distinct (case, observables) text'
             ' Second part (S01): solves with the search-state tracing hooks on; at up to 4 tracing points per solve the state handed to conflict analysis (trail, levels, reasons, conflict) and its result, and the state when propagation ended without conflict, are judged by coq/Judge/J21.v: the state meets the hypotheses of the theorems about Model/Learn.v / Model/CPSearch.v, the analysis returned what the model computes on that state, no constraint is falsified (nor, for clauses and cardinality constraints, propagating) at a quiet point'
             ' Third part (T01): WHOLE RUNS of the search loop: tracing at every tracing point (up to 300 per solve, a third of the solves with restarts forced by the hook VerifRestartEvery, learned-clause limit lowered by VerifSetNbMax); coq/Judge/J22.v rebuilds the command list of coq/Model/Search.v from the snapshots (decisions, propagations with their reasons, conflicts, restarts, forgotten clauses), runs the mirrored loop on it -- the successor of each conflict is computed by Model.Learn.conflict_step --, demands the observed state after every group of commands and the observed answer at the end, and replays the whole list with Model.Search.replay (J_trace_unsat / J_trace_sat: the answer is then proved right for this run)'
             ' Fourth part (P01): the Problem value built by the front end (NbVars, Status, Units, Model, Clauses in order with their literals in order, weights and degree) equals, field by field, what the mirrored front end of coq/Model/Simplify.v / Model/Solve.v builds from the same arguments (coq/Judge/J23.v); for P02 also the results of GtEq / LtEq / Eq against Model/PBNorm.v',
        nontrivial=_solve_nontrivial, stats=_verdict_stats,
        assumptions=['termination and absence of panics are observed per run (10 s limit per case), not proved'],
    ),
    'C02': dict(
        theorem_files=['C02', 'C02b', 'C02s', 'C02p', 'C02g', 'C01c', 'Snap', 'Trace'],
        parts=[dict(harness='C02', judge='solve_m', cases=dict(quick=8000, thorough=80000), judge_module='Judge.JModel', judge_fn='judge_solve_case_m'),
               dict(harness='S02', judge='snaps', cases=dict(quick=10000, thorough=60000), judge_module='Judge.J21', judge_fn='judge_snaps'),
               dict(harness='T02', judge='trace', cases=dict(quick=200, thorough=2000), judge_module='Judge.J22', judge_fn='judge_trace', kernel_cases=12, kernel_maxlen=40000),
               dict(harness='P02', judge='parse', cases=dict(quick=5000, thorough=40000), judge_module='Judge.J23', judge_fn='judge_parse', kernel_cases=60, kernel_maxlen=1500),
               dict(harness='G02', judge='goir', cases=dict(quick=6000, thorough=60000), judge_module='Judge.J25', judge_fn='judge_goir', kernel_cases=100, kernel_maxlen=1500)],
        rule='random sets of 1..n+3 cardinality / PB constraints over 1..10 (quick) or 1..16 (thorough) variables built through '
             'the public constructors (AtLeast1 AtMost1 Exactly1 CardConstr, PropClause AtLeast AtMost GtEq LtEq Eq), '
             'coefficients in [-W,W] W in {1,2,4,9} incl. 0, degree from below the minimum to above the maximum of the sum, '
             'through ParseCardConstrs and ParsePBConstrs; non-trivial = at least 2 constraints'
             ' Second part (S02): solves with the search-state tracing hooks on; at up to 4 tracing points per solve the state handed to conflict analysis (trail, levels, reasons, conflict) and its result, and the state when propagation ended without conflict, are judged by coq/Judge/J21.v: the state meets the hypotheses of the theorems about Model/Learn.v / Model/CPSearch.v, the analysis returned what the model computes on that state, no constraint is falsified (nor, for clauses and cardinality constraints, propagating) at a quiet point'
             ' Third part (T02): WHOLE RUNS of the search loop: tracing at every tracing point (up to 300 per solve, a third of the solves with restarts forced by the hook VerifRestartEvery, learned-clause limit lowered by VerifSetNbMax); coq/Judge/J22.v rebuilds the command list of coq/Model/Search.v from the snapshots (decisions, propagations with their reasons, conflicts, restarts, forgotten clauses), runs the mirrored loop on it -- the successor of each conflict is computed by Model.Learn.conflict_step --, demands the observed state after every group of commands and the observed answer at the end, and replays the whole list with Model.Search.replay (J_trace_unsat / J_trace_sat: the answer is then proved right for this run)'
             ' Fourth part (P02): the Problem value built by the front end (NbVars, Status, Units, Model, Clauses in order with their literals in order, weights and degree) equals, field by field, what the mirrored front end of coq/Model/Simplify.v / Model/Solve.v builds from the same arguments (coq/Judge/J23.v); for P02 also the results of GtEq / LtEq / Eq against Model/PBNorm.v'
             ' Fifth part (G02): the constructors of pb.go / card.go (WeightSum PropClause AtLeast AtMost GtEq LtEq Eq AtLeast1 AtMost1 Exactly1) on generated arguments (nil / empty / non-empty slices, weights of any sign incl. 0, equal and unequal lengths): result, panic and the contents of the CALLER\'s slices after the call equal what the interpreter of coq/Model/GoIR.v computes on the syntax trees regenerated from the same sources (coq/Gen/GoSrc.v); this checks the translator and the slice semantics that the refinement theorems of coq/Properties/C02g.v (executed source = hand-written model, for every input) rest on',
        nontrivial=_solve_nontrivial, stats=_verdict_stats,
        assumptions=['each variable occurs at most once per constraint (as the property states)',
                     'Go int overflow is not modelled (coefficients are small)'],
    ),
    'C03': dict(
        theorem_files=['C03', 'Judges'],
        judge='C03m', judge_module='Judge.JModel', judge_fn='judge_C03_m',
        cases=dict(quick=8000, thorough=80000),
        rule='random problems (CNF, long clauses, 3-SAT, cardinality, PB; 2..9 variables quick, 2..13 thorough) x cost function '
             'over 0..6 distinct variables, either polarity, weights 0..6 with zeros and repeats, nil weight slice, empty cost, '
             'no cost function; entry points Optimal(nil), Optimal(chan), Minimize; one third of the PB/cardinality problems go '
             'through an OPB text with a min: line, a quarter of those with negative cost coefficients; non-trivial = satisfiable '
             'with optimum > 0',
        nontrivial=lambda sx, v, meta: v[0] == 'ok' and len(v[2]) > 1 and int(v[2][1]) > 0,
        stats=_verdict_stats,
        assumptions=['cost literals are over distinct variables (as the property states)'],
    ),
    'C04': dict(
        theorem_files=['C04', 'Judges'],
        judge='C04', judge_module='Judge.J04', judge_fn='judge_C04',
        cases=dict(quick=6000, thorough=60000),
        rule='(round 5: WCNF texts with empty soft / hard clauses; api route with coefficient slices shared between constraints and the problem built twice from the same constraints) random weighted partial MaxSAT instances over 1..7 (quick) / 1..10 (thorough) names, 1..n+4 constraints, each hard '
             'or soft with weight 1..5; API route: clauses, cardinality constraints (nil coefficients, degree 1..len), PB '
             'constraints (coefficients 1..4, occasionally 0 or negative, degree 0..sum+1); WCNF route (channel and nil): declared '
             'n = max or max+1 or max+3, top absent / above the sum / small (weights >= top are hard); non-trivial = hard part '
             'satisfiable and optimum > 0',
        nontrivial=lambda sx, v, meta: v[0] == 'ok' and len(v[2]) > 1 and int(v[2][1]) > 0,
        stats=_verdict_stats,
        assumptions=['soft weights >= 1 (as the property states)'],
    ),
    'C05': dict(
        theorem_files=['C05', 'Judges'],
        judge='C05m', judge_module='Judge.JModel', judge_fn='judge_C05_m',
        cases=dict(quick=3000, thorough=40000),
        rule='(round 5: a quarter of the cases count / enumerate with the cutting-planes strategy on) cases = fixed empty problems (n=0..6, four front ends) then random CNF / long-clause / unit-rich / '
             'cardinality / PB problems over 1..8 (quick) or 1..11 (thorough) variables; a case is non-trivial when it '
             'has at least one constraint and at least one model; distinct = distinct (problem, observables) texts',
        nontrivial=lambda sx, v, meta: _info0_pos(sx, v, meta) and not meta.get('class', '').startswith('empty'),
        assumptions=['the cardinality front end has no variable declaration: its variables are those of constraints '
                     'that are not trivially true (harness/prob.go NbVars)'],
    ),
}
