"""Per-property configuration of bin/check."""

def _info0_pos(sx, v, meta):
    return v[0] == 'ok' and len(v[2]) > 0 and int(v[2][0]) > 0

PROPS = {
    'C05': dict(
        judge='C05', judge_module='Judge.J05', judge_fn='judge_C05',
        cases=dict(quick=3000, thorough=40000),
        rule='cases = fixed empty problems (n=0..6, four front ends) then random CNF / long-clause / unit-rich / '
             'cardinality / PB problems over 1..8 (quick) or 1..11 (thorough) variables; a case is non-trivial when it '
             'has at least one constraint and at least one model; distinct = distinct (problem, observables) texts',
        nontrivial=lambda sx, v, meta: _info0_pos(sx, v, meta) and not meta.get('class', '').startswith('empty'),
        assumptions=['the cardinality front end has no variable declaration: its variables are those of constraints '
                     'that are not trivially true (harness/prob.go NbVars)'],
    ),
}
