"""Convert the textual s-expression of a case to a Gallina term of type sx."""
import re

def sx_to_coq(s):
    out = []
    toks = re.findall(r'\(|\)|-?\d+', s)
    # stack of "first element?" flags
    first = []
    for t in toks:
        if t == '(':
            if first:
                if not first[-1]:
                    out.append('; ')
                first[-1] = False
            out.append('L [')
            first.append(True)
        elif t == ')':
            out.append(']')
            first.pop()
        else:
            if first:
                if not first[-1]:
                    out.append('; ')
                first[-1] = False
            out.append('I (%s)' % t)
    return ''.join(out)
