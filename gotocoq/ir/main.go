// gotoir: a purely syntactic translator from a small imperative subset of Go to terms of the deeply
// embedded language of coq/Model/GoIR.v.  Unlike gotocoq (which gives loop-free functions a Gallina
// meaning directly) this translator assigns no meaning at all: it maps the syntax tree of a function to
// a constructor term; the meaning is the interpreter [exec] of GoIR.v, and coq/Proofs/GoSrc*.v prove the
// translated terms equal to the hand-written models.
//
// Subset: functions and value-receiver methods over int, []int, bool and the struct types of the files
// given (fields of those types), with assignments, a[i] = e, op-assignments, ++/--, if/else, three-clause
// for, range over a slice, return of one value, panic, make([]int, n), copy, append(a, b...),
// append(a, e) on a slice of structs, composite literals of struct types and of slices of structs, calls
// (also variadic, with f(s...)) of functions translated in the same run.  Anything else is an error:
// the function is then defined as a body that panics at once, so that every proof about it fails (and the
// differential run of the interpreter against the real function disagrees) and the check reports the
// obligation as no longer checked.
//
// usage: gotoir <repo> <out.v> file.go:Func file.go:Recv.Method ...
package main

import (
	"fmt"
	"go/ast"
	"go/parser"
	"go/token"
	"os"
	"path/filepath"
	"strings"
)

type unsupported struct{ msg string }

func fail(format string, a ...interface{}) { panic(unsupported{fmt.Sprintf(format, a...)}) }

type structT struct {
	fields []string
	types  []ast.Expr
}

var structs = map[string]*structT{}
var wanted = map[string]bool{} // function keys translated in this run
var fset = token.NewFileSet()

func q(s string) string { return "\"" + s + "\"" }

func isIntType(e ast.Expr) bool {
	id, ok := e.(*ast.Ident)
	return ok && id.Name == "int"
}

func isIntSlice(e ast.Expr) bool {
	a, ok := e.(*ast.ArrayType)
	return ok && a.Len == nil && isIntType(a.Elt)
}

func structSliceOf(e ast.Expr) string {
	a, ok := e.(*ast.ArrayType)
	if !ok || a.Len != nil {
		return ""
	}
	if id, ok := a.Elt.(*ast.Ident); ok && structs[id.Name] != nil {
		return id.Name
	}
	return ""
}

func zero(t ast.Expr) string {
	switch {
	case isIntType(t):
		return "(EInt 0)"
	case isIntSlice(t), structSliceOf(t) != "":
		return "ENil"
	}
	if id, ok := t.(*ast.Ident); ok {
		if id.Name == "bool" {
			return "(EBool false)"
		}
		if st := structs[id.Name]; st != nil {
			parts := []string{}
			for _, ft := range st.types {
				parts = append(parts, zero(ft))
			}
			return "(EStruct [" + strings.Join(parts, "; ") + "])"
		}
	}
	fail("zero value of type at %s", fset.Position(t.Pos()))
	return ""
}

// per function
type ctx struct {
	declared map[string]bool
	vstruct  map[string]string // struct type of a local where it is known syntactically
	tmp      int
	pre      []string // hoisted call statements for the statement being translated
}

func (c *ctx) declare(name string, pos token.Pos) {
	if name == "_" {
		return
	}
	if c.declared[name] {
		fail("name %s declared twice in one function (%s): one flat frame per call", name, fset.Position(pos))
	}
	c.declared[name] = true
}

var binops = map[token.Token]string{token.ADD: "Add", token.SUB: "Sub", token.MUL: "Mul", token.LSS: "Lt", token.LEQ: "Le",
	token.GTR: "Gt", token.GEQ: "Ge", token.EQL: "Eq", token.NEQ: "Ne", token.LAND: "And", token.LOR: "Or"}

// structOf returns the name of the struct type of e when it is known syntactically (a variable whose type was
// declared or whose value came from a call or a composite literal), "" otherwise
func (c *ctx) structOf(e ast.Expr) string {
	switch x := e.(type) {
	case *ast.ParenExpr:
		return c.structOf(x.X)
	case *ast.Ident:
		return c.vstruct[x.Name]
	case *ast.CompositeLit:
		if id, ok := x.Type.(*ast.Ident); ok && structs[id.Name] != nil {
			return id.Name
		}
	case *ast.CallExpr:
		if id, ok := x.Fun.(*ast.Ident); ok {
			return resultStruct[id.Name]
		}
	}
	return ""
}

func (c *ctx) fieldIndex(x *ast.SelectorExpr) int {
	sn := c.structOf(x.X)
	if sn == "" {
		fail("selector %s on a value whose struct type is not known syntactically (%s)", x.Sel.Name, fset.Position(x.Pos()))
	}
	for i, f := range structs[sn].fields {
		if f == x.Sel.Name {
			return i
		}
	}
	fail("unknown field %s of %s at %s", x.Sel.Name, sn, fset.Position(x.Pos()))
	return -1
}

var resultStruct = map[string]string{} // function -> struct type of its result, if any

func (c *ctx) call(x *ast.CallExpr) string {
	// user function call: hoisted into a temporary
	id, ok := x.Fun.(*ast.Ident)
	if !ok {
		fail("call of a non-identifier at %s", fset.Position(x.Pos()))
	}
	if !wanted[id.Name] {
		fail("call of %s, which is not translated in this run (%s)", id.Name, fset.Position(x.Pos()))
	}
	args := []string{}
	for _, a := range x.Args {
		args = append(args, c.expr(a))
	}
	// f(s...) passes the slice itself: nothing to do; f(a, b, c) to a variadic parameter is refused
	if x.Ellipsis == token.NoPos && variadic[id.Name] {
		fail("variadic call of %s without ... at %s", id.Name, fset.Position(x.Pos()))
	}
	c.tmp++
	t := fmt.Sprintf("$%d", c.tmp)
	c.pre = append(c.pre, fmt.Sprintf("(SCall %s %s [%s])", q(t), q(id.Name), strings.Join(args, "; ")))
	return "(EVar " + q(t) + ")"
}

var variadic = map[string]bool{}

func (c *ctx) expr(e ast.Expr) string {
	switch x := e.(type) {
	case *ast.ParenExpr:
		return c.expr(x.X)
	case *ast.BasicLit:
		if x.Kind == token.INT {
			return "(EInt " + strings.ReplaceAll(x.Value, "_", "") + ")"
		}
		fail("literal %s", x.Value)
	case *ast.Ident:
		switch x.Name {
		case "true":
			return "(EBool true)"
		case "false":
			return "(EBool false)"
		case "nil":
			return "ENil"
		}
		if !c.declared[x.Name] {
			fail("unknown identifier %s at %s", x.Name, fset.Position(x.Pos()))
		}
		return "(EVar " + q(x.Name) + ")"
	case *ast.UnaryExpr:
		switch x.Op {
		case token.SUB:
			return "(ENeg " + c.expr(x.X) + ")"
		case token.NOT:
			return "(ENot " + c.expr(x.X) + ")"
		case token.ADD:
			return c.expr(x.X)
		}
		fail("unary operator %s", x.Op)
	case *ast.BinaryExpr:
		op, ok := binops[x.Op]
		if !ok {
			fail("binary operator %s at %s", x.Op, fset.Position(x.Pos()))
		}
		return "(EBin " + op + " " + c.expr(x.X) + " " + c.expr(x.Y) + ")"
	case *ast.IndexExpr:
		return "(EIdx " + c.expr(x.X) + " " + c.expr(x.Index) + ")"
	case *ast.SliceExpr:
		if x.Slice3 {
			fail("three-index slice at %s", fset.Position(x.Pos()))
		}
		lo, hi := "None", "None"
		if x.Low != nil {
			lo = "(Some " + c.expr(x.Low) + ")"
		}
		if x.High != nil {
			hi = "(Some " + c.expr(x.High) + ")"
		}
		return "(ESub " + c.expr(x.X) + " " + lo + " " + hi + ")"
	case *ast.SelectorExpr:
		return fmt.Sprintf("(EFld %s %d)", c.expr(x.X), c.fieldIndex(x))
	case *ast.CompositeLit:
		if id, ok := x.Type.(*ast.Ident); ok && structs[id.Name] != nil {
			st := structs[id.Name]
			vals := make([]string, len(st.fields))
			for i, t := range st.types {
				vals[i] = zero(t)
			}
			for i, el := range x.Elts {
				if kv, ok := el.(*ast.KeyValueExpr); ok {
					k := kv.Key.(*ast.Ident).Name
					pos := -1
					for j, f := range st.fields {
						if f == k {
							pos = j
						}
					}
					if pos < 0 {
						fail("unknown field %s", k)
					}
					vals[pos] = c.expr(kv.Value)
				} else {
					if len(x.Elts) != len(st.fields) {
						fail("positional struct literal with missing fields")
					}
					vals[i] = c.expr(el)
				}
			}
			return "(EStruct [" + strings.Join(vals, "; ") + "])"
		}
		if structSliceOf(x.Type) != "" {
			vals := []string{}
			for _, el := range x.Elts {
				vals = append(vals, c.expr(el))
			}
			return "(EList [" + strings.Join(vals, "; ") + "])"
		}
		fail("composite literal at %s", fset.Position(x.Pos()))
	case *ast.CallExpr:
		if id, ok := x.Fun.(*ast.Ident); ok {
			switch id.Name {
			case "len":
				if len(x.Args) == 1 {
					return "(ELen " + c.expr(x.Args[0]) + ")"
				}
			case "make", "append", "copy", "panic", "cap", "new":
				fail("builtin %s in expression position at %s", id.Name, fset.Position(x.Pos()))
			}
		}
		return c.call(x)
	}
	fail("expression at %s", fset.Position(e.Pos()))
	return ""
}

func seq(ss []string) string {
	if len(ss) == 0 {
		return "SSkip"
	}
	if len(ss) == 1 {
		return ss[0]
	}
	return "(SSeq " + ss[0] + "\n      " + seq(ss[1:]) + ")"
}

// withPre wraps a statement with the calls hoisted out of its expressions
func (c *ctx) withPre(mk func() string) string {
	saved := c.pre
	c.pre = nil
	s := mk()
	pre := c.pre
	c.pre = saved
	return seq(append(pre, s))
}

// assignment of the value of rhs (possibly a builtin call) to variable name
func (c *ctx) assignVar(name string, rhs ast.Expr, pos token.Pos) string {
	if call, ok := rhs.(*ast.CallExpr); ok {
		if id, ok := call.Fun.(*ast.Ident); ok {
			switch id.Name {
			case "make":
				if len(call.Args) == 2 && isIntSlice(call.Args[0]) {
					return c.withPre(func() string { return fmt.Sprintf("(SMake %s %s)", q(name), c.expr(call.Args[1])) })
				}
				fail("make other than make([]int, n) at %s", fset.Position(pos))
			case "append":
				if len(call.Args) == 2 && call.Ellipsis != token.NoPos {
					return c.withPre(func() string {
						return fmt.Sprintf("(SAppendSl %s %s %s)", q(name), c.expr(call.Args[0]), c.expr(call.Args[1]))
					})
				}
				if len(call.Args) == 2 {
					return c.withPre(func() string {
						return fmt.Sprintf("(SAppendV %s %s %s)", q(name), c.expr(call.Args[0]), c.expr(call.Args[1]))
					})
				}
				fail("append with %d arguments at %s", len(call.Args), fset.Position(pos))
			}
			if wanted[id.Name] {
				// x := f(args): the call itself, no temporary
				return c.withPre(func() string {
					args := []string{}
					for _, a := range call.Args {
						args = append(args, c.expr(a))
					}
					if call.Ellipsis == token.NoPos && variadic[id.Name] {
						fail("variadic call of %s without ... at %s", id.Name, fset.Position(pos))
					}
					return fmt.Sprintf("(SCall %s %s [%s])", q(name), q(id.Name), strings.Join(args, "; "))
				})
			}
		}
	}
	return c.withPre(func() string { return fmt.Sprintf("(SSet %s %s)", q(name), c.expr(rhs)) })
}

var opAssign = map[token.Token]string{token.ADD_ASSIGN: "Add", token.SUB_ASSIGN: "Sub", token.MUL_ASSIGN: "Mul"}

func (c *ctx) stmt(s ast.Stmt) string {
	switch x := s.(type) {
	case *ast.BlockStmt:
		return c.block(x.List)
	case *ast.EmptyStmt:
		return "SSkip"
	case *ast.ExprStmt:
		if call, ok := x.X.(*ast.CallExpr); ok {
			if id, ok := call.Fun.(*ast.Ident); ok {
				switch id.Name {
				case "panic":
					return "SPanic"
				case "copy":
					if len(call.Args) == 2 {
						return c.withPre(func() string {
							return fmt.Sprintf("(SCopy %s %s)", c.expr(call.Args[0]), c.expr(call.Args[1]))
						})
					}
				}
			}
		}
		fail("expression statement at %s", fset.Position(x.Pos()))
	case *ast.IncDecStmt:
		id, ok := x.X.(*ast.Ident)
		if !ok {
			fail("++/-- on a non-variable at %s", fset.Position(x.Pos()))
		}
		op := "Add"
		if x.Tok == token.DEC {
			op = "Sub"
		}
		return fmt.Sprintf("(SSet %s (EBin %s %s (EInt 1)))", q(id.Name), op, c.expr(id))
	case *ast.DeclStmt:
		gd, ok := x.Decl.(*ast.GenDecl)
		if !ok || gd.Tok != token.VAR {
			fail("declaration at %s", fset.Position(x.Pos()))
		}
		out := []string{}
		for _, sp := range gd.Specs {
			vs := sp.(*ast.ValueSpec)
			for i, n := range vs.Names {
				if len(vs.Values) > i {
					r := c.assignVar(n.Name, vs.Values[i], n.Pos())
					c.declare(n.Name, n.Pos())
					c.vstruct[n.Name] = c.structOf(vs.Values[i])
					out = append(out, r)
				} else {
					if vs.Type == nil {
						fail("var without type or value")
					}
					c.declare(n.Name, n.Pos())
					if id, ok := vs.Type.(*ast.Ident); ok && structs[id.Name] != nil {
						c.vstruct[n.Name] = id.Name
					}
					out = append(out, fmt.Sprintf("(SSet %s %s)", q(n.Name), zero(vs.Type)))
				}
			}
		}
		return seq(out)
	case *ast.AssignStmt:
		if len(x.Lhs) != 1 || len(x.Rhs) != 1 {
			fail("parallel assignment at %s", fset.Position(x.Pos()))
		}
		lhs, rhs := x.Lhs[0], x.Rhs[0]
		switch x.Tok {
		case token.DEFINE:
			id, ok := lhs.(*ast.Ident)
			if !ok {
				fail(":= to a non-variable")
			}
			r := c.assignVar(id.Name, rhs, id.Pos()) // the right-hand side cannot see the new name
			c.declare(id.Name, id.Pos())
			c.vstruct[id.Name] = c.structOf(rhs)
			return r
		case token.ASSIGN:
			switch l := lhs.(type) {
			case *ast.Ident:
				if l.Name == "_" {
					fail("assignment to _")
				}
				if !c.declared[l.Name] {
					fail("assignment to unknown %s", l.Name)
				}
				return c.assignVar(l.Name, rhs, l.Pos())
			case *ast.IndexExpr:
				return c.withPre(func() string {
					return fmt.Sprintf("(SSetIdx %s %s %s)", c.expr(l.X), c.expr(l.Index), c.expr(rhs))
				})
			}
			fail("assignment target at %s", fset.Position(x.Pos()))
		default:
			op, ok := opAssign[x.Tok]
			if !ok {
				fail("assignment operator %s", x.Tok)
			}
			switch l := lhs.(type) {
			case *ast.Ident:
				return c.withPre(func() string {
					return fmt.Sprintf("(SSet %s (EBin %s %s %s))", q(l.Name), op, c.expr(l), c.expr(rhs))
				})
			case *ast.IndexExpr:
				return c.withPre(func() string {
					return fmt.Sprintf("(SSetIdx %s %s (EBin %s %s %s))", c.expr(l.X), c.expr(l.Index), op, c.expr(l), c.expr(rhs))
				})
			}
			fail("op-assignment target at %s", fset.Position(x.Pos()))
		}
	case *ast.IfStmt:
		if x.Init != nil {
			fail("if with an init statement at %s", fset.Position(x.Pos()))
		}
		return c.withPre(func() string {
			cond := c.expr(x.Cond)
			th := c.block(x.Body.List)
			el := "SSkip"
			if x.Else != nil {
				el = c.stmt(x.Else)
			}
			return "(SIf " + cond + "\n      " + th + "\n      " + el + ")"
		})
	case *ast.ForStmt:
		init := "SSkip"
		if x.Init != nil {
			init = c.stmt(x.Init)
		}
		cond := "(EBool true)"
		if x.Cond != nil {
			n := len(c.pre)
			cond = c.expr(x.Cond)
			if len(c.pre) != n {
				fail("call in a loop condition at %s", fset.Position(x.Pos()))
			}
		}
		post := "SSkip"
		if x.Post != nil {
			post = c.stmt(x.Post)
		}
		body := c.block(x.Body.List)
		checkNoBreak(x.Body)
		return "(SSeq " + init + "\n      (SFor " + cond + " " + post + "\n      " + body + "))"
	case *ast.RangeStmt:
		if x.Tok != token.DEFINE && (x.Key != nil || x.Value != nil) {
			fail("range with = at %s", fset.Position(x.Pos()))
		}
		k, v := "_", "_"
		n := len(c.pre)
		a := c.expr(x.X)
		if len(c.pre) != n {
			fail("call in a range expression")
		}
		if x.Key != nil {
			k = x.Key.(*ast.Ident).Name
			c.declare(k, x.Key.Pos())
		}
		if x.Value != nil {
			v = x.Value.(*ast.Ident).Name
			c.declare(v, x.Value.Pos())
		}
		checkNoBreak(x.Body)
		return fmt.Sprintf("(SRange %s %s %s\n      %s)", q(k), q(v), a, c.block(x.Body.List))
	case *ast.ReturnStmt:
		if len(x.Results) != 1 {
			fail("return of %d values at %s", len(x.Results), fset.Position(x.Pos()))
		}
		return c.withPre(func() string { return "(SReturn " + c.expr(x.Results[0]) + ")" })
	}
	fail("statement at %s", fset.Position(s.Pos()))
	return ""
}

func checkNoBreak(b *ast.BlockStmt) {
	ast.Inspect(b, func(n ast.Node) bool {
		if br, ok := n.(*ast.BranchStmt); ok {
			fail("%s at %s", br.Tok, fset.Position(br.Pos()))
		}
		return true
	})
}

func (c *ctx) block(l []ast.Stmt) string {
	out := []string{}
	for _, s := range l {
		out = append(out, c.stmt(s))
	}
	return seq(out)
}

func checkType(t ast.Expr, what string) {
	if isIntType(t) || isIntSlice(t) || structSliceOf(t) != "" {
		return
	}
	if id, ok := t.(*ast.Ident); ok && (id.Name == "bool" || structs[id.Name] != nil) {
		return
	}
	if el, ok := t.(*ast.Ellipsis); ok && isIntType(el.Elt) {
		return
	}
	fail("type of %s at %s", what, fset.Position(t.Pos()))
}


// renameFunc gives every local declaration of the function a name of its own (i, i#2, i#3 ...) by rewriting the
// identifiers of the syntax tree in place, following Go's block scoping (blocks, if / for / range headers, := seeing the
// outer name on its right-hand side).  The translated function then lives in one flat frame without any name standing
// for two variables.  Field names, function names and types are not in any scope and stay as they are.
func renameFunc(d *ast.FuncDecl) {
	used := map[string]int{}
	stack := []map[string]string{{}}
	push := func() { stack = append(stack, map[string]string{}) }
	pop := func() { stack = stack[:len(stack)-1] }
	declare := func(id *ast.Ident) {
		if id == nil || id.Name == "_" {
			return
		}
		base := id.Name
		used[base]++
		nn := base
		if used[base] > 1 {
			nn = fmt.Sprintf("%s#%d", base, used[base])
		}
		stack[len(stack)-1][base] = nn
		id.Name = nn
	}
	use := func(id *ast.Ident) {
		for i := len(stack) - 1; i >= 0; i-- {
			if nn, ok := stack[i][id.Name]; ok {
				id.Name = nn
				return
			}
		}
	}
	var expr func(e ast.Expr)
	expr = func(e ast.Expr) {
		switch x := e.(type) {
		case nil:
		case *ast.Ident:
			use(x)
		case *ast.ParenExpr:
			expr(x.X)
		case *ast.UnaryExpr:
			expr(x.X)
		case *ast.StarExpr:
			expr(x.X)
		case *ast.BinaryExpr:
			expr(x.X)
			expr(x.Y)
		case *ast.IndexExpr:
			expr(x.X)
			expr(x.Index)
		case *ast.SliceExpr:
			expr(x.X)
			expr(x.Low)
			expr(x.High)
			expr(x.Max)
		case *ast.SelectorExpr:
			expr(x.X)
		case *ast.KeyValueExpr:
			expr(x.Value)
		case *ast.CompositeLit:
			for _, el := range x.Elts {
				expr(el)
			}
		case *ast.CallExpr:
			expr(x.Fun)
			for _, a := range x.Args {
				expr(a)
			}
		}
	}
	var stmt func(s ast.Stmt)
	block := func(b *ast.BlockStmt) {
		if b == nil {
			return
		}
		push()
		for _, s := range b.List {
			stmt(s)
		}
		pop()
	}
	stmt = func(s ast.Stmt) {
		switch x := s.(type) {
		case nil:
		case *ast.BlockStmt:
			block(x)
		case *ast.ExprStmt:
			expr(x.X)
		case *ast.IncDecStmt:
			expr(x.X)
		case *ast.ReturnStmt:
			for _, r := range x.Results {
				expr(r)
			}
		case *ast.DeclStmt:
			if gd, ok := x.Decl.(*ast.GenDecl); ok {
				for _, sp := range gd.Specs {
					if vs, ok := sp.(*ast.ValueSpec); ok {
						for _, v := range vs.Values {
							expr(v)
						}
						for _, n := range vs.Names {
							declare(n)
						}
					}
				}
			}
		case *ast.AssignStmt:
			for _, r := range x.Rhs {
				expr(r)
			}
			for _, l := range x.Lhs {
				if id, ok := l.(*ast.Ident); ok && x.Tok == token.DEFINE {
					if _, here := stack[len(stack)-1][id.Name]; here {
						use(id) // a := with a name of this very scope is an assignment to it
					} else {
						declare(id)
					}
				} else {
					expr(l)
				}
			}
		case *ast.IfStmt:
			push()
			stmt(x.Init)
			expr(x.Cond)
			block(x.Body)
			stmt(x.Else)
			pop()
		case *ast.ForStmt:
			push()
			stmt(x.Init)
			expr(x.Cond)
			stmt(x.Post)
			block(x.Body)
			pop()
		case *ast.RangeStmt:
			expr(x.X)
			push()
			if x.Tok == token.DEFINE {
				if id, ok := x.Key.(*ast.Ident); ok {
					declare(id)
				}
				if id, ok := x.Value.(*ast.Ident); ok {
					declare(id)
				}
			} else {
				expr(x.Key)
				expr(x.Value)
			}
			block(x.Body)
			pop()
		}
	}
	if d.Recv != nil {
		for _, f := range d.Recv.List {
			for _, n := range f.Names {
				declare(n)
			}
		}
	}
	for _, f := range d.Type.Params.List {
		for _, n := range f.Names {
			declare(n)
		}
	}
	for _, s := range d.Body.List {
		stmt(s)
	}
}

func translate(key string, d *ast.FuncDecl) (text string, err error) {
	defer func() {
		if r := recover(); r != nil {
			if u, ok := r.(unsupported); ok {
				err = fmt.Errorf("%s: %s", key, u.msg)
				return
			}
			panic(r)
		}
	}()
	renameFunc(d)
	c := &ctx{declared: map[string]bool{}, vstruct: map[string]string{}}
	params := []string{}
	if d.Recv != nil {
		f := d.Recv.List[0]
		if _, ptr := f.Type.(*ast.StarExpr); ptr {
			fail("pointer receiver")
		}
		checkType(f.Type, "receiver")
		if len(f.Names) != 1 {
			fail("receiver without a name")
		}
		c.declare(f.Names[0].Name, f.Pos())
		if id, ok := f.Type.(*ast.Ident); ok && structs[id.Name] != nil {
			c.vstruct[f.Names[0].Name] = id.Name
		}
		params = append(params, f.Names[0].Name)
	}
	for _, f := range d.Type.Params.List {
		checkType(f.Type, "parameter")
		for _, n := range f.Names {
			c.declare(n.Name, n.Pos())
			if id, ok := f.Type.(*ast.Ident); ok && structs[id.Name] != nil {
				c.vstruct[n.Name] = id.Name
			}
			params = append(params, n.Name)
		}
	}
	if d.Type.Results == nil || len(d.Type.Results.List) != 1 || len(d.Type.Results.List[0].Names) != 0 {
		fail("the function must return exactly one unnamed value")
	}
	checkType(d.Type.Results.List[0].Type, "result")
	body := c.block(d.Body.List)
	qs := []string{}
	for _, p := range params {
		qs = append(qs, q(p))
	}
	pos := fset.Position(d.Pos())
	return fmt.Sprintf("(* %s:%d *)\nDefinition src_%s : fdef :=\n  FDef [%s]\n    %s.\n",
		filepath.Base(pos.Filename), pos.Line, strings.ReplaceAll(key, ".", "_"), strings.Join(qs, "; "), body), nil
}

func main() {
	if len(os.Args) < 4 {
		fmt.Fprintln(os.Stderr, "usage: gotoir <repo> <out.v> file.go:Func ...")
		os.Exit(2)
	}
	repo, out := os.Args[1], os.Args[2]
	type want struct{ file, key string }
	wants := []want{}
	files := map[string]*ast.File{}
	var errs []string
	for _, a := range os.Args[3:] {
		p := strings.SplitN(a, ":", 2)
		wants = append(wants, want{p[0], p[1]})
		if files[p[0]] == nil {
			f, err := parser.ParseFile(fset, filepath.Join(repo, p[0]), nil, 0)
			if err != nil {
				errs = append(errs, err.Error())
				continue
			}
			files[p[0]] = f
		}
	}
	// struct types of the files, function names, variadic functions
	for _, f := range files {
		for _, d := range f.Decls {
			if gd, ok := d.(*ast.GenDecl); ok && gd.Tok == token.TYPE {
				for _, sp := range gd.Specs {
					ts := sp.(*ast.TypeSpec)
					if st, ok := ts.Type.(*ast.StructType); ok {
						s := &structT{}
						for _, fl := range st.Fields.List {
							for _, n := range fl.Names {
								s.fields = append(s.fields, n.Name)
								s.types = append(s.types, fl.Type)
							}
						}
						structs[ts.Name.Name] = s
					}
				}
			}
		}
	}
	decls := map[string]*ast.FuncDecl{}
	for fn, f := range files {
		for _, d := range f.Decls {
			if fd, ok := d.(*ast.FuncDecl); ok && fd.Body != nil {
				key := fd.Name.Name
				if fd.Recv != nil {
					t := fd.Recv.List[0].Type
					if st, ok := t.(*ast.StarExpr); ok {
						t = st.X
					}
					if id, ok := t.(*ast.Ident); ok {
						key = id.Name + "." + key
					}
				}
				decls[fn+":"+key] = fd
			}
		}
	}
	for _, w := range wants {
		if d := decls[w.file+":"+w.key]; d != nil && d.Recv == nil {
			wanted[w.key] = true
			if rl := d.Type.Results; rl != nil && len(rl.List) == 1 {
				if id, ok := rl.List[0].Type.(*ast.Ident); ok && structs[id.Name] != nil {
					resultStruct[w.key] = id.Name
				}
			}
			pl := d.Type.Params.List
			if len(pl) > 0 {
				if _, ok := pl[len(pl)-1].Type.(*ast.Ellipsis); ok {
					variadic[w.key] = true
				}
			}
		}
	}
	var b strings.Builder
	b.WriteString("(* GENERATED by /verif/gotocoq/ir from the Go sources of /repo on every run -- do not edit.\n")
	b.WriteString("   A purely syntactic image of the functions below in the language of Model/GoIR.v. *)\n")
	b.WriteString("From Coq Require Import List ZArith String.\nFrom GS Require Import Model.GoIR.\nImport ListNotations.\nOpen Scope string_scope.\nOpen Scope Z_scope.\n\n")
	names := []string{}
	for _, w := range wants {
		d := decls[w.file+":"+w.key]
		var t string
		var err error
		if d == nil {
			err = fmt.Errorf("%s:%s not found", w.file, w.key)
		} else {
			t, err = translate(w.key, d)
		}
		if err != nil {
			// the function left the subset: it is DEFINED (so that the rest of the development still builds) as a body that
			// panics at once, which no theorem about the function accepts and no run of the real function matches
			errs = append(errs, err.Error())
			t = fmt.Sprintf("(* TRANSLATION FAILED: %s *)\nDefinition src_%s : fdef := FDef [] SPanic.\n",
				strings.ReplaceAll(err.Error(), "*)", "* )"), strings.ReplaceAll(w.key, ".", "_"))
		}
		b.WriteString(t + "\n")
		names = append(names, w.key)
	}
	for _, m := range errs {
		fmt.Fprintln(os.Stderr, "gotoir:", m)
	}
	b.WriteString("Definition go_funs : funenv :=\n  [")
	for i, n := range names {
		if i > 0 {
			b.WriteString(";\n   ")
		}
		b.WriteString(fmt.Sprintf("(%s, src_%s)", q(n), strings.ReplaceAll(n, ".", "_")))
	}
	b.WriteString("].\n\n(* translated: " + strings.Join(names, " ") + " *)\n")
	if err := os.WriteFile(out, []byte(b.String()), 0644); err != nil {
		fmt.Fprintln(os.Stderr, err)
		os.Exit(2)
	}
	if len(errs) > 0 {
		os.Exit(1)
	}
}
