// gotocoq: a translator from a deliberately tiny subset of Go to Gallina (see DESIGN.md section 3.1).
// It handles top-level functions and methods whose bodies are loop-free: if/else, return, local :=,
// integer and boolean expressions, conversions between integer types, calls to other translated
// functions.  Integers become Z with Go's operators written out (/ -> Z.quot, % -> Z.rem, ^ -> Z.lxor,
// & -> Z.land, | -> Z.lor, << -> Z.shiftl, >> -> Z.shiftr); fixed-width overflow is not modelled.
// A function that leaves the subset is reported as "not translated" and skipped.
//
// usage: gotocoq <repo> <out.v> file.go:Func file.go:Recv.Method ...
package main

import (
	"fmt"
	"go/ast"
	"go/parser"
	"go/token"
	"os"
	"path/filepath"
	"sort"
	"strings"
)

type fn struct {
	key  string // Recv.Name or Name
	coq  string // Gallina name
	decl *ast.FuncDecl
	ret  string // "Z" or "bool"
}

var funcs = map[string]*fn{}
var intTypes = map[string]bool{"int": true, "int32": true, "int64": true, "uint": true, "uint32": true, "Lit": true, "Var": true, "decLevel": true, "T": true}

type unsupported struct{ msg string }

func fail(format string, a ...interface{}) { panic(unsupported{fmt.Sprintf(format, a...)}) }

func typeName(e ast.Expr) string {
	switch t := e.(type) {
	case *ast.Ident:
		return t.Name
	case *ast.StarExpr:
		return typeName(t.X)
	}
	return "?"
}

func coqType(e ast.Expr) string {
	n := typeName(e)
	if n == "bool" {
		return "bool"
	}
	if intTypes[n] {
		return "Z"
	}
	fail("type %s", n)
	return ""
}

type env map[string]string // variable -> type ("Z"/"bool")

// expr returns the Gallina text and the type of e.
func expr(e ast.Expr, en env) (string, string) {
	switch x := e.(type) {
	case *ast.ParenExpr:
		return expr(x.X, en)
	case *ast.BasicLit:
		if x.Kind == token.INT {
			return strings.ReplaceAll(x.Value, "_", ""), "Z"
		}
		fail("literal %s", x.Value)
	case *ast.Ident:
		if x.Name == "true" || x.Name == "false" {
			return x.Name, "bool"
		}
		if t, ok := en[x.Name]; ok {
			return x.Name, t
		}
		fail("unknown identifier %s", x.Name)
	case *ast.UnaryExpr:
		s, t := expr(x.X, en)
		switch x.Op {
		case token.SUB:
			return "(- " + s + ")", "Z"
		case token.NOT:
			if t != "bool" {
				fail("! on non-bool")
			}
			return "(negb " + s + ")", "bool"
		}
		fail("unary %s", x.Op)
	case *ast.BinaryExpr:
		a, ta := expr(x.X, en)
		b, tb := expr(x.Y, en)
		zop := map[token.Token]string{token.ADD: "Z.add", token.SUB: "Z.sub", token.MUL: "Z.mul", token.QUO: "Z.quot", token.REM: "Z.rem",
			token.AND: "Z.land", token.OR: "Z.lor", token.XOR: "Z.lxor", token.SHL: "Z.shiftl", token.SHR: "Z.shiftr"}
		cop := map[token.Token]string{token.EQL: "Z.eqb", token.LSS: "Z.ltb", token.LEQ: "Z.leb"}
		if f, ok := zop[x.Op]; ok {
			if ta != "Z" || tb != "Z" {
				fail("arithmetic on non-integers")
			}
			return fmt.Sprintf("(%s %s %s)", f, a, b), "Z"
		}
		if ta == "Z" && tb == "Z" {
			if f, ok := cop[x.Op]; ok {
				return fmt.Sprintf("(%s %s %s)", f, a, b), "bool"
			}
			switch x.Op {
			case token.NEQ:
				return fmt.Sprintf("(negb (Z.eqb %s %s))", a, b), "bool"
			case token.GTR:
				return fmt.Sprintf("(Z.ltb %s %s)", b, a), "bool"
			case token.GEQ:
				return fmt.Sprintf("(Z.leb %s %s)", b, a), "bool"
			}
		}
		if ta == "bool" && tb == "bool" {
			switch x.Op {
			case token.LAND:
				return fmt.Sprintf("(andb %s %s)", a, b), "bool"
			case token.LOR:
				return fmt.Sprintf("(orb %s %s)", a, b), "bool"
			case token.EQL:
				return fmt.Sprintf("(Bool.eqb %s %s)", a, b), "bool"
			case token.NEQ:
				return fmt.Sprintf("(xorb %s %s)", a, b), "bool"
			}
		}
		fail("binary %s on %s/%s", x.Op, ta, tb)
	case *ast.CallExpr:
		switch f := x.Fun.(type) {
		case *ast.Ident:
			if intTypes[f.Name] && len(x.Args) == 1 { // conversion between integer types
				s, t := expr(x.Args[0], en)
				if t != "Z" {
					fail("conversion of non-integer")
				}
				return s, "Z"
			}
			if g, ok := funcs[f.Name]; ok {
				return call(g, nil, x.Args, en)
			}
			fail("call of %s", f.Name)
		case *ast.SelectorExpr: // method call on a value of a known receiver type: resolved by method name
			for _, g := range funcs {
				if strings.HasSuffix(g.key, "."+f.Sel.Name) {
					return call(g, f.X, x.Args, en)
				}
			}
			fail("method %s", f.Sel.Name)
		}
	}
	fail("expression %T", e)
	return "", ""
}

func call(g *fn, recv ast.Expr, args []ast.Expr, en env) (string, string) {
	parts := []string{g.coq}
	if recv != nil {
		s, _ := expr(recv, en)
		parts = append(parts, s)
	}
	for _, a := range args {
		s, _ := expr(a, en)
		parts = append(parts, s)
	}
	return "(" + strings.Join(parts, " ") + ")", g.ret
}

// stmts translates a statement list that must end by returning on every path.
func stmts(list []ast.Stmt, en env) string {
	if len(list) == 0 {
		fail("path without return")
	}
	switch s := list[0].(type) {
	case *ast.ReturnStmt:
		if len(s.Results) != 1 {
			fail("return with %d values", len(s.Results))
		}
		r, _ := expr(s.Results[0], en)
		return r
	case *ast.AssignStmt:
		if s.Tok != token.DEFINE || len(s.Lhs) != 1 || len(s.Rhs) != 1 {
			fail("assignment form")
		}
		name := s.Lhs[0].(*ast.Ident).Name
		v, t := expr(s.Rhs[0], en)
		en2 := env{}
		for k, x := range en {
			en2[k] = x
		}
		en2[name] = t
		return fmt.Sprintf("(let %s := %s in %s)", name, v, stmts(list[1:], en2))
	case *ast.IfStmt:
		if s.Init != nil {
			fail("if with init")
		}
		c, t := expr(s.Cond, en)
		if t != "bool" {
			fail("non-boolean condition")
		}
		thenB := stmts(s.Body.List, en)
		var elseB string
		if s.Else != nil {
			switch e := s.Else.(type) {
			case *ast.BlockStmt:
				if len(list) > 1 {
					fail("statements after if/else")
				}
				elseB = stmts(e.List, en)
			default:
				fail("else form")
			}
		} else {
			elseB = stmts(list[1:], en)
		}
		return fmt.Sprintf("(if %s then %s else %s)", c, thenB, elseB)
	}
	fail("statement %T", list[0])
	return ""
}

func translate(g *fn) (res string, err error) {
	defer func() {
		if r := recover(); r != nil {
			if u, ok := r.(unsupported); ok {
				err = fmt.Errorf("%s", u.msg)
				return
			}
			panic(r)
		}
	}()
	d := g.decl
	en := env{}
	var params []string
	add := func(fl *ast.FieldList) {
		if fl == nil {
			return
		}
		for _, f := range fl.List {
			t := coqType(f.Type)
			for _, n := range f.Names {
				en[n.Name] = t
				params = append(params, fmt.Sprintf("(%s : %s)", n.Name, t))
			}
		}
	}
	add(d.Recv)
	add(d.Type.Params)
	body := stmts(d.Body.List, en)
	return fmt.Sprintf("Definition %s %s : %s :=\n  %s.\n", g.coq, strings.Join(params, " "), g.ret, body), nil
}

func main() {
	if len(os.Args) < 4 {
		fmt.Fprintln(os.Stderr, "usage: gotocoq <repo> <out.v> file.go:Func ...")
		os.Exit(2)
	}
	repo, out := os.Args[1], os.Args[2]
	fset := token.NewFileSet()
	files := map[string]*ast.File{}
	var order []*fn
	for _, spec := range os.Args[3:] {
		parts := strings.SplitN(spec, ":", 2)
		f, ok := files[parts[0]]
		if !ok {
			var err error
			f, err = parser.ParseFile(fset, filepath.Join(repo, parts[0]), nil, 0)
			if err != nil {
				fmt.Fprintln(os.Stderr, err)
				os.Exit(1)
			}
			files[parts[0]] = f
		}
		want := parts[1]
		var found *ast.FuncDecl
		for _, d := range f.Decls {
			fd, ok := d.(*ast.FuncDecl)
			if !ok {
				continue
			}
			key := fd.Name.Name
			if fd.Recv != nil && len(fd.Recv.List) == 1 {
				key = typeName(fd.Recv.List[0].Type) + "." + key
			}
			if key == want {
				found = fd
			}
		}
		g := &fn{key: want, coq: "go_" + strings.ReplaceAll(want, ".", "_"), decl: found, ret: "Z"}
		if found != nil && found.Type.Results != nil && len(found.Type.Results.List) == 1 && typeName(found.Type.Results.List[0].Type) == "bool" {
			g.ret = "bool"
		}
		funcs[want] = g
		if !strings.Contains(want, ".") {
			funcs[want] = g
		}
		order = append(order, g)
	}
	var b strings.Builder
	b.WriteString("(* GENERATED by /verif/gotocoq from the Go sources of /repo on every run -- do not edit. *)\n")
	b.WriteString("From Coq Require Import ZArith Bool.\nOpen Scope Z_scope.\n\n")
	var translated, skipped []string
	for _, g := range order {
		if g.decl == nil {
			skipped = append(skipped, g.key+" (not found)")
			fmt.Fprintf(&b, "(* %s: not found in the source *)\n\n", g.key)
			continue
		}
		s, err := translate(g)
		if err != nil {
			skipped = append(skipped, g.key+" ("+err.Error()+")")
			fmt.Fprintf(&b, "(* %s: not translated: %s *)\n\n", g.key, err)
			delete(funcs, g.key)
			continue
		}
		pos := fset.Position(g.decl.Pos())
		fmt.Fprintf(&b, "(* %s:%d *)\n%s\n", strings.TrimPrefix(pos.Filename, repo+"/"), pos.Line, s)
		translated = append(translated, g.key)
	}
	sort.Strings(translated)
	fmt.Fprintf(&b, "(* translated: %s *)\n", strings.Join(translated, " "))
	if err := os.WriteFile(out, []byte(b.String()), 0o644); err != nil {
		fmt.Fprintln(os.Stderr, err)
		os.Exit(1)
	}
	fmt.Printf("translated %d: %s\n", len(translated), strings.Join(translated, " "))
	if len(skipped) > 0 {
		fmt.Printf("NOT translated %d: %s\n", len(skipped), strings.Join(skipped, "; "))
	}
}
