// gotoir2: the syntactic translator of gotocoq/ir extended to the language of coq/Model/GoIR2.v:
// break / continue, switch without fallthrough (as an if / else-if chain), / and %, slices of bool, range over a slice of slices, named integer types and conversions
// between them (identity), generic functions over integer types, methods (value receivers on integer types and
// structs, pointer receivers on structs), pointer-to-struct parameters, calls whose result is thrown away,
// functions without result.
//
// A struct reached through a pointer is represented as a struct value whose int / bool fields are boxed in
// one-element arrays (p.f reads p.f[0], p.f = e writes p.f[0]) so that the caller sees the assignment; slice
// fields are read and written through, never assigned.  Like gotocoq/ir this program assigns no meaning: the
// meaning is [exec] of GoIR2.v.  A function that leaves the subset is defined as a body that panics at once.
//
// usage: gotoir2 <repo> <out.v> <ModuleName> file.go:Func file.go:Recv.Method ...
package main

import (
	"fmt"
	"go/ast"
	"go/parser"
	"go/token"
	"os"
	"path/filepath"
	"sort"
	"strings"
)

type unsupported struct{ msg string }

func fail(format string, a ...interface{}) { panic(unsupported{fmt.Sprintf(format, a...)}) }

type structT struct {
	fields []string
	types  []string // resolved
}

var structs = map[string]*structT{}
var typeDecls = map[string]ast.Expr{}
var wanted = map[string]bool{}     // keys translated in this run
var resultType = map[string]string{} // key -> resolved result type ("" for none)
var variadic = map[string]bool{}
var fset = token.NewFileSet()

func q(s string) string { return "\"" + s + "\"" }
func pos(p token.Pos) string {
	ps := fset.Position(p)
	return fmt.Sprintf("%s:%d", filepath.Base(ps.Filename), ps.Line)
}

var baseInts = map[string]bool{"int": true, "int32": true, "int64": true}

// resolve gives the type of a type expression: "int", "bool", "[]T", "S:Name" (struct value), "P:Name" (pointer to
// struct) or "?"
func resolve(t ast.Expr, tparams map[string]bool, depth int) string {
	if depth > 10 {
		return "?"
	}
	switch x := t.(type) {
	case *ast.Ident:
		if baseInts[x.Name] || tparams[x.Name] {
			return "int"
		}
		if x.Name == "bool" {
			return "bool"
		}
		if structs[x.Name] != nil {
			return "S:" + x.Name
		}
		if u, ok := typeDecls[x.Name]; ok {
			return resolve(u, tparams, depth+1)
		}
	case *ast.ArrayType:
		if x.Len == nil {
			e := resolve(x.Elt, tparams, depth+1)
			if e != "?" {
				return "[]" + e
			}
		}
	case *ast.StarExpr:
		if e := resolve(x.X, tparams, depth+1); strings.HasPrefix(e, "S:") {
			return "P:" + e[2:]
		}
	case *ast.Ellipsis:
		if e := resolve(x.Elt, tparams, depth+1); e != "?" {
			return "[]" + e
		}
	case *ast.ParenExpr:
		return resolve(x.X, tparams, depth)
	}
	return "?"
}

func zero(t string) string {
	switch {
	case t == "int":
		return "(EInt 0)"
	case t == "bool":
		return "(EBool false)"
	case strings.HasPrefix(t, "[]"):
		return "ENil"
	case strings.HasPrefix(t, "S:"):
		parts := []string{}
		for _, ft := range structs[t[2:]].types {
			parts = append(parts, zero(ft))
		}
		return "(EStruct [" + strings.Join(parts, "; ") + "])"
	}
	fail("zero value of type %s", t)
	return ""
}

type ctx struct {
	declared map[string]bool
	vtype    map[string]string // resolved type of a local
	vnamed   map[string]string // declared type NAME of a local (to find methods of named integer types)
	tparams  map[string]bool
	tmp      int
	pre      []string
	hasRes   bool
	vexpr    map[string]ast.Expr // declared type expression of a parameter
}

func (c *ctx) declare(name string, p token.Pos, t string) {
	if name == "_" {
		return
	}
	if c.declared[name] {
		fail("name %s declared twice in one function (%s): one flat frame per call", name, pos(p))
	}
	c.declared[name] = true
	c.vtype[name] = t
}

var binops = map[token.Token]string{token.ADD: "Add", token.SUB: "Sub", token.MUL: "Mul", token.QUO: "Quot", token.REM: "Rem",
	token.LSS: "Lt", token.LEQ: "Le", token.GTR: "Gt", token.GEQ: "Ge", token.EQL: "Eq", token.NEQ: "Ne", token.LAND: "And", token.LOR: "Or"}

func fieldOf(sn, f string, p token.Pos) (int, string) {
	st := structs[sn]
	for i, n := range st.fields {
		if n == f {
			return i, st.types[i]
		}
	}
	fail("unknown field %s of %s at %s", f, sn, pos(p))
	return -1, ""
}

// calleeKey finds the key of a user function or method call and the receiver expression, if any
func (c *ctx) calleeKey(x *ast.CallExpr) (string, ast.Expr) {
	switch f := x.Fun.(type) {
	case *ast.Ident:
		return f.Name, nil
	case *ast.SelectorExpr:
		t := c.typ(f.X)
		if strings.HasPrefix(t, "P:") || strings.HasPrefix(t, "S:") {
			return t[2:] + "." + f.Sel.Name, f.X
		}
		if id, ok := f.X.(*ast.Ident); ok && c.vnamed[id.Name] != "" {
			return c.vnamed[id.Name] + "." + f.Sel.Name, f.X
		}
		fail("method call on a value whose type is not known syntactically at %s", pos(x.Pos()))
	case *ast.IndexExpr: // explicit instantiation f[T](x)
		if id, ok := f.X.(*ast.Ident); ok {
			return id.Name, nil
		}
	}
	fail("call at %s", pos(x.Pos()))
	return "", nil
}

func isConversion(x *ast.CallExpr, tparams map[string]bool) bool {
	if len(x.Args) != 1 {
		return false
	}
	if id, ok := x.Fun.(*ast.Ident); ok {
		return resolve(id, tparams, 0) == "int" && !wanted[id.Name]
	}
	return false
}

// typ gives the resolved type of an expression, "?" if unknown
func (c *ctx) typ(e ast.Expr) string {
	switch x := e.(type) {
	case *ast.ParenExpr:
		return c.typ(x.X)
	case *ast.BasicLit:
		return "int"
	case *ast.Ident:
		switch x.Name {
		case "true", "false":
			return "bool"
		case "nil":
			return "nil"
		}
		if t, ok := c.vtype[x.Name]; ok {
			return t
		}
	case *ast.UnaryExpr:
		if x.Op == token.NOT {
			return "bool"
		}
		return "int"
	case *ast.BinaryExpr:
		switch x.Op {
		case token.ADD, token.SUB, token.MUL, token.QUO, token.REM:
			return "int"
		}
		return "bool"
	case *ast.IndexExpr:
		if t := c.typ(x.X); strings.HasPrefix(t, "[]") {
			return t[2:]
		}
	case *ast.SliceExpr:
		return c.typ(x.X)
	case *ast.SelectorExpr:
		if t := c.typ(x.X); strings.HasPrefix(t, "P:") || strings.HasPrefix(t, "S:") {
			_, ft := fieldOf(t[2:], x.Sel.Name, x.Pos())
			return ft
		}
	case *ast.CompositeLit:
		return resolve(x.Type, c.tparams, 0)
	case *ast.CallExpr:
		if id, ok := x.Fun.(*ast.Ident); ok {
			switch id.Name {
			case "len":
				return "int"
			case "make":
				if len(x.Args) > 0 {
					return resolve(x.Args[0], c.tparams, 0)
				}
			case "append":
				if len(x.Args) > 0 {
					return c.typ(x.Args[0])
				}
			}
		}
		if isConversion(x, c.tparams) {
			return "int"
		}
		key, _ := c.calleeKey(x)
		if t, ok := resultType[key]; ok {
			return t
		}
	}
	return "?"
}

func (c *ctx) callArgs(key string, recv ast.Expr, x *ast.CallExpr) string {
	if !wanted[key] {
		fail("call of %s, which is not translated in this run (%s)", key, pos(x.Pos()))
	}
	args := []string{}
	if recv != nil {
		args = append(args, c.expr(recv))
	}
	for _, a := range x.Args {
		args = append(args, c.expr(a))
	}
	if x.Ellipsis == token.NoPos && variadic[key] {
		fail("variadic call of %s without ... at %s", key, pos(x.Pos()))
	}
	return strings.Join(args, "; ")
}

func (c *ctx) expr(e ast.Expr) string {
	switch x := e.(type) {
	case *ast.ParenExpr:
		return c.expr(x.X)
	case *ast.BasicLit:
		if x.Kind == token.INT {
			return "(EInt " + strings.ReplaceAll(x.Value, "_", "") + ")"
		}
		fail("literal %s", x.Value)
	case *ast.Ident:
		switch x.Name {
		case "true":
			return "(EBool true)"
		case "false":
			return "(EBool false)"
		case "nil":
			return "ENil"
		}
		if !c.declared[x.Name] {
			fail("unknown identifier %s at %s", x.Name, pos(x.Pos()))
		}
		return "(EVar " + q(x.Name) + ")"
	case *ast.UnaryExpr:
		switch x.Op {
		case token.SUB:
			if bl, ok := x.X.(*ast.BasicLit); ok && bl.Kind == token.INT {
				return "(EInt (-" + strings.ReplaceAll(bl.Value, "_", "") + "))"
			}
			return "(ENeg " + c.expr(x.X) + ")"
		case token.NOT:
			return "(ENot " + c.expr(x.X) + ")"
		case token.ADD:
			return c.expr(x.X)
		}
		fail("unary operator %s", x.Op)
	case *ast.BinaryExpr:
		op, ok := binops[x.Op]
		if !ok {
			fail("binary operator %s at %s", x.Op, pos(x.Pos()))
		}
		if (x.Op == token.EQL || x.Op == token.NEQ) && c.typ(x.X) == "bool" && c.typ(x.Y) == "bool" {
			// bool == bool is in the language (eval_bin); nothing special
		}
		return "(EBin " + op + " " + c.expr(x.X) + " " + c.expr(x.Y) + ")"
	case *ast.IndexExpr:
		t := c.typ(x.X)
		if t == "[]bool" {
			return "(EIdxB " + c.expr(x.X) + " " + c.expr(x.Index) + ")"
		}
		if !strings.HasPrefix(t, "[]") {
			fail("index of a value of unknown type at %s", pos(x.Pos()))
		}
		return "(EIdx " + c.expr(x.X) + " " + c.expr(x.Index) + ")"
	case *ast.SliceExpr:
		if x.Slice3 {
			fail("three-index slice at %s", pos(x.Pos()))
		}
		if t := c.typ(x.X); t != "[]int" && t != "[]bool" {
			fail("slice expression on %s at %s", t, pos(x.Pos()))
		}
		lo, hi := "None", "None"
		if x.Low != nil {
			lo = "(Some " + c.expr(x.Low) + ")"
		}
		if x.High != nil {
			hi = "(Some " + c.expr(x.High) + ")"
		}
		return "(ESub " + c.expr(x.X) + " " + lo + " " + hi + ")"
	case *ast.SelectorExpr:
		t := c.typ(x.X)
		if strings.HasPrefix(t, "S:") {
			k, _ := fieldOf(t[2:], x.Sel.Name, x.Pos())
			return fmt.Sprintf("(EFld %s %d)", c.expr(x.X), k)
		}
		if strings.HasPrefix(t, "P:") {
			k, ft := fieldOf(t[2:], x.Sel.Name, x.Pos())
			switch {
			case ft == "int":
				return fmt.Sprintf("(EIdx (EFld %s %d) (EInt 0))", c.expr(x.X), k)
			case ft == "bool":
				return fmt.Sprintf("(EIdxB (EFld %s %d) (EInt 0))", c.expr(x.X), k)
			case strings.HasPrefix(ft, "[]"):
				return fmt.Sprintf("(EFld %s %d)", c.expr(x.X), k)
			}
			fail("field %s of type %s through a pointer at %s", x.Sel.Name, ft, pos(x.Pos()))
		}
		fail("selector %s on a value whose struct type is not known syntactically (%s)", x.Sel.Name, pos(x.Pos()))
	case *ast.CompositeLit:
		t := resolve(x.Type, c.tparams, 0)
		if strings.HasPrefix(t, "S:") {
			st := structs[t[2:]]
			vals := make([]string, len(st.fields))
			for i, ft := range st.types {
				vals[i] = zero(ft)
			}
			for i, el := range x.Elts {
				if kv, ok := el.(*ast.KeyValueExpr); ok {
					k, _ := fieldOf(t[2:], kv.Key.(*ast.Ident).Name, kv.Pos())
					vals[k] = c.expr(kv.Value)
				} else {
					if len(x.Elts) != len(st.fields) {
						fail("positional struct literal with missing fields")
					}
					vals[i] = c.expr(el)
				}
			}
			return "(EStruct [" + strings.Join(vals, "; ") + "])"
		}
		if strings.HasPrefix(t, "[]S:") {
			vals := []string{}
			for _, el := range x.Elts {
				vals = append(vals, c.expr(el))
			}
			return "(EList [" + strings.Join(vals, "; ") + "])"
		}
		fail("composite literal at %s", pos(x.Pos()))
	case *ast.CallExpr:
		if id, ok := x.Fun.(*ast.Ident); ok {
			switch id.Name {
			case "len":
				if len(x.Args) == 1 {
					return "(ELen " + c.expr(x.Args[0]) + ")"
				}
			case "make", "append", "copy", "panic", "cap", "new":
				fail("builtin %s in expression position at %s", id.Name, pos(x.Pos()))
			}
		}
		if isConversion(x, c.tparams) {
			return c.expr(x.Args[0]) // conversion between integer types: identity
		}
		key, recv := c.calleeKey(x)
		if resultType[key] == "" {
			fail("call of %s, which has no result, in expression position at %s", key, pos(x.Pos()))
		}
		args := c.callArgs(key, recv, x)
		c.tmp++
		t := fmt.Sprintf("$%d", c.tmp)
		c.pre = append(c.pre, fmt.Sprintf("(SCall %s %s [%s])", q(t), q(key), args))
		return "(EVar " + q(t) + ")"
	}
	fail("expression at %s", pos(e.Pos()))
	return ""
}

func seq(ss []string) string {
	if len(ss) == 0 {
		return "SSkip"
	}
	if len(ss) == 1 {
		return ss[0]
	}
	return "(SSeq " + ss[0] + "\n      " + seq(ss[1:]) + ")"
}

func (c *ctx) withPre(mk func() string) string {
	saved := c.pre
	c.pre = nil
	s := mk()
	pre := c.pre
	c.pre = saved
	return seq(append(pre, s))
}

func (c *ctx) assignVar(name string, rhs ast.Expr, p token.Pos) string {
	if call, ok := rhs.(*ast.CallExpr); ok {
		if id, ok := call.Fun.(*ast.Ident); ok {
			switch id.Name {
			case "make":
				if len(call.Args) == 2 {
					if t := resolve(call.Args[0], c.tparams, 0); t == "[]int" || t == "[]bool" {
						return c.withPre(func() string { return fmt.Sprintf("(SMake %s %s)", q(name), c.expr(call.Args[1])) })
					}
				}
				fail("make other than make([]int, n) / make([]bool, n) at %s", pos(p))
			case "append":
				if len(call.Args) == 2 && call.Ellipsis != token.NoPos {
					return c.withPre(func() string {
						return fmt.Sprintf("(SAppendSl %s %s %s)", q(name), c.expr(call.Args[0]), c.expr(call.Args[1]))
					})
				}
				if len(call.Args) == 2 {
					return c.withPre(func() string {
						return fmt.Sprintf("(SAppendV %s %s %s)", q(name), c.expr(call.Args[0]), c.expr(call.Args[1]))
					})
				}
				fail("append with %d arguments at %s", len(call.Args), pos(p))
			}
		}
		if !isConversion(call, c.tparams) {
			if id, ok := call.Fun.(*ast.Ident); !ok || id.Name != "len" {
				key, recv := c.calleeKey(call)
				if resultType[key] == "" {
					fail("call of %s, which has no result, used as a value at %s", key, pos(p))
				}
				return c.withPre(func() string {
					return fmt.Sprintf("(SCall %s %s [%s])", q(name), q(key), c.callArgs(key, recv, call))
				})
			}
		}
	}
	return c.withPre(func() string { return fmt.Sprintf("(SSet %s %s)", q(name), c.expr(rhs)) })
}

var opAssign = map[token.Token]string{token.ADD_ASSIGN: "Add", token.SUB_ASSIGN: "Sub", token.MUL_ASSIGN: "Mul",
	token.QUO_ASSIGN: "Quot", token.REM_ASSIGN: "Rem"}

// target of an assignment other than a plain variable: (array expression, index expression)
func (c *ctx) cell(lhs ast.Expr) (string, string) {
	switch l := lhs.(type) {
	case *ast.IndexExpr:
		if t := c.typ(l.X); !strings.HasPrefix(t, "[]") {
			fail("assignment to an element of a value of unknown type at %s", pos(lhs.Pos()))
		}
		return c.expr(l.X), c.expr(l.Index)
	case *ast.SelectorExpr:
		t := c.typ(l.X)
		if strings.HasPrefix(t, "P:") {
			k, ft := fieldOf(t[2:], l.Sel.Name, l.Pos())
			if ft == "int" || ft == "bool" {
				return fmt.Sprintf("(EFld %s %d)", c.expr(l.X), k), "(EInt 0)"
			}
			fail("assignment to the field %s of type %s through a pointer at %s (only int and bool fields are boxed)", l.Sel.Name, ft, pos(l.Pos()))
		}
		fail("assignment to a field of a struct value at %s", pos(l.Pos()))
	}
	fail("assignment target at %s", pos(lhs.Pos()))
	return "", ""
}

func (c *ctx) stmt(s ast.Stmt) string {
	switch x := s.(type) {
	case *ast.BlockStmt:
		return c.block(x.List)
	case *ast.EmptyStmt:
		return "SSkip"
	case *ast.BranchStmt:
		if x.Label != nil {
			fail("labelled %s at %s", x.Tok, pos(x.Pos()))
		}
		switch x.Tok {
		case token.BREAK:
			return "SBreak"
		case token.CONTINUE:
			return "SContinue"
		}
		fail("%s at %s", x.Tok, pos(x.Pos()))
	case *ast.ExprStmt:
		if call, ok := x.X.(*ast.CallExpr); ok {
			if id, ok := call.Fun.(*ast.Ident); ok {
				switch id.Name {
				case "panic":
					return "SPanic"
				case "copy":
					if len(call.Args) == 2 {
						return c.withPre(func() string {
							return fmt.Sprintf("(SCopy %s %s)", c.expr(call.Args[0]), c.expr(call.Args[1]))
						})
					}
				}
			}
			key, recv := c.calleeKey(call)
			return c.withPre(func() string {
				return fmt.Sprintf("(SCall \"_\" %s [%s])", q(key), c.callArgs(key, recv, call))
			})
		}
		fail("expression statement at %s", pos(x.Pos()))
	case *ast.IncDecStmt:
		op := "Add"
		if x.Tok == token.DEC {
			op = "Sub"
		}
		if id, ok := x.X.(*ast.Ident); ok {
			return fmt.Sprintf("(SSet %s (EBin %s %s (EInt 1)))", q(id.Name), op, c.expr(id))
		}
		return c.withPre(func() string {
			a, i := c.cell(x.X)
			return fmt.Sprintf("(SSetIdx %s %s (EBin %s %s (EInt 1)))", a, i, op, c.expr(x.X))
		})
	case *ast.DeclStmt:
		gd, ok := x.Decl.(*ast.GenDecl)
		if !ok || gd.Tok != token.VAR {
			fail("declaration at %s", pos(x.Pos()))
		}
		out := []string{}
		for _, sp := range gd.Specs {
			vs := sp.(*ast.ValueSpec)
			for i, n := range vs.Names {
				t := "?"
				if vs.Type != nil {
					t = resolve(vs.Type, c.tparams, 0)
				}
				if len(vs.Values) > i {
					r := c.assignVar(n.Name, vs.Values[i], n.Pos())
					if t == "?" {
						t = c.typ(vs.Values[i])
					}
					c.declare(n.Name, n.Pos(), t)
					out = append(out, r)
				} else {
					if t == "?" {
						fail("var of unknown type at %s", pos(n.Pos()))
					}
					c.declare(n.Name, n.Pos(), t)
					out = append(out, fmt.Sprintf("(SSet %s %s)", q(n.Name), zero(t)))
				}
				if id, ok := vs.Type.(*ast.Ident); ok {
					c.vnamed[n.Name] = id.Name
				}
			}
		}
		return seq(out)
	case *ast.AssignStmt:
		if len(x.Lhs) != 1 || len(x.Rhs) != 1 {
			fail("parallel assignment at %s", pos(x.Pos()))
		}
		lhs, rhs := x.Lhs[0], x.Rhs[0]
		switch x.Tok {
		case token.DEFINE:
			id, ok := lhs.(*ast.Ident)
			if !ok {
				fail(":= to a non-variable")
			}
			t := c.typ(rhs)
			r := c.assignVar(id.Name, rhs, id.Pos())
			c.declare(id.Name, id.Pos(), t)
			// the declared type name of the result of a call, to find methods of named integer types
			if call, ok := rhs.(*ast.CallExpr); ok && !isConversion(call, c.tparams) {
				if fid, ok := call.Fun.(*ast.Ident); !ok || (fid.Name != "len" && fid.Name != "make" && fid.Name != "append") {
					key, _ := c.calleeKey(call)
					c.vnamed[id.Name] = resultNamed[key]
				}
			} else if ok && isConversion(call, c.tparams) {
				c.vnamed[id.Name] = call.Fun.(*ast.Ident).Name
			} else if ix, ok := rhs.(*ast.IndexExpr); ok {
				c.vnamed[id.Name] = c.elemNamed(ix.X)
			}
			return r
		case token.ASSIGN:
			if l, ok := lhs.(*ast.Ident); ok {
				if l.Name == "_" || !c.declared[l.Name] {
					fail("assignment to %s at %s", l.Name, pos(l.Pos()))
				}
				return c.assignVar(l.Name, rhs, l.Pos())
			}
			return c.withPre(func() string {
				a, i := c.cell(lhs)
				return fmt.Sprintf("(SSetIdx %s %s %s)", a, i, c.expr(rhs))
			})
		default:
			op, ok := opAssign[x.Tok]
			if !ok {
				fail("assignment operator %s", x.Tok)
			}
			if l, ok := lhs.(*ast.Ident); ok {
				return c.withPre(func() string {
					return fmt.Sprintf("(SSet %s (EBin %s %s %s))", q(l.Name), op, c.expr(l), c.expr(rhs))
				})
			}
			return c.withPre(func() string {
				a, i := c.cell(lhs)
				return fmt.Sprintf("(SSetIdx %s %s (EBin %s %s %s))", a, i, op, c.expr(lhs), c.expr(rhs))
			})
		}
	case *ast.IfStmt:
		if x.Init != nil {
			// if v := e; cond { ... }: the init statement is sequenced before (flat frame: the name must be fresh)
			init := c.stmt(x.Init)
			rest := *x
			rest.Init = nil
			return "(SSeq " + init + "\n      " + c.stmt(&rest) + ")"
		}
		return c.withPre(func() string {
			cond := c.expr(x.Cond)
			th := c.block(x.Body.List)
			el := "SSkip"
			if x.Else != nil {
				el = c.stmt(x.Else)
			}
			return "(SIf " + cond + "\n      " + th + "\n      " + el + ")"
		})
	case *ast.SwitchStmt:
		// a switch without fallthrough is a chain of if / else if: `switch { case c1: A; case c2: B; default: D }`, and
		// `switch x { case v1, v2: A }` with x compared in turn (x must be a variable or a constant expression without
		// calls, so that evaluating it once per comparison is the same thing).  A break inside it would leave the switch,
		// not the loop around it: refused.
		if x.Init != nil {
			fail("switch with an init statement at %s", pos(x.Pos()))
		}
		tag := ""
		if x.Tag != nil {
			n := len(c.pre)
			tag = c.expr(x.Tag)
			if len(c.pre) != n {
				fail("call in a switch tag at %s", pos(x.Pos()))
			}
		}
		type arm struct {
			cond string
			body string
		}
		var arms []arm
		def := "SSkip"
		for _, cc := range x.Body.List {
			cl := cc.(*ast.CaseClause)
			for _, st := range cl.Body {
				ast.Inspect(st, func(nd ast.Node) bool {
					switch b := nd.(type) {
					case *ast.ForStmt, *ast.RangeStmt:
						return false // a break in there belongs to that loop
					case *ast.BranchStmt:
						if b.Tok == token.BREAK || b.Tok == token.FALLTHROUGH {
							fail("%s inside a switch at %s", b.Tok, pos(b.Pos()))
						}
					}
					return true
				})
			}
			body := c.block(cl.Body)
			if cl.List == nil {
				def = body
				continue
			}
			conds := []string{}
			for _, e := range cl.List {
				n := len(c.pre)
				ce := c.expr(e)
				if len(c.pre) != n {
					fail("call in a case expression at %s", pos(e.Pos()))
				}
				if tag != "" {
					ce = "(EBin Eq " + tag + " " + ce + ")"
				}
				conds = append(conds, ce)
			}
			cond := conds[0]
			for _, o := range conds[1:] {
				cond = "(EBin Or " + cond + " " + o + ")"
			}
			arms = append(arms, arm{cond, body})
		}
		out := def
		for i := len(arms) - 1; i >= 0; i-- {
			out = "(SIf " + arms[i].cond + "\n      " + arms[i].body + "\n      " + out + ")"
		}
		return out
	case *ast.ForStmt:
		init := "SSkip"
		if x.Init != nil {
			init = c.stmt(x.Init)
		}
		cond := "(EBool true)"
		if x.Cond != nil {
			n := len(c.pre)
			cond = c.expr(x.Cond)
			if len(c.pre) != n {
				fail("call in a loop condition at %s", pos(x.Pos()))
			}
		}
		post := "SSkip"
		if x.Post != nil {
			post = c.stmt(x.Post)
		}
		body := c.block(x.Body.List)
		return "(SSeq " + init + "\n      (SFor " + cond + " " + post + "\n      " + body + "))"
	case *ast.RangeStmt:
		if x.Tok != token.DEFINE && (x.Key != nil || x.Value != nil) {
			fail("range with = at %s", pos(x.Pos()))
		}
		k, v := "_", "_"
		n := len(c.pre)
		a := c.expr(x.X)
		if len(c.pre) != n {
			fail("call in a range expression")
		}
		t := c.typ(x.X)
		if !strings.HasPrefix(t, "[]") {
			fail("range over a value of type %s at %s", t, pos(x.Pos()))
		}
		if x.Key != nil {
			k = x.Key.(*ast.Ident).Name
			c.declare(k, x.Key.Pos(), "int")
		}
		if x.Value != nil {
			v = x.Value.(*ast.Ident).Name
			if v != "_" && t == "[]bool" {
				fail("range with a value variable over a slice of bool at %s", pos(x.Pos()))
			}
			c.declare(v, x.Value.Pos(), t[2:])
			c.vnamed[v] = c.elemNamed(x.X)
		}
		return fmt.Sprintf("(SRange %s %s %s\n      %s)", q(k), q(v), a, c.block(x.Body.List))
	case *ast.ReturnStmt:
		if len(x.Results) == 0 {
			if c.hasRes {
				fail("bare return in a function with a result at %s", pos(x.Pos()))
			}
			return "(SReturn (EInt 0))"
		}
		if len(x.Results) != 1 {
			fail("return of %d values at %s", len(x.Results), pos(x.Pos()))
		}
		return c.withPre(func() string { return "(SReturn " + c.expr(x.Results[0]) + ")" })
	}
	fail("statement at %s", pos(s.Pos()))
	return ""
}

var resultNamed = map[string]string{} // key -> declared NAME of the result type, when it is a plain identifier

// elemNamed: the declared name of the element type of a slice-typed expression, when it can be read off a declaration
func (c *ctx) elemNamed(e ast.Expr) string {
	var t ast.Expr
	switch x := e.(type) {
	case *ast.SelectorExpr:
		bt := c.typ(x.X)
		if strings.HasPrefix(bt, "P:") || strings.HasPrefix(bt, "S:") {
			t = structFieldExpr[bt[2:]+"."+x.Sel.Name]
		}
	case *ast.Ident:
		t = c.vexpr[x.Name]
	}
	for depth := 0; t != nil && depth < 10; depth++ {
		switch y := t.(type) {
		case *ast.ArrayType:
			if id, ok := y.Elt.(*ast.Ident); ok {
				return id.Name
			}
			return ""
		case *ast.Ident:
			t = typeDecls[y.Name]
		default:
			return ""
		}
	}
	return ""
}

var structFieldExpr = map[string]ast.Expr{}

func (c *ctx) block(l []ast.Stmt) string {
	out := []string{}
	for _, s := range l {
		out = append(out, c.stmt(s))
	}
	return seq(out)
}

func usesIdent(body *ast.BlockStmt, name string) bool {
	used := false
	ast.Inspect(body, func(n ast.Node) bool {
		if id, ok := n.(*ast.Ident); ok && id.Name == name {
			used = true
		}
		return true
	})
	return used
}


// renameFunc gives every local declaration of the function a name of its own (i, i#2, i#3 ...) by rewriting the
// identifiers of the syntax tree in place, following Go's block scoping (blocks, if / for / range headers, := seeing the
// outer name on its right-hand side).  The translated function then lives in one flat frame without any name standing
// for two variables.  Field names, function names and types are not in any scope and stay as they are.
func renameFunc(d *ast.FuncDecl) {
	used := map[string]int{}
	stack := []map[string]string{{}}
	push := func() { stack = append(stack, map[string]string{}) }
	pop := func() { stack = stack[:len(stack)-1] }
	declare := func(id *ast.Ident) {
		if id == nil || id.Name == "_" {
			return
		}
		base := id.Name
		used[base]++
		nn := base
		if used[base] > 1 {
			nn = fmt.Sprintf("%s#%d", base, used[base])
		}
		stack[len(stack)-1][base] = nn
		id.Name = nn
	}
	use := func(id *ast.Ident) {
		for i := len(stack) - 1; i >= 0; i-- {
			if nn, ok := stack[i][id.Name]; ok {
				id.Name = nn
				return
			}
		}
	}
	var expr func(e ast.Expr)
	expr = func(e ast.Expr) {
		switch x := e.(type) {
		case nil:
		case *ast.Ident:
			use(x)
		case *ast.ParenExpr:
			expr(x.X)
		case *ast.UnaryExpr:
			expr(x.X)
		case *ast.StarExpr:
			expr(x.X)
		case *ast.BinaryExpr:
			expr(x.X)
			expr(x.Y)
		case *ast.IndexExpr:
			expr(x.X)
			expr(x.Index)
		case *ast.SliceExpr:
			expr(x.X)
			expr(x.Low)
			expr(x.High)
			expr(x.Max)
		case *ast.SelectorExpr:
			expr(x.X)
		case *ast.KeyValueExpr:
			expr(x.Value)
		case *ast.CompositeLit:
			for _, el := range x.Elts {
				expr(el)
			}
		case *ast.CallExpr:
			expr(x.Fun)
			for _, a := range x.Args {
				expr(a)
			}
		}
	}
	var stmt func(s ast.Stmt)
	block := func(b *ast.BlockStmt) {
		if b == nil {
			return
		}
		push()
		for _, s := range b.List {
			stmt(s)
		}
		pop()
	}
	stmt = func(s ast.Stmt) {
		switch x := s.(type) {
		case nil:
		case *ast.BlockStmt:
			block(x)
		case *ast.ExprStmt:
			expr(x.X)
		case *ast.IncDecStmt:
			expr(x.X)
		case *ast.ReturnStmt:
			for _, r := range x.Results {
				expr(r)
			}
		case *ast.DeclStmt:
			if gd, ok := x.Decl.(*ast.GenDecl); ok {
				for _, sp := range gd.Specs {
					if vs, ok := sp.(*ast.ValueSpec); ok {
						for _, v := range vs.Values {
							expr(v)
						}
						for _, n := range vs.Names {
							declare(n)
						}
					}
				}
			}
		case *ast.AssignStmt:
			for _, r := range x.Rhs {
				expr(r)
			}
			for _, l := range x.Lhs {
				if id, ok := l.(*ast.Ident); ok && x.Tok == token.DEFINE {
					if _, here := stack[len(stack)-1][id.Name]; here {
						use(id) // a := with a name of this very scope is an assignment to it
					} else {
						declare(id)
					}
				} else {
					expr(l)
				}
			}
		case *ast.IfStmt:
			push()
			stmt(x.Init)
			expr(x.Cond)
			block(x.Body)
			stmt(x.Else)
			pop()
		case *ast.SwitchStmt:
			push()
			stmt(x.Init)
			expr(x.Tag)
			for _, cc := range x.Body.List {
				if cl, ok := cc.(*ast.CaseClause); ok {
					for _, e := range cl.List {
						expr(e)
					}
					push()
					for _, st := range cl.Body {
						stmt(st)
					}
					pop()
				}
			}
			pop()
		case *ast.ForStmt:
			push()
			stmt(x.Init)
			expr(x.Cond)
			stmt(x.Post)
			block(x.Body)
			pop()
		case *ast.RangeStmt:
			expr(x.X)
			push()
			if x.Tok == token.DEFINE {
				if id, ok := x.Key.(*ast.Ident); ok {
					declare(id)
				}
				if id, ok := x.Value.(*ast.Ident); ok {
					declare(id)
				}
			} else {
				expr(x.Key)
				expr(x.Value)
			}
			block(x.Body)
			pop()
		}
	}
	if d.Recv != nil {
		for _, f := range d.Recv.List {
			for _, n := range f.Names {
				declare(n)
			}
		}
	}
	for _, f := range d.Type.Params.List {
		for _, n := range f.Names {
			declare(n)
		}
	}
	for _, s := range d.Body.List {
		stmt(s)
	}
}

func translate(key string, d *ast.FuncDecl) (text string, err error) {
	defer func() {
		if r := recover(); r != nil {
			if u, ok := r.(unsupported); ok {
				err = fmt.Errorf("%s: %s", key, u.msg)
				return
			}
			panic(r)
		}
	}()
	renameFunc(d)
	c := &ctx{declared: map[string]bool{}, vtype: map[string]string{}, vnamed: map[string]string{}, tparams: tparamsOf(d), vexpr: map[string]ast.Expr{}}
	params := []string{}
	addParam := func(n *ast.Ident, t ast.Expr) {
		rt := resolve(t, c.tparams, 0)
		if rt == "?" {
			if usesIdent(d.Body, n.Name) {
				fail("parameter %s of unsupported type is used (%s)", n.Name, pos(n.Pos()))
			}
			// an opaque parameter that the body never mentions: kept for the arity
		}
		c.declare(n.Name, n.Pos(), rt)
		c.vexpr[n.Name] = t
		if id, ok := t.(*ast.Ident); ok {
			c.vnamed[n.Name] = id.Name
		}
		params = append(params, n.Name)
	}
	if d.Recv != nil {
		f := d.Recv.List[0]
		if len(f.Names) != 1 {
			fail("receiver without a name")
		}
		addParam(f.Names[0], f.Type)
	}
	for _, f := range d.Type.Params.List {
		for _, n := range f.Names {
			addParam(n, f.Type)
		}
	}
	c.hasRes = resultType[key] != ""
	if d.Type.Results != nil && (len(d.Type.Results.List) != 1 || len(d.Type.Results.List[0].Names) != 0) {
		fail("more than one result, or a named result")
	}
	if c.hasRes && resultType[key] == "?" {
		fail("result of unsupported type")
	}
	body := c.block(d.Body.List)
	if !c.hasRes {
		body = "(SSeq " + body + "\n      (SReturn (EInt 0)))"
	}
	qs := []string{}
	for _, p := range params {
		qs = append(qs, q(p))
	}
	return fmt.Sprintf("(* %s *)\nDefinition src_%s : fdef :=\n  FDef [%s]\n    %s.\n", pos(d.Pos()), strings.ReplaceAll(key, ".", "_"),
		strings.Join(qs, "; "), body), nil
}

func tparamsOf(d *ast.FuncDecl) map[string]bool {
	m := map[string]bool{}
	if d.Type.TypeParams != nil {
		for _, f := range d.Type.TypeParams.List {
			for _, n := range f.Names {
				m[n.Name] = true // constraints are unions of integer types in the code translated; checked by use
			}
		}
	}
	return m
}

func main() {
	if len(os.Args) < 5 {
		fmt.Fprintln(os.Stderr, "usage: gotoir2 <repo> <out.v> <what> file.go:Func ...")
		os.Exit(2)
	}
	repo, out := os.Args[1], os.Args[2]
	type want struct{ file, key string }
	wants := []want{}
	files := map[string]*ast.File{}
	var errs []string
	for _, a := range os.Args[4:] {
		p := strings.SplitN(a, ":", 2)
		wants = append(wants, want{p[0], p[1]})
		if files[p[0]] == nil {
			f, err := parser.ParseFile(fset, filepath.Join(repo, p[0]), nil, 0)
			if err != nil {
				errs = append(errs, err.Error())
				continue
			}
			files[p[0]] = f
		}
	}
	// type declarations first (two passes: names, then fields, so that fields can mention later types)
	type pending struct {
		name string
		st   *ast.StructType
	}
	var pend []pending
	fnames := []string{}
	for fn := range files {
		fnames = append(fnames, fn)
	}
	sort.Strings(fnames)
	for _, fn := range fnames {
		for _, d := range files[fn].Decls {
			if gd, ok := d.(*ast.GenDecl); ok && gd.Tok == token.TYPE {
				for _, sp := range gd.Specs {
					ts := sp.(*ast.TypeSpec)
					if st, ok := ts.Type.(*ast.StructType); ok {
						structs[ts.Name.Name] = &structT{}
						pend = append(pend, pending{ts.Name.Name, st})
					} else {
						typeDecls[ts.Name.Name] = ts.Type
					}
				}
			}
		}
	}
	for _, p := range pend {
		s := structs[p.name]
		for _, fl := range p.st.Fields.List {
			for _, n := range fl.Names {
				s.fields = append(s.fields, n.Name)
				s.types = append(s.types, resolve(fl.Type, nil, 0))
				structFieldExpr[p.name+"."+n.Name] = fl.Type
			}
		}
	}
	decls := map[string]*ast.FuncDecl{}
	for fn, f := range files {
		for _, d := range f.Decls {
			if fd, ok := d.(*ast.FuncDecl); ok && fd.Body != nil {
				key := fd.Name.Name
				if fd.Recv != nil {
					t := fd.Recv.List[0].Type
					if st, ok := t.(*ast.StarExpr); ok {
						t = st.X
					}
					if id, ok := t.(*ast.Ident); ok {
						key = id.Name + "." + key
					}
				}
				decls[fn+":"+key] = fd
			}
		}
	}
	for _, w := range wants {
		d := decls[w.file+":"+w.key]
		if d == nil {
			continue
		}
		wanted[w.key] = true
		resultType[w.key] = ""
		if rl := d.Type.Results; rl != nil && len(rl.List) == 1 {
			resultType[w.key] = resolve(rl.List[0].Type, tparamsOf(d), 0)
			if id, ok := rl.List[0].Type.(*ast.Ident); ok {
				resultNamed[w.key] = id.Name
			}
		} else if rl != nil && len(rl.List) > 1 {
			resultType[w.key] = "?"
		}
		pl := d.Type.Params.List
		if len(pl) > 0 {
			if _, ok := pl[len(pl)-1].Type.(*ast.Ellipsis); ok {
				variadic[w.key] = true
			}
		}
	}
	var b strings.Builder
	b.WriteString("(* GENERATED by /verif/gotocoq/ir2 from the Go sources of /repo on every run -- do not edit.\n")
	b.WriteString("   A purely syntactic image of the functions below in the language of Model/GoIR2.v. *)\n")
	b.WriteString("From Coq Require Import List ZArith String.\nFrom GS Require Import Model.GoIR2.\nImport ListNotations.\nOpen Scope string_scope.\nOpen Scope Z_scope.\n\n")
	names := []string{}
	for _, w := range wants {
		d := decls[w.file+":"+w.key]
		var t string
		var err error
		if d == nil {
			err = fmt.Errorf("%s:%s not found", w.file, w.key)
		} else {
			t, err = translate(w.key, d)
		}
		if err != nil {
			errs = append(errs, err.Error())
			t = fmt.Sprintf("(* TRANSLATION FAILED: %s *)\nDefinition src_%s : fdef := FDef [] SPanic.\n",
				strings.ReplaceAll(err.Error(), "*)", "* )"), strings.ReplaceAll(w.key, ".", "_"))
		}
		b.WriteString(t + "\n")
		names = append(names, w.key)
	}
	for _, m := range errs {
		fmt.Fprintln(os.Stderr, "gotoir2:", m)
	}
	b.WriteString("Definition go_funs : funenv :=\n  [")
	for i, n := range names {
		if i > 0 {
			b.WriteString(";\n   ")
		}
		b.WriteString(fmt.Sprintf("(%s, src_%s)", q(n), strings.ReplaceAll(n, ".", "_")))
	}
	b.WriteString("].\n\n")
	// positions of the fields of the struct types, for those who build arguments (judges, theorems)
	snames := []string{}
	for n := range structs {
		snames = append(snames, n)
	}
	sort.Strings(snames)
	for _, n := range snames {
		st := structs[n]
		b.WriteString(fmt.Sprintf("Definition nfld_%s : nat := %d.\n", n, len(st.fields)))
		for i, f := range st.fields {
			b.WriteString(fmt.Sprintf("Definition fld_%s_%s : nat := %d.  (* %s *)\n", n, f, i, st.types[i]))
		}
	}
	b.WriteString("\n(* translated: " + strings.Join(names, " ") + " *)\n")
	if err := os.WriteFile(out, []byte(b.String()), 0644); err != nil {
		fmt.Fprintln(os.Stderr, err)
		os.Exit(2)
	}
	if len(errs) > 0 {
		os.Exit(1)
	}
}
