module gotocoq

go 1.19
