(* gsmodel: thin driver around the extracted Coq judges.
   Reads one case per line (nested parenthesised integers), applies the judge
   named on the command line, prints one result line per case:
     ok <ints>            | fail <kind> <ints>     | bad <msg>
   This file only parses integers/parentheses and prints; every decision is
   taken by extracted Gallina code (Gsext). *)

let rec pos_of_int n =
  if n = 1 then Gsext.XH
  else if n land 1 = 0 then Gsext.XO (pos_of_int (n lsr 1))
  else Gsext.XI (pos_of_int (n lsr 1))

let z_of_int n = if n = 0 then Gsext.Z0 else if n > 0 then Gsext.Zpos (pos_of_int n) else Gsext.Zneg (pos_of_int (-n))

let rec int_of_pos = function Gsext.XH -> 1 | Gsext.XO p -> 2 * int_of_pos p | Gsext.XI p -> 2 * int_of_pos p + 1
let int_of_z = function Gsext.Z0 -> 0 | Gsext.Zpos p -> int_of_pos p | Gsext.Zneg p -> - (int_of_pos p)

let string_of_chars l = String.concat "" (List.map (String.make 1) l)

exception Parse_error of string

(* parse a line into an sx *)
let parse_sx (s : string) : Gsext.sx =
  let n = String.length s in
  let pos = ref 0 in
  let rec skip () = if !pos < n && (s.[!pos] = ' ' || s.[!pos] = '\t' || s.[!pos] = '\r') then (incr pos; skip ()) in
  let rec item () : Gsext.sx =
    skip ();
    if !pos >= n then raise (Parse_error "eof");
    if s.[!pos] = '(' then begin
      incr pos;
      let items = ref [] in
      let fin = ref false in
      while not !fin do
        skip ();
        if !pos >= n then raise (Parse_error "unclosed");
        if s.[!pos] = ')' then (incr pos; fin := true)
        else items := item () :: !items
      done;
      Gsext.L (List.rev !items)
    end else begin
      let st = !pos in
      if s.[!pos] = '-' then incr pos;
      while !pos < n && s.[!pos] >= '0' && s.[!pos] <= '9' do incr pos done;
      if !pos = st then raise (Parse_error (Printf.sprintf "char %c at %d" s.[!pos] !pos));
      Gsext.I (z_of_int (int_of_string (String.sub s st (!pos - st))))
    end
  in
  let r = item () in
  skip ();
  if !pos < n then raise (Parse_error "trailing");
  r

let ints l = String.concat " " (List.map (fun z -> string_of_int (int_of_z z)) l)

let print_verdict v =
  let (tag, (text, info)) = Gsext.verdict_parts v in
  match int_of_z tag with
  | 0 -> Printf.printf "ok %s\n" (ints info)
  | 1 -> Printf.printf "fail %s %s\n" (string_of_chars text) (ints info)
  | _ -> Printf.printf "bad %s\n" (string_of_chars text)

let judges : (string * (Gsext.sx -> Gsext.verdict)) list = [
  "C05", Gsext.judge_C05;
  "solve", Gsext.judge_solve_case;
  "C03", Gsext.judge_C03;
  "C04", Gsext.judge_C04;
  "C09", Gsext.judge_C09;
  "C10", Gsext.judge_C10;
  "C06", Gsext.judge_C06;
  "C07", Gsext.judge_C07;
  "C08", Gsext.judge_C08;
  "C08s", Gsext.judge_C08s;
  "C11", Gsext.judge_C11;
  "C12", Gsext.judge_C12;
  "C14", Gsext.judge_C14;
  "C17", Gsext.judge_C17;
  "render17", Gsext.render17;
  "C19", Gsext.judge_C19;
  "solve_m", Gsext.judge_solve_case_m;
  "C03m", Gsext.judge_C03_m;
  "C05m", Gsext.judge_C05_m;
  "C09m", Gsext.judge_C09_m;
  "C10m", Gsext.judge_C10_m;
  "C13", Gsext.judge_C13;
  "render13", Gsext.render13;
  "C18", Gsext.judge_C18;
  "C20o", Gsext.judge_C20o;
  "C20m", Gsext.judge_C20m;
  "C20e", Gsext.judge_C20e;
  "C15", Gsext.judge_C15;
  "snaps", Gsext.judge_snaps;
  "trace", Gsext.judge_trace;
  "parse", Gsext.judge_parse;
  "amostruct", Gsext.judge_amo_struct;
  "tracepb", Gsext.judge_trace_pb;
  "goir", Gsext.judge_goir;
  "goirpb", Gsext.judge_goir_pbop;
  "goirup", Gsext.judge_goir_up;
]

let () =
  if Array.length Sys.argv < 2 then (prerr_endline "usage: gsmodel <judge> < cases"; exit 2);
  let name = Sys.argv.(1) in
  let j = try List.assoc name judges with Not_found -> (prerr_endline ("unknown judge " ^ name); exit 2) in
  (try
    while true do
      let line = input_line stdin in
      if String.length line > 0 then begin
        (* the case is the part before an optional tab *)
        let line = match String.index_opt line '\t' with Some i -> String.sub line 0 i | None -> line in
        (match (try Some (parse_sx line) with Parse_error m -> (Printf.printf "bad parse: %s\n" m; None)) with
         | Some sx -> print_verdict (j sx)
         | None -> ())
      end
    done
  with End_of_file -> ());
  flush stdout
