(* Extraction of the executable model and judges.  Directives used:
   ExtrOcamlBasic (bool, option, unit, list, prod, sumbool, ...) and
   ExtrOcamlString (ascii -> char, string -> char list).  No Extract Constant
   of our own; Z, N, positive, nat stay Coq datatypes. *)
From Coq Require Import ExtrOcamlBasic ExtrOcamlString.
From GS Require Import Spec.Base Spec.PB Judge.Sx Judge.JCommon Judge.J01 Judge.J03 Judge.J04 Judge.J05 Judge.J06 Judge.J09 Judge.J11 Judge.J13 Judge.J14 Judge.J17 Judge.J19 Judge.J20 Judge.J21 Judge.J22 Judge.J23 Judge.J24 Judge.J25 Judge.J26 Judge.JModel.
Extraction Language OCaml.
Extraction "gsext.ml" verdict_parts judge_C05 judge_solve_case judge_C03 judge_C04 judge_C09 judge_C10 judge_C14 judge_C15 judge_C06 judge_C07 judge_C08 judge_C08s judge_C11 judge_C12 judge_C20o judge_C20m judge_C20e render17 judge_C17 judge_C19 render13 judge_C13 judge_C18 judge_solve_case_m judge_C03_m judge_C05_m judge_C09_m judge_C10_m judge_snaps judge_trace judge_parse judge_amo_struct judge_trace_pb judge_goir judge_goir_pbop judge_goir_up.
