(* C01 / C02: verdict and model of a single Solve, any front end.
   case: ((n (uc...)) (status verdict (model bits)))   *)
From Coq Require Import List ZArith Bool String NArith.
From GS Require Import Spec.Base Spec.PB Spec.Solver Spec.URef Judge.Sx Judge.JCommon.
Import ListNotations.
Open Scope string_scope.
Open Scope Z_scope.

Definition judge_solve_case (s : sx) : verdict :=
  match s with
  | L [pb; L [I st; I vd; m]] =>
    match duproblem pb, dbools m with
    | Some (n, P), Some m' =>
      if Z.of_nat n <? maxvar_uproblem P then Bad "solve: nbvars" else
      match status_fail st with
      | Some v => v
      | None => judge_solve n P vd m'
      end
    | _, _ => Bad "solve: decode"
    end
  | _ => Bad "solve: shape"
  end.
