(* C19: what the command line tool prints.
   case: (kind flag obj)   kind: 0 .cnf  1 .opb  2 .wcnf  3 .bf  4 unreadable / unknown suffix
                           flag: 0 none 1 -count 2 -certified 3 -mus 4 -cp 5 -verbose
     obj  .cnf : (n ((lit...)...))
          .opb : ((n (uc...)) ((w l)...))          cost () when there is no min: line
          .wcnf: (n ((weight rel rhs (w l)...)...))   (weight 0 = hard)
          .bf  : ast as in Judge/J17.v
   obs : (status exit (stdout bytes))
   stdout is read with the readers of coq/Model/Cli.v (read_answer, read_v, read_vx, split_cert,
   read_bf_answer), for which C19_v_line, C19_read_* and C19_truthful are proved. *)
From Coq Require Import List ZArith Bool String Ascii NArith.
From GS Require Import Spec.Base Spec.PB Spec.Solver Spec.URef Judge.Sx Judge.JCommon Judge.J04 Judge.J17
     Model.Rup Model.Mus Model.Cli Model.BfParse.
Import ListNotations.
Open Scope string_scope.
Open Scope Z_scope.

Definition line_ints (l : string) : option (list Z) := omap read_Z (tokens l).

(* clause lines "l1 l2 ... 0" -> clause *)
Definition clause_of_line (l : string) : option clause :=
  match line_ints l with
  | Some zs =>
    match rev zs with
    | 0 :: r => if forallb (fun z => negb (z =? 0)) r then Some (rev r) else None
    | _ => None
    end
  | None => None
  end.

Definition has_pfx (p l : string) : bool := match strip_prefix p l with Some _ => true | None => false end.

(* the "p cnf n m" section printed by -mus: clauses after the header line *)
Fixpoint after_header (ls : list string) : option (list string) :=
  match ls with
  | [] => None
  | l :: r => if has_pfx "p cnf " l then Some r else after_header r
  end.

Definition nonempty (l : string) : bool := negb (String.eqb l "").

Definition decision_truthful (n : nat) (P : uproblem) (a : answer) (allow_opt : bool) : option string :=
  match a_status a with
  | Some SSat | Some SOptimum =>
    if (match a_status a with Some SOptimum => negb allow_opt | _ => false end) then Some "answer-line-wrong-kind" else
    match a_model a with
    | None => Some "answer-line-missing"
    | Some m =>
      if negb (Nat.eqb (List.length m) n) then Some "untruthful-model-length"
      else if sat_uproblem m P then None else Some "untruthful-sat"
    end
  | Some SUnsat => match uref_solve n P with None => None | Some _ => Some "untruthful-unsat" end
  | Some SUnknown => Some "answer-unknown"
  | None => Some "answer-line-missing"
  end.

Fixpoint strictly_dec (l : list Z) : bool :=
  match l with
  | a :: ((b :: _) as r) => (b <? a) && strictly_dec r
  | _ => true
  end.

Definition optim_truthful (n : nat) (sat : model -> bool) (costf : model -> Z) (best : option Z) (a : answer)
  : option string :=
  match best with
  | None => match a_status a with
            | Some SUnsat => None
            | Some _ => Some "untruthful-sat"
            | None => Some "answer-line-missing"
            end
  | Some b =>
    match a_status a with
    | Some SUnsat => Some "untruthful-unsat"
    | Some SSat | Some SOptimum =>
      match a_model a with
      | None => Some "answer-line-missing"
      | Some m =>
        if negb (Nat.eqb (List.length m) n) then Some "untruthful-model-length"
        else if negb (sat m) then Some "untruthful-sat"
        else if negb (strictly_dec (a_costs a)) then Some "o-lines-not-decreasing"
        else match rev (a_costs a) with
             | [] => Some "o-line-missing"
             | last :: _ =>
               if negb (last =? b) then Some "untruthful-optimum"
               else if negb (costf m =? b) then Some "model-does-not-attain-optimum"
               else None
             end
      end
    | Some SUnknown => Some "answer-unknown"
    | None => Some "answer-line-missing"
    end
  end.

Definition fail_of (o : option string) (okinfo : list Z) : verdict :=
  match o with None => Sx.Ok okinfo | Some k => Fail k [] end.

Fixpoint ast_names (a : ast) : list string :=
  match a with
  | AVar s => [s]
  | ANot x => ast_names x
  | ABin _ x y => (ast_names x ++ ast_names y)%list
  | AUniq l => l
  end.
Definition names_of_ast (a : ast) : list string := nodup string_dec (ast_names a).

Definition judge_C19 (s : sx) : verdict :=
  match s with
  | L [L [I kind; I flag; obj]; L [I st; I exit; out]] =>
    match dbytes out with
    | None => Bad "C19: stdout"
    | Some bytes =>
      match status_fail st with
      | Some v => v
      | None =>
        let ls := lines_of (string_of_list_ascii bytes) in
        if kind =? 4 then
          (if exit =? 0 then Fail "bad-exit" [exit]
           else if existsb (fun l => has_pfx "s " l) ls then Fail "answer-line-on-error" [] else Sx.Ok [4])
        else if kind =? 0 then
          match obj with
          | L [nn; f] =>
            match dnat nn, dcnf f with
            | Some n, Some F =>
              let P := cnf_uproblem F in
              if flag =? 3 then
                (if sat_ref n F then
                   (if exit =? 0 then Fail "bad-exit" [exit] else Sx.Ok [0; 3; 1])
                 else if negb (exit =? 0) then Fail "bad-exit" [exit]
                 else match after_header ls with
                      | None => Fail "mus-missing" []
                      | Some cl =>
                        match omap clause_of_line (filter nonempty cl) with
                        | None => Fail "mus-unreadable" []
                        | Some S' => if is_musb n F S' then Sx.Ok [0; 3; 2] else Fail "mus-invalid" [Z.of_nat (List.length S')]
                        end
                      end)
              else if negb (exit =? 0) then Fail "bad-exit" [exit]
              else if flag =? 1 then
                match read_answer ls with
                | Some a => match a_count a with
                            | Some k => if k =? Z.of_N (ucount n P) then Sx.Ok [0; 1; k] else Fail "untruthful-count" [Z.of_N (ucount n P); k]
                            | None => Fail "answer-line-missing" []
                            end
                | None => Fail "stdout-unreadable" []
                end
              else if flag =? 2 then
                let '(ans, other) := split_cert ls in
                match read_answer ans, omap clause_of_line other with
                | Some a, Some cert =>
                  match decision_truthful n P a false with
                  | Some k => Fail k []
                  | None =>
                    if negb (rup_check n F cert) then Fail "certificate-invalid" [Z.of_nat (List.length cert)]
                    else match a_status a with
                         | Some SUnsat =>
                           if existsb is_nil cert || up_refutes n (F ++ cert)%list then Sx.Ok [0; 2; Z.of_nat (List.length cert)]
                           else Fail "certificate-no-empty-clause" []
                         | _ => Sx.Ok [0; 2; Z.of_nat (List.length cert)]
                         end
                  end
                | _, _ => Fail "stdout-unreadable" []
                end
              else
                match read_answer ls with
                | Some a => fail_of (decision_truthful n P a false) [0; flag]
                | None => Fail "stdout-unreadable" []
                end
            | _, _ => Bad "C19: cnf object"
            end
          | _ => Bad "C19: cnf object"
          end
        else if kind =? 1 then
          match obj with
          | L [pb; L cts] =>
            match duproblem pb, omap dterm cts with
            | Some (n, P), Some c =>
              if negb (exit =? 0) then Fail "bad-exit" [exit]
              else if flag =? 1 then
                match read_answer ls with
                | Some a => match a_count a with
                            | Some k => if k =? Z.of_N (ucount n P) then Sx.Ok [1; 1; k] else Fail "untruthful-count" [Z.of_N (ucount n P); k]
                            | None => Fail "answer-line-missing" []
                            end
                | None => Fail "stdout-unreadable" []
                end
              else
                match read_answer ls with
                | Some a => fail_of (optim_truthful n (fun m => sat_uproblem m P) (fun m => cost_of m c) (umin n P c) a) [1; flag]
                | None => Fail "stdout-unreadable" []
                end
            | _, _ => Bad "C19: opb object"
            end
          | _ => Bad "C19: opb object"
          end
        else if kind =? 2 then
          match obj with
          | L [nn; L cs] =>
            match dnat nn, omap dwuc cs with
            | Some n, Some cs' =>
              if negb (exit =? 0) then Fail "bad-exit" [exit] else
              match read_answer ls with
              | Some a => fail_of (optim_truthful n (fun m => sat_uproblem m (J04.hard_of cs')) (fun m => J04.violated m (J04.soft_of cs'))
                                                  (J04.maxsat_opt n cs') a) [2; flag]
              | None => Fail "stdout-unreadable" []
              end
            | _, _ => Bad "C19: wcnf object"
            end
          | _ => Bad "C19: wcnf object"
          end
        else if kind =? 3 then
          match dast obj with
          | Some a0 =>
            if negb (exit =? 0) then Fail "bad-exit" [exit] else
            let names := names_of_ast a0 in
            match read_bf_answer ls with
            | Some None =>
              if existsb (fun j => eval_ast (env_of names j) a0) (seq 0 (Nat.pow 2 (List.length names)))
              then Fail "untruthful-unsat" [] else Sx.Ok [3; 2]
            | Some (Some binds) =>
              let env := fun nm => match find (fun p => String.eqb (fst p) nm) binds with Some p => snd p | None => false end in
              if eval_ast env a0 then Sx.Ok [3; 1] else Fail "untruthful-sat" []
            | None => Fail "stdout-unreadable" []
            end
          | None => Bad "C19: bf object"
          end
        else Bad "C19: kind"
      end
    end
  | _ => Bad "C19: shape"
  end.
