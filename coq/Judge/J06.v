(* C06: ((n (uc...)) (status verdict (model bits) certflag ((lit...) ...)))   -- CNF only; the clause list is
        also given as uc's (unit weights, >= 1): decoded back to a cnf here.
   C07: ((n ((lit...)...) method) (status err ((lit...)...) nbclauses unchanged))
   C08: ((n ((lit...)...) ((lit...)...) entry) (status valid err restored second))   entry: 0 reader, 1 chan
   C08s: ((n ((lit...)...)) (status err ((lit...)...)))                              UnsatSubset *)
From Coq Require Import List ZArith Bool String NArith.
From GS Require Import Spec.Base Spec.PB Spec.Solver Spec.URef Judge.Sx Judge.JCommon Model.Rup Model.Mus.
Import ListNotations.
Open Scope string_scope.
Open Scope Z_scope.

Definition clause_of_uc (c : uc) : option clause :=
  match u_rel c with
  | Ge => if (u_rhs c =? 1) && forallb (fun t => fst t =? 1) (u_terms c) then Some (map snd (u_terms c)) else None
  | _ => None
  end.

Definition is_nil {A} (l : list A) : bool := match l with [] => true | _ => false end.

Definition judge_C06 (s : sx) : verdict :=
  match s with
  | L [pb; L [I st; I vd; m; I certflag; lines]] =>
    match duproblem pb, dbools m, dZss lines with
    | Some (n, P), Some m', Some cert =>
      match omap clause_of_uc P with
      | None => Bad "C06: not a CNF"
      | Some F =>
        if Z.of_nat n <? maxvar F then Bad "C06: nbvars" else
        match status_fail st with
        | Some v => v
        | None =>
          (* beyond 24 variables an Unsat answer is justified by its certificate alone (C06_refutation); a Sat answer by its model *)
          let base := if (24 <? n)%nat && (certflag =? 1) && (vd =? 2) then Ok [2] else judge_solve n P vd m' in
          match base with
          | Ok i =>
            if certflag =? 0 then Ok (i ++ [0])%list else
            if negb (rup_check n F cert) then Fail "line-not-rup" [Z.of_nat (List.length cert)]
            else if (vd =? 2) && negb (existsb is_nil cert || up_refutes n (F ++ cert)%list)
                 then Fail "no-empty-clause" [Z.of_nat (List.length cert)]
            else Ok (i ++ [Z.of_nat (List.length cert)])%list
          | v => v
          end
        end
      end
    | _, _, _ => Bad "C06: decode"
    end
  | _ => Bad "C06: shape"
  end.

(* minimum number of clauses to drop to make F satisfiable *)
Definition min_relax (n : nat) (F : cnf) : Z :=
  match min_cost n (fun _ => true) (fun m => viol m F) with Some k => k | None => 0 end.

Definition judge_C07 (s : sx) : verdict :=
  match s with
  | L [L [nn; f; I method]; L [I st; I err; res; I nbc; I unchanged]] =>
    match dnat nn, dcnf f, dcnf res with
    | Some n, Some F, Some S' =>
      if Z.of_nat n <? maxvar F then Bad "C07: nbvars" else
      match status_fail st with
      | Some v => v
      | None =>
        if negb (unchanged =? 1) then Fail "receiver-mutated" [method] else
        if sat_ref n F then
          (if err =? 1 then Ok [1] else Fail "no-error-on-sat" [method])
        else
          if err =? 1 then Fail "error-on-unsat" [method]
          else if negb (submultisetb S' F) then Fail "not-submultiset" [method]
          else if sat_ref n S' then Fail "mus-satisfiable" [method]
          else if negb (is_musb n F S') then Fail "not-minimal" [min_relax n F; method]
          else if negb (nbc =? Z.of_nat (List.length S')) then Fail "nbclauses" [method]
          else Ok [2; Z.of_nat (List.length S')]
      end
    | _, _, _ => Bad "C07: decode"
    end
  | _ => Bad "C07: shape"
  end.

Definition clause_entailed (n : nat) (F : cnf) (c : clause) : bool :=
  negb (sat_ref n (F ++ map (fun l => [- l]) c)%list).

Fixpoint upto_empty (cert : list clause) : list clause :=
  match cert with
  | [] => []
  | c :: r => if is_nil c then [c] else c :: upto_empty r
  end.

Definition judge_C08 (s : sx) : verdict :=
  match s with
  | L [L [nn; f; ct; I entry]; L [I st; I valid; I err; I restored; I second]] =>
    match dnat nn, dcnf f, dcnf ct with
    | Some n, Some F, Some cert =>
      if Z.of_nat n <? Z.max (maxvar F) (maxvar cert) then Bad "C08: nbvars" else
      match status_fail st with
      | Some v => v
      | None =>
        let seen := if entry =? 1 then upto_empty cert else cert in
        if negb (err =? 0) then Fail "error-on-wellformed" [entry]
        else if negb (restored =? 1) then Fail "not-restored" [entry]
        else if negb (second =? valid) then Fail "second-run-differs" [valid; second]
        else if (valid =? 1) && negb (forallb (clause_entailed n F) seen) then Fail "accepted-non-consequence" [entry]
        else if (valid =? 0) && rup_check n F seen then Fail "rejected-rup-line" [entry]
        else Ok [valid; bool_Z (rup_check n F seen)]
      end
    | _, _, _ => Bad "C08: decode"
    end
  | _ => Bad "C08: shape"
  end.

Definition judge_C08s (s : sx) : verdict :=
  match s with
  | L [L [nn; f]; L [I st; I err; res]] =>
    match dnat nn, dcnf f, dcnf res with
    | Some n, Some F, Some S' =>
      if Z.of_nat n <? maxvar F then Bad "C08s: nbvars" else
      match status_fail st with
      | Some v => v
      | None =>
        if sat_ref n F then (if err =? 1 then Ok [1] else Fail "no-error-on-sat" [])
        else if err =? 1 then Fail "error-on-unsat" []
        else if negb (submultisetb S' F) then Fail "not-submultiset" []
        else if sat_ref n S' then Fail "subset-satisfiable" []
        else Ok [2; Z.of_nat (List.length S')]
      end
    | _, _, _ => Bad "C08s: decode"
    end
  | _ => Bad "C08s: shape"
  end.
