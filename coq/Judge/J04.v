(* C04: MaxSAT.  case: ((n ((weight rel rhs (w l)...) ...)) (status verdict cost (model bits) keysok))
   weight 0 = hard constraint.  cost is -1 when the verdict is Unsat. *)
From Coq Require Import List ZArith Bool String NArith.
From GS Require Import Spec.Base Spec.PB Spec.Solver Spec.URef Judge.Sx Judge.JCommon.
Import ListNotations.
Open Scope string_scope.
Open Scope Z_scope.

Definition dwuc (s : sx) : option (Z * uc) :=
  match s with
  | L (I w :: rest) => match duc (L rest) with Some c => Some (w, c) | None => None end
  | _ => None
  end.

Fixpoint violated (m : model) (soft : list (Z * uc)) : Z :=
  match soft with
  | [] => 0
  | (w, c) :: r => (if sat_uc m c then 0 else w) + violated m r
  end.

Definition hard_of (cs : list (Z * uc)) : uproblem := map snd (filter (fun wc => fst wc =? 0) cs).
Definition soft_of (cs : list (Z * uc)) : list (Z * uc) := filter (fun wc => negb (fst wc =? 0)) cs.

Definition maxsat_opt (n : nat) (cs : list (Z * uc)) : option Z :=
  min_pruned (uprune (hard_of cs)) (fun m => sat_uproblem m (hard_of cs)) (fun m => violated m (soft_of cs)) n [].

Definition judge_C04 (s : sx) : verdict :=
  match s with
  | L [L [nn; L cs]; L [I st; I vd; I cst; m; I keysok]] =>
    match dnat nn, omap dwuc cs, dbools m with
    | Some n, Some cs', Some m' =>
      if Z.of_nat n <? maxvar_uproblem (map snd cs') then Bad "C04: nbvars" else
      if existsb (fun wc => fst wc <? 0) cs' then Bad "C04: negative weight" else
      match status_fail st with
      | Some v => v
      | None =>
        match maxsat_opt n cs' with
        | None =>
          if vd =? 2 then Ok [2] else if vd =? 1 then Fail "wrong-sat" [] else Fail "indet" [vd]
        | Some best =>
          if vd =? 2 then Fail "wrong-unsat" [best]
          else if negb (vd =? 1) then Fail "indet" [vd]
          else if negb (Nat.eqb (List.length m') n) then Fail "model-length" [Z.of_nat n; Z.of_nat (List.length m')]
          else if negb (keysok =? 1) then Fail "leaked-or-missing-var" []
          else if negb (sat_uproblem m' (hard_of cs')) then Fail "bad-model" [best]
          else if negb (violated m' (soft_of cs') =? cst) then Fail "cost-mismatch" [violated m' (soft_of cs'); cst]
          else if negb (cst =? best) then Fail "wrong-optimum" [best; cst]
          else Ok [1; best]
        end
      end
    | _, _, _ => Bad "C04: decode"
    end
  | _ => Bad "C04: shape"
  end.
