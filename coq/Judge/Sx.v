(* The neutral case format shared by the Go harness, the extracted driver and
   the kernel-evaluated cases_*.v files: nested lists of integers.
   All decoding of cases into structured values happens here, in Gallina. *)
From Coq Require Import List ZArith Bool String.
From GS Require Import Spec.Base Spec.PB.
Import ListNotations.
Open Scope Z_scope.

Inductive sx := I (z : Z) | L (l : list sx).

Inductive verdict :=
| Ok (info : list Z)
| Fail (kind : string) (info : list Z)
| Bad (msg : string).

(* constructor-free view for the OCaml driver *)
Definition verdict_parts (v : verdict) : Z * (string * list Z) :=
  match v with
  | Ok info => (0, (EmptyString, info))
  | Fail kind info => (1, (kind, info))
  | Bad msg => (2, (msg, []))
  end.

Fixpoint omap {A B} (f : A -> option B) (l : list A) : option (list B) :=
  match l with
  | [] => Some []
  | x :: r => match f x, omap f r with
              | Some y, Some ys => Some (y :: ys)
              | _, _ => None
              end
  end.

Definition dZ (s : sx) : option Z := match s with I z => Some z | _ => None end.
Definition dZs (s : sx) : option (list Z) := match s with L l => omap dZ l | _ => None end.
Definition dZss (s : sx) : option (list (list Z)) := match s with L l => omap dZs l | _ => None end.
Definition dbool (s : sx) : option bool :=
  match s with I 0 => Some false | I 1 => Some true | _ => None end.
Definition dbools (s : sx) : option (list bool) := match s with L l => omap dbool l | _ => None end.
Definition dnat (s : sx) : option nat :=
  match s with I z => if 0 <=? z then Some (Z.to_nat z) else None | _ => None end.

Definition dterm (s : sx) : option term :=
  match s with L [I w; I l] => if l =? 0 then None else Some (w, l) | _ => None end.

Definition drel (z : Z) : option rel :=
  if z =? 0 then Some Ge else if z =? 1 then Some Le else if z =? 2 then Some Eq else None.

(* (rel rhs (w l) (w l) ...) *)
Definition duc (s : sx) : option uc :=
  match s with
  | L (I r :: I rhs :: ts) =>
    match drel r, omap dterm ts with
    | Some r', Some ts' => Some (UC ts' r' rhs)
    | _, _ => None
    end
  | _ => None
  end.

(* (n (uc uc ...)) *)
Definition duproblem (s : sx) : option (nat * uproblem) :=
  match s with
  | L [n; L cs] =>
    match dnat n, omap duc cs with
    | Some n', Some cs' => Some (n', cs')
    | _, _ => None
    end
  | _ => None
  end.

Definition dcnf (s : sx) : option cnf :=
  match dZss s with
  | Some f => if wf_cnfb f then Some f else None
  | None => None
  end.

Fixpoint maxvar_terms (ts : list term) : Z :=
  match ts with [] => 0 | t :: r => Z.max (Z.abs (snd t)) (maxvar_terms r) end.
Fixpoint maxvar_uproblem (P : uproblem) : Z :=
  match P with [] => 0 | c :: r => Z.max (maxvar_terms (u_terms c)) (maxvar_uproblem r) end.

Fixpoint eqb_bools (a b : list bool) : bool :=
  match a, b with
  | [], [] => true
  | x :: a', y :: b' => Bool.eqb x y && eqb_bools a' b'
  | _, _ => false
  end.

Fixpoint nodupb (l : list (list bool)) : bool :=
  match l with
  | [] => true
  | x :: r => negb (existsb (eqb_bools x) r) && nodupb r
  end.

Definition bool_Z (b : bool) : Z := if b then 1 else 0.
