(* Judges that, on top of the oracle-based judgement, EXECUTE THE MIRRORED MODEL on the same input and require the
   implementation's property-level observable (verdict, optimum, count, per-step verdicts) to coincide with the
   model's.  The model's answer is correct by the theorems of Properties/ (C01_slices, C02_solve_user, C03_optimal,
   C04_solve_model / C04_wcnf, C05_count_pm, C09_history_partial, C10_rounds), so the comparison adds no demand; it
   is the "model versus implementation on the same inputs" reading of the correspondence. *)
From Coq Require Import List ZArith Bool String NArith.
From GS Require Import Spec.Base Spec.PB Spec.Solver Spec.URef Judge.Sx Judge.JCommon Judge.J01 Judge.J03 Judge.J04
     Judge.J05 Judge.J06 Judge.J09 Model.PBNorm Model.Simplify Model.Solve Model.Optim Model.MaxSat Model.Enum
     Model.Incr Model.Assume.
Import ListNotations.
Open Scope string_scope.
Open Scope Z_scope.

Definition and_model (base : verdict) (agree : bool) (info : list Z) : verdict :=
  match base with
  | Sx.Ok i => if agree then Sx.Ok i else Fail "differs-from-model" info
  | v => v
  end.

Definition status_code (s : Simplify.status) : Z :=
  match s with Simplify.Sat => 1 | Simplify.Unsat => 2 | Simplify.Indet => 0 end.

Definition norm_problem (ucs : uproblem) : problem := map pbconstr_pbc (user_pbconstrs ucs).

(* C01 / C02.  The model is executed up to 14 variables (C03: 10, C05: 6); beyond, the oracle judgement alone decides. *)
Definition judge_solve_case_m (s : sx) : verdict :=
  let base := judge_solve_case s in
  match s with
  | L [pb; L [I st; I vd; m]] =>
    match duproblem pb with
    | Some (n, P) =>
      if negb (st =? 0) || (14 <? n)%nat then base else
      let mv := match omap clause_of_uc P with
                | Some F => status_code (fst (solve_cnf (Z.of_nat n) F))
                | None => status_code (fst (solve_user P))
                end in
      and_model base (vd =? mv) [mv; vd]
    | None => base
    end
  | _ => base
  end.

(* C03: weight of the mirrored optimisation loop over the verified reference search *)
Definition judge_C03_m (s : sx) : verdict :=
  let base := judge_C03 s in
  match s with
  | L [L [pb; L cts]; L [I st; I vd; I w; m]] =>
    match duproblem pb, omap dterm cts with
    | Some (n, P), Some c =>
      if negb (st =? 0) || negb (cost_wf n c) || (10 <? n)%nat then base else
      let mw := oweight (fst (optimal_ref n (norm_problem P) (Some c))) in
      and_model base (w =? mw) [mw; w]
    | _, _ => base
    end
  | _ => base
  end.

(* C05: count of the mirrored enumeration loop *)
Definition judge_C05_m (s : sx) : verdict :=
  let base := judge_C05 s in
  match s with
  | L [pb; L [I st; I cnt; I en; I closed; L ms]] =>
    match duproblem pb with
    | Some (n, P) =>
      if negb (st =? 0) || (6 <? n)%nat then base else
      match count_ref n (norm_problem P) with
      | Some k => and_model base (cnt =? Z.of_N k) [Z.of_N k; cnt]
      | None => Bad "C05: model out of fuel"
      end
    | None => base
    end
  | _ => base
  end.

(* C09: verdict of every Solve of the mirrored AppendClause state machine *)
Fixpoint hops_ops (ops : list hop) : list op :=
  match ops with
  | [] => []
  | HSolve :: r => OSolve :: hops_ops r
  | HAdd c :: r => (map OAdd (filter (fun p => 0 <? degree p) (norm_problem [c])) ++ hops_ops r)%list
  end.

Definition answer_codes (l : list (option model)) : list Z :=
  map (fun o => match o with Some _ => 1 | None => 2 end) l.

Fixpoint eqb_Zs (a b : list Z) : bool :=
  match a, b with
  | [], [] => true
  | x :: a', y :: b' => (x =? y) && eqb_Zs a' b'
  | _, _ => false
  end.

Definition judge_C09_m (s : sx) : verdict :=
  let base := judge_C09 s in
  match s with
  | L [L [pb; L ops]; L (I st :: answers)] =>
    match duproblem pb, omap dhop ops, omap danswer answers with
    | Some (n, P), Some ops', Some ans =>
      if negb (st =? 0) then base else
      let mv := answer_codes (run_ref n (filter (fun p => 0 <? degree p) (norm_problem P)) (hops_ops ops')) in
      and_model base (eqb_Zs (map fst ans) mv) mv
    | _, _, _ => base
    end
  | _ => base
  end.

Definition judge_C10_m (s : sx) : verdict :=
  let base := judge_C10 s in
  match s with
  | L [L [pb; rounds]; L (I st :: answers)] =>
    match duproblem pb, dZss rounds, omap danswer answers with
    | Some (n, P), Some rs, Some ans =>
      if negb (st =? 0) then base else
      let mv := answer_codes (run_rounds_ref n (norm_problem P) rs) in
      and_model base (eqb_Zs (map fst ans) mv) mv
    | _, _, _ => base
    end
  | _ => base
  end.
