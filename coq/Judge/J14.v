(* C14: a solve with the cutting-planes strategy, with the learned constraints reported by the hook.
     case: ((n (uc...)) (status verdict (model bits) ((rel rhs (w l)...) ...)))
   C15: at-most-one detection.
     case: ((n (uc...)) (status (uc' ...)))   uc' = the constraints after DetectAtMostOne (units included) *)
From Coq Require Import List ZArith Bool String NArith.
From GS Require Import Spec.Base Spec.PB Spec.Solver Spec.URef Judge.Sx Judge.JCommon.
Import ListNotations.
Open Scope string_scope.
Open Scope Z_scope.

(* negation of a constraint, as a constraint list (Eq gives two alternatives: handled by the caller) *)
Definition entailed (n : nat) (P : uproblem) (c : uc) : bool :=
  match u_rel c with
  | Ge => match uref_solve n (P ++ [UC (u_terms c) Le (u_rhs c - 1)])%list with None => true | Some _ => false end
  | Le => match uref_solve n (P ++ [UC (u_terms c) Ge (u_rhs c + 1)])%list with None => true | Some _ => false end
  | Eq =>
    match uref_solve n (P ++ [UC (u_terms c) Le (u_rhs c - 1)])%list,
          uref_solve n (P ++ [UC (u_terms c) Ge (u_rhs c + 1)])%list with
    | None, None => true
    | _, _ => false
    end
  end.

Fixpoint first_not_entailed (n : nat) (P : uproblem) (cs : list uc) (k : Z) : option Z :=
  match cs with
  | [] => None
  | c :: r => if entailed n P c then first_not_entailed n P r (k + 1) else Some k
  end.

Definition judge_C14 (s : sx) : verdict :=
  match s with
  | L [pb; L [I st; I vd; m; L learned]] =>
    match duproblem pb, dbools m, omap duc learned with
    | Some (n, P), Some m', Some ls =>
      if Z.of_nat n <? Z.max (maxvar_uproblem P) (maxvar_uproblem ls) then Bad "C14: nbvars" else
      match status_fail st with
      | Some v => v
      | None =>
        match judge_solve n P vd m' with
        | Ok i =>
          match first_not_entailed n P ls 0 with
          | None => Ok (i ++ [Z.of_nat (List.length ls)])%list
          | Some k => Fail "learned-not-entailed" [k]
          end
        | v => v
        end
      end
    | _, _, _ => Bad "C14: decode"
    end
  | _ => Bad "C14: shape"
  end.

Definition judge_C15 (s : sx) : verdict :=
  match s with
  | L [pb; L [I st; L after]] =>
    match duproblem pb, omap duc after with
    | Some (n, P), Some P' =>
      if Z.of_nat n <? Z.max (maxvar_uproblem P) (maxvar_uproblem P') then Bad "C15: nbvars" else
      match status_fail st with
      | Some v => v
      | None =>
        match find_model n (fun m => xorb (sat_uproblem m P) (sat_uproblem m P')) with
        | None => Ok [Z.of_N (ucount n P); Z.of_nat (List.length P) - Z.of_nat (List.length P')]
        | Some m => Fail "models-changed" (map bool_Z m)
        end
      end
    | _, _ => Bad "C15: decode"
    end
  | _ => Bad "C15: shape"
  end.
