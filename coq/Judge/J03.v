(* C03: optimum.  case: (((n (uc...)) ((w l)...)) (status verdict weight (model bits)))
   weight is -1 when the verdict is Unsat (both entry points, normalised by the harness). *)
From Coq Require Import List ZArith Bool String NArith.
From GS Require Import Spec.Base Spec.PB Spec.Solver Spec.URef Judge.Sx Judge.JCommon.
Import ListNotations.
Open Scope string_scope.
Open Scope Z_scope.

Definition judge_opt (n : nat) (P : uproblem) (c : cost) (vd w : Z) (m : list bool) : verdict :=
  match umin n P c with
  | None =>
    if vd =? 2 then (if w =? -1 then Ok [2] else Fail "unsat-weight" [w])
    else if vd =? 1 then Fail "wrong-sat" [] else Fail "indet" [vd]
  | Some best =>
    if vd =? 2 then Fail "wrong-unsat" [best]
    else if negb (vd =? 1) then Fail "indet" [vd]
    else if negb (Nat.eqb (List.length m) n) then Fail "model-length" [Z.of_nat n; Z.of_nat (List.length m)]
    else if negb (sat_uproblem m P) then Fail "bad-model" [best]
    else if negb (cost_of m c =? w) then Fail "cost-mismatch" [cost_of m c; w]
    else if negb (w =? best) then Fail "wrong-optimum" [best; w]
    else Ok [1; best]
  end.

Definition judge_C03 (s : sx) : verdict :=
  match s with
  | L [L [pb; L cts]; L [I st; I vd; I w; m]] =>
    match duproblem pb, omap dterm cts, dbools m with
    | Some (n, P), Some c, Some m' =>
      if Z.of_nat n <? Z.max (maxvar_uproblem P) (maxvar_terms c) then Bad "C03: nbvars" else
      match status_fail st with
      | Some v => v
      | None => judge_opt n P c vd w m'
      end
    | _, _, _ => Bad "C03: decode"
    end
  | _ => Bad "C03: shape"
  end.
