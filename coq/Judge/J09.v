(* C09 / C10: histories.
   C09 case: (((n (uc...)) (op...)) (status (verdict (model bits)) ...))   op = (0) solve | (1 uc...) add
   C10 case: (((n (uc...)) ((lit...) ...)) (status (verdict (model bits)) ...))  one answer per round *)
From Coq Require Import List ZArith Bool String NArith.
From GS Require Import Spec.Base Spec.PB Spec.Solver Spec.URef Judge.Sx Judge.JCommon.
Import ListNotations.
Open Scope string_scope.
Open Scope Z_scope.

Inductive hop := HSolve | HAdd (c : uc).

Definition dhop (s : sx) : option hop :=
  match s with
  | L [I 0] => Some HSolve
  | L (I 1 :: rest) => match duc (L rest) with Some c => Some (HAdd c) | None => None end
  | _ => None
  end.

Definition danswer (s : sx) : option (Z * list bool) :=
  match s with
  | L [I vd; m] => match dbools m with Some m' => Some (vd, m') | None => None end
  | _ => None
  end.

(* walk the history: current variable count, conjunction so far, whether an earlier prefix was unsatisfiable *)
Fixpoint judge_history (n : nat) (P : uproblem) (dead : bool) (ops : list hop)
         (answers : list (Z * list bool)) (k : Z) : verdict :=
  match ops with
  | [] => match answers with [] => Ok [k] | _ => Bad "C09: too many answers" end
  | HAdd c :: r =>
    let n' := Nat.max n (Z.to_nat (maxvar_terms (u_terms c))) in
    judge_history n' (P ++ [c])%list dead r answers k
  | HSolve :: r =>
    match answers with
    | [] => Bad "C09: missing answer"
    | (vd, m) :: ar =>
      if dead then
        (if vd =? 2 then judge_history n P dead r ar (k + 1) else Fail "not-sticky" [k])
      else
        match judge_solve n P vd m with
        | Ok _ => judge_history n P (vd =? 2) r ar (k + 1)
        | Fail kind info => Fail kind (k :: info)
        | Bad msg => Bad msg
        end
    end
  end.

Definition judge_C09 (s : sx) : verdict :=
  match s with
  | L [L [pb; L ops]; L (I st :: answers)] =>
    match duproblem pb, omap dhop ops, omap danswer answers with
    | Some (n, P), Some ops', Some ans =>
      if Z.of_nat n <? maxvar_uproblem P then Bad "C09: nbvars" else
      match status_fail st with
      | Some v => v
      | None => judge_history n P false ops' ans 0
      end
    | _, _, _ => Bad "C09: decode"
    end
  | _ => Bad "C09: shape"
  end.

Fixpoint judge_rounds (n : nat) (P : uproblem) (rounds : list (list Z))
         (answers : list (Z * list bool)) (k : Z) : verdict :=
  match rounds, answers with
  | [], [] => Ok [k]
  | ls :: r, (vd, m) :: ar =>
    match judge_solve n (P ++ map unit_uc ls)%list vd m with
    | Ok _ => judge_rounds n P r ar (k + 1)
    | Fail kind info => Fail kind (k :: info)
    | Bad msg => Bad msg
    end
  | _, _ => Bad "C10: answers/rounds mismatch"
  end.

Definition judge_C10 (s : sx) : verdict :=
  match s with
  | L [L [pb; rounds]; L (I st :: answers)] =>
    match duproblem pb, dZss rounds, omap danswer answers with
    | Some (n, P), Some rs, Some ans =>
      if Z.of_nat n <? maxvar_uproblem P then Bad "C10: nbvars" else
      if existsb (existsb (fun l => (l =? 0) || (Z.of_nat n <? Z.abs l))) rs then Bad "C10: assumption out of range" else
      match status_fail st with
      | Some v => v
      | None => judge_rounds n P rs ans 0
      end
    | _, _, _ => Bad "C10: decode"
    end
  | _ => Bad "C10: shape"
  end.
