(* Parts P01 / P02: the Problem value the front ends of /repo build is compared, field by field and in order, with the
   value the mirrored front ends build from the same arguments:
     ParseSlice / ParseSliceNb  -> Model.Simplify.ParseSliceNb
     ParseCNF                   -> Model.Text.parse_dimacs, then Model.Solve.parse_cnf_problem
     ParseCardConstrs           -> Model.Simplify.ParseCardConstrs
     ParsePBConstrs             -> Model.Simplify.ParsePBConstrs
   and the results of the constructors GtEq / LtEq / Eq with Model.PBNorm.norm_uc.
   When the status is Unsat the Go code leaves garbage in pb.Clauses (documented in Model/Simplify.v): only NbVars and
   Status are compared then.  This is a correspondence of structure (failure kind differs-from-model); the meaning of
   the parsed problem is judged by the main parts of C01 / C02.

   case: ((front input ctors) (status err problem))   -- layout in harness/parse.go *)
From Coq Require Import List ZArith Bool String Ascii.
From GS Require Import Spec.Base Spec.PB Judge.Sx Judge.JCommon Judge.J17 Model.PBNorm Model.Simplify Model.Text Model.Solve.
Import ListNotations.
Open Scope string_scope.
Open Scope Z_scope.

Fixpoint eqZs (a b : list Z) : bool :=
  match a, b with
  | [], [] => true
  | x :: a', y :: b' => (x =? y) && eqZs a' b'
  | _, _ => false
  end.

Definition eq_oZs (a b : option (list Z)) : bool :=
  match a, b with
  | None, None => true
  | Some x, Some y => eqZs x y
  | _, _ => false
  end.

Definition eq_gclause (a b : gclause) : bool :=
  eqZs (gc_lits a) (gc_lits b) && eq_oZs (gc_weights a) (gc_weights b) && (gc_card a =? gc_card b).

Fixpoint eq_gclauses (a b : list gclause) : bool :=
  match a, b with
  | [], [] => true
  | x :: a', y :: b' => eq_gclause x y && eq_gclauses a' b'
  | _, _ => false
  end.

Definition st_code (s : Simplify.status) : Z :=
  match s with Simplify.Sat => 1 | Simplify.Unsat => 2 | Simplify.Indet => 0 end.

(* (card (lit ...) pb (weight ...)) *)
Definition dgclause (s : sx) : option gclause :=
  match s with
  | L [I card; ls; pb; ws] =>
    match dZs ls, dbool pb, dZs ws with
    | Some l, Some b, Some w => Some (GC l (if b then Some w else None) card)
    | _, _, _ => None
    end
  | _ => None
  end.

(* (atleast (lit ...) nilweights (weight ...)) *)
Definition dpbconstr (s : sx) : option pbconstr :=
  match s with
  | L [I k; ls; nl; ws] =>
    match dZs ls, dbool nl, dZs ws with
    | Some l, Some b, Some w => Some (PBCo l (if b then None else Some w) k)
    | _, _, _ => None
    end
  | _ => None
  end.

Definition dcardconstr (s : sx) : option cardconstr :=
  match s with
  | L [I k; ls] => match dZs ls with Some l => Some (l, k) | None => None end
  | _ => None
  end.

(* The same problem up to ORDER: the units as a multiset, the constraints as a multiset of (degree, weighted or not,
   multiset of (literal, weight) pairs).  Which literal comes first in a stored constraint and which constraint comes
   first in the list are choices of the simplifier (swap-with-last removal today) that no property speaks of: a rewrite
   that compacts in order builds the same problem in this sense.  The exact comparison is tried first; a problem that is
   the same only up to order is accepted with the code 9 in front (counted in the evidence, not a failure). *)
Fixpoint ins_Z23 (x : Z) (l : list Z) : list Z :=
  match l with
  | [] => [x]
  | y :: r => if x <=? y then x :: l else y :: ins_Z23 x r
  end.
Definition sort_Z23 (l : list Z) : list Z := fold_right ins_Z23 [] l.

Definition pair_leb (x y : Z * Z) : bool := (fst x <? fst y) || ((fst x =? fst y) && (snd x <=? snd y)).
Fixpoint ins_Zp (x : Z * Z) (l : list (Z * Z)) : list (Z * Z) :=
  match l with
  | [] => [x]
  | y :: r => if pair_leb x y then x :: l else y :: ins_Zp x r
  end.
Definition sort_Zp (l : list (Z * Z)) : list (Z * Z) := fold_right ins_Zp [] l.

Definition canon_clause (c : gclause) : list Z :=
  let ws := match gc_weights c with Some w => w | None => map (fun _ => 1) (gc_lits c) end in
  gc_card c :: (match gc_weights c with Some _ => 1 | None => 0 end)
    :: flat_map (fun p => [fst p; snd p]) (sort_Zp (combine (gc_lits c) ws)).

Fixpoint lex_leb (a b : list Z) : bool :=
  match a, b with
  | [], _ => true
  | _ :: _, [] => false
  | x :: a', y :: b' => (x <? y) || ((x =? y) && lex_leb a' b')
  end.
Fixpoint ins_L (x : list Z) (l : list (list Z)) : list (list Z) :=
  match l with
  | [] => [x]
  | y :: r => if lex_leb x y then x :: l else y :: ins_L x r
  end.
Definition sort_L (l : list (list Z)) : list (list Z) := fold_right ins_L [] l.

Fixpoint eqZss (a b : list (list Z)) : bool :=
  match a, b with
  | [], [] => true
  | x :: a', y :: b' => eqZs x y && eqZss a' b'
  | _, _ => false
  end.

Definition same_up_to_order (g : gproblem) (units : list Z) (cls : list gclause) : bool :=
  eqZs (sort_Z23 (gp_units g)) (sort_Z23 units) &&
  eqZss (sort_L (map canon_clause (gp_clauses g))) (sort_L (map canon_clause cls)).

(* which field differs first: 1 nbvars 2 status 3 units 4 model 5 clauses *)
Definition compare_problem (g : gproblem) (nb stc : Z) (units md : list Z) (cls : list gclause) : verdict :=
  if negb (gp_nbvars g =? nb) then Fail "differs-from-model" [1; gp_nbvars g; nb]
  else if negb (st_code (gp_status g) =? stc) then Fail "differs-from-model" [2; st_code (gp_status g); stc]
  else if stc =? 2 then Ok [2; nb; 0]
  else if negb (eqZs (gp_model g) md) then Fail "differs-from-model" [4]
  else if eqZs (gp_units g) units && eq_gclauses (gp_clauses g) cls then Ok [stc; nb; Z.of_nat (List.length cls)]
  else if same_up_to_order g units cls then Ok [9; stc; nb; Z.of_nat (List.length cls)]
  else if negb (eqZs (sort_Z23 (gp_units g)) (sort_Z23 units)) then Fail "differs-from-model" [3]
  else Fail "differs-from-model" [5; Z.of_nat (List.length (gp_clauses g)); Z.of_nat (List.length cls)].

(* a constructor call and its results: (rel rhs (lit ...) (weight ...) (pbconstr ...)) *)
Definition ctor_ok (s : sx) : option bool :=
  match s with
  | L [I rel; I rhs; ls; ws; L outs] =>
    match drel rel, dZs ls, dZs ws, omap dpbconstr outs with
    | Some r, Some l, Some w, Some os =>
      if negb (Nat.eqb (List.length l) (List.length w)) then None else
      let model_out := map gopb_pbconstr (norm_uc (UC (combine w l) r rhs)) in
      Some ((fix eqs (a b : list pbconstr) : bool :=
               match a, b with
               | [], [] => true
               | x :: a', y :: b' => eqZs (pc_lits x) (pc_lits y) && eq_oZs (pc_weights x) (pc_weights y) &&
                                     (pc_atleast x =? pc_atleast y) && eqs a' b'
               | _, _ => false
               end) model_out os)
    | _, _, _, _ => None
    end
  | _ => None
  end.

Definition judge_parse (s : sx) : verdict :=
  match s with
  | L [L [I front; input; L ctors]; L [I st; I err; pbs]] =>
    match status_fail st with
    | Some v => v
    | None =>
      match omap ctor_ok ctors with
      | None => Bad "parse: constructor record"
      | Some oks =>
        if negb (forallb (fun b => b) oks) then Fail "differs-from-model" [6]
        else
        (* the model's problem *)
        let mg : option (option gproblem) :=     (* None: malformed case; Some None: the model's reader rejects the text *)
          if front =? 0 then
            match input with
            | L [I n; cls] => match dZss cls with Some F => Some (Some (ParseSliceNb F n)) | None => None end
            | _ => None
            end
          else if front =? 1 then
            match dbytes input with
            | Some bs => Some (match parse_dimacs (string_of_list_ascii bs) with
                               | Some (n, F) => Some (parse_cnf_problem n F)
                               | None => None
                               end)
            | None => None
            end
          else if front =? 2 then
            match input with
            | L cs => match omap dcardconstr cs with Some l => Some (Some (ParseCardConstrs l)) | None => None end
            | _ => None
            end
          else if front =? 3 then
            match input with
            | L cs => match omap dpbconstr cs with Some l => Some (Some (ParsePBConstrs l)) | None => None end
            | _ => None
            end
          else None in
        match mg with
        | None => Bad "parse: input"
        | Some None => if err =? 1 then Ok [3; 0; 0] else Fail "differs-from-model" [7]
        | Some (Some g) =>
          if err =? 1 then Fail "differs-from-model" [8]
          else match pbs with
               | L [I nb; I stc; us; md; L cls] =>
                 match dZs us, dZs md, omap dgclause cls with
                 | Some u, Some m, Some c => compare_problem g nb stc u m c
                 | _, _, _ => Bad "parse: problem"
                 end
               | _ => Bad "parse: problem shape"
               end
        end
      end
    end
  | _ => Bad "parse: shape"
  end.

(* Part P15: Problem.DetectAtMostOne.  case: (nbvars (clause ...)) obs: (status unsat (clause ...)).  The clause list after
   the call equals, in order, Model.Amo.detect_amo on the clause list before it.  Problems holding a constraint with
   weights are outside the mirrored function (a *Clause without pbData) and are skipped. *)
From GS Require Import Model.Amo.

Definition gcl_of (c : gclause) : gcl := (gc_lits c, gc_card c).

Fixpoint eq_gcls (a b : list gcl) : bool :=
  match a, b with
  | [], [] => true
  | x :: a', y :: b' => eqZs (fst x) (fst y) && (snd x =? snd y) && eq_gcls a' b'
  | _, _ => false
  end.

Definition judge_amo_struct (s : sx) : verdict :=
  match s with
  | L [L [I nb; L before]; L [I st; un; L after]] =>
    match status_fail st with
    | Some v => v
    | None =>
      match omap dgclause before, omap dgclause after, dbool un with
      | Some b, Some a, Some unsat =>
        if unsat then Ok [2; 0; 0]
        else if existsb (fun c => match gc_weights c with Some _ => true | None => false end) b then Ok [3; 0; 0]
        else
          let m := detect_amo (Z.to_nat nb) (map gcl_of b) in
          if eq_gcls m (map gcl_of a) && negb (existsb (fun c => match gc_weights c with Some _ => true | None => false end) a)
          then Ok [1; Z.of_nat (List.length b); Z.of_nat (List.length a)]
          else Fail "differs-from-model" [Z.of_nat (List.length m); Z.of_nat (List.length a)]
      | _, _, _ => Bad "amo: decode"
      end
    end
  | _ => Bad "amo: shape"
  end.
