(* C20: result streams.  A delivered result is coded (status weight (bits)); status 1 Sat, 2 Unsat.
   optimal : (((n (uc...)) ((w l)...)) (status cap ((st w (bits))...) closed (st w (bits))))
   maxsat  : ((n ((weight rel rhs (w l)...)...)) (status cap (...) closed (...)))
   enum    : ((n (uc...)) (status cap ((bits)...) closed count))
   The trace seen by the consumer is rebuilt as Received* [Closed] Returned and given to the protocol acceptor
   of coq/Model/Chan.v (accepts_trace, proved equal to the runs of the channel model in C20_accepts_trace_sound);
   the values themselves are judged against the oracles. *)
From Coq Require Import List ZArith Bool String NArith.
From GS Require Import Spec.Base Spec.PB Spec.Solver Spec.URef Judge.Sx Judge.JCommon Judge.J04 Model.Chan.
Import ListNotations.
Open Scope string_scope.
Open Scope Z_scope.

Definition dres (s : sx) : option (Z * Z * list bool) :=
  match s with
  | L [I st; I w; m] => match dbools m with Some m' => Some (st, w, m') | None => None end
  | _ => None
  end.

Definition val_of (r : Z * Z * list bool) : value :=
  let '(st, w, m) := r in enc_result st w m.

Definition trace_of (recv : list value) (closed : Z) (ret : value) : list oev :=
  (map OReceived recv ++ (if closed =? 1 then [OClosedEv] else []) ++ [OReturned ret])%list.

(* stream of an optimisation: all Sat, each a model with its true cost, strictly decreasing; or the single Unsat result *)
Fixpoint stream_ok (n : nat) (sat : model -> bool) (costf : model -> Z) (prev : option Z)
         (rs : list (Z * Z * list bool)) : option string :=
  match rs with
  | [] => None
  | (st, w, m) :: r =>
    if negb (st =? 1) then Some "non-sat-result-in-stream"
    else if negb (Nat.eqb (List.length m) n) then Some "model-length"
    else if negb (sat m) then Some "bad-model"
    else if negb (costf m =? w) then Some "cost-mismatch"
    else match prev with
         | Some p => if w <? p then stream_ok n sat costf (Some w) r else Some "not-decreasing"
         | None => stream_ok n sat costf (Some w) r
         end
  end.

Definition judge_stream (n : nat) (sat : model -> bool) (costf : model -> Z) (best : option Z)
           (cap : nat) (rs : list (Z * Z * list bool)) (closed : Z) (ret : Z * Z * list bool) : verdict :=
  let recv := map val_of rs in
  if negb (accepts_trace recv cap (trace_of recv closed (val_of ret))) then
    (if closed =? 1 then Fail "last-not-returned" [Z.of_nat (List.length rs)] else Fail "not-closed" [])
  else
    match best with
    | None =>
      match rs with
      | [(st, _, _)] => if st =? 2 then Ok [2; 1] else Fail "wrong-sat" []
      | _ => Fail "unsat-stream-shape" [Z.of_nat (List.length rs)]
      end
    | Some b =>
      match rs with
      | [] => Fail "empty-stream" []
      | (st0, _, _) :: _ =>
        if st0 =? 2 then Fail "wrong-unsat" [b] else
        match stream_ok n sat costf None rs with
        | Some k => Fail k [Z.of_nat (List.length rs)]
        | None =>
          let '(_, wl, _) := List.last rs (0, 0, []) in
          if wl =? b then Ok [1; Z.of_nat (List.length rs); b] else Fail "wrong-optimum" [b; wl]
        end
      end
    end.

Definition judge_C20o (s : sx) : verdict :=
  match s with
  | L [L [pb; L cts]; L [I st; cp; L rs; I closed; ret]] =>
    match duproblem pb, omap dterm cts, dnat cp, omap dres rs, dres ret with
    | Some (n, P), Some c, Some cap, Some rs', Some ret' =>
      if Z.of_nat n <? Z.max (maxvar_uproblem P) (maxvar_terms c) then Bad "C20o: nbvars" else
      match status_fail st with
      | Some v => v
      | None => judge_stream n (fun m => sat_uproblem m P) (fun m => cost_of m c) (umin n P c) cap rs' closed ret'
      end
    | _, _, _, _, _ => Bad "C20o: decode"
    end
  | _ => Bad "C20o: shape"
  end.

Definition judge_C20m (s : sx) : verdict :=
  match s with
  | L [L [nn; L cs]; L [I st; cp; L rs; I closed; ret]] =>
    match dnat nn, omap dwuc cs, dnat cp, omap dres rs, dres ret with
    | Some n, Some cs', Some cap, Some rs', Some ret' =>
      if Z.of_nat n <? maxvar_uproblem (map snd cs') then Bad "C20m: nbvars" else
      match status_fail st with
      | Some v => v
      | None => judge_stream n (fun m => sat_uproblem m (hard_of cs')) (fun m => violated m (soft_of cs'))
                             (maxsat_opt n cs') cap rs' closed ret'
      end
    | _, _, _, _, _ => Bad "C20m: decode"
    end
  | _ => Bad "C20m: shape"
  end.

Definition judge_C20e (s : sx) : verdict :=
  match s with
  | L [pb; L [I st; cp; L ms; I closed; I cnt]] =>
    match duproblem pb, dnat cp, omap dbools ms with
    | Some (n, P), Some cap, Some models =>
      if Z.of_nat n <? maxvar_uproblem P then Bad "C20e: nbvars" else
      match status_fail st with
      | Some v => v
      | None =>
        let recv := map enc_bits models in
        let expected := Z.of_N (ucount n P) in
        if negb (closed =? 1) then Fail "not-closed" []
        else if negb (accepts_enum_trace [recv] cap (trace_of recv closed [cnt])) then Fail "count-differs-from-delivered" [cnt; Z.of_nat (List.length models)]
        else if negb (cnt =? expected) then Fail "wrong-count" [expected; cnt]
        else if negb (forallb (fun m => Nat.eqb (List.length m) n) models) then Fail "model-length" []
        else if negb (forallb (fun m => sat_uproblem m P) models) then Fail "foreign-model" []
        else if negb (nodupb models) then Fail "dup-model" []
        else Ok [expected; Z.of_nat cap]
      end
    | _, _, _ => Bad "C20e: decode"
    end
  | _ => Bad "C20e: shape"
  end.
