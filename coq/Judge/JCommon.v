(* Shared judge pieces: verdict/model validation against the L0 oracles. *)
From Coq Require Import List ZArith Bool String NArith.
From GS Require Import Spec.Base Spec.PB Spec.Solver Spec.URef Judge.Sx.
Import ListNotations.
Open Scope string_scope.
Open Scope Z_scope.

(* verdict codes used by the harness: 0 Indet, 1 Sat, 2 Unsat *)
Definition judge_solve (n : nat) (P : uproblem) (vd : Z) (m : list bool) : verdict :=
  if vd =? 1 then
    if negb (Nat.eqb (List.length m) n) then Fail "model-length" [Z.of_nat n; Z.of_nat (List.length m)]
    else if sat_uproblem m P then Ok [1]
    else match uref_solve n P with
         | None => Fail "wrong-sat" []
         | Some _ => Fail "bad-model" []
         end
  else if vd =? 2 then
    match uref_solve n P with
    | None => Ok [2]
    | Some _ => Fail "wrong-unsat" []
    end
  else Fail "indet" [vd].

Definition is_ok (v : verdict) : bool := match v with Ok _ => true | _ => false end.

(* first non-Ok verdict of a list, else Ok with the concatenated infos *)
Fixpoint first_fail (vs : list verdict) (acc : list Z) : verdict :=
  match vs with
  | [] => Ok acc
  | Ok i :: r => first_fail r (acc ++ i)
  | v :: _ => v
  end.

Definition unit_uc (l : lit) : uc := UC [(1, l)] Ge 1.

Definition status_fail (st : Z) : option verdict :=
  if st =? 1 then Some (Fail "panic" []) else if st =? 2 then Some (Fail "timeout" []) else None.
