(* Parts G14 / G08: the interpreter of Model/GoIR2.v, run on the syntax trees regenerated from /repo (Gen/GoSrc2.v: the
   cutting-planes helpers of solver/learn_pb.go, abs, min; Gen/GoSrcX.v: the unit propagation of the certificate checker,
   explain/problem.go), against the compiled functions on the same arguments: same result, same panic, and the same
   contents of everything the call wrote through its arguments (the weights and the degree of the receiver, the units and
   the tags of the checker).  Failure kind: differs-from-goir.

   A struct reached through a pointer is passed as the translator represents it: int fields boxed in one-element arrays;
   the positions of the fields come from the generated files (the fld_ constants).

   G14 case: ((op (w1 ...) c1 (w2 ...) c2 (model ...) (trail ...) a b) (status panicked (w1 ...) c1 res))
   G08 case: (((clause ...) nbClauses (unit ...) (tagged ...)) (status panicked res (unit ...) (tagged ...))) *)
From Coq Require Import List ZArith Bool String.
From GS Require Import Judge.Sx Model.GoIR2 Gen.GoSrc2 Gen.GoSrcX.
Import ListNotations.
Open Scope string_scope.
Open Scope Z_scope.

Fixpoint eqZl2 (a b : list Z) : bool :=
  match a, b with
  | [], [] => true
  | x :: a', y :: b' => (x =? y) && eqZl2 a' b'
  | _, _ => false
  end.

Definition pbset_arg (w : list Z) (c : Z) : arg := AStruct [ASl (Some w); ASl (Some [c])].

(* a *Solver: every field nil except model and trail *)
Definition solver_arg (model trail : list Z) : arg :=
  AStruct (map (fun k => if Nat.eqb k GoSrc2.fld_Solver_model then ASl (Some model)
                         else if Nat.eqb k GoSrc2.fld_Solver_trail then ASl (Some trail)
                         else ASl None) (seq 0 GoSrc2.nfld_Solver)).

Definition pbop_call (op : Z) (w1 : list Z) (c1 : Z) (w2 : list Z) (c2 : Z) (model trail : list Z) (a b : Z)
  : option (string * list arg) :=
  let pb1 := pbset_arg w1 c1 in
  let sv := solver_arg model trail in
  match op with
  | 0 => Some ("pbSet.clash", [pb1; ASl None; pbset_arg w2 c2])
  | 1 => Some ("pbSet.divideBy", [pb1; AInt a])
  | 2 => Some ("pbSet.roundToOne", [pb1; sv; AInt a; AInt b])
  | 3 => Some ("pbSet.falsifies", [pb1; AInt a])
  | 4 => Some ("pbSet.backtrackLevel", [pb1; sv; AInt a])
  | 5 => Some ("pbSet.onlyFalsified", [pb1; sv; AInt a; AInt b])
  | 6 => Some ("abs", [AInt a])
  | 7 => Some ("min", [AInt a; AInt b])
  | _ => None
  end.

Definition fuel_of (n : nat) : nat := (200 + 60 * n)%nat.

Definition res_Z (r : rval) : option Z :=
  match r with RInt z => Some z | RBool b => Some (if b then 1 else 0) | _ => None end.

Definition judge_goir_pbop (s : sx) : verdict :=
  match s with
  | L [L [I op; w1s; I c1; w2s; I c2; ms; ts; I a; I b]; L [I st; I panicked; w1o; I c1o; I reso]] =>
    if st =? 2 then Fail "timeout" [] else
    match dZs w1s, dZs w2s, dZs ms, dZs ts, dZs w1o with
    | Some w1, Some w2, Some model, Some trail, Some w1' =>
      match pbop_call op w1 c1 w2 c2 model trail a b with
      | None => Bad "goir2: op"
      | Some (name, args) =>
        match run_args GoSrc2.go_funs (fuel_of (List.length w1 + List.length trail)) name args with
        | RRet r aft =>
          if panicked =? 1 then Fail "differs-from-goir" [op; 1]
          else if op <? 6 then
            match aft with
            | RStruct [RSl w; RSl [c]] :: _ =>
              if negb (eqZl2 w w1') then Fail "differs-from-goir" [op; 2]
              else if negb (c =? c1o) then Fail "differs-from-goir" [op; 3]
              else match res_Z r with
                   | Some z => if z =? reso then Ok [op; 0] else Fail "differs-from-goir" [op; 4]
                   | None => Fail "differs-from-goir" [op; 5]
                   end
            | _ => Fail "differs-from-goir" [op; 6]
            end
          else match res_Z r with
               | Some z => if z =? reso then Ok [op; 0] else Fail "differs-from-goir" [op; 4]
               | None => Fail "differs-from-goir" [op; 5]
               end
        | RPanic => if panicked =? 1 then Ok [op; 1] else Fail "differs-from-goir" [op; 7]
        | RFuel => Fail "differs-from-goir" [op; 8]
        | RStuck => Fail "differs-from-goir" [op; 9]
        end
      end
    | _, _, _, _, _ => Bad "goir2: case"
    end
  | _ => Bad "goir2: shape"
  end.

(* a *explain.Problem as the translator represents it *)
Definition problem_arg (cls : list (list Z)) (nb : Z) (units : list Z) (tagged : list bool) : arg :=
  AStruct (map (fun k => if Nat.eqb k GoSrcX.fld_Problem_Clauses then AList (map (fun c => ASl (Some c)) cls)
                         else if Nat.eqb k GoSrcX.fld_Problem_NbClauses then ASl (Some [nb])
                         else if Nat.eqb k GoSrcX.fld_Problem_units then ASl (Some units)
                         else if Nat.eqb k GoSrcX.fld_Problem_tagged then ASl (Some (map (fun b : bool => if b then 1 else 0) tagged))
                         else ASl None) (seq 0 GoSrcX.nfld_Problem)).

Fixpoint eq_tags (a : list Z) (b : list bool) : bool :=
  match a, b with
  | [], [] => true
  | x :: a', y :: b' => Bool.eqb (negb (x =? 0)) y && eq_tags a' b'
  | _, _ => false
  end.

Definition judge_goir_up (s : sx) : verdict :=
  match s with
  | L [L [cls; I nb; us; tg]; L [I st; I panicked; reso; uso; tgo]] =>
    if st =? 2 then Fail "timeout" [] else
    match dZss cls, dZs us, dbools tg, dbool reso, dZs uso, dbools tgo with
    | Some F, Some units, Some tagged, Some res', Some units', Some tagged' =>
      let size := fold_right (fun c n => (S (List.length c) + n)%nat) O F in
      match run_args GoSrcX.go_funs (fuel_of ((S (List.length F)) * (S size))) "Problem.unsat" [problem_arg F nb units tagged] with
      | RRet r aft =>
        if panicked =? 1 then Fail "differs-from-goir" [10; 1]
        else match r, aft with
             | RBool b, [RStruct fs] =>
               match nth_error fs GoSrcX.fld_Problem_units, nth_error fs GoSrcX.fld_Problem_tagged with
               | Some (RSl u), Some (RSl t) =>
                 if negb (Bool.eqb b res') then Fail "differs-from-goir" [10; 2]
                 else if negb (eqZl2 u units') then Fail "differs-from-goir" [10; 3]
                 else if negb (eq_tags t tagged') then Fail "differs-from-goir" [10; 4]
                 else Ok [10; if b then 1 else 0]
               | _, _ => Fail "differs-from-goir" [10; 5]
               end
             | _, _ => Fail "differs-from-goir" [10; 6]
             end
      | RPanic => if panicked =? 1 then Ok [10; 2] else Fail "differs-from-goir" [10; 7]
      | RFuel => Fail "differs-from-goir" [10; 8]
      | RStuck => Fail "differs-from-goir" [10; 9]
      end
    | _, _, _, _, _, _ => Bad "goir2: up case"
    end
  | _ => Bad "goir2: up shape"
  end.
