(* The whole run of the CUTTING-PLANES search loop (propagateAndSearchPB), replayed on Model/SearchPB.v: the counterpart
   of J22.v.  Same case layout as J22 (snapshots of kind 1 at conflicts, kind 2 at quiet points, learned constraints only
   in each snapshot; the original constraints once).  Differences with the CDCL loop:
   - the successor of a conflict is computed by Model.SearchPB.conflict_succ from cutting_planes_full (result AND the
     model it leaves behind);
   - when cuttingPlanes returns units (newLvl = 1) they are treated one at a time with propagation in between, and no
     tracing point lies inside that loop: in the next observed trail a level-1 literal without reason is the next pending
     unit (command KNextUnit); a pending unit that is already true is not pushed by the model (the real trail gets a
     second copy, which J21.dedup_trail removes from the observation);
   - states are lists, compared directly. *)
From Coq Require Import List ZArith Bool String.
From GS Require Import Spec.Base Spec.PB Judge.Sx Judge.JCommon Model.PBNorm Model.CP Model.CPSearch Model.SearchPB
     Judge.J21.
Import ListNotations.
Open Scope string_scope.
Open Scope Z_scope.

Definition pceq (a b : pbc) : bool :=
  (degree a =? degree b) && terms_eqb (canon_terms (terms a)) (canon_terms (terms b)).

Fixpoint pindex_of (c : pbc) (l : list pbc) (i : nat) : option nat :=
  match l with
  | [] => None
  | d :: r => if pceq c d then Some i else pindex_of c r (S i)
  end.

Fixpoint premove_first (c : pbc) (l : list pbc) : option (list pbc) :=
  match l with
  | [] => None
  | d :: r => if pceq c d then Some r
              else match premove_first c r with Some r' => Some (d :: r') | None => None end
  end.

Fixpoint pkeep_mask (L obs : list pbc) : list bool :=
  match L with
  | [] => []
  | c :: r => match premove_first c obs with
              | Some obs' => true :: pkeep_mask r obs'
              | None => false :: pkeep_mask r obs
              end
  end.

Fixpoint pis_prefix (a b : list Z) : bool :=
  match a, b with
  | [], _ => true
  | x :: a', y :: b' => (x =? y) && pis_prefix a' b'
  | _ :: _, [] => false
  end.

Inductive ptres :=
| PErr (kind : string) (info : list Z)
| POk (cf : pconfig) (cmds : list pcmd).

Definition ptstep (P : problem) (n : nat) (r : ptres) (k : pcmd) (tag : Z) : ptres :=
  match r with
  | PErr _ _ => r
  | POk (PRunning s) cmds =>
    match preplay_step P n s k with
    | Some cf => POk cf (k :: cmds)
    | None => PErr "trace-step-refused" [tag; Z.of_nat (List.length cmds)]
    end
  | POk _ _ => PErr "trace-step-after-end" [tag]
  end.

(* treat pending units until the trail ends with l (fuel: number of pending units + 1) *)
Fixpoint next_units_until (fuel : nat) (P : problem) (n : nat) (l : lit) (r : ptres) : ptres :=
  match r with
  | POk (PRunning s) _ =>
    if match rev (ps_trail s) with x :: _ => x =? l | [] => false end && negb (free_lit (ps_model s) l) then r
    else match fuel, ps_pending s with
         | S f, _ :: _ => next_units_until f P n l (ptstep P n r KNextUnit 12)
         | _, [] => ptstep P n r (KDecide l) 1      (* the pending units were already true: l is the next decision *)
         | _, _ => PErr "trace-unit-unexplained" [l]
         end
  | _ => r
  end.

Fixpoint pdelta_cmds (P : problem) (n : nat) (sn : snap) (delta : list lit) (r : ptres) : ptres :=
  match delta with
  | [] => r
  | l :: rest =>
    match r with
    | POk (PRunning s) _ =>
      let r' :=
        match nth (vidx l) (sn_reasons sn) None with
        | Some c => match pindex_of c (P ++ ps_learned s) 0 with
                    | Some i => ptstep P n r (KPropagate l i) 2
                    | None => PErr "trace-reason-unknown" [l]
                    end
        | None =>
          match ps_pending s with
          | [] => ptstep P n r (KDecide l) 1
          | _ :: _ => next_units_until (S (List.length (ps_pending s))) P n l r
          end
        end in
      pdelta_cmds P n sn rest r'
    | _ => r
    end
  end.

(* pending units that are left (all already true: nothing is pushed) *)
Fixpoint drain_units (fuel : nat) (P : problem) (n : nat) (r : ptres) : ptres :=
  match r with
  | POk (PRunning s) _ =>
    match fuel, ps_pending s with
    | S f, _ :: _ => drain_units f P n (ptstep P n r KNextUnit 13)
    | _, _ => r
    end
  | _ => r
  end.

Definition eq_reasons (a b : list (option pbc)) : bool :=
  (fix go (a b : list (option pbc)) : bool :=
     match a, b with
     | [], [] => true
     | None :: a', None :: b' => go a' b'
     | Some c :: a', Some d :: b' => pceq c d && go a' b'
     | _, _ => false
     end) a b.

(* reasons are compared on the variables of the trail: the entry of an unbound variable is not read by anything *)
Definition psame_state (s : pstate) (sn : snap) : bool :=
  eqb_Zs (ps_trail s) (sn_trail sn) &&
  (ps_lvl s =? sn_lvl sn) &&
  eqb_Zs (ps_model s) (sn_model sn) &&
  forallb (fun l => match nth (vidx l) (ps_reason s) None, nth (vidx l) (sn_reasons sn) None with
                    | None, None => true
                    | Some c, Some d => pceq c d
                    | _, _ => false
                    end) (ps_trail s).

Definition pall_true (l : list bool) : bool := forallb (fun b => b) l.

Definition ptsnap (P : problem) (n : nat) (prev_restarts : Z) (r : ptres) (sn : snap) : ptres :=
  match r with
  | POk (PRunning s0) _ =>
    let mask := pkeep_mask (ps_learned s0) (sn_constrs sn) in
    let r1 := if pall_true mask then r else ptstep P n r (KForget mask) 3 in
    match r1 with
    | POk (PRunning s1) _ =>
      let r2 := if (prev_restarts <? sn_restarts sn) || negb (pis_prefix (ps_trail s1) (sn_trail sn))
                then ptstep P n (drain_units (S (List.length (ps_pending s1))) P n r1) KRestart 4 else r1 in
      match r2 with
      | POk (PRunning s2) _ =>
        if negb (pis_prefix (ps_trail s2) (sn_trail sn))
        then PErr "differs-from-model" [10; Z.of_nat (List.length (ps_trail s2))]
        else
          let r3 := pdelta_cmds P n sn (skipn (List.length (ps_trail s2)) (sn_trail sn)) r2 in
          let r3' := match r3 with
                     | POk (PRunning s) _ => drain_units (S (List.length (ps_pending s))) P n r3
                     | _ => r3
                     end in
          match r3' with
          | POk (PRunning s3) _ =>
            if negb (psame_state s3 sn) then PErr "differs-from-model" [11; sn_lvl sn; ps_lvl s3]
            else if sn_kind sn =? 1 then
              match sn_confl sn with
              | Some c => match pindex_of c (P ++ ps_learned s3) 0 with
                          | Some i => ptstep P n r3' (KConflict i) 5
                          | None => PErr "trace-conflict-unknown" [sn_lvl sn]
                          end
              | None => PErr "trace-conflict-missing" []
              end
            else r3'
          | _ => r3'
          end
      | _ => r2
      end
    | _ => r1
    end
  | POk _ _ => PErr "trace-step-after-end" [0]
  | PErr _ _ => r
  end.

(* closure at the end of the run: no tracing point lies after the units loop *)
Fixpoint pfind_forced (n : nat) (md : list Z) (lvl : Z) (cs : list pbc) (i : nat) : option (lit * nat) :=
  match cs with
  | [] => None
  | c :: r =>
    match find (fun l => prop_chk n md c l lvl) (map snd (terms c)) with
    | Some l => Some (l, i)
    | None => pfind_forced n md lvl r (S i)
    end
  end.

Fixpoint pfind_falsified (n : nat) (md : list Z) (cs : list pbc) (i : nat) : option nat :=
  match cs with
  | [] => None
  | c :: r => if confl_chk n md c then Some i else pfind_falsified n md r (S i)
  end.

Fixpoint ptop_conflict (fuel : nat) (P : problem) (n : nat) (r : ptres) : ptres :=
  match r with
  | POk (PRunning s) _ =>
    match pfind_falsified n (ps_model s) (P ++ ps_learned s) 0 with
    | Some i => if ps_lvl s =? 1 then ptstep P n r (KTopConflict i) 6 else PErr "trace-unsat-unexplained" [2]
    | None =>
      match fuel with
      | O => PErr "trace-unsat-unexplained" [0]
      | S f =>
        match pfind_forced n (ps_model s) (ps_lvl s) (P ++ ps_learned s) 0 with
        | Some (l, i) => ptop_conflict f P n (ptstep P n r (KPropagate l i) 7)
        | None => match ps_pending s with
                  | _ :: _ => ptop_conflict f P n (ptstep P n r KNextUnit 14)
                  | [] => PErr "trace-unsat-unexplained" [1]
                  end
        end
      end
    end
  | _ => r
  end.

Fixpoint psat_closure (fuel : nat) (P : problem) (n : nat) (r : ptres) : ptres :=
  match r with
  | POk (PRunning s) _ =>
    if all_assigned (ps_model s) && match ps_pending s with [] => true | _ => false end then ptstep P n r KAnswerSat 8
    else match fuel with
         | O => PErr "trace-sat-unexplained" [0]
         | S f =>
           match pfind_forced n (ps_model s) (ps_lvl s) (P ++ ps_learned s) 0 with
           | Some (l, i) => psat_closure f P n (ptstep P n r (KPropagate l i) 9)
           | None => match ps_pending s with
                     | _ :: _ => psat_closure f P n (ptstep P n r KNextUnit 15)
                     | [] => PErr "trace-sat-unexplained" [1]
                     end
           end
         end
  | _ => r
  end.

Fixpoint plead_facts (sn : snap) (tr : list lit) : list lit :=
  match tr with
  | [] => []
  | l :: r => if (Z.abs (nth (vidx l) (sn_model sn) 0) =? 1) &&
                 match nth (vidx l) (sn_reasons sn) None with None => true | Some _ => false end
              then l :: plead_facts sn r else []
  end.

Definition pfinish_trace (P : problem) (n : nat) (units : list lit) (r : ptres)
           (vd : Z) (m : list bool) (truncated : bool) (nsn : nat) : verdict :=
  match r with
  | PErr kind info => Fail kind info
  | POk cf cmds =>
    let ks := rev cmds in
    match replay_pb P n units ks with
    | None => Fail "trace-replay-differs" [3]
    | Some cf' =>
      match cf, cf' with
      | PFinal (PSat a), PFinal (PSat b) =>
        if (vd =? 1) && eqb_bools a m && eqb_bools b m then Ok [Z.of_nat nsn; Z.of_nat (List.length ks); 1]
        else Fail "differs-from-model" [20; vd]
      | PFinal PUnsat, PFinal PUnsat =>
        if vd =? 2 then Ok [Z.of_nat nsn; Z.of_nat (List.length ks); 2] else Fail "differs-from-model" [21; vd]
      | PRunning _, PRunning _ =>
        if truncated then Ok [Z.of_nat nsn; Z.of_nat (List.length ks); 0] else Fail "differs-from-model" [22; vd]
      | _, _ => Fail "trace-replay-differs" [2]
      end
    end
  end.

Definition judge_trace_pb (s : sx) : verdict :=
  match s with
  | L [_; L [I st; L snaps; L orig; I vd; ms; tr]] =>
    match omap dsnap snaps, omap dconstr orig, dbools ms, dbool tr with
    | Some sns, Some P0, Some m, Some truncated =>
      match status_fail st with
      | Some v => v
      | None =>
        match sns with
        | [] => Ok [0; 0; 0]
        | sn0 :: _ =>
          let n := List.length (sn_model sn0) in
          let units := plead_facts sn0 (sn_trail sn0) in
          let P := (P0 ++ map (fun u => clause_pbc [u]) units)%list in
          if negb (init_okb P n units) then Fail "trace-initial-state" []
          else if negb (pvars_inb n P) then Fail "trace-variable-range" []
          else
            let r := fst (fold_left (fun acc sn => (ptsnap P n (snd acc) (fst acc) sn, sn_restarts sn)) sns
                                    (POk (init_pconfig n units) [], sn_restarts sn0)) in
            let r' :=
              if truncated then r
              else if vd =? 1 then psat_closure (S (S n)) P n r
              else if vd =? 2 then match r with POk (PRunning _) _ => ptop_conflict (S (S n)) P n r | _ => r end
              else PErr "trace-verdict" [vd] in
            pfinish_trace P n units r' vd m truncated (List.length sns)
        end
      end
    | _, _, _, _ => Bad "trace: decode"
    end
  | _ => Bad "trace: shape"
  end.
