(* The whole run of the search loop, replayed.

   With the tracing hooks on at EVERY tracing point of a solve (every conflict, every point where propagation ended
   without conflict), the sequence of snapshots determines the run of the CDCL loop: between two consecutive snapshots
   the new trail literals are a decision (no reason) and propagations (with their reason), a trail that is not extended
   was cut by a restart, learned clauses that disappeared were forgotten by reduceLearned, a conflict snapshot is
   followed by the state conflict analysis builds.  This judge rebuilds the list of commands of Model/Search.v from the
   snapshots, runs the mirrored loop on them -- every side condition of every step is checked by Model.Search.replay_step,
   the successor of a conflict is COMPUTED by the model (Model.Learn.conflict_step), never taken from the observation --
   and demands that after each group of commands the state of the model is the observed state (trail, levels, reasons,
   decision level), and at the end that the model's answer is the implementation's answer (same verdict, same model).
   At the very end the whole command list is replayed once more from the initial configuration with Model.Search.replay:
   Properties/C01c.v (C01c_replay_unsat, C01c_replay_sat) then says that this answer is right for this problem.

   case: (problem (status (snap ...) (orig-constraint ...) verdict (model) truncated))
     snap as in J21.v, its constraint list holding the LEARNED constraints only;  verdict 1 = Sat, 2 = Unsat. *)
From Coq Require Import List ZArith Bool String.
From GS Require Import Spec.Base Spec.PB Judge.Sx Judge.JCommon Model.Learn Model.Search Judge.J21.
Import ListNotations.
Open Scope string_scope.
Open Scope Z_scope.

(* constraints are compared up to the order of their terms: the solver permutes the literals of a constraint while it
   moves its watches, and Go's sort of a learned clause is not stable *)
Definition ceq (a b : pbc) : bool :=
  (degree a =? degree b) && s_terms_eqb (canon_terms (terms a)) (canon_terms (terms b)).

Fixpoint index_of (c : pbc) (l : list pbc) (i : nat) : option nat :=
  match l with
  | [] => None
  | d :: r => if ceq c d then Some i else index_of c r (S i)
  end.

(* remove the first constraint equal to c *)
Fixpoint remove_first (c : pbc) (l : list pbc) : option (list pbc) :=
  match l with
  | [] => None
  | d :: r => if ceq c d then Some r
              else match remove_first c r with Some r' => Some (d :: r') | None => None end
  end.

(* which of the model's learned clauses are still held by the implementation *)
Fixpoint keep_mask (L obs : list pbc) : list bool :=
  match L with
  | [] => []
  | c :: r => match remove_first c obs with
              | Some obs' => true :: keep_mask r obs'
              | None => false :: keep_mask r obs
              end
  end.

Fixpoint is_prefix (a b : list Z) : bool :=
  match a, b with
  | [], _ => true
  | x :: a', y :: b' => (x =? y) && is_prefix a' b'
  | _ :: _, [] => false
  end.

Definition reason_in (rs : list (option pbc)) (l : lit) : option pbc :=
  nth (Z.to_nat (Z.abs l - 1)) rs None.
Definition level_in (md : list Z) (l : lit) : Z := Z.abs (nth (Z.to_nat (Z.abs l - 1)) md 0).
Definition flag_in (fl : list bool) (l : lit) : bool := nth (Z.to_nat (Z.abs l - 1)) fl false.

Inductive tres :=
| TErr (kind : string) (info : list Z)
| TOk (cf : config) (cmds : list cmd).      (* cmds: most recent first *)

(* apply one command to a running configuration *)
Definition tstep (P : problem) (n : nat) (r : tres) (k : cmd) (tag : Z) : tres :=
  match r with
  | TErr _ _ => r
  | TOk (Running s) cmds =>
    match replay_step P n s k with
    | Some cf => TOk cf (k :: cmds)
    | None => TErr "trace-step-refused" [tag; Z.of_nat (List.length cmds)]
    end
  | TOk _ _ => TErr "trace-step-after-end" [tag]
  end.

(* the commands for the new trail literals *)
Fixpoint delta_cmds (P : problem) (n : nat) (sn : snap) (delta : list lit) (r : tres) : tres :=
  match delta with
  | [] => r
  | l :: rest =>
    match r with
    | TOk (Running s) _ =>
      let r' :=
        match reason_in (sn_reasons sn) l with
        | None => tstep P n r (CDecide l) 1
        | Some c => match index_of c (P ++ ss_learned s) 0 with
                    | Some i => tstep P n r (CPropagate l i) 2
                    | None => TErr "trace-reason-unknown" [l]
                    end
        end in
      delta_cmds P n sn rest r'
    | _ => r
    end
  end.

(* the state of the model is the observed state *)
Definition same_state (n : nat) (s : sstate) (sn : snap) : bool :=
  let st := ss_st s in
  eqb_Zs (s_trail st) (sn_trail sn) &&
  (ss_lvl s =? sn_lvl sn) &&
  forallb (fun i => s_model st (Z.of_nat (S i)) =? nth i (sn_model sn) 0) (seq 0 n) &&
  forallb (fun l => match s_reason st (lvar l), reason_in (sn_reasons sn) l with
                    | None, None => true
                    | Some c, Some d => ceq c d
                    | _, _ => false
                    end) (s_trail st).

Definition all_true (l : list bool) : bool := forallb (fun b => b) l.

(* one snapshot *)
Definition tsnap (P : problem) (n : nat) (prev_restarts : Z) (r : tres) (sn : snap) : tres :=
  match r with
  | TOk (Running s0) _ =>
    (* reduceLearned *)
    let mask := keep_mask (ss_learned s0) (sn_constrs sn) in
    let r1 := if all_true mask then r else tstep P n r (CForget mask) 3 in
    match r1 with
    | TOk (Running s1) _ =>
      (* restart *)
      (* the restart counter of the solver moved (or, should the counter be unavailable, the trail was cut) *)
      let r2 := if (prev_restarts <? sn_restarts sn) || negb (is_prefix (s_trail (ss_st s1)) (sn_trail sn))
                then tstep P n r1 CRestart 4 else r1 in
      match r2 with
      | TOk (Running s2) _ =>
        if negb (is_prefix (s_trail (ss_st s2)) (sn_trail sn))
        then TErr "differs-from-model" [10; Z.of_nat (List.length (s_trail (ss_st s2)))]
        else
          let r3 := delta_cmds P n sn (skipn (List.length (s_trail (ss_st s2))) (sn_trail sn)) r2 in
          match r3 with
          | TOk (Running s3) _ =>
            if negb (same_state n s3 sn) then TErr "differs-from-model" [11; sn_lvl sn; ss_lvl s3]
            else if sn_kind sn =? 0 then
              match sn_confl sn with
              | Some c => match index_of c (P ++ ss_learned s3) 0 with
                          | Some i => tstep P n r3 (CConflict i) 5
                          | None => TErr "trace-conflict-unknown" [sn_lvl sn]
                          end
              | None => TErr "trace-conflict-missing" []
              end
            else r3
          | _ => r3
          end
      | _ => r2
      end
    | _ => r1
    end
  | TOk _ _ => TErr "trace-step-after-end" [0]
  | TErr _ _ => r
  end.

(* a Go answer Unsat while the model still runs at level 1: the propagation of a learned unit met a conflict
   (solver.go:421).  No tracing point sees it: look for the propagations and the falsified constraint. *)
Fixpoint find_forced (st : lstate) (cs : list pbc) (i : nat) : option (lit * nat) :=
  match cs with
  | [] => None
  | c :: r =>
    match find (fun l => negb (l =? 0) && (s_model st (lvar l) =? 0) && pb_reason_chk (s_trail st) l c) (c_lits c) with
    | Some l => Some (l, i)
    | None => find_forced st r (S i)
    end
  end.

Fixpoint find_falsified (st : lstate) (cs : list pbc) (i : nat) : option nat :=
  match cs with
  | [] => None
  | c :: r => if falsifiedb st c then Some i else find_falsified st r (S i)
  end.

Fixpoint top_conflict (fuel : nat) (P : problem) (n : nat) (r : tres) : tres :=
  match r with
  | TOk (Running s) _ =>
    match find_falsified (ss_st s) (P ++ ss_learned s) 0 with
    | Some i => tstep P n r (CTopConflict i) 6
    | None =>
      match fuel with
      | O => TErr "trace-unsat-unexplained" [0]
      | S f =>
        match find_forced (ss_st s) (P ++ ss_learned s) 0 with
        | Some (l, i) => top_conflict f P n (tstep P n r (CPropagate l i) 7)
        | None => TErr "trace-unsat-unexplained" [1]
        end
      end
    end
  | _ => r
  end.

(* a Go answer Sat right after the propagation of a learned unit bound every remaining variable (solver.go:421-426,
   then chooseLit() = -1): no tracing point sees those propagations either. *)
Fixpoint sat_closure (fuel : nat) (P : problem) (n : nat) (r : tres) : tres :=
  match r with
  | TOk (Running s) _ =>
    if forallb (fun i => negb (s_model (ss_st s) (Z.of_nat (S i)) =? 0)) (seq 0 n) then tstep P n r CAnswerSat 8
    else match fuel with
         | O => TErr "trace-sat-unexplained" [0]
         | S f =>
           match find_forced (ss_st s) (P ++ ss_learned s) 0 with
           | Some (l, i) => sat_closure f P n (tstep P n r (CPropagate l i) 9)
           | None => TErr "trace-sat-unexplained" [1]
           end
         end
  | _ => r
  end.

(* the initial trail: the leading level-1 literals without reason of the first snapshot; the flagged ones were assumed *)
Fixpoint lead_facts (sn : snap) (tr : list lit) : list lit :=
  match tr with
  | [] => []
  | l :: r => if (level_in (sn_model sn) l =? 1) && match reason_in (sn_reasons sn) l with None => true | Some _ => false end
              then l :: lead_facts sn r else []
  end.

(* the end of the judgement: the answer of the model is the answer of the implementation, and the whole command list,
   replayed from the initial configuration by Model.Search.replay, gives that answer *)
Definition finish_trace (P : problem) (n : nat) (units assumed : list lit) (r : tres)
           (vd : Z) (m : list bool) (truncated : bool) (nsn : nat) : verdict :=
  match r with
  | TErr kind info => Fail kind info
  | TOk cf cmds =>
    let ks := rev cmds in
    match replay P n units assumed ks with
    | None => Fail "trace-replay-differs" [3]
    | Some cf' =>
      match cf, cf' with
      | Final (ASat a), Final (ASat b) =>
        if (vd =? 1) && eqb_bools a m && eqb_bools b m then Ok [Z.of_nat nsn; Z.of_nat (List.length ks); 1]
        else Fail "differs-from-model" [20; vd]
      | Final AUnsat, Final AUnsat =>
        if vd =? 2 then Ok [Z.of_nat nsn; Z.of_nat (List.length ks); 2] else Fail "differs-from-model" [21; vd]
      | Running _, Running _ =>
        if truncated then Ok [Z.of_nat nsn; Z.of_nat (List.length ks); 0] else Fail "differs-from-model" [22; vd]
      | _, _ => Fail "trace-replay-differs" [2]
      end
    end
  end.

Definition judge_trace (s : sx) : verdict :=
  match s with
  | L [_; L [I st; L snaps; L orig; I vd; ms; tr]] =>
    match omap dsnap snaps, omap dconstr orig, dbools ms, dbool tr with
    | Some sns, Some P0, Some m, Some truncated =>
      match status_fail st with
      | Some v => v
      | None =>
        match sns with
        | [] => Ok [0; 0; 0]       (* no tracing point was reached: decided without search *)
        | sn0 :: _ =>
          let n := List.length (sn_model sn0) in
          let facts := lead_facts sn0 (sn_trail sn0) in
          let assumed := filter (flag_in (sn_assum sn0)) facts in
          let units := filter (fun l => negb (flag_in (sn_assum sn0) l)) facts in
          let P := (P0 ++ map (fun u => clause_pbc [u]) units)%list in
          if negb (is_prefix (units ++ assumed) (sn_trail sn0)) then Fail "trace-initial-trail" []
          else if negb (init_okb P units assumed) then Fail "trace-initial-state" []
          else if negb (vars_inb n P) then Fail "trace-variable-range" []
          else
            let r := fst (fold_left (fun acc sn => (tsnap P n (snd acc) (fst acc) sn, sn_restarts sn)) sns
                                    (TOk (init_config units assumed) [], sn_restarts sn0)) in
            let r' :=
              if truncated then r
              else if vd =? 1 then sat_closure (S n) P n r
              else if vd =? 2 then match r with TOk (Running _) _ => top_conflict (S n) P n r | _ => r end
              else TErr "trace-verdict" [vd] in
            finish_trace P n units assumed r' vd m truncated (List.length sns)
        end
      end
    | _, _, _, _ => Bad "trace: decode"
    end
  | _ => Bad "trace: shape"
  end.
