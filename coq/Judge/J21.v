(* Snapshots of the search state (hook points verifConflict / verifLearnt / verifCP / verifQuiet of /repo, build tag
   verif): the tie between the running search loop and the models of conflict analysis (Model/Learn.v), of the
   cutting-planes analysis (Model/CPSearch.v) and of propagation (Model/Propagate.v).

   A case is (problem (status (snap ...))); a snap is
     (kind lvl (trail) (model) (reasons) (assumptions) (conflict) (constraints) done reskind (learnt) unit (props) newlvl
      nborig cp restarts (heap content) (heap indices) ((watched literal ...) ...) ((pb flag ...) ...))
   where a constraint is (card w1 l1 w2 l2 ...) in the order of the Go clause, a missing reason is ().
     kind 0: conflict handed to learnClause.     The state must meet the hypotheses of the theorems of
             Properties/C06l.v (state_okb, confl_okb) and learnClause must have returned what Model.Learn.learn_clause
             computes on this state (same literals in the same order / same unit / same top-level answer).
     kind 1: conflict handed to cuttingPlanes.   The state must meet state_wf3b (hypothesis of C14_search_sound and
             C14_search_total) and the call must have returned what Model.CPSearch.cutting_planes computes (the
             learned constraint up to the order of its terms).
     kind 2: propagation ended without conflict. Every constraint held by the solver must be neither falsified nor
             propagating under the assignment (the fixpoint the propagation theorems of Properties/C02p.v describe),
             and the state must meet state_okb.
   A state that does not meet a hypothesis means that the theorems say nothing about the running code: failure kinds
   snap-state-invariant / snap-conflict-invariant.  A different result is differs-from-model. *)
From Coq Require Import List ZArith Bool String.
From GS Require Import Spec.Base Spec.PB Judge.Sx Judge.JCommon Model.PBNorm Model.CP Model.Learn Model.CPSearch.
Import ListNotations.
Open Scope string_scope.
Open Scope Z_scope.

Fixpoint pair_terms (l : list Z) : option (list term) :=
  match l with
  | [] => Some []
  | w :: x :: r => match pair_terms r with Some ts => Some ((w, x) :: ts) | None => None end
  | _ => None
  end.

(* (card w1 l1 ...) *)
Definition dconstr (s : sx) : option pbc :=
  match dZs s with
  | Some (card :: r) => match pair_terms r with Some ts => Some (PBC ts card) | None => None end
  | _ => None
  end.

(* () or a constraint *)
Definition dreason (s : sx) : option (option pbc) :=
  match s with
  | L [] => Some None
  | _ => match dconstr s with Some c => Some (Some c) | None => None end
  end.

(* The trail of the running solver can hold a level-1 literal twice: solver.New pushes the unit clauses of the problem
   as they come (a repeated unit clause is pushed twice), and the cutting-planes loop pushes a learned unit that is
   already a fact once more (propagateAndSearchPB, newLvl == 1).  The models state their theorems for trails without
   repetition (state_okb, trail_okb); the model is therefore run on the trail with the later copies removed, the
   implementation ran on the real one, and the results are compared. *)
Fixpoint dedup_trail (seen tr : list Z) : list Z :=
  match tr with
  | [] => []
  | l :: r => if existsb (fun x => Z.abs x =? Z.abs l) seen then dedup_trail seen r
              else l :: dedup_trail (l :: seen) r
  end.

Record snap := Snap {
  sn_kind : Z; sn_lvl : Z; sn_trail : list Z; sn_model : list Z; sn_reasons : list (option pbc);
  sn_assum : list bool; sn_confl : option pbc; sn_constrs : list pbc;
  sn_done : bool; sn_reskind : Z; sn_learnt : list Z; sn_unit : Z; sn_props : list Z; sn_newlvl : Z;
  sn_norig : Z; sn_cp : bool; sn_restarts : Z; sn_heap : list Z; sn_hindex : list Z;
  sn_watched : list (list Z); sn_pbflags : list (list Z) }.

Definition dsnap (s : sx) : option snap :=
  match s with
  | L [I kind; I lvl; tr; md; L rs; asm; cf; L cs; dn; I rk; lr; I u; pr; I nl; I no; cpf; I nrst; hc; hi; wt; pf] =>
    match dZs tr, dZs md, omap dreason rs, dbools asm, dreason cf, omap dconstr cs, dbool dn, dZs lr, dZs pr, dbool cpf,
          dZs hc, dZs hi, dZss wt, dZss pf with
    | Some tr', Some md', Some rs', Some asm', Some cf', Some cs', Some dn', Some lr', Some pr', Some cp', Some hc', Some hi',
      Some wt', Some pf' =>
      Some (Snap kind lvl (dedup_trail [] tr') md' rs' asm' cf' cs' dn' rk lr' u pr' nl no cp' nrst hc' hi' wt' pf')
    | _, _, _, _, _, _, _, _, _, _, _, _, _, _ => None
    end
  | _ => None
  end.

Fixpoint eqb_Zs (a b : list Z) : bool :=
  match a, b with
  | [], [] => true
  | x :: a', y :: b' => (x =? y) && eqb_Zs a' b'
  | _, _ => false
  end.

(* Go sorts the literals of the learned clause by decreasing level with sort.Sort, which is not stable (beyond 12
   elements it is not an insertion sort); the order among literals of the same level is therefore not part of the
   comparison: same first literal (the asserting one), same level for the second (the backjump level), same literals. *)
Fixpoint ins_Z (x : Z) (l : list Z) : list Z :=
  match l with
  | [] => [x]
  | y :: r => if x <=? y then x :: l else y :: ins_Z x r
  end.
Definition sort_Zs (l : list Z) : list Z := fold_right ins_Z [] l.

(* The clause the implementation learned against the clause the model learns on the same state: the same asserting
   literal in front, a second literal of the same level (the level of the back-jump, and the second watch), the same set
   of literals.  The ORDER of the literals behind the second one is not compared: nothing reads them by position (the
   code sorts them by level today; a clause that only moves a literal of the highest level into the second place, as
   MiniSat does, is as good -- a harmless rewrite of that kind was reported as differs-from-model while sortedness was
   demanded here). *)
Definition same_learnt (st : lstate) (a b : list Z) : bool :=
  (hd 0 a =? hd 0 b) &&
  (lvl_of st (lvar (nth 1 a 0)) =? lvl_of st (lvar (nth 1 b 0))) &&
  eqb_Zs (sort_Zs a) (sort_Zs b).

(* ---- kind 0 : learnClause ------------------------------------------------------------------------------------ *)

Definition judge_learn_snap (sn : snap) : verdict :=
  match sn_confl sn with
  | None => Bad "snap: conflict missing"
  | Some confl =>
    let st := mk_state (sn_trail sn) (sn_model sn) (sn_reasons sn) (sn_assum sn) in
    if negb (state_okb (sn_trail sn) (sn_model sn) (sn_reasons sn) (sn_assum sn) (sn_lvl sn))
    then Fail "snap-state-invariant" [0; sn_lvl sn]
    else if negb (confl_okb st (sn_lvl sn) confl) then Fail "snap-conflict-invariant" [0; sn_lvl sn]
    else
      let r := learn_clause confl (sn_lvl sn) st in
      let same :=
        match r with
        | LearnPanic => negb (sn_done sn)
        | TopLevelConflict => sn_done sn && (sn_reskind sn =? 2)
        | LearnedUnit l => sn_done sn && (sn_reskind sn =? 1) && (sn_unit sn =? l)
        | LearnedClause ls => sn_done sn && (sn_reskind sn =? 0) && same_learnt st ls (sn_learnt sn)
        end in
      if same then Ok [0; Z.of_nat (List.length (sn_trail sn)); Z.of_nat (List.length (sn_learnt sn))]
      else Fail "differs-from-model"
                (0 :: match r with
                      | LearnPanic => [3]
                      | TopLevelConflict => [2]
                      | LearnedUnit l => [1; l]
                      | LearnedClause ls => 0 :: ls
                      end)
  end.

(* ---- kind 1 : cuttingPlanes ---------------------------------------------------------------------------------- *)

(* The literals a call propagates are compared as a multiset: they all go on the trail at the same level with the same
   reason, in an order that follows the order of the terms of the derived constraint, which no property speaks of (a
   harmless rewrite that sorts ties differently, R4-H2, was reported as differs-from-model while the order was compared). *)

(* terms as a canonical list: sorted by literal (insertion sort) *)
Fixpoint ins_term (t : term) (l : list term) : list term :=
  match l with
  | [] => [t]
  | u :: r => if snd t <=? snd u then t :: l else u :: ins_term t r
  end.
Definition canon_terms (ts : list term) : list term := fold_right ins_term [] ts.

Definition same_constr (a b : pbc) : bool :=
  (degree a =? degree b) && terms_eqb (canon_terms (terms a)) (canon_terms (terms b)).

Definition judge_cp_snap (sn : snap) : verdict :=
  match sn_confl sn with
  | None => Bad "snap: conflict missing"
  | Some confl =>
    let st := State (sn_trail sn) (sn_model sn) (sn_reasons sn) confl (sn_lvl sn) in
    if negb (state_wf3b st) then Fail "snap-state-invariant" [1; sn_lvl sn]
    else
      let r := cutting_planes st in
      let same :=
        match r with
        | CPPanic | CPPanicArith => negb (sn_done sn)
        | CPFuel => false
        | CPUnsat => sn_done sn && (sn_newlvl sn =? -1)
        | CPUnits us => sn_done sn && (sn_newlvl sn =? 1) && eqb_Zs (sort_Zs us) (sort_Zs (sn_props sn)) &&
                        match sn_learnt sn with [] => true | _ => false end
        | CPLearn c props nl =>
          sn_done sn && (sn_newlvl sn =? nl) && eqb_Zs (sort_Zs props) (sort_Zs (sn_props sn)) &&
          match sn_learnt sn with
          | card :: r => match pair_terms r with Some ts => same_constr c (PBC ts card) | None => false end
          | [] => false
          end
        end in
      if same then Ok [1; Z.of_nat (List.length (sn_trail sn)); sn_newlvl sn]
      else Fail "differs-from-model"
                (1 :: match r with
                      | CPPanic => [5] | CPPanicArith => [6] | CPFuel => [7]
                      | CPUnsat => [-1]
                      | CPUnits us => 1 :: us
                      | CPLearn c props nl => nl :: props
                      end)
  end.

(* ---- kind 2 : propagation fixpoint --------------------------------------------------------------------------- *)

Definition mval (md : list Z) (l : lit) : Z := nth (Z.to_nat (Z.abs l - 1)) md 0.
Definition l_false (md : list Z) (l : lit) : bool :=
  let a := mval md l in negb (a =? 0) && negb (Bool.eqb (0 <? a) (0 <? l)).
Definition l_free (md : list Z) (l : lit) : bool := mval md l =? 0.

(* sum of the weights of the literals that are not false, minus the degree *)
Definition slack_of (md : list Z) (c : pbc) : Z :=
  fold_right (fun t acc => (if l_false md (snd t) then 0 else fst t) + acc) 0 (terms c) - degree c.

(* Not falsified: slack >= 0, for every constraint.  Not propagating either (every free literal has a weight <= slack)
   where the code promises it: clauses and cardinality constraints (all weights 1) that are original constraints, or
   learned clauses of the CDCL loop (asserting by construction).  Not demanded
   - for constraints with other weights: the propagation of PB constraints is lazy on purpose, it watches literals up
     to a weight above the degree, which detects every conflict but lets a propagation wait until a watched literal is
     falsified (Properties/C02p.v, C02_watch_invariant_pb_goal_refuted);
   - for the constraints learned by the cutting-planes loop: they are added after the backjump with some of their
     literals already false, and only the literals returned by cuttingPlanes are propagated at once.
   Demanding the fixpoint there would demand more than the code promises and more than C02 / C14 need: a missed
   propagation delays a conflict, it does not hide one.
   Nor is "not falsified" demanded of the constraints learned by the cutting-planes loop ([held_to_account] below): such
   a constraint can be added with all its literals but one false at the top level, the last one free and NOT propagated
   (only the literals cuttingPlanes returns are), and that literal can be bound the other way later: the constraint is
   then falsified at a quiet point and the loop does not see it (met once in 30 000 thorough-size cases:
   x6 + x17 + x18 + ~x21 >= 1 with x6, x17, ~x21 false at level 1 and x18 false at level 3).  No answer depends on
   it: a learned constraint is a consequence of the problem, so an assignment that falsifies it cannot be extended to
   a model, the original constraints -- whose watches are kept (snap-watch-invariant) -- conflict further down, and
   Sat is only answered when no original constraint is falsified (C14c_sat_sound). *)
Definition unit_weights (c : pbc) : bool := forallb (fun t => fst t =? 1) (terms c).

Definition quiet_constr (complete : bool) (md : list Z) (c : pbc) : bool :=
  let s := slack_of md c in
  (0 <=? s) &&
  (negb (complete && unit_weights c) ||
   forallb (fun t => negb (l_free md (snd t)) || (fst t <=? s) || (fst t <=? 0)) (terms c)).

(* the constraints the quiet-point test speaks of: the original ones, and every one when the CDCL loop runs *)
Definition held_to_account (norig : Z) (cp : bool) (i : Z) : bool := (i <? norig) || negb cp.

Fixpoint first_not_quiet (norig : Z) (cp : bool) (md : list Z) (cs : list pbc) (i : Z) : option Z :=
  match cs with
  | [] => None
  | c :: r => if negb (held_to_account norig cp i) || quiet_constr true md c
              then first_not_quiet norig cp md r (i + 1) else Some i
  end.

(* The decision heap at a quiet point meets the invariant that Properties/C01h.v proves preserved by every operation of
   the search loop (hstate_ok): the elements of content are variables; indices[v] = z >= 0 implies content[z] = v; every
   unbound variable is in content -- which is what makes "chooseLit() = -1" mean "every variable is bound".
   (A snapshot without heap -- both lists empty although variables exist -- comes from a build without that hook field.) *)
Definition heap_okb (md hc hi : list Z) : bool :=
  let n := Z.of_nat (List.length md) in
  forallb (fun v => (0 <=? v) && (v <? n) && (v <? Z.of_nat (List.length hi))) hc &&
  forallb (fun p => let '(v, z) := p in
                    (z <? 0) || (nth (Z.to_nat z) hc (-1) =? Z.of_nat v))
          (combine (seq 0 (List.length hi)) hi) &&
  forallb (fun p => let '(v, a) := p in negb (a =? 0) || existsb (Z.eqb (Z.of_nat v)) hc)
          (combine (seq 0 (List.length md)) md).

(* The watch lists at a quiet point.  For each constraint held: [wt] = the literals through which the watch lists reach it
   (it sits in the list of their negation), [fl] = pbData.watched when it has weights.
   1. Shape: a clause is watched through its first two literals, a cardinality constraint through its first degree+1
      literals, a PB constraint through exactly its flagged literals.
   2. Enough to see every conflict coming (the content of C02_clause_rule_quiet, C02_card_rule_complete,
      C02_watch_pb_conflict_complete): a watched literal may be false only if the constraint is satisfied by literals that are
      true at a level not above that of the false literal (they stay as long as it stays); and when no watched literal is
      false, a PB constraint is watched for more than its degree, or is satisfied.
   Demanded of the original constraints, and of learned clauses of the CDCL loop; constraints learned by the cutting-planes
   loop are added with literals that are already false and are not needed for the answer (missing one of their conflicts loses
   pruning only). *)
Definition lvl_in (md : list Z) (l : lit) : Z := Z.abs (mval md l).
Definition l_true (md : list Z) (l : lit) : bool :=
  let a := mval md l in negb (a =? 0) && Bool.eqb (0 <? a) (0 <? l).

Fixpoint select_flags (fl : list Z) (ts : list term) : list term :=
  match fl, ts with
  | f :: fr, t :: tr => if f =? 1 then t :: select_flags fr tr else select_flags fr tr
  | _, _ => []
  end.

Definition watch_okb (md : list Z) (c : pbc) (wt fl : list Z) : bool :=
  let ts := terms c in
  let expected : list term :=
    match fl with
    | _ :: _ => select_flags fl ts
    | [] => if 1 <? degree c then firstn (Z.to_nat (degree c + 1)) ts else firstn 2 ts
    end in
  let sat_upto (lv : Z) : Z :=
    fold_right (fun t acc => (if l_true md (snd t) && (lvl_in md (snd t) <=? lv) then fst t else 0) + acc) 0 ts in
  eqb_Zs (sort_Zs wt) (sort_Zs (map snd expected)) &&
  match filter (fun t => l_false md (snd t)) expected with
  | [] =>
    match fl with
    | _ :: _ => (degree c <? fold_right (fun t acc => fst t + acc) 0 expected) || (degree c <=? sat_upto (Z.of_nat (List.length md) + 2))
    | [] => true
    end
  | fw => forallb (fun w => degree c <=? sat_upto (lvl_in md (snd w))) fw
  end.

Fixpoint first_bad_watch (norig : Z) (cp : bool) (md : list Z) (cs : list pbc) (wts fls : list (list Z)) (i : Z) : option Z :=
  match cs, wts, fls with
  | c :: cr, wt :: wr, fl :: fr =>
    if (negb ((i <? norig) || negb cp)) || watch_okb md c wt fl then first_bad_watch norig cp md cr wr fr (i + 1) else Some i
  | _, _, _ => None
  end.

Definition judge_quiet_snap (sn : snap) : verdict :=
  if match sn_watched sn with
     | [] => false      (* no watch data (whole-run traces, or a build without that hook field) *)
     | _ => match first_bad_watch (sn_norig sn) (sn_cp sn) (sn_model sn) (sn_constrs sn) (sn_watched sn) (sn_pbflags sn) 0 with
            | Some _ => true | None => false end
     end
  then Fail "snap-watch-invariant"
            (match first_bad_watch (sn_norig sn) (sn_cp sn) (sn_model sn) (sn_constrs sn) (sn_watched sn) (sn_pbflags sn) 0 with
             | Some i => [i; sn_lvl sn] | None => [] end) else
  if match sn_heap sn, sn_hindex sn with [], [] => false | _, _ => negb (heap_okb (sn_model sn) (sn_heap sn) (sn_hindex sn)) end
  then Fail "snap-heap-invariant" [sn_lvl sn; Z.of_nat (List.length (sn_heap sn))] else
  if negb (state_okb (sn_trail sn) (sn_model sn) (sn_reasons sn) (sn_assum sn) (sn_lvl sn))
  then Fail "snap-state-invariant" [2; sn_lvl sn]
  else match first_not_quiet (sn_norig sn) (sn_cp sn) (sn_model sn) (sn_constrs sn) 0 with
       | Some i => Fail "snap-not-a-fixpoint" [i; sn_lvl sn]
       | None => Ok [2; Z.of_nat (List.length (sn_trail sn)); Z.of_nat (List.length (sn_constrs sn))]
       end.

Definition judge_snap (sn : snap) : verdict :=
  if sn_kind sn =? 0 then judge_learn_snap sn
  else if sn_kind sn =? 1 then judge_cp_snap sn
  else if sn_kind sn =? 2 then judge_quiet_snap sn
  else Bad "snap: kind".

Definition judge_snaps (s : sx) : verdict :=
  match s with
  | L [_; L [I st; L snaps]] =>
    match omap dsnap snaps with
    | Some sns =>
      (* a panic or a time-out of the solve itself is judged by the main part of the check; here only the snapshots *)
      first_fail (map judge_snap sns) [st]
    | None => Bad "snaps: decode"
    end
  | _ => Bad "snaps: shape"
  end.
