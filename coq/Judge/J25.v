(* Part G02: the interpreter of Model/GoIR.v, run on the syntax trees regenerated from /repo (Gen/GoSrc.v), against the
   compiled Go functions on the same arguments: same result, same panic, and the same contents of the CALLER's slices
   after the call.  This is the check of what the refinement theorems of Properties/C02g.v trust: the translator
   gotocoq/ir and the slice semantics of the embedded language.  Failure kind: differs-from-goir.

   case: ((fn (arg ...)) (status panicked result (arg-after ...)))   -- layout in harness/goir.go *)
From Coq Require Import List ZArith Bool String.
From GS Require Import Judge.Sx Model.GoIR Gen.GoSrc.
Import ListNotations.
Open Scope string_scope.
Open Scope Z_scope.

Definition goir_name (k : Z) : option string :=
  match k with
  | 0 => Some "PBConstr.WeightSum" | 1 => Some "PropClause" | 2 => Some "AtLeast" | 3 => Some "AtMost"
  | 4 => Some "GtEq" | 5 => Some "LtEq" | 6 => Some "Eq" | 7 => Some "AtLeast1" | 8 => Some "AtMost1"
  | 9 => Some "Exactly1" | _ => None
  end.

Fixpoint darg (s : sx) : option arg :=
  match s with
  | L [I 0; I z] => Some (AInt z)
  | L [I 1] => Some (ASl None)
  | L [I 2; L xs] => match omap dZ xs with Some l => Some (ASl (Some l)) | None => None end
  | L (I 3 :: fs) =>
    match (fix go (l : list sx) : option (list arg) :=
             match l with
             | [] => Some []
             | x :: r => match darg x, go r with Some a, Some as_ => Some (a :: as_) | _, _ => None end
             end) fs with
    | Some as_ => Some (AStruct as_)
    | None => None
    end
  | _ => None
  end.

Fixpoint drval (s : sx) : option rval :=
  match s with
  | L [I 0; I z] => Some (RInt z)
  | L [I 1] => Some RNil
  | L [I 2; L xs] => match omap dZ xs with Some l => Some (RSl l) | None => None end
  | L (I k :: fs) =>
    match (fix go (l : list sx) : option (list rval) :=
             match l with
             | [] => Some []
             | x :: r => match drval x, go r with Some a, Some as_ => Some (a :: as_) | _, _ => None end
             end) fs with
    | Some rs => if k =? 3 then Some (RStruct rs) else if k =? 4 then Some (RList rs) else None
    | None => None
    end
  | _ => None
  end.

Fixpoint eqZl (a b : list Z) : bool :=
  match a, b with
  | [], [] => true
  | x :: a', y :: b' => (x =? y) && eqZl a' b'
  | _, _ => false
  end.

Fixpoint rval_eqb (a b : rval) {struct a} : bool :=
  match a, b with
  | RInt x, RInt y => x =? y
  | RBool x, RBool y => Bool.eqb x y
  | RNil, RNil => true
  | RSl x, RSl y => eqZl x y
  | RStruct x, RStruct y =>
    (fix go (l m : list rval) : bool :=
       match l, m with
       | [], [] => true
       | p :: l', q :: m' => rval_eqb p q && go l' m'
       | _, _ => false
       end) x y
  | RList x, RList y =>
    (fix go (l m : list rval) : bool :=
       match l, m with
       | [], [] => true
       | p :: l', q :: m' => rval_eqb p q && go l' m'
       | _, _ => false
       end) x y
  | _, _ => false
  end.

Fixpoint rvals_eqb (a b : list rval) : bool :=
  match a, b with
  | [], [] => true
  | x :: a', y :: b' => rval_eqb x y && rvals_eqb a' b'
  | _, _ => false
  end.

Fixpoint arg_size (a : arg) : nat :=
  match a with
  | AInt _ => 1
  | ASl None => 1
  | ASl (Some l) => S (List.length l)
  | AStruct fs => S ((fix go (l : list arg) : nat := match l with [] => O | x :: r => (arg_size x + go r)%nat end) fs)
  end.

(* enough for every translated function: a bounded nesting depth plus a few units per element *)
Definition goir_fuel (as_ : list arg) : nat :=
  (100 + 20 * fold_right (fun a n => arg_size a + n) O as_)%nat.

Definition judge_goir (s : sx) : verdict :=
  match s with
  | L [L [I fn; L args]; L [I st; I panicked; res; L after]] =>
    if st =? 2 then Fail "timeout" [] else
    match goir_name fn, omap darg args with
    | Some name, Some as_ =>
      match run_args go_funs (goir_fuel as_) name as_ with
      | RRet r aft =>
        if panicked =? 1 then Fail "differs-from-goir" [fn; 1]
        else match drval res, omap drval after with
             | Some r', Some aft' =>
               if negb (rval_eqb r r') then Fail "differs-from-goir" [fn; 2]
               else if negb (rvals_eqb aft aft') then Fail "differs-from-goir" [fn; 3]
               else Ok [fn; 0]
             | _, _ => Bad "goir: observed values"
             end
      | RPanic => if panicked =? 1 then Ok [fn; 1] else Fail "differs-from-goir" [fn; 4]
      | RFuel => Fail "differs-from-goir" [fn; 5]
      | RStuck => Fail "differs-from-goir" [fn; 6]
      end
    | _, _ => Bad "goir: case"
    end
  | _ => Bad "goir: shape"
  end.
