(* C17: the formula text syntax.
   ast coding: (0 (name bytes)) | (1 a) | (2 op a b) op: 0 ';' 1 '=' 2 '->' 3 '|' 4 '&' | (3 (name bytes)...)
   render17 : ((layout nats) ast) -> Ok (bytes of print_chars layout ast)        [prerender step]
   judge_C17: ((mode ast-or-() (text bytes) ((name bytes)...)) (status err (truth table bits)))
     mode 0: the text is print_chars of the given ast (the texts C17_roundtrip_chars quantifies over)
     mode 1: a token-level corruption of such a text: the expected outcome is what the mirrored parser says *)
From Coq Require Import List ZArith Bool String Ascii NArith.
From GS Require Import Spec.Base Judge.Sx Judge.JCommon Model.BfParse.
Import ListNotations.
Open Scope string_scope.
Open Scope Z_scope.

Definition dascii (s : sx) : option ascii :=
  match s with I z => if (0 <=? z) && (z <? 256) then Some (ascii_of_nat (Z.to_nat z)) else None | _ => None end.
Definition dbytes (s : sx) : option (list ascii) := match s with L l => omap dascii l | _ => None end.
Definition dname (s : sx) : option string := option_map string_of_list_ascii (dbytes s).

Definition dbinop (z : Z) : option binop :=
  if z =? 0 then Some Seq else if z =? 1 then Some Equiv else if z =? 2 then Some Impl
  else if z =? 3 then Some Or else if z =? 4 then Some And else None.

Fixpoint dast (s : sx) : option ast :=
  match s with
  | L [I 0; nm] => option_map AVar (dname nm)
  | L [I 1; a] => option_map ANot (dast a)
  | L [I 2; I o; a; b] =>
    match dbinop o, dast a, dast b with Some o', Some a', Some b' => Some (ABin o' a' b') | _, _, _ => None end
  | L (I 3 :: nms) => option_map AUniq (omap dname nms)
  | _ => None
  end.

Definition dnats (s : sx) : option (list nat) := match s with L l => omap dnat l | _ => None end.

Definition bytes_Z (cs : list ascii) : list Z := map (fun c => Z.of_nat (nat_of_ascii c)) cs.

Definition render17 (s : sx) : verdict :=
  match s with
  | L [L [lay; a]; _] =>
    match dnats lay, dast a with
    | Some l, Some a' => if wf_identsb a' then Sx.Ok (bytes_Z (print_chars l a')) else Bad "render17: identifiers"
    | _, _ => Bad "render17: decode"
    end
  | _ => Bad "render17: shape"
  end.

(* the assignment number j gives name i the value of bit i of j *)
Fixpoint index_of (s : string) (names : list string) (i : nat) : option nat :=
  match names with
  | [] => None
  | x :: r => if String.eqb x s then Some i else index_of s r (S i)
  end.

Definition env_of (names : list string) (j : nat) (s : string) : bool :=
  match index_of s names 0 with Some i => Nat.testbit j i | None => false end.

Definition table (names : list string) (a : ast) : list bool :=
  map (fun j => eval_ast (env_of names j) a) (seq 0 (Nat.pow 2 (List.length names))).

Definition judge_C17 (s : sx) : verdict :=
  match s with
  | L [L [I mode; a; txt; L nms]; L [I st; I err; ttb]] =>
    match dbytes txt, omap dname nms, dbools ttb with
    | Some text, Some names, Some tt' =>
      if (6 <? List.length names)%nat then Bad "C17: too many names" else
      match status_fail st with
      | Some v => v
      | None =>
        let mirror := parse_chars text in
        if mode =? 0 then
          match dast a with
          | None => Bad "C17: ast"
          | Some a0 =>
            match mirror with
            | None => Fail "model-rejects-rendering" []
            | Some a1 =>
              if negb (eqb_bools (table names a1) (table names a0)) then Fail "model-misreads-rendering" []
              else if negb (err =? 0) then Fail "parse-error-on-wellformed" []
              else if negb (eqb_bools tt' (table names a0)) then Fail "parsed-meaning-differs" []
              else Sx.Ok [0; Z.of_nat (List.length text)]
            end
          end
        else
          match mirror with
          | None => if err =? 1 then Sx.Ok [1; 0] else Fail "no-error-on-malformed" []
          | Some a1 =>
            if negb (err =? 0) then Fail "error-on-text-the-grammar-accepts" []
            else if negb (eqb_bools tt' (table names a1)) then Fail "parsed-meaning-differs" []
            else Sx.Ok [1; 1]
          end
      end
    | _, _, _ => Bad "C17: decode"
    end
  | _ => Bad "C17: shape"
  end.
