(* C13: texts of the four readers, rendered by the Coq renderers (coq/Model/TextPrint.v) from an abstract object and
   a layout stream -- the texts C13_dimacs / C13_opb / C13_wcnf / C13_explain quantify over.
   render13 : ((format layout object) _) -> Ok bytes
     format 0 dimacs : object (n ((lit...)...))
            1 opb    : object ((n (uc...)) ((w l)...) hascost)      uc relation >= or =
            2 wcnf   : object (n top ((weight lit...)...))
            3 explain: object (n ((lit...)...))
   judge_C13: ((format object (text bytes)) (status err ...observables))
     dimacs : (status err nbvars count)            count = CountModels of the parsed problem (-1: not computed)
     opb    : (status err nbvars count verdict weight)
     wcnf   : (status err verdict cost (model bits))
     explain: (status err nbvars nbclauses ((lit...)...))
   C18: printed problems read back.
     ((printer (n (uc...)) ((w l)...)) (status (text bytes) reErr reNb reCount reVerdict reWeight))
     printer 0 Problem.CNF  1 Problem.PBString  2 Solver.PBString  3 Solver.PBString after Solve *)
From Coq Require Import List ZArith Bool String Ascii NArith.
From GS Require Import Spec.Base Spec.PB Spec.Solver Spec.URef Judge.Sx Judge.JCommon Judge.J04 Judge.J17
     Model.Text Model.TextPrint.
Import ListNotations.
Open Scope string_scope.
Open Scope Z_scope.

Fixpoint forallb2 {A B} (f : A -> B -> bool) (l1 : list A) (l2 : list B) : bool :=
  match l1, l2 with
  | [], [] => true
  | a :: r1, b :: r2 => f a b && forallb2 f r1 r2
  | _, _ => false
  end.

Definition dwclause (s : sx) : option wclause :=
  match s with
  | L (I w :: lits) => match omap dZ lits with
                       | Some ls => if forallb (fun l => negb (l =? 0)) ls then Some (w, ls) else None
                       | None => None
                       end
  | _ => None
  end.

Definition str_Z (s : string) : list Z := bytes_Z (list_ascii_of_string s).

Definition render13 (s : sx) : verdict :=
  match s with
  | L [L [I fmt; lay; obj]; _] =>
    match dnats lay with
    | None => Bad "render13: layout"
    | Some l =>
      if (fmt =? 0) || (fmt =? 3) then
        match obj with
        | L [I n; f] => match dcnf f with
                        | Some F => Sx.Ok (str_Z (if fmt =? 0 then render_dimacs l n F else render_explain l n F))
                        | None => Bad "render13: cnf"
                        end
        | _ => Bad "render13: cnf object"
        end
      else if fmt =? 1 then
        match obj with
        | L [L [I n; L cs]; L cts; I hascost] =>
          match omap duc cs, omap dterm cts with
          | Some cs', Some c => Sx.Ok (str_Z (render_opb l (n, cs', if hascost =? 1 then Some c else None)))
          | _, _ => Bad "render13: opb"
          end
        | _ => Bad "render13: opb object"
        end
      else
        match obj with
        | L [I n; I top; L items] =>
          match omap dwclause items with
          | Some its => Sx.Ok (str_Z (render_wcnf l (n, top, its)))
          | None => Bad "render13: wcnf"
          end
        | _ => Bad "render13: wcnf object"
        end
    end
  | _ => Bad "render13: shape"
  end.

Definition wcnf_inst (top : Z) (items : list wclause) : list (Z * uc) :=
  map (fun wc => ((if (0 <? top) && (top <=? fst wc) then 0 else fst wc), clause_uc (snd wc))) items.

Definition opt_code (o : option Z) : list Z := match o with Some z => [1; z] | None => [2] end.

Definition judge_C13 (s : sx) : verdict :=
  match s with
  | L [L [I fmt; obj; txt]; L (I st :: I err :: rest)] =>
    match dbytes txt with
    | None => Bad "C13: text"
    | Some bytes =>
      let text := string_of_list_ascii bytes in
      match status_fail st with
      | Some v => v
      | None =>
        if negb (err =? 0) then Fail "parse-error-on-wellformed" [fmt] else
        if fmt =? 0 then
          match obj, rest with
          | L [I n; f], [I nb; I cnt] =>
            match dcnf f with
            | Some F =>
              match parse_dimacs text with
              | Some (n', F') =>
                if negb ((n' =? n) && (forallb2 (fun a b => forallb2 Z.eqb a b) F' F)) then Fail "model-misreads-rendering" [fmt]
                else if negb (nb =? n) then Fail "parsed-nbvars-differs" [n; nb]
                else if (0 <=? cnt) && negb (cnt =? Z.of_N (ucount (Z.to_nat n) (cnf_uproblem F))) then
                  Fail "parsed-meaning-differs" [Z.of_N (ucount (Z.to_nat n) (cnf_uproblem F)); cnt]
                else Sx.Ok [fmt; Z.of_nat (List.length bytes)]
              | None => Fail "model-rejects-rendering" [fmt]
              end
            | None => Bad "C13: cnf"
            end
          | _, _ => Bad "C13: dimacs shape"
          end
        else if fmt =? 1 then
          match obj, rest with
          | L [L [I n; L cs]; L cts; I hascost], [I nb; I cnt; I vd; I w] =>
            match omap duc cs, omap dterm cts with
            | Some cs', Some c =>
              let cost := if hascost =? 1 then c else [] in
              match parse_opb text with
              | Some (n', cs2, c2) =>
                let nn := Z.to_nat n' in
                (* the reader's variable count is the highest variable mentioned: the object must not use more *)
                if n' <? Z.max (maxvar_uproblem cs') (maxvar_terms cost) then Fail "model-misreads-rendering" [fmt] else
                match find_model nn (fun m => xorb (sat_uproblem m cs') (sat_uproblem m cs2)
                                              || negb (cost_of m cost =? cost_of m (match c2 with Some x => x | None => [] end))) with
                | Some _ => Fail "model-misreads-rendering" [fmt]
                | None =>
                  if negb (nb =? n') then Fail "parsed-nbvars-differs" [n'; nb]
                  else if (0 <=? cnt) && negb (cnt =? Z.of_N (ucount nn cs')) then Fail "parsed-meaning-differs" [Z.of_N (ucount nn cs'); cnt]
                  else match umin nn cs' cost with
                       | None => if vd =? 2 then Sx.Ok [fmt; Z.of_nat (List.length bytes)] else Fail "parsed-meaning-differs" [2; vd]
                       | Some b => if (vd =? 1) && (w =? b) then Sx.Ok [fmt; Z.of_nat (List.length bytes)]
                                   else Fail "parsed-meaning-differs" [b; vd; w]
                       end
                end
              | None => Fail "model-rejects-rendering" [fmt]
              end
            | _, _ => Bad "C13: opb"
            end
          | _, _ => Bad "C13: opb shape"
          end
        else if fmt =? 2 then
          match obj, rest with
          | L [I n; I top; L items], [I vd; I cst; m] =>
            match omap dwclause items, dbools m with
            | Some its, Some m' =>
              match parse_wcnf text with
              | Some (n', top', its') =>
                if negb ((n' =? n) && (top' =? top) && forallb2 (fun a b => (fst a =? fst b) && forallb2 Z.eqb (snd a) (snd b)) its' its)
                then Fail "model-misreads-rendering" [fmt] else
                let nn := Z.to_nat n in
                let inst := wcnf_inst top its in
                match maxsat_opt nn inst with
                | None => if vd =? 2 then Sx.Ok [fmt; Z.of_nat (List.length bytes)] else Fail "parsed-meaning-differs" [2; vd]
                | Some b =>
                  if negb (vd =? 1) then Fail "parsed-meaning-differs" [b; vd]
                  else if negb (Nat.eqb (List.length m') nn) then Fail "model-length" [n; Z.of_nat (List.length m')]
                  else if negb (sat_uproblem m' (hard_of inst)) then Fail "parsed-meaning-differs" [b]
                  else if negb ((violated m' (soft_of inst) =? cst) && (cst =? b)) then Fail "parsed-meaning-differs" [b; cst]
                  else Sx.Ok [fmt; Z.of_nat (List.length bytes)]
                end
              | None => Fail "model-rejects-rendering" [fmt]
              end
            | _, _ => Bad "C13: wcnf"
            end
          | _, _ => Bad "C13: wcnf shape"
          end
        else
          match obj, rest with
          | L [I n; f], [I nb; I nc; g] =>
            match dcnf f, dZss g with
            | Some F, Some G =>
              match parse_dimacs_explain text with
              | Some (n', c', F') =>
                if negb ((n' =? n) && forallb2 (fun a b => forallb2 Z.eqb a b) F' F) then Fail "model-misreads-rendering" [fmt]
                else if negb ((nb =? n) && (nc =? Z.of_nat (List.length F)) && forallb2 (fun a b => forallb2 Z.eqb a b) G F)
                then Fail "parsed-meaning-differs" [fmt]
                else Sx.Ok [fmt; Z.of_nat (List.length bytes)]
              | None => Fail "model-rejects-rendering" [fmt]
              end
            | _, _ => Bad "C13: explain"
            end
          | _, _ => Bad "C13: explain shape"
          end
      end
    end
  | _ => Bad "C13: shape"
  end.

Definition judge_C18 (s : sx) : verdict :=
  match s with
  | L [L [I printer; pb; L cts]; L [I st; txt; I reErr; I reNb; I reCount; I reVd; I reW]] =>
    match duproblem pb, omap dterm cts, dbytes txt with
    | Some (n, P), Some c, Some bytes =>
      match status_fail st with
      | Some v => v
      | None =>
        let text := string_of_list_ascii bytes in
        let parsed : option (Z * uproblem * cost) :=
          if printer =? 0 then
            match parse_dimacs text with Some (n', F) => Some (n', cnf_uproblem F, []) | None => None end
          else
            match parse_opb text with
            | Some (n', cs, co) => Some (n', cs, match co with Some x => x | None => [] end)
            | None => None
            end in
        match parsed with
        | None => Fail "reprint-unparseable" [printer; 0]
        | Some (n', P', c') =>
          if negb (reErr =? 0) then Fail "reprint-unparseable" [printer; 1] else
          let N := Nat.max n (Z.to_nat n') in
          if Z.of_nat N <? Z.max (maxvar_uproblem P') (maxvar_terms c') then Fail "reprint-variable-out-of-range" [printer] else
          match find_model N (fun m => xorb (sat_uproblem m P) (sat_uproblem m P')
                                       || (sat_uproblem m P && negb (cost_of m c =? cost_of m c'))) with
          | Some m => Fail "reprint-meaning-differs" (printer :: map bool_Z m)
          | None =>
            let nn := Z.to_nat n' in
            if negb (reNb =? n') then Fail "readers-disagree-on-nbvars" [n'; reNb]
            else if (0 <=? reCount) && negb (reCount =? Z.of_N (ucount nn P')) then Fail "reparsed-count-differs" [Z.of_N (ucount nn P'); reCount]
            else if reVd =? -1 then Sx.Ok [printer; Z.of_nat (List.length bytes)]   (* optimisation skipped by the harness (negative cost, D6) *)
            else match umin nn P' c' with
                 | None => if reVd =? 2 then Sx.Ok [printer; Z.of_nat (List.length bytes)] else Fail "reparsed-optimum-differs" [2; reVd]
                 | Some b => if (reVd =? 1) && (reW =? b) then Sx.Ok [printer; Z.of_nat (List.length bytes)]
                             else Fail "reparsed-optimum-differs" [b; reVd; reW]
                 end
          end
        end
      end
    | _, _, _ => Bad "C18: decode"
    end
  | _ => Bad "C18: shape"
  end.
