(* C05: judge for counting / enumeration observables. *)
From Coq Require Import List ZArith Bool String NArith.
From GS Require Import Spec.Base Spec.PB Spec.Solver Spec.URef Judge.Sx.
Import ListNotations.
Open Scope string_scope.
Open Scope Z_scope.

(* case: ((n (uc...)) (status count enumret closed (model...)))
   status: 0 normal, 1 panic, 2 timeout *)
Definition judge_C05 (s : sx) : verdict :=
  match s with
  | L [pb; L [I st; I cnt; I en; I closed; L ms]] =>
    match duproblem pb with
    | None => Bad "C05: problem"
    | Some (n, P) =>
      if Z.of_nat n <? maxvar_uproblem P then Bad "C05: nbvars" else
      let expected := Z.of_N (ucount n P) in
      if st =? 1 then Fail "panic" [expected] else
      if st =? 2 then Fail "timeout" [expected] else
      match omap dbools ms with
      | None => Bad "C05: models"
      | Some models =>
        if negb (cnt =? expected) then Fail "wrong-count" [expected; cnt] else
        if negb (en =? expected) then Fail "wrong-enum-count" [expected; en] else
        if negb (Z.of_nat (List.length models) =? en) then Fail "received-differs" [en; Z.of_nat (List.length models)] else
        if negb (forallb (fun m => Nat.eqb (List.length m) n) models) then Fail "model-length" [Z.of_nat n] else
        if negb (forallb (fun m => sat_uproblem m P) models) then Fail "foreign-model" [expected] else
        if negb (nodupb models) then Fail "dup-model" [expected] else
        if negb (closed =? 1) then Fail "not-closed" [expected] else
        Ok [expected]
      end
    end
  | _ => Bad "C05: shape"
  end.
