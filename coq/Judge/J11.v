(* C11 / C12: boolean formulas.  A formula is coded as
     (0 v) variable v>=1 | (1) true | (2) false | (3 f) not | (4 f...) and | (5 f...) or
     | (6 a b) implies | (7 a b) equivalent | (8 a b) xor | (9 v...) exactly-one
   C11 case: (formula (status isnil foreign ((v val)...)))   foreign = number of keys that are not formula
   variables (auxiliary variables of the translation): reported, not judged -- the property is about the formula's value
   C12 case: (formula (status nbvars nbclauses ((v idx)...) ((lit...)...) foreign)) *)
From Coq Require Import List ZArith Bool String NArith.
From GS Require Import Spec.Base Spec.PB Spec.Solver Spec.URef Judge.Sx Judge.JCommon.
Import ListNotations.
Open Scope string_scope.
Open Scope Z_scope.

Inductive bform :=
| BVar (v : Z) | BTrue | BFalse | BNot (f : bform)
| BAnd (l : list bform) | BOr (l : list bform)
| BImp (a b : bform) | BEq (a b : bform) | BXor (a b : bform)
| BUniq (vs : list Z).

Fixpoint dform (s : sx) : option bform :=
  match s with
  | L [I 0; I v] => if 1 <=? v then Some (BVar v) else None
  | L [I 1] => Some BTrue
  | L [I 2] => Some BFalse
  | L [I 3; f] => option_map BNot (dform f)
  | L (I 4 :: args) =>
    option_map BAnd ((fix go (l : list sx) : option (list bform) :=
       match l with
       | [] => Some []
       | x :: r => match dform x, go r with Some a, Some b => Some (a :: b) | _, _ => None end
       end) args)
  | L (I 5 :: args) =>
    option_map BOr ((fix go (l : list sx) : option (list bform) :=
       match l with
       | [] => Some []
       | x :: r => match dform x, go r with Some a, Some b => Some (a :: b) | _, _ => None end
       end) args)
  | L [I 6; a; b] => match dform a, dform b with Some x, Some y => Some (BImp x y) | _, _ => None end
  | L [I 7; a; b] => match dform a, dform b with Some x, Some y => Some (BEq x y) | _, _ => None end
  | L [I 8; a; b] => match dform a, dform b with Some x, Some y => Some (BXor x y) | _, _ => None end
  | L (I 9 :: vs) => match omap dZ vs with
                     | Some l => if forallb (fun v => 1 <=? v) l then Some (BUniq l) else None
                     | None => None
                     end
  | _ => None
  end.

Fixpoint beval (m : model) (f : bform) : bool :=
  match f with
  | BVar v => var_val m v
  | BTrue => true
  | BFalse => false
  | BNot g => negb (beval m g)
  | BAnd l => (fix go (l : list bform) : bool := match l with [] => true | x :: r => beval m x && go r end) l
  | BOr l => (fix go (l : list bform) : bool := match l with [] => false | x :: r => beval m x || go r end) l
  | BImp a b => implb (beval m a) (beval m b)
  | BEq a b => Bool.eqb (beval m a) (beval m b)
  | BXor a b => xorb (beval m a) (beval m b)
  | BUniq vs => Z.of_nat (List.length (filter (var_val m) vs)) =? 1
  end.

Fixpoint bmaxvar (f : bform) : Z :=
  match f with
  | BVar v => v
  | BTrue | BFalse => 0
  | BNot g => bmaxvar g
  | BAnd l | BOr l => (fix go (l : list bform) : Z := match l with [] => 0 | x :: r => Z.max (bmaxvar x) (go r) end) l
  | BImp a b | BEq a b | BXor a b => Z.max (bmaxvar a) (bmaxvar b)
  | BUniq vs => fold_right Z.max 0 vs
  end.

Fixpoint bvars (f : bform) : list Z :=
  match f with
  | BVar v => [v]
  | BTrue | BFalse => []
  | BNot g => bvars g
  | BAnd l | BOr l => (fix go (l : list bform) : list Z := match l with [] => [] | x :: r => (bvars x ++ go r)%list end) l
  | BImp a b | BEq a b | BXor a b => (bvars a ++ bvars b)%list
  | BUniq vs => vs
  end.

Definition dpair (s : sx) : option (Z * Z) := match s with L [I a; I b] => Some (a, b) | _ => None end.

Definition memZ (x : Z) (l : list Z) : bool := existsb (Z.eqb x) l.

(* does the total model m agree with the partial assignment (variable, 0/1) ? *)
Definition agrees_partial (m : model) (pa : list (Z * Z)) : bool :=
  forallb (fun p => Bool.eqb (var_val m (fst p)) (snd p =? 1)) pa.

Definition judge_C11 (s : sx) : verdict :=
  match s with
  | L [fs; L [I st; I isnil; I foreign; L pairs]] =>
    match dform fs, omap dpair pairs with
    | Some f, Some pa =>
      let n := Z.to_nat (bmaxvar f) in
      match status_fail st with
      | Some v => v
      | None =>
        match find_model n (fun m => beval m f) with
        | None => if isnil =? 1 then Ok [2] else Fail "wrong-sat" []
        | Some _ =>
          if isnil =? 1 then Fail "wrong-unsat" []
          else match find_model n (fun m => agrees_partial m pa && negb (beval m f)) with
               | None => Ok [1; Z.of_nat (List.length pa); foreign]
               | Some m => Fail "bad-model" (map bool_Z m)
               end
        end
      end
    | _, _ => Bad "C11: decode"
    end
  | _ => Bad "C11: shape"
  end.

(* C12 *)
Definition nodupZ (l : list Z) : bool :=
  (fix go (l : list Z) : bool := match l with [] => true | x :: r => negb (memZ x r) && go r end) l.

Definition export_has_model (nb : nat) (F : cnf) (names : list (Z * Z)) (env : model) : bool :=
  let units := map (fun p => if var_val env (fst p) then unit_uc (snd p) else unit_uc (- snd p)) names in
  match uref_solve nb (cnf_uproblem F ++ units)%list with Some _ => true | None => false end.

Definition judge_C12 (s : sx) : verdict :=
  match s with
  | L [fs; L [I st; I nbv; I nbc; L names; cls; I foreign]] =>
    match dform fs, omap dpair names, dcnf cls with
    | Some f, Some nm, Some F =>
      match status_fail st with
      | Some v => v
      | None =>
        let nf := Z.to_nat (bmaxvar f) in
        if nbv <? 0 then Fail "header" [nbv] else
        let nb := Z.to_nat nbv in
        if negb (nbc =? Z.of_nat (List.length F)) then Fail "header-clause-count" [nbc; Z.of_nat (List.length F)]
        else if negb (forallb (forallb (fun l => Z.abs l <=? nbv)) F) then Fail "literal-out-of-range" [nbv]
        else if negb (foreign =? 0) then Fail "comment-foreign-name" [foreign]
        else if negb (forallb (fun p => memZ (fst p) (bvars f)) nm) then Fail "comment-foreign-name" []
        else if negb (forallb (fun p => (1 <=? snd p) && (snd p <=? nbv)) nm) then Fail "comment-index-out-of-range" []
        else if negb (nodupZ (map snd nm)) then Fail "comment-index-not-distinct" []
        else if negb (nodupZ (map fst nm)) then Fail "comment-name-twice" []
        else
          match find_model nf (fun env => negb (Bool.eqb (beval env f) (export_has_model nb F nm env))) with
          | None => Ok [Z.of_N (count_models nf (fun m => beval m f)); nbv; Z.of_nat (List.length nm)]
          | Some env => Fail "models-differ" (bool_Z (beval env f) :: map bool_Z env)
          end
      end
    | _, _, _ => Bad "C12: decode"
    end
  | _ => Bad "C12: shape"
  end.
