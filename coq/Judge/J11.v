(* C11 / C12: boolean formulas.  A formula is coded as
     (0 v) variable v>=1 | (1) true | (2) false | (3 f) not | (4 f...) and | (5 f...) or
     | (6 a b) implies | (7 a b) equivalent | (8 a b) xor | (9 v...) exactly-one
   C11 case: (formula (status isnil foreign ((v val)...)))   foreign = number of keys that are not formula
   variables (auxiliary variables of the translation): reported, not judged -- the property is about the formula's value
   C12 case: (formula (status nbvars nbclauses ((v idx)...) ((lit...)...) foreign)) *)
From Coq Require Import List ZArith Bool String Ascii NArith.
From GS Require Import Spec.Base Spec.PB Spec.Solver Spec.URef Judge.Sx Judge.JCommon Model.Rup Model.Bf Model.Cli.
Import ListNotations.
Open Scope string_scope.
Open Scope Z_scope.

Inductive bform :=
| BVar (v : Z) | BTrue | BFalse | BNot (f : bform)
| BAnd (l : list bform) | BOr (l : list bform)
| BImp (a b : bform) | BEq (a b : bform) | BXor (a b : bform)
| BUniq (vs : list Z).

Fixpoint dform (s : sx) : option bform :=
  match s with
  | L [I 0; I v] => if 1 <=? v then Some (BVar v) else None
  | L [I 1] => Some BTrue
  | L [I 2] => Some BFalse
  | L [I 3; f] => option_map BNot (dform f)
  | L (I 4 :: args) =>
    option_map BAnd ((fix go (l : list sx) : option (list bform) :=
       match l with
       | [] => Some []
       | x :: r => match dform x, go r with Some a, Some b => Some (a :: b) | _, _ => None end
       end) args)
  | L (I 5 :: args) =>
    option_map BOr ((fix go (l : list sx) : option (list bform) :=
       match l with
       | [] => Some []
       | x :: r => match dform x, go r with Some a, Some b => Some (a :: b) | _, _ => None end
       end) args)
  | L [I 6; a; b] => match dform a, dform b with Some x, Some y => Some (BImp x y) | _, _ => None end
  | L [I 7; a; b] => match dform a, dform b with Some x, Some y => Some (BEq x y) | _, _ => None end
  | L [I 8; a; b] => match dform a, dform b with Some x, Some y => Some (BXor x y) | _, _ => None end
  | L (I 9 :: vs) => match omap dZ vs with
                     | Some l => if forallb (fun v => 1 <=? v) l then Some (BUniq l) else None
                     | None => None
                     end
  | _ => None
  end.

Fixpoint beval (m : model) (f : bform) : bool :=
  match f with
  | BVar v => var_val m v
  | BTrue => true
  | BFalse => false
  | BNot g => negb (beval m g)
  | BAnd l => (fix go (l : list bform) : bool := match l with [] => true | x :: r => beval m x && go r end) l
  | BOr l => (fix go (l : list bform) : bool := match l with [] => false | x :: r => beval m x || go r end) l
  | BImp a b => implb (beval m a) (beval m b)
  | BEq a b => Bool.eqb (beval m a) (beval m b)
  | BXor a b => xorb (beval m a) (beval m b)
  | BUniq vs => Z.of_nat (List.length (filter (var_val m) vs)) =? 1
  end.

Fixpoint bmaxvar (f : bform) : Z :=
  match f with
  | BVar v => v
  | BTrue | BFalse => 0
  | BNot g => bmaxvar g
  | BAnd l | BOr l => (fix go (l : list bform) : Z := match l with [] => 0 | x :: r => Z.max (bmaxvar x) (go r) end) l
  | BImp a b | BEq a b | BXor a b => Z.max (bmaxvar a) (bmaxvar b)
  | BUniq vs => fold_right Z.max 0 vs
  end.

Fixpoint bvars (f : bform) : list Z :=
  match f with
  | BVar v => [v]
  | BTrue | BFalse => []
  | BNot g => bvars g
  | BAnd l | BOr l => (fix go (l : list bform) : list Z := match l with [] => [] | x :: r => (bvars x ++ go r)%list end) l
  | BImp a b | BEq a b | BXor a b => (bvars a ++ bvars b)%list
  | BUniq vs => vs
  end.

Definition dpair (s : sx) : option (Z * Z) := match s with L [I a; I b] => Some (a, b) | _ => None end.

Definition memZ (x : Z) (l : list Z) : bool := existsb (Z.eqb x) l.

(* does the total model m agree with the partial assignment (variable, 0/1) ? *)
Definition agrees_partial (m : model) (pa : list (Z * Z)) : bool :=
  forallb (fun p => Bool.eqb (var_val m (fst p)) (snd p =? 1)) pa.

Definition judge_C11 (s : sx) : verdict :=
  match s with
  | L [fs; L [I st; I isnil; I foreign; L pairs]] =>
    match dform fs, omap dpair pairs with
    | Some f, Some pa =>
      let n := Z.to_nat (bmaxvar f) in
      match status_fail st with
      | Some v => v
      | None =>
        match find_model n (fun m => beval m f) with
        | None => if isnil =? 1 then Ok [2] else Fail "wrong-sat" []
        | Some _ =>
          if isnil =? 1 then Fail "wrong-unsat" []
          else match find_model n (fun m => agrees_partial m pa && negb (beval m f)) with
               | None => Ok [1; Z.of_nat (List.length pa); foreign]
               | Some m => Fail "bad-model" (map bool_Z m)
               end
        end
      end
    | _, _ => Bad "C11: decode"
    end
  | _ => Bad "C11: shape"
  end.

(* C12 *)
Definition nodupZ (l : list Z) : bool :=
  (fix go (l : list Z) : bool := match l with [] => true | x :: r => negb (memZ x r) && go r end) l.

(* Search with unit-propagation pruning: a prefix assignment is abandoned as soon as unit propagation (the verified
   rup_line of Model/Rup.v, sound by C06_rup_sound) refutes it.  Needed because the exports define many auxiliary
   variables by equivalences: plain clause-falsification pruning is exponential in their number. *)
Fixpoint prefix_clause (pre : list bool) (k : Z) : clause :=
  match pre with
  | [] => []
  | b :: r => (if b then - k else k) :: prefix_clause r (k - 1)
  end.

Definition prune_up (n : nat) (F : cnf) (pre : list bool) : bool :=
  match pre with
  | [] => false
  | _ => match rup_line (S n) F (prefix_clause pre (Z.of_nat (List.length pre))) with Some true => true | _ => false end
  end.

Definition cnf_solve_up (n : nat) (F : cnf) : option model :=
  find_pruned n (prune_up n F) (fun m => sat_cnf m F) [].

Definition export_has_model (nb : nat) (F : cnf) (names : list (Z * Z)) (env : model) : bool :=
  let units := map (fun p => if var_val env (fst p) then [snd p] else [- snd p]) names in
  match cnf_solve_up nb (units ++ F)%list with Some _ => true | None => false end.

(* the same formula in the syntax of the mirrored package (coq/Model/Bf.v); variable v is named "v<v>" *)
Definition vname_of (v : Z) : string := String "v"%char (print_Z v).

Fixpoint to_sform (f : bform) : sform :=
  match f with
  | BVar v => SVar (vname_of v)
  | BTrue => STrue
  | BFalse => SFalse
  | BNot g => SNot (to_sform g)
  | BAnd l => SAnd ((fix go (l : list bform) : list sform := match l with [] => [] | x :: r => to_sform x :: go r end) l)
  | BOr l => SOr ((fix go (l : list bform) : list sform := match l with [] => [] | x :: r => to_sform x :: go r end) l)
  | BImp a b => SImplies (to_sform a) (to_sform b)
  | BEq a b => SEq (to_sform a) (to_sform b)
  | BXor a b => SXor (to_sform a) (to_sform b)
  | BUniq vs => SUnique (map vname_of vs)
  end.

Fixpoint eqb_clauses (a b : cnf) : bool :=
  match a, b with
  | [], [] => true
  | x :: a', y :: b' => (fix eqc (x y : clause) : bool :=
                           match x, y with [], [] => true | p :: x', q :: y' => (p =? q) && eqc x' y' | _, _ => false end) x y
                        && eqb_clauses a' b'
  | _, _ => false
  end.

(* does the implementation's export coincide with the one of the mirrored translation (same numbering, same clause and
   literal order) ?  When it does, C12_wellformed / C12_models apply to it directly. *)
Definition same_as_model_export (f : bform) (nbv nbc : Z) (nm : list (Z * Z)) (F : cnf) : bool :=
  let d := dimacs_export (desugar (to_sform f)) in
  (d_nbvars d =? nbv) && (d_nbclauses d =? nbc) && eqb_clauses (d_clauses d) F &&
  (Nat.eqb (List.length (d_names d)) (List.length nm)) &&
  forallb (fun p => existsb (fun q => String.eqb (fst q) (vname_of (fst p)) && (snd q =? snd p)) (d_names d)) nm.

Definition judge_C12 (s : sx) : verdict :=
  match s with
  | L [fs; L [I st; I nbv; I nbc; L names; cls; I foreign]] =>
    match dform fs, omap dpair names, dcnf cls with
    | Some f, Some nm, Some F =>
      match status_fail st with
      | Some v => v
      | None =>
        let nf := Z.to_nat (bmaxvar f) in
        if nbv <? 0 then Fail "header" [nbv] else
        let nb := Z.to_nat nbv in
        if negb (nbc =? Z.of_nat (List.length F)) then Fail "header-clause-count" [nbc; Z.of_nat (List.length F)]
        else if negb (forallb (forallb (fun l => Z.abs l <=? nbv)) F) then Fail "literal-out-of-range" [nbv]
        else if negb (foreign =? 0) then Fail "comment-foreign-name" [foreign]
        else if negb (forallb (fun p => memZ (fst p) (bvars f)) nm) then Fail "comment-foreign-name" []
        else if negb (forallb (fun p => (1 <=? snd p) && (snd p <=? nbv)) nm) then Fail "comment-index-out-of-range" []
        else if negb (nodupZ (map snd nm)) then Fail "comment-index-not-distinct" []
        else if negb (nodupZ (map fst nm)) then Fail "comment-name-twice" []
        else if same_as_model_export f nbv nbc nm F then
          (* identical to the export of the mirrored translation: the model equivalence is C12_models *)
          Ok [Z.of_N (count_models nf (fun m => beval m f)); nbv; Z.of_nat (List.length nm); 1]
        else if 26 <? nbv then
          (* differs from the mirrored translation and too large for the exhaustive comparison: undecided (drift) *)
          Ok [Z.of_N (count_models nf (fun m => beval m f)); nbv; Z.of_nat (List.length nm); 2]
        else
          match find_model nf (fun env => negb (Bool.eqb (beval env f) (export_has_model nb F nm env))) with
          | None => Ok [Z.of_N (count_models nf (fun m => beval m f)); nbv; Z.of_nat (List.length nm); 0]
          | Some env => Fail "models-differ" (bool_Z (beval env f) :: map bool_Z env)
          end
      end
    | _, _, _ => Bad "C12: decode"
    end
  | _ => Bad "C12: shape"
  end.
