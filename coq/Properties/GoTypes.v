(* Facts about gophersat's literal encoding (solver/types.go), abs/min
   (solver/solver.go:277,284), lvlToSignedLvl (solver/watcher.go:269) and the
   heap index arithmetic (solver/queue.go:47-49), stated about the GENERATED
   translation Gen/GoTypes.v of the Go sources.  DIMACS literals are non-zero
   integers i; internal literals are l = 2(|i|-1) (+1 if negative) >= 0;
   internal variables are v = |i|-1 >= 0.  Statements only. *)
From Coq Require Import ZArith Bool.
From GS Require Import Gen.GoTypes Proofs.GoTypesGlue.
Open Scope Z_scope.

Theorem G_IntToLit_nonneg : forall i, i <> 0 -> 0 <= go_IntToLit i.
Proof. exact IntToLit_nonneg. Qed.
Print Assumptions G_IntToLit_nonneg.

(* round trip DIMACS -> internal -> DIMACS *)
Theorem G_Lit_Int_IntToLit : forall i, i <> 0 -> go_Lit_Int (go_IntToLit i) = i.
Proof. exact Lit_Int_IntToLit. Qed.
Print Assumptions G_Lit_Int_IntToLit.

(* round trip internal -> DIMACS -> internal *)
Theorem G_IntToLit_Lit_Int : forall l, 0 <= l ->
  go_IntToLit (go_Lit_Int l) = l /\ go_Lit_Int l <> 0.
Proof. exact IntToLit_Lit_Int. Qed.
Print Assumptions G_IntToLit_Lit_Int.

Theorem G_IntToLit_inj : forall i j, i <> 0 -> j <> 0 ->
  go_IntToLit i = go_IntToLit j -> i = j.
Proof. exact IntToLit_inj. Qed.
Print Assumptions G_IntToLit_inj.

Theorem G_Negation : forall i, i <> 0 ->
  go_Lit_Negation (go_IntToLit i) = go_IntToLit (- i).
Proof. exact Negation. Qed.
Print Assumptions G_Negation.

Theorem G_Negation_invol : forall l, 0 <= l ->
  go_Lit_Negation (go_Lit_Negation l) = l.
Proof. exact Negation_invol. Qed.
Print Assumptions G_Negation_invol.

Theorem G_Negation_neq : forall l, 0 <= l ->
  go_Lit_Negation l <> l /\ 0 <= go_Lit_Negation l.
Proof. exact Negation_neq. Qed.
Print Assumptions G_Negation_neq.

Theorem G_Lit_Int_Negation : forall l, 0 <= l ->
  go_Lit_Int (go_Lit_Negation l) = - go_Lit_Int l.
Proof. exact Lit_Int_Negation. Qed.
Print Assumptions G_Lit_Int_Negation.

Theorem G_IsPositive : forall i, i <> 0 ->
  go_Lit_IsPositive (go_IntToLit i) = (0 <? i).
Proof. exact IsPositive. Qed.
Print Assumptions G_IsPositive.

Theorem G_IsPositive_Lit_Int : forall l, 0 <= l ->
  go_Lit_IsPositive l = (0 <? go_Lit_Int l).
Proof. exact IsPositive_Lit_Int. Qed.
Print Assumptions G_IsPositive_Lit_Int.

Theorem G_IsPositive_Negation : forall l, 0 <= l ->
  go_Lit_IsPositive (go_Lit_Negation l) = negb (go_Lit_IsPositive l).
Proof. exact IsPositive_Negation. Qed.
Print Assumptions G_IsPositive_Negation.

Theorem G_Lit_Var : forall i, i <> 0 ->
  go_Var_Int (go_Lit_Var (go_IntToLit i)) = Z.abs i.
Proof. exact Lit_Var. Qed.
Print Assumptions G_Lit_Var.

Theorem G_Lit_Var_nonneg : forall l, 0 <= l -> 0 <= go_Lit_Var l.
Proof. exact Lit_Var_nonneg. Qed.
Print Assumptions G_Lit_Var_nonneg.

Theorem G_Lit_Var_Negation : forall l, 0 <= l ->
  go_Lit_Var (go_Lit_Negation l) = go_Lit_Var l.
Proof. exact Lit_Var_Negation. Qed.
Print Assumptions G_Lit_Var_Negation.

Theorem G_Var_Lit : forall v, 0 <= v -> go_Var_Lit v = go_IntToLit (v + 1).
Proof. exact Var_Lit. Qed.
Print Assumptions G_Var_Lit.

Theorem G_Var_SignedLit : forall v s, 0 <= v ->
  go_Var_SignedLit v s = go_IntToLit (if s then - (v + 1) else v + 1).
Proof. exact Var_SignedLit. Qed.
Print Assumptions G_Var_SignedLit.

Theorem G_Lit_Var_Var_SignedLit : forall v s, 0 <= v ->
  go_Lit_Var (go_Var_SignedLit v s) = v.
Proof. exact Lit_Var_Var_Lit. Qed.
Print Assumptions G_Lit_Var_Var_SignedLit.

Theorem G_IntToVar : forall i, go_Var_Int (go_IntToVar i) = i.
Proof. exact Var_Int_IntToVar. Qed.
Print Assumptions G_IntToVar.

Theorem G_IntToVar_Lit_Var : forall i, 1 <= i ->
  go_IntToVar i = go_Lit_Var (go_IntToLit i).
Proof. exact IntToVar_Lit_Var. Qed.
Print Assumptions G_IntToVar_Lit_Var.

Theorem G_abs : forall x, go_abs x = Z.abs x.
Proof. exact abs_spec. Qed.
Print Assumptions G_abs.

Theorem G_min : forall a b, go_min a b = Z.min a b.
Proof. exact min_spec. Qed.
Print Assumptions G_min.

(* sign of the signed level = sign of the literal *)
Theorem G_lvlToSignedLvl : forall i lvl, i <> 0 -> 0 < lvl ->
  go_lvlToSignedLvl (go_IntToLit i) lvl = (if 0 <? i then lvl else - lvl).
Proof. exact lvlToSignedLvl. Qed.
Print Assumptions G_lvlToSignedLvl.

Theorem G_heap_parent_left : forall i, 0 <= i -> go_parent (go_left i) = i.
Proof. exact heap_parent_left. Qed.
Print Assumptions G_heap_parent_left.

Theorem G_heap_parent_right : forall i, 0 <= i -> go_parent (go_right i) = i.
Proof. exact heap_parent_right. Qed.
Print Assumptions G_heap_parent_right.

Theorem G_heap_children_distinct : forall i, 0 <= i ->
  go_left i < go_right i /\ i < go_left i.
Proof. exact heap_children_distinct. Qed.
Print Assumptions G_heap_children_distinct.

Theorem G_heap_parent_lt : forall i, 0 < i -> 0 <= go_parent i < i.
Proof. exact heap_parent_lt. Qed.
Print Assumptions G_heap_parent_lt.
