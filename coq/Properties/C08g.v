(* C08g -- the unit propagation of the certificate checker, from the Go text to the model.

   [src_Problem_unsat] (Gen/GoSrcX.v) is regenerated on every run from /repo/explain/problem.go by a purely syntactic
   translator; Model/GoIR2.v gives it a meaning (heap of arrays, slice headers with aliasing, bounds-check panics,
   break / continue, bool slices, a struct behind a pointer with its int fields boxed).  The theorems below say that
   running that term computes exactly [up_unsat] of Model/Rup.v -- the function the soundness and completeness theorems
   of C08 are about -- for every heap and every problem whose literals are in range.  Final statements only; the
   proofs are in Proofs/GoSrcXUp.v. *)
From Coq Require Import List ZArith Bool String.
From GS Require Import Spec.Base Model.Rup Proofs.Rup Model.GoIR2 Gen.GoSrcX Judge.J26 Proofs.GoSrcXUp
  Proofs.GoSrcXUpArgs.
Import ListNotations.
Open Scope string_scope.
Open Scope Z_scope.

(* ---- the refinement theorem.

   [pb_repr h fs css nbs us ts F nb u t]: in the heap [h] the value [VStruct fs] is a *Problem as the translator
   represents it -- field Clauses a list of well-formed headers [css] reading the clauses [F] in order, field NbClauses
   a one-element slice reading [nb], field units a slice reading [u], field tagged a slice reading the 0/1 images of
   [t]; the arrays of units and tagged differ from each other and from every array that is only read.

   Hypotheses: every literal of F is non-zero with |lit| <= len(units) (otherwise Go panics: see the observations at
   the end), and NbClauses <= len(tagged).

   Conclusion: for some fuel the run RETURNS (termination is part of the statement) the verdict of the model; the
   tagged and units arrays afterwards read what the model computes ([pb_repr] again, in the final heap: the call can be
   repeated); exactly one array was allocated (the done marks); the arrays of units and tagged changed inside the
   windows of their headers only; every other array is unchanged.

   [up_unsat_full] is [up_unsat] with the final bindings as a third component (C08g_full_agrees). *)
Theorem C08g_refines : forall h fs css nbs us ts F nb u t,
  pb_repr h fs css nbs us ts F nb u t ->
  range_okb (length u) F = true ->
  (Z.to_nat nb <= length t)%nat ->
  exists fuel b t' u' h',
    run go_funs fuel "Problem.unsat" [VStruct fs] h = OReturn (VBool b) h' /\
    up_unsat_full (S (length F)) (Z.to_nat nb) F u t = ((Some b, t'), u') /\
    up_unsat (S (length F)) (Z.to_nat nb) F u t = (Some b, t') /\
    pb_repr h' fs css nbs us ts F nb u' t' /\
    length h' = S (length h) /\
    only_window h h' us /\ only_window h h' ts /\
    (forall a, a <> s_arr us -> a <> s_arr ts -> a <> length h -> arr_of h' a = arr_of h a).
Proof. exact Problem_unsat_refines. Qed.
Print Assumptions C08g_refines.

(* the variant of the model that also returns the bindings agrees with the model *)
Theorem C08g_full_agrees : forall fuel nb clauses u t,
  fst (up_unsat_full fuel nb clauses u t) = up_unsat fuel nb clauses u t.
Proof. exact up_unsat_full_fst. Qed.
Print Assumptions C08g_full_agrees.

(* the pieces, for the record: the loop over the literals of one clause is [scan_clause]
   ([e] is the frame of locals, known through [lookup]; the loop does not touch the heap) *)
Theorem C08g_inner_loop : forall fs us h, nth_error fs fld_Problem_units = Some (VSl us) ->
  length (sl_read h us) = s_len us ->
  forall cs c k e acc,
  (forall j, (j < length c)%nat -> nth (s_off cs + (k + j)) (arr_of h (s_arr cs)) 0 = nth j c 0) ->
  lookup "pb" e = Some (VStruct fs) -> lookup "sat" e = Some (VBool false) -> acc_env acc e ->
  lits_in (length (sl_read h us)) c ->
  exists e', range_go (GoIR2u.exec0 inner_body) "_" "lit" (get_sl cs) (length c) k (St e h) = ONormal (St e' h)
    /\ GoIR2u.keeps inner_vars e e' /\ scan_post (scan_clause (sl_read h us) c acc) e'.
Proof. exact inner_loop. Qed.
Print Assumptions C08g_inner_loop.

(* ---- composed with the soundness of the model: when the executed source answers true from bindings that every model
   of F agrees with, F has no model *)
Theorem C08g_true_sound : forall h fs css nbs us ts F nb u t fuel h',
  pb_repr h fs css nbs us ts F nb u t ->
  range_okb (length u) F = true ->
  length t = Z.to_nat nb ->
  units_ok u -> units_entailed (length u) F u ->
  run go_funs fuel "Problem.unsat" [VStruct fs] h = OReturn (VBool true) h' ->
  ~ Satisfiable (length u) F.
Proof. exact Problem_unsat_true_sound. Qed.
Print Assumptions C08g_true_sound.

(* ---- on the arguments the judge J26 builds ([problem_arg], each slice in a fresh array): for every problem in range,
   once the fuel suffices [run_args] on the regenerated syntax tree answers what the model answers -- the verdict, the
   clauses untouched, the final units and tags ([pa_answer]).  J26 compares this very [run_args] with the compiled
   function on every case. *)
Theorem C08g_run_args : forall F nb u t,
  range_okb (length u) F = true -> (Z.to_nat nb <= length t)%nat ->
  exists fuel0 b t' u',
    up_unsat_full (S (length F)) (Z.to_nat nb) F u t = ((Some b, t'), u') /\
    forall fuel, (fuel0 <= fuel)%nat ->
      run_args go_funs fuel "Problem.unsat" [problem_arg F nb u t] =
      RRet (RBool b) [RStruct [RList (map RSl F); RNil; RSl [nb]; RSl u'; RNil; RSl (map b2z t')]].
Proof. exact run_args_unsat. Qed.
Print Assumptions C08g_run_args.

(* with any fuel: out of fuel, or the answer of the model *)
Theorem C08g_run_args_any_fuel : forall F nb u t fuel b t' u',
  range_okb (length u) F = true -> (Z.to_nat nb <= length t)%nat ->
  up_unsat_full (S (length F)) (Z.to_nat nb) F u t = ((Some b, t'), u') ->
  run_args go_funs fuel "Problem.unsat" [problem_arg F nb u t] = RFuel \/
  run_args go_funs fuel "Problem.unsat" [problem_arg F nb u t] =
    RRet (RBool b) [RStruct [RList (map RSl F); RNil; RSl [nb]; RSl u'; RNil; RSl (map b2z t')]].
Proof. exact run_args_unsat_any_fuel. Qed.
Print Assumptions C08g_run_args_any_fuel.

(* ---- the hypotheses are satisfiable: a concrete heap *)
Example C08g_ex_repr :
  let h := [[1; 2]; [-1; 2]; [2]; [0; 0]; [0; 0]] in
  let css := [Slice 0 0 2 2; Slice 1 0 2 2] in
  let nbs := Slice 2 0 1 1 in let us := Slice 3 0 2 2 in let ts := Slice 4 0 2 2 in
  pb_repr h [VList (map VSl css); VNil; VSl nbs; VSl us; VNil; VSl ts] css nbs us ts
          [[1; 2]; [-1; 2]] 2 [0; 0] [false; false].
Proof.
  cbv zeta. unfold pb_repr, slice_ok. cbn [s_arr s_off s_len s_cap].
  repeat split; try reflexivity; try (vm_compute; repeat constructor; fail); try discriminate.
  repeat constructor; try discriminate.
Qed.

(* ---- runs of the generated term on concrete problems, next to the model *)
Definition C08g_F1 : cnf := [[1; 2]; [-1; 2]; [1; -2]; [-1; -2]].

Example C08g_ex_conflict :
  run_args go_funs 100 "Problem.unsat" [problem_arg C08g_F1 4 [1; 0] [false; false; false; false]] =
    RRet (RBool true)
      [RStruct [RList [RSl [1; 2]; RSl [-1; 2]; RSl [1; -2]; RSl [-1; -2]]; RNil; RSl [4]; RSl [1; 1]; RNil;
                RSl [0; 1; 0; 1]]] /\
  up_unsat_full 5 4 C08g_F1 [1; 0] [false; false; false; false] = ((Some true, [false; true; false; true]), [1; 1]).
Proof. split; vm_compute; reflexivity. Qed.

(* a repeated literal, a clause left by [break], learned clauses beyond NbClauses are not tagged *)
Definition C08g_F2 : cnf := [[1; 1]; [-1; 2]; [-2; 3; 3]; [3; 4; -1]].

Example C08g_ex_fixpoint :
  run_args go_funs 100 "Problem.unsat" [problem_arg C08g_F2 3 [0; 0; 0; 0] [false; true; false]] =
    RRet (RBool false)
      [RStruct [RList [RSl [1; 1]; RSl [-1; 2]; RSl [-2; 3; 3]; RSl [3; 4; -1]]; RNil; RSl [3]; RSl [1; 1; 1; 0];
                RNil; RSl [1; 1; 1]]] /\
  up_unsat_full 5 3 C08g_F2 [0; 0; 0; 0] [false; true; false] = ((Some false, [true; true; true]), [1; 1; 1; 0]).
Proof. split; vm_compute; reflexivity. Qed.

Example C08g_ex_empty_clause :
  run_args go_funs 100 "Problem.unsat" [problem_arg [[1]; []] 1 [0; 0] [false]] =
    RRet (RBool true) [RStruct [RList [RSl [1]; RSl []]; RNil; RSl [1]; RSl [1; 0]; RNil; RSl [1]]] /\
  up_unsat_full 3 1 [[1]; []] [0; 0] [false] = ((Some true, [true]), [1; 0]).
Proof. split; vm_compute; reflexivity. Qed.

(* ---- outside the hypotheses the source and the model differ: Go panics (index out of range) where the model reads 0
   and drops the write.  This is why C08g_refines carries [range_okb] and NbClauses <= len(tagged). *)
Example C08g_out_of_range_observation :
  range_okb 2 [[5]] = false /\
  run_args go_funs 100 "Problem.unsat" [problem_arg [[5]] 1 [0; 0] [false]] = RPanic /\
  up_unsat 2 1 [[5]] [0; 0] [false] = (Some false, [true]).
Proof. repeat split; vm_compute; reflexivity. Qed.

Example C08g_short_tagged_observation :
  run_args go_funs 100 "Problem.unsat" [problem_arg [[1]] 1 [0] []] = RPanic /\
  up_unsat 2 1 [[1]] [0] [] = (Some false, []).
Proof. split; vm_compute; reflexivity. Qed.
