(* C08 -- the certificate checker of package explain and UnsatSubset. *)
From Coq Require Import List ZArith Bool.
From GS Require Import Spec.Base Model.Rup Proofs.Rup.
Import ListNotations.
Open Scope Z_scope.

(* ---- soundness ([units_entailed]: the initial [units] is entailed by F) ---- *)

Theorem C08_sound : forall F u0 cert,
  wf_cnf F -> wf_cnf cert -> units_ok u0 -> units_entailed (length u0) F u0 ->
  check_cert_reader F u0 cert = true ->
  Forall (fun c => forall m, length m = length u0 -> sat_cnf m F = true -> sat_clause m c = true) cert.
Proof. exact (check_cert_sound false). Qed.
Print Assumptions C08_sound.

Theorem C08_sound_chan : forall F u0 cert,
  wf_cnf F -> wf_cnf cert -> units_ok u0 -> units_entailed (length u0) F u0 ->
  check_cert_chan F u0 cert = true ->
  Forall (fun c => forall m, length m = length u0 -> sat_cnf m F = true -> sat_clause m c = true) cert.
Proof. exact (check_cert_sound true). Qed.
Print Assumptions C08_sound_chan.

(* on explain.Problem values, both entry points:
   [Unsat_gen early] is [if early then UnsatChan else Unsat],
   [check_cert early] is [if early then check_cert_chan else check_cert_reader] *)
Theorem C08_sound_problem : forall early pb cert,
  pb_wf pb -> wf_cnf cert -> units_entailed (NbVars pb) (Clauses pb) (punits pb) ->
  fst (Unsat_gen early pb cert) = true ->
  Forall (entails (NbVars pb) (Clauses pb)) cert.
Proof. exact Unsat_gen_sound. Qed.
Print Assumptions C08_sound_problem.

(* on raw lines: comment lines skipped, no parse error when valid *)
Theorem C08_sound_lines : forall early pb raw e pb',
  pb_wf pb -> units_entailed (NbVars pb) (Clauses pb) (punits pb) ->
  run_lines early pb (map parse_line raw) = ((true, e), pb') ->
  e = false /\
  Forall (entails (NbVars pb) (Clauses pb)) (lines_clauses (map parse_line raw)).
Proof. exact Unsat_lines_sound. Qed.
Print Assumptions C08_sound_lines.

(* the [units] array built by ParseCNF satisfies the invariant *)
Theorem C08_units_parse : forall n F,
  units_ok (init_units n F) /\ length (init_units n F) = n /\
  units_entailed n F (init_units n F).
Proof.
  exact (fun n F => conj (init_units_ok n F) (conj (init_units_length n F)
           (units_justified_entailed n F _ (init_units_justified n F)))).
Qed.
Print Assumptions C08_units_parse.

Theorem C08_empty : forall F u0 cert,
  wf_cnf F -> wf_cnf cert -> units_ok u0 -> units_entailed (length u0) F u0 ->
  check_cert_reader F u0 cert = true /\ In [] cert -> ~ Satisfiable (length u0) F.
Proof. exact (check_cert_empty false). Qed.
Print Assumptions C08_empty.

Theorem C08_empty_chan : forall F u0 cert,
  wf_cnf F -> wf_cnf cert -> units_ok u0 -> units_entailed (length u0) F u0 ->
  check_cert_chan F u0 cert = true /\ In [] cert -> ~ Satisfiable (length u0) F.
Proof. exact (check_cert_empty true). Qed.
Print Assumptions C08_empty_chan.

(* ---- completeness w.r.t. relational unit propagation ---- *)

(* the loop never runs out of fuel *)
Theorem C08_fuel : forall nb clauses u t,
  fst (up_unsat (S (length clauses)) nb clauses u t) <> None.
Proof. exact up_unsat_fuel. Qed.
Print Assumptions C08_fuel.

(* Full strength (after the fixes of explain/problem.go -- repeated literal --
   and explain/check.go -- tautological line): every line that has the RUP
   property w.r.t. F and the earlier lines is accepted, by both entry points
   ([check_cert early] is [if early then check_cert_chan else
   check_cert_reader]).  Lines may be tautologies and F / lines may repeat
   literals.  The only hypotheses: literals within 1..n (Go panics otherwise)
   and a [units] array holding only 0/1/-1 (always so after ParseCNF). *)
Theorem C08_complete : forall early F u0 cert,
  units_ok u0 ->
  cnf_in (length u0) F ->
  cnf_in (length u0) cert ->
  rup_chain F cert ->
  check_cert early F u0 cert = true.
Proof. exact check_cert_complete. Qed.
Print Assumptions C08_complete.

Theorem C08_complete_problem : forall early pb cert,
  units_ok (punits pb) ->
  cnf_in (length (punits pb)) (Clauses pb) ->
  cnf_in (length (punits pb)) cert ->
  rup_chain (Clauses pb) cert ->
  fst (Unsat_gen early pb cert) = true.
Proof. exact Unsat_gen_complete. Qed.
Print Assumptions C08_complete_problem.

(* one line: tautologies at once, the others by propagation *)
Theorem C08_complete_line : forall nb clauses u t line,
  units_ok u -> cnf_in (length u) clauses -> lits_in (length u) line ->
  rup clauses line ->
  fst (check_line nb clauses u t line) = Some true.
Proof. exact check_line_complete. Qed.
Print Assumptions C08_complete_line.

(* ---- restore ---- *)

Theorem C08_reusable : forall early pb cert v pb',
  NbClauses pb = length (Clauses pb) ->
  Unsat_gen early pb cert = (v, pb') ->
  Clauses pb' = Clauses pb /\ NbClauses pb' = NbClauses pb /\ NbVars pb' = NbVars pb /\
  punits pb' = punits pb /\
  Unsat_gen early pb' cert = (v, pb').
Proof. exact Unsat_gen_reusable. Qed.
Print Assumptions C08_reusable.

(* ---- UnsatSubset ---- *)

Theorem C08_subset : forall n F trivial ssat cert S,
  wf_cnf F -> wf_cnf cert ->
  unsat_subset n F trivial ssat cert = Some S ->
  (exists mask, length mask = length F /\ S = select mask F) /\
  ((trivial = true -> ~ Satisfiable n F) -> (trivial = true \/ In [] cert) -> ~ Satisfiable n S).
Proof. exact unsat_subset_spec. Qed.
Print Assumptions C08_subset.

Theorem C08_subset_error : forall n F ssat cert,
  wf_cnf F -> wf_cnf cert -> Satisfiable n F -> ssat = true \/ In [] cert ->
  unsat_subset n F false ssat cert = None.
Proof. exact unsat_subset_error. Qed.
Print Assumptions C08_subset_error.

(* ---- the hypotheses are satisfiable ---- *)

Definition C08_F : cnf := [[1; 2]; [-1; 2]; [1; -2]; [-1; -2]; [1; 2]].

Example C08_ex_valid :
  wf_cnf C08_F /\ wf_cnf [[1]; []] /\
  check_cert_reader C08_F (init_units 2 C08_F) [[1]; []] = true /\
  check_cert_chan C08_F (init_units 2 C08_F) [[1]; []] = true.
Proof.
  split; [apply wf_cnfb_spec; reflexivity|]. split; [apply wf_cnfb_spec; reflexivity|].
  split; vm_compute; reflexivity.
Qed.

Example C08_ex_subset :
  unsat_subset 2 C08_F false false [[1]; []] = Some [[1; 2]; [-1; 2]; [1; -2]; [-1; -2]].
Proof. vm_compute. reflexivity. Qed.

(* the two inputs that refuted completeness before the fixes *)
Example C08_ex_complete_taut :
  rup_chain [[1; 2]] [[1; -1]] /\ cnf_in 2 [[1; 2]] /\ cnf_in 2 [[1; -1]] /\
  check_cert_reader [[1; 2]] (init_units 2 [[1; 2]]) [[1; -1]] = true.
Proof.
  split; [exact rup_witness_taut|]. split; [apply range_okb_spec; reflexivity|].
  split; [apply range_okb_spec; reflexivity|vm_compute; reflexivity].
Qed.

Example C08_ex_complete_dup :
  rup_chain [[1; 1]; [-1; 2]; [-1; -2]] [[]] /\ cnf_in 2 [[1; 1]; [-1; 2]; [-1; -2]] /\
  check_cert_reader [[1; 1]; [-1; 2]; [-1; -2]] (init_units 2 [[1; 1]; [-1; 2]; [-1; -2]]) [[]] = true.
Proof.
  split; [exact rup_witness_dup|]. split; [apply range_okb_spec; reflexivity|vm_compute; reflexivity].
Qed.

Example C08_ex_reusable :
  let pb := mk_problem 2 C08_F in
  snd (Unsat (snd (Unsat pb [[1]; []])) [[1]; []]) = snd (Unsat pb [[1]; []]).
Proof. vm_compute. reflexivity. Qed.
