(* The whole run of the cutting-planes loop of /repo, observed at its tracing points and replayed by Judge/J24.v on the
   transition system of Model/SearchPB.v: an Ok means that the observed run is a run of that system ending with the
   observed answer (then Properties/C14c.v applies).  Statements only; proofs in Proofs/TracePBSound.v. *)
From Coq Require Import List ZArith Bool String.
From GS Require Import Spec.Base Spec.PB Judge.Sx Judge.JCommon Model.PBNorm Model.CP Model.CPSearch Model.SearchPB
     Judge.J21 Judge.J24.
From GS Require Import Proofs.CPSearch Proofs.SearchPB Proofs.TracePBSound.
Import ListNotations.
Open Scope Z_scope.

Theorem J_tracepb_replay : forall P n units r vd m tr nsn a b c,
  pfinish_trace P n units r vd m tr nsn = Ok [a; b; c] ->
  exists ks cf, replay_pb P n units ks = Some cf /\
    ((c = 1 /\ vd = 1 /\ cf = PFinal (PSat m)) \/
     (c = 2 /\ vd = 2 /\ cf = PFinal PUnsat) \/
     (c = 0 /\ tr = true /\ exists s, cf = PRunning s)).
Proof. exact pfinish_trace_replay. Qed.
Print Assumptions J_tracepb_replay.

Theorem J_tracepb_unsat : forall P n units r vd m tr nsn a b,
  pfinish_trace P n units r vd m tr nsn = Ok [a; b; 2] ->
  vd = 2 /\ forall m' : model, sat_problem m' P = false.
Proof. exact pfinish_trace_unsat. Qed.
Print Assumptions J_tracepb_unsat.

Theorem J_tracepb_sat : forall P n units r vd m tr nsn a b,
  pvars_inb n P = true ->
  pfinish_trace P n units r vd m tr nsn = Ok [a; b; 1] ->
  vd = 1 /\ List.length m = n /\ sat_problem m P = true.
Proof. exact pfinish_trace_sat. Qed.
Print Assumptions J_tracepb_sat.
