(* C02: the public constraint constructors (solver/pb.go, solver/card.go) and
   the normalisation done when a constraint becomes a clause (PBConstr.Clause,
   NewPBClause, Clause.SimplifyPB) preserve the meaning of the constraint under
   integer arithmetic; trivially true / false constraints have a meaning too.
   Statements only; proofs in Proofs/PBNorm.v. *)
From Coq Require Import List ZArith Bool Permutation Sorted.
From GS Require Import Spec.Base Spec.PB Model.PBNorm Proofs.PBNorm.
Import ListNotations.
Open Scope Z_scope.

(* ---- linear constraints: GtEq, LtEq, Eq --------------------------------- *)

Theorem C02_gteq : forall (lits ws : list Z) n (m : model),
  length lits = length ws -> wf_clause lits ->
  sat_pbc m (pbc_of_gopb (gt_eq lits ws n)) = sat_uc m (UC (combine ws lits) Ge n).
Proof. exact gt_eq_spec. Qed.
Print Assumptions C02_gteq.

Theorem C02_lteq : forall (lits ws : list Z) n (m : model),
  length lits = length ws -> wf_clause lits ->
  sat_pbc m (pbc_of_gopb (lt_eq lits ws n)) = sat_uc m (UC (combine ws lits) Le n).
Proof. exact lt_eq_spec. Qed.
Print Assumptions C02_lteq.

Theorem C02_eq : forall (lits ws : list Z) n (m : model),
  length lits = length ws -> wf_clause lits ->
  forallb (fun g => sat_pbc m (pbc_of_gopb g)) (eq_ lits ws n)
  = sat_uc m (UC (combine ws lits) Eq n).
Proof. exact eq_spec. Qed.
Print Assumptions C02_eq.

Theorem C02_eq_nontrivial : forall (lits ws : list Z) n g,
  In g (eq_ lits ws n) -> 0 < g_atleast g.
Proof. exact eq_atleast_pos. Qed.
Print Assumptions C02_eq_nontrivial.

(* GtEq(lits, nil, n) is AtLeast(lits, n) *)
Theorem C02_gteq_nil : forall lits n, gt_eq lits [] n = at_least lits n.
Proof. exact gt_eq_nil_weights. Qed.
Print Assumptions C02_gteq_nil.

(* the structural model of the GtEq loop is its index-based transcription
   (delete at i, then i--) *)
Theorem C02_gteq_loop_idx : forall (lits ws : list Z) n, length lits = length ws ->
  gt_eq_idx (length ws) 0 lits ws n = gt_eq_loop lits ws n.
Proof. exact gt_eq_idx_spec. Qed.
Print Assumptions C02_gteq_loop_idx.

(* zero weights are removed, negative ones flipped *)
Theorem C02_norm_positive : forall (lits ws : list Z) n,
  Forall (fun t => 0 < fst t) (terms (pbc_of_gopb (gt_eq lits ws n))).
Proof. exact gt_eq_positive. Qed.
Print Assumptions C02_norm_positive.

Theorem C02_norm_lengths : forall (lits ws : list Z) n, length lits = length ws ->
  forall ws', g_ws (gt_eq lits ws n) = Some ws' -> length (g_lits (gt_eq lits ws n)) = length ws'.
Proof. exact gt_eq_lengths. Qed.
Print Assumptions C02_norm_lengths.

Theorem C02_norm_wf : forall (lits ws : list Z) n,
  wf_clause lits -> wf_clause (g_lits (gt_eq lits ws n)).
Proof. exact gt_eq_wf. Qed.
Print Assumptions C02_norm_wf.

(* ---- cardinality constraints --------------------------------------------- *)

Theorem C02_propclause : forall (lits : list Z) (m : model),
  sat_pbc m (pbc_of_gopb (prop_clause lits)) = sat_uc m (UC (unit_terms lits) Ge 1).
Proof. exact prop_clause_spec. Qed.
Print Assumptions C02_propclause.

Theorem C02_propclause_clause : forall (lits : list Z) (m : model),
  sat_pbc m (pbc_of_gopb (prop_clause lits)) = sat_clause m lits.
Proof. exact prop_clause_clause. Qed.
Print Assumptions C02_propclause_clause.

Theorem C02_atleast : forall (lits : list Z) k (m : model),
  sat_pbc m (pbc_of_gopb (at_least lits k)) = sat_uc m (UC (unit_terms lits) Ge k).
Proof. exact at_least_spec. Qed.
Print Assumptions C02_atleast.

Theorem C02_atmost : forall (lits : list Z) k (m : model), wf_clause lits ->
  sat_pbc m (pbc_of_gopb (at_most lits k)) = sat_uc m (UC (unit_terms lits) Le k).
Proof. exact at_most_spec. Qed.
Print Assumptions C02_atmost.

Theorem C02_atleast1 : forall (lits : list Z) (m : model),
  sat_pbc m (pbc_of_gocard (at_least1 lits)) = sat_uc m (UC (unit_terms lits) Ge 1).
Proof. exact at_least1_spec. Qed.
Print Assumptions C02_atleast1.

Theorem C02_atmost1 : forall (lits : list Z) (m : model), wf_clause lits ->
  sat_pbc m (pbc_of_gocard (at_most1 lits)) = sat_uc m (UC (unit_terms lits) Le 1).
Proof. exact at_most1_spec. Qed.
Print Assumptions C02_atmost1.

Theorem C02_exactly1 : forall (lits : list Z) (m : model), wf_clause lits ->
  forallb (fun c => sat_pbc m (pbc_of_gocard c)) (exactly1 lits)
  = sat_uc m (UC (unit_terms lits) Eq 1).
Proof. exact exactly1_spec. Qed.
Print Assumptions C02_exactly1.

(* ---- user constraint through the matching constructor ------------------- *)

Theorem C02_norm_uc : forall c (m : model), wf_clause (map snd (u_terms c)) ->
  forallb (fun g => sat_pbc m (pbc_of_gopb g)) (norm_uc c) = sat_uc m c.
Proof. exact norm_uc_spec. Qed.
Print Assumptions C02_norm_uc.

Theorem C02_norm_uc_positive : forall c g, In g (norm_uc c) ->
  Forall (fun t => 0 < fst t) (terms (pbc_of_gopb g)).
Proof. exact norm_uc_positive. Qed.
Print Assumptions C02_norm_uc_positive.

(* ---- trivially true / trivially false ----------------------------------- *)

Theorem C02_trivial : forall c, nonneg_terms (terms c) = true ->
  (degree c <= 0 -> forall m : model, sat_pbc m c = true) /\
  (zsum (map fst (terms c)) < degree c -> forall m : model, sat_pbc m c = false).
Proof. exact trivial_spec. Qed.
Print Assumptions C02_trivial.

Theorem C02_weight_sum : forall g,
  (forall ws, g_ws g = Some ws -> length (g_lits g) = length ws) ->
  weight_sum g = zsum (map fst (terms (pbc_of_gopb g))).
Proof. exact weight_sum_spec. Qed.
Print Assumptions C02_weight_sum.

(* sum of the weights = degree: every literal is forced (parser_pb.go:96) *)
Theorem C02_tight : forall ts (m : model), Forall (fun t => 0 < fst t) ts ->
  (zsum (map fst ts) <=? lhs m ts) = forallb (lit_val m) (map snd ts).
Proof. exact tight_all_true. Qed.
Print Assumptions C02_tight.

(* ---- PBConstr.Clause: saturation and sorting ---------------------------- *)

Theorem C02_saturate : forall c (m : model),
  nonneg_terms (terms c) = true -> 0 < degree c ->
  sat_pbc m (saturate c) = sat_pbc m c.
Proof. exact saturate_spec. Qed.
Print Assumptions C02_saturate.

Theorem C02_saturate_bound : forall c,
  Forall (fun t => fst t <= degree c) (terms (saturate c)).
Proof. exact saturate_le_degree. Qed.
Print Assumptions C02_saturate_bound.

Theorem C02_sort : forall ts,
  Permutation (sort_terms ts) ts /\
  StronglySorted (fun a b : term => fst b <= fst a) (sort_terms ts) /\
  (forall m : model, lhs m (sort_terms ts) = lhs m ts) /\
  (forall (m : model) d, sat_pbc m (PBC (sort_terms ts) d) = sat_pbc m (PBC ts d)).
Proof. exact sort_terms_spec. Qed.
Print Assumptions C02_sort.

Theorem C02_clause : forall g c, pb_clause g = Some c ->
  nonneg_terms (terms (pbc_of_gopb g)) = true ->
  degree c = g_atleast g /\ 0 < degree c /\
  StronglySorted (fun a b : term => fst b <= fst a) (terms c) /\
  forall m : model, sat_pbc m c = sat_pbc m (pbc_of_gopb g).
Proof. exact pb_clause_spec. Qed.
Print Assumptions C02_clause.

Theorem C02_clause_panics : forall g, pb_clause g = None <-> g_atleast g < 1.
Proof. exact pb_clause_none. Qed.
Print Assumptions C02_clause_panics.

(* ---- Clause.SimplifyPB -------------------------------------------------- *)

Theorem C02_simplifyPB_sound : forall c, nonneg_terms (terms c) = true ->
  match simplify_pb c with
  | None => forall m : model, sat_pbc m c = false
  | Some (us, rest) =>
    forall m : model,
      sat_pbc m c =
      forallb (lit_val m) us && match rest with None => true | Some r => sat_pbc m r end
  end.
Proof. exact simplify_pb_sound. Qed.
Print Assumptions C02_simplifyPB_sound.

Theorem C02_simplifyPB_shape : forall c us r, nonneg_terms (terms c) = true ->
  simplify_pb c = Some (us, Some r) ->
  0 < degree r /\ StronglySorted (fun a b : term => fst b <= fst a) (terms r) /\
  nonneg_terms (terms r) = true /\
  (length us + length (terms r) = length (terms c))%nat.
Proof. exact simplify_pb_shape. Qed.
Print Assumptions C02_simplifyPB_shape.

(* clause.go:274 "saturate weights so that none is higher than card": false,
   only the first weight is capped (the loop never increments i). *)
Theorem C02_simplifyPB_saturated_refuted :
  exists c us r,
    nonneg_terms (terms c) = true /\
    StronglySorted (fun a b : term => fst b <= fst a) (terms c) /\ 0 < degree c /\
    simplify_pb c = Some (us, Some r) /\
    ~ Forall (fun t => fst t <= degree r) (terms r).
Proof. exact simplify_pb_saturated_refuted. Qed.
Print Assumptions C02_simplifyPB_saturated_refuted.

Theorem C02_simplifyPB_saturated_partial : forall c us r,
  simplify_pb c = Some (us, Some r) ->
  exists ust t rest,
    terms c = ust ++ t :: rest /\ us = map snd ust /\
    degree r = degree c - zsum (map fst ust) /\
    Permutation (terms r) ((cap (degree r) (fst t), snd t) :: rest) /\
    (Forall (fun x => fst x <= degree r) rest ->
     Forall (fun x => fst x <= degree r) (terms r)).
Proof. exact simplify_pb_saturated_partial. Qed.
Print Assumptions C02_simplifyPB_saturated_partial.

(* ---- Examples ------------------------------------------------------------ *)

(* the hypotheses are satisfiable *)
Example C02_hyps :
  length [1; -2; 3; 4; -5; 6] = length [3; -2; 0; 0; -4; 1] /\
  wf_clause [1; -2; 3; 4; -5; 6] /\
  nonneg_terms [(5, 3); (4, 2); (1, 1)] = true /\ 0 < 3.
Proof. exact (conj eq_refl (conj (wf_litsb_ok [1; -2; 3; 4; -5; 6] eq_refl) (conj eq_refl eq_refl))). Qed.

(* The values below are the ones printed by the Go constructors (gophersat at
   the pinned commit) on the same arguments:
     lits = [1 -2 3 4 -5 6], weights = [3 -2 0 0 -4 1]
     GtEq(.., 2)  = {Lits:[1 2 5 6]     Weights:[3 2 4 1] AtLeast:8}
     LtEq(.., 2)  = {Lits:[-1 -2 -5 -6] Weights:[3 2 4 1] AtLeast:2}
     Eq(.., 2)    = [the two above]
     Eq(.., -7)   = [{Lits:[-1 -2 -5 -6] Weights:[3 2 4 1] AtLeast:11}]   (GtEq has AtLeast -1: dropped)
     GtEq([1 2], [0 0], 1)       = {Lits:[] Weights:[] (non nil) AtLeast:1}
     GtEq([1 2 3], [-1 0 0], 1)  = {Lits:[-1] Weights:[1] AtLeast:2}
     GtEq([1 2], nil, 1)         = {Lits:[1 2] Weights:nil AtLeast:1}
     AtMost([1 -2 3], 1)         = {Lits:[-1 2 -3] Weights:nil AtLeast:2}
     Exactly1(1, -2, 3)          = [{Lits:[1 -2 3] AtLeast:1} {Lits:[-1 2 -3] AtLeast:2}] *)
Example C02_go_gteq :
  gt_eq [1; -2; 3; 4; -5; 6] [3; -2; 0; 0; -4; 1] 2 = GoPB [1; 2; 5; 6] (Some [3; 2; 4; 1]) 8.
Proof. vm_compute. reflexivity. Qed.

Example C02_go_lteq :
  lt_eq [1; -2; 3; 4; -5; 6] [3; -2; 0; 0; -4; 1] 2 = GoPB [-1; -2; -5; -6] (Some [3; 2; 4; 1]) 2.
Proof. vm_compute. reflexivity. Qed.

Example C02_go_eq2 :
  eq_ [1; -2; 3; 4; -5; 6] [3; -2; 0; 0; -4; 1] 2 =
  [GoPB [1; 2; 5; 6] (Some [3; 2; 4; 1]) 8; GoPB [-1; -2; -5; -6] (Some [3; 2; 4; 1]) 2].
Proof. vm_compute. reflexivity. Qed.

Example C02_go_eq1 :
  eq_ [1; -2; 3; 4; -5; 6] [3; -2; 0; 0; -4; 1] (-7) =
  [GoPB [-1; -2; -5; -6] (Some [3; 2; 4; 1]) 11].
Proof. vm_compute. reflexivity. Qed.

Example C02_go_gteq_idx :
  gt_eq_idx 6 0 [1; -2; 3; 4; -5; 6] [3; -2; 0; 0; -4; 1] 2 = ([1; 2; 5; 6], [3; 2; 4; 1], 8).
Proof. vm_compute. reflexivity. Qed.

Example C02_go_gteq_allzero : gt_eq [1; 2] [0; 0] 1 = GoPB [] (Some []) 1.
Proof. vm_compute. reflexivity. Qed.

Example C02_go_gteq_trailing : gt_eq [1; 2; 3] [-1; 0; 0] 1 = GoPB [-1] (Some [1]) 2.
Proof. vm_compute. reflexivity. Qed.

Example C02_go_gteq_nil : gt_eq [1; 2] [] 1 = GoPB [1; 2] None 1.
Proof. vm_compute. reflexivity. Qed.

Example C02_go_atmost : at_most [1; -2; 3] 1 = GoPB [-1; 2; -3] None 2.
Proof. vm_compute. reflexivity. Qed.

Example C02_go_exactly1 :
  exactly1 [1; -2; 3] = [GoCard [1; -2; 3] 1; GoCard [-1; 2; -3] 2].
Proof. vm_compute. reflexivity. Qed.

(* PBConstr{[1 2 3], [1 4 5], 3}.Clause() prints "3 x2 +3 x3 +1 x1 >= 3" *)
Example C02_go_clause :
  pb_clause (GoPB [1; 2; 3] (Some [1; 4; 5]) 3) = Some (PBC [(3, 2); (3, 3); (1, 1)] 3).
Proof. vm_compute. reflexivity. Qed.

(* SimplifyPB, Go output on the same clauses:
     5 x3 +4 x2 +1 x1 >= 3              -> units [] , 4 x2 +3 x3 +1 x1 >= 3   (4 > 3: not saturated)
     6 x1 +3 x2 +2 x3 +1 x4 >= 8        -> units [1], 2 x2 +2 x3 +1 x4 >= 2
     6 x1 +3 x2 +2 x3 +1 x4 >= 13       -> ok = false
     20 x1 +7 x2 +6 x3 +5 x4 +1 x5 >= 25 -> units [1], 6 x3 +5 x2 +5 x4 +1 x5 >= 5 *)
Example C02_go_simplify1 :
  simplify_pb (PBC [(5, 3); (4, 2); (1, 1)] 3) = Some ([], Some (PBC [(4, 2); (3, 3); (1, 1)] 3)).
Proof. vm_compute. reflexivity. Qed.

Example C02_go_simplify2 :
  simplify_pb (PBC [(6, 1); (3, 2); (2, 3); (1, 4)] 8) = Some ([1], Some (PBC [(2, 2); (2, 3); (1, 4)] 2)).
Proof. vm_compute. reflexivity. Qed.

Example C02_go_simplify3 : simplify_pb (PBC [(6, 1); (3, 2); (2, 3); (1, 4)] 13) = None.
Proof. vm_compute. reflexivity. Qed.

Example C02_go_simplify4 :
  simplify_pb (PBC [(20, 1); (7, 2); (6, 3); (5, 4); (1, 5)] 25) =
  Some ([1], Some (PBC [(6, 3); (5, 2); (5, 4); (1, 5)] 5)).
Proof. vm_compute. reflexivity. Qed.
