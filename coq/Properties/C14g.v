(* C14g: the cutting-planes arithmetic of /repo/solver/learn_pb.go AS WRITTEN.  Gen/GoSrc2.v is the syntactic image of
   the Go functions (regenerated from the sources on every run); the theorems below say that EXECUTING those terms
   under the semantics of Model/GoIR2.v computes what the hand-written model Model/CP.v computes, for every input,
   and compose this with the soundness theorems of Properties/C14.v.  Statements only.

   Vocabulary (Proofs/GoSrc2CP.v):
   - a [*pbSet] is [pbset_val sw sc] = VStruct [VSl sw; VSl sc]; [pbset_at h sw sc (ws, card)] says that in heap [h]
     the slice [sw] reads [ws], the one-element slice [sc] (the boxed field card) reads [[card]], both are well
     formed and live in different arrays;
   - a [*Solver] is a struct of [nfld_Solver] fields; [solver_at h vs sm st model trail] says that its fields
     [fld_Solver_model] and [fld_Solver_trail] are the slices [sm], [st], reading [model] and [trail];
   - [only_wins [sw; sc] h h']: the heaps have the same arrays of the same lengths, and no cell outside the windows
     of [sw] and [sc] differs;
   - a literal is passed in the internal encoding [go_IntToLit l] of the DIMACS literal [l] (Gen/GoTypes.v). *)
From Coq Require Import List ZArith Bool String.
From GS Require Import Spec.Base Spec.PB Model.CP Proofs.CP Model.GoIR2 Gen.GoSrc2 Proofs.GoIR2 Gen.GoTypes
  Proofs.GoSrc2CP.
Import ListNotations.
Open Scope string_scope.
Open Scope Z_scope.

(* ------------------------------------------------------------------ abs, min, Lit.Var, Lit.IsPositive *)

Theorem C14g_abs : forall a h, exists fuel, forall fuel', (fuel <= fuel')%nat ->
  run go_funs fuel' "abs" [VInt a] h = OReturn (VInt (Z.abs a)) h.
Proof. exact abs_final. Qed.
Print Assumptions C14g_abs.

Theorem C14g_min : forall a b h, exists fuel, forall fuel', (fuel <= fuel')%nat ->
  run go_funs fuel' "min" [VInt a; VInt b] h = OReturn (VInt (Z.min a b)) h.
Proof. exact min_final. Qed.
Print Assumptions C14g_min.

Theorem C14g_Lit_Var : forall l h, exists fuel, forall fuel', (fuel <= fuel')%nat ->
  run go_funs fuel' "Lit.Var" [VInt l] h = OReturn (VInt (Z.quot l 2)) h.
Proof. exact Lit_Var_final. Qed.
Print Assumptions C14g_Lit_Var.

Theorem C14g_Lit_IsPositive : forall l h, exists fuel, forall fuel', (fuel <= fuel')%nat ->
  run go_funs fuel' "Lit.IsPositive" [VInt l] h = OReturn (VBool (Z.rem l 2 =? 0)) h.
Proof. exact Lit_IsPositive_final. Qed.
Print Assumptions C14g_Lit_IsPositive.

(* on the encoding of the DIMACS literal i: the 0-based variable |i| - 1 and the sign *)
Theorem C14g_Lit_Var_IntToLit : forall i h, i <> 0 -> exists fuel, forall fuel', (fuel <= fuel')%nat ->
  run go_funs fuel' "Lit.Var" [VInt (go_IntToLit i)] h = OReturn (VInt (Z.abs i - 1)) h.
Proof. exact Lit_Var_IntToLit_final. Qed.
Print Assumptions C14g_Lit_Var_IntToLit.

Theorem C14g_Lit_IsPositive_IntToLit : forall i h, i <> 0 -> exists fuel, forall fuel', (fuel <= fuel')%nat ->
  run go_funs fuel' "Lit.IsPositive" [VInt (go_IntToLit i)] h = OReturn (VBool (0 <? i)) h.
Proof. exact Lit_IsPositive_IntToLit_final. Qed.
Print Assumptions C14g_Lit_IsPositive_IntToLit.

(* ------------------------------------------------------------------ pbSet.divideBy *)

Theorem C14g_divideBy_refines : forall h sw sc ws card c, c <> 0 -> pbset_at h sw sc (ws, card) ->
  exists h',
    (exists fuel, forall fuel', (fuel <= fuel')%nat ->
       run go_funs fuel' "pbSet.divideBy" [pbset_val sw sc; VInt c] h = OReturn (VInt 0) h') /\
    only_wins [sw; sc] h h' /\ pbset_at h' sw sc (divide_by c (ws, card)).
Proof. exact divideBy_final. Qed.
Print Assumptions C14g_divideBy_refines.

(* coeff = 0: always a panic (wj % 0 at the first non-zero weight, card % 0 when there is none) *)
Theorem C14g_divideBy_zero_panics : forall h sw sc ws card, pbset_at h sw sc (ws, card) ->
  exists fuel, forall fuel', (fuel <= fuel')%nat ->
    run go_funs fuel' "pbSet.divideBy" [pbset_val sw sc; VInt 0] h = OPanic.
Proof. exact divideBy_zero_final. Qed.
Print Assumptions C14g_divideBy_zero_panics.

(* ------------------------------------------------------------------ pbSet.clash *)

(* pb2 at least as long as pb1 (the model ignores the extra weights of pb2, as the Go code does) *)
Theorem C14g_clash_refines : forall h sw1 sc1 sw2 sc2 ws1 c1 ws2 c2 vs,
  pbset_at h sw1 sc1 (ws1, c1) -> pbset_at h sw2 sc2 (ws2, c2) ->
  s_arr sw1 <> s_arr sw2 -> s_arr sw1 <> s_arr sc2 -> s_arr sc1 <> s_arr sw2 -> s_arr sc1 <> s_arr sc2 ->
  (List.length ws1 <= List.length ws2)%nat ->
  exists h',
    (exists fuel, forall fuel', (fuel <= fuel')%nat ->
       run go_funs fuel' "pbSet.clash" [pbset_val sw1 sc1; vs; pbset_val sw2 sc2] h = OReturn (VInt 0) h') /\
    only_wins [sw1; sc1] h h' /\
    pbset_at h' sw1 sc1 (clash (ws1, c1) (ws2, c2)) /\ pbset_at h' sw2 sc2 (ws2, c2).
Proof. exact clash_final. Qed.
Print Assumptions C14g_clash_refines.

(* pb2 shorter than pb1: index out of range *)
Theorem C14g_clash_short_panics : forall h sw1 sc1 sw2 sc2 ws1 c1 ws2 c2 vs,
  pbset_at h sw1 sc1 (ws1, c1) -> pbset_at h sw2 sc2 (ws2, c2) ->
  s_arr sw1 <> s_arr sw2 -> s_arr sw1 <> s_arr sc2 -> s_arr sc1 <> s_arr sw2 -> s_arr sc1 <> s_arr sc2 ->
  (List.length ws2 < List.length ws1)%nat ->
  exists fuel, forall fuel', (fuel <= fuel')%nat ->
    run go_funs fuel' "pbSet.clash" [pbset_val sw1 sc1; vs; pbset_val sw2 sc2] h = OPanic.
Proof. exact clash_short_final. Qed.
Print Assumptions C14g_clash_short_panics.

(* ------------------------------------------------------------------ pbSet.falsifies *)

Theorem C14g_falsifies_refines : forall h sw sc ws card l, pbset_at h sw sc (ws, card) ->
  l <> 0 -> Z.abs l <= Z.of_nat (List.length ws) ->
  exists fuel, forall fuel', (fuel <= fuel')%nat ->
    run go_funs fuel' "pbSet.falsifies" [pbset_val sw sc; VInt (go_IntToLit l)] h =
    OReturn (VBool (falsifies (ws, card) l)) h.
Proof. exact falsifies_final. Qed.
Print Assumptions C14g_falsifies_refines.

(* the same for any value of type Lit whose variable is in range *)
Theorem C14g_falsifies_lit_refines : forall h sw sc ws card lit, pbset_at h sw sc (ws, card) ->
  0 <= lit -> Z.quot lit 2 < Z.of_nat (List.length ws) ->
  exists fuel, forall fuel', (fuel <= fuel')%nat ->
    run go_funs fuel' "pbSet.falsifies" [pbset_val sw sc; VInt lit] h =
    OReturn (VBool (falsifies (ws, card) (go_Lit_Int lit))) h.
Proof. exact falsifies_lit_final. Qed.
Print Assumptions C14g_falsifies_lit_refines.

(* corner: the variable of the literal is beyond the weights: the Go code panics, the model answers false *)
Theorem C14g_falsifies_out_of_range_observation : forall h sw sc ws card l, pbset_at h sw sc (ws, card) ->
  l <> 0 -> Z.of_nat (List.length ws) < Z.abs l ->
  (exists fuel, forall fuel', (fuel <= fuel')%nat ->
     run go_funs fuel' "pbSet.falsifies" [pbset_val sw sc; VInt (go_IntToLit l)] h = OPanic) /\
  falsifies (ws, card) l = false.
Proof. exact falsifies_out_of_range_final_observation. Qed.
Print Assumptions C14g_falsifies_out_of_range_observation.

(* ------------------------------------------------------------------ pbSet.roundToOne *)

(* every variable present in the constraint has a cell in s.model (else s.model[j] is out of range) *)
Theorem C14g_roundToOne_refines : forall h sw sc ws card vs sm strail model trail locked lvl s',
  pbset_at h sw sc (ws, card) -> solver_at h vs sm strail model trail ->
  s_arr sm <> s_arr sw -> s_arr sm <> s_arr sc ->
  (forall j, (j < List.length ws)%nat -> nth j ws 0 <> 0 -> (j < List.length model)%nat) ->
  round_to_one model locked (ws, card) = Some s' ->
  exists h',
    (exists fuel, forall fuel', (fuel <= fuel')%nat ->
       run go_funs fuel' "pbSet.roundToOne" [pbset_val sw sc; vs; VInt (Z.of_nat locked); VInt lvl] h =
       OReturn (VInt 0) h') /\
    only_wins [sw; sc] h h' /\ pbset_at h' sw sc s'.
Proof. exact roundToOne_final. Qed.
Print Assumptions C14g_roundToOne_refines.

(* the model answers None (locked variable absent or beyond the weights): the run panics *)
Theorem C14g_roundToOne_none_panics : forall h sw sc ws card vs sm strail model trail locked lvl,
  pbset_at h sw sc (ws, card) -> solver_at h vs sm strail model trail ->
  round_to_one model locked (ws, card) = None ->
  exists fuel, forall fuel', (fuel <= fuel')%nat ->
    run go_funs fuel' "pbSet.roundToOne" [pbset_val sw sc; vs; VInt (Z.of_nat locked); VInt lvl] h = OPanic.
Proof. exact roundToOne_none_final. Qed.
Print Assumptions C14g_roundToOne_none_panics.

(* ------------------------------------------------------------------ pbSet.backtrackLevel *)

Theorem C14g_backtrackLevel_refines : forall h sw sc ws card vs sm strail model trail lit,
  pbset_at h sw sc (ws, card) -> solver_at h vs sm strail model trail ->
  0 <= lit ->
  (Z.to_nat (Z.quot lit 2) < List.length model)%nat ->
  (forall i, (i < List.length ws)%nat -> nth i ws 0 <> 0 -> i <> Z.to_nat (Z.quot lit 2) ->
             (i < List.length model)%nat) ->
  exists fuel, forall fuel', (fuel <= fuel')%nat ->
    run go_funs fuel' "pbSet.backtrackLevel" [pbset_val sw sc; vs; VInt lit] h =
    OReturn (VInt (backtrack_level model (Z.to_nat (Z.quot lit 2)) (ws, card))) h.
Proof. exact backtrackLevel_final. Qed.
Print Assumptions C14g_backtrackLevel_refines.

(* ------------------------------------------------------------------ composed with Properties/C14.v *)

(* executing the source of clash on two constraints of the same length leaves in pb1 a constraint that every
   model of both satisfies (C14_clash_sound) *)
Theorem C14g_clash_sound : forall h sw1 sc1 sw2 sc2 a b vs,
  pbset_at h sw1 sc1 a -> pbset_at h sw2 sc2 b ->
  s_arr sw1 <> s_arr sw2 -> s_arr sw1 <> s_arr sc2 -> s_arr sc1 <> s_arr sw2 -> s_arr sc1 <> s_arr sc2 ->
  List.length (fst a) = List.length (fst b) ->
  exists h' s',
    (exists fuel, forall fuel', (fuel <= fuel')%nat ->
       run go_funs fuel' "pbSet.clash" [pbset_val sw1 sc1; vs; pbset_val sw2 sc2] h = OReturn (VInt 0) h') /\
    pbset_at h' sw1 sc1 s' /\ pbset_at h' sw2 sc2 b /\ only_wins [sw1; sc1] h h' /\
    forall m, sat_pbset m a = true -> sat_pbset m b = true -> sat_pbset m s' = true.
Proof. exact clash_src_sound. Qed.
Print Assumptions C14g_clash_sound.

(* divideBy (C14_divide_sound: the degree must not lie strictly between -coeff and 0) *)
Theorem C14g_divideBy_sound : forall h sw sc s c,
  pbset_at h sw sc s -> 0 < c -> ~ (- c < snd s < 0) ->
  exists h' s',
    (exists fuel, forall fuel', (fuel <= fuel')%nat ->
       run go_funs fuel' "pbSet.divideBy" [pbset_val sw sc; VInt c] h = OReturn (VInt 0) h') /\
    pbset_at h' sw sc s' /\ only_wins [sw; sc] h h' /\
    forall m, sat_pbset m s = true -> sat_pbset m s' = true.
Proof. exact divideBy_src_sound. Qed.
Print Assumptions C14g_divideBy_sound.

(* roundToOne (C14_round_sound, side condition [round_ok]) *)
Theorem C14g_roundToOne_sound : forall h sw sc s vs sm strail model trail locked lvl s',
  pbset_at h sw sc s -> solver_at h vs sm strail model trail ->
  s_arr sm <> s_arr sw -> s_arr sm <> s_arr sc ->
  (forall j, (j < List.length (fst s))%nat -> nth j (fst s) 0 <> 0 -> (j < List.length model)%nat) ->
  round_to_one model locked s = Some s' -> round_ok model locked s ->
  exists h',
    (exists fuel, forall fuel', (fuel <= fuel')%nat ->
       run go_funs fuel' "pbSet.roundToOne" [pbset_val sw sc; vs; VInt (Z.of_nat locked); VInt lvl] h =
       OReturn (VInt 0) h') /\
    pbset_at h' sw sc s' /\ only_wins [sw; sc] h h' /\
    forall m, sat_pbset m s = true -> sat_pbset m s' = true.
Proof. exact roundToOne_src_sound. Qed.
Print Assumptions C14g_roundToOne_sound.

(* ------------------------------------------------------------------ corners: the source panics, the model answers *)

(* roundToOne: a variable present in the constraint has no cell in s.model (index out of range on s.model[j]);
   round_to_one reads a missing assignment as 0 and answers Some *)
Theorem C14g_roundToOne_short_model_observation :
  forall h sw sc ws card vs sm strail model trail locked lvl,
  pbset_at h sw sc (ws, card) -> solver_at h vs sm strail model trail ->
  s_arr sm <> s_arr sw -> s_arr sm <> s_arr sc ->
  Z.abs (nth locked ws 0) <> 0 -> Z.abs (nth locked ws 0) <> 1 ->
  (exists j, (j < List.length ws)%nat /\ nth j ws 0 <> 0 /\ (List.length model <= j)%nat) ->
  (exists fuel, forall fuel', (fuel <= fuel')%nat ->
     run go_funs fuel' "pbSet.roundToOne" [pbset_val sw sc; vs; VInt (Z.of_nat locked); VInt lvl] h = OPanic) /\
  round_to_one model locked (ws, card) <> None.
Proof. exact roundToOne_short_model_final_observation. Qed.
Print Assumptions C14g_roundToOne_short_model_observation.

(* backtrackLevel: the variable of the falsified literal has no cell in s.model: the Go code panics, the model
   reads the missing level as 0 *)
Theorem C14g_backtrackLevel_out_of_range_observation : forall h sw sc ws card vs sm strail model trail lit,
  pbset_at h sw sc (ws, card) -> solver_at h vs sm strail model trail ->
  0 <= lit -> (List.length model <= Z.to_nat (Z.quot lit 2))%nat ->
  (exists fuel, forall fuel', (fuel <= fuel')%nat ->
     run go_funs fuel' "pbSet.backtrackLevel" [pbset_val sw sc; vs; VInt lit] h = OPanic) /\
  backtrack_level model (Z.to_nat (Z.quot lit 2)) (ws, card) =
  backtrack_ws 0 (Z.to_nat (Z.quot lit 2)) 0 model ws 1.
Proof. exact backtrackLevel_out_of_range_final_observation. Qed.
Print Assumptions C14g_backtrackLevel_out_of_range_observation.

(* ------------------------------------------------------------------ pbSet.onlyFalsified
   (Model/CP.v has no model of it: [only_falsified] is defined in Proofs/GoSrc2CP.v, on the internal encoding) *)

Theorem C14g_onlyFalsified_refines : forall h sw sc ws card vs sm strail model trail ptr lvl,
  pbset_at h sw sc (ws, card) -> solver_at h vs sm strail model trail ->
  -1 <= ptr < Z.of_nat (List.length trail) ->
  (forall k, (Z.of_nat k <= ptr) -> 0 <= nth k trail 0 /\
     (Z.to_nat (Z.quot (nth k trail 0%Z) 2) < List.length model)%nat /\
     (Z.to_nat (Z.quot (nth k trail 0%Z) 2) < List.length ws)%nat) ->
  exists fuel, forall fuel', (fuel <= fuel')%nat ->
    run go_funs fuel' "pbSet.onlyFalsified" [pbset_val sw sc; vs; VInt ptr; VInt lvl] h =
    OReturn (VInt (only_falsified (ws, card) model trail ptr lvl)) h.
Proof. exact onlyFalsified_final. Qed.
Print Assumptions C14g_onlyFalsified_refines.

(* ------------------------------------------------------------------ the same on concrete arguments, by computation
   ([run_args] puts each slice argument in a fresh array and reads the arguments back from the final heap) *)

Definition ex_pb (s : pbset) : arg := AStruct [ASl (Some (fst s)); ASl (Some [snd s])].
Definition ex_pb_back (s : pbset) : rval := RStruct [RSl (fst s); RSl [snd s]].
(* a Solver whose model and trail are the given lists (the other fields are not looked at) *)
Definition ex_solver (model trail : list Z) : arg :=
  AStruct (repeat (AInt 0) fld_Solver_trail ++ [ASl (Some trail); ASl (Some model)] ++
           repeat (AInt 0) (nfld_Solver - fld_Solver_model - 1)).
Definition ex_solver_back (model trail : list Z) : rval :=
  RStruct (repeat (RInt 0) fld_Solver_trail ++ [RSl trail; RSl model] ++
           repeat (RInt 0) (nfld_Solver - fld_Solver_model - 1)).

Example C14g_ex_abs : run_args go_funs 10 "abs" [AInt (-5)] = RRet (RInt 5) [RInt (-5)].
Proof. vm_compute. reflexivity. Qed.

Example C14g_ex_min : run_args go_funs 10 "min" [AInt 4; AInt (-7)] = RRet (RInt (-7)) [RInt 4; RInt (-7)].
Proof. vm_compute. reflexivity. Qed.

Example C14g_ex_Lit : run_args go_funs 10 "Lit.Var" [AInt (go_IntToLit (-3))] = RRet (RInt 2) [RInt 5] /\
                      run_args go_funs 10 "Lit.IsPositive" [AInt (go_IntToLit (-3))] = RRet (RBool false) [RInt 5].
Proof. split; vm_compute; reflexivity. Qed.

Example C14g_ex_clash :
  let a : pbset := ([5; -3; 0; 2; 1], 6) in
  let b : pbset := ([-2; 6; 1; 2; 2], 7) in
  run_args go_funs 100 "pbSet.clash" [ex_pb a; AInt 0; ex_pb b] =
  RRet (RInt 0) [ex_pb_back (clash a b); RInt 0; ex_pb_back b] /\ clash a b = ([3; 3; 1; 4; 3], 8).
Proof. split; vm_compute; reflexivity. Qed.

Example C14g_ex_clash_short :
  run_args go_funs 100 "pbSet.clash" [ex_pb ([5; -3; 0], 6); AInt 0; ex_pb ([-2; 6], 7)] = RPanic.
Proof. vm_compute. reflexivity. Qed.

Example C14g_ex_divideBy :
  let s : pbset := ([3; 3; 1; 4; -3], 8) in
  run_args go_funs 100 "pbSet.divideBy" [ex_pb s; AInt 3] = RRet (RInt 0) [ex_pb_back (divide_by 3 s); RInt 3] /\
  divide_by 3 s = ([1; 1; 1; 2; -1], 3).
Proof. split; vm_compute; reflexivity. Qed.

Example C14g_ex_divideBy_zero : run_args go_funs 100 "pbSet.divideBy" [ex_pb ([0; 0], 8); AInt 0] = RPanic.
Proof. vm_compute. reflexivity. Qed.

Example C14g_ex_roundToOne :
  let s : pbset := ([-4; 3; -6], 7) in
  run_args go_funs 100 "pbSet.roundToOne" [ex_pb s; ex_solver [1; -2; 0] []; AInt 0; AInt 2] =
  RRet (RInt 0) [ex_pb_back ([-1; 1; 0], 1); ex_solver_back [1; -2; 0] []; RInt 0; RInt 2] /\
  round_to_one [1; -2; 0] 0 s = Some ([-1; 1; 0], 1).
Proof. split; vm_compute; reflexivity. Qed.

Example C14g_ex_roundToOne_absent :
  run_args go_funs 100 "pbSet.roundToOne" [ex_pb ([-4; 0; -6], 7); ex_solver [1; -2; 0] []; AInt 1; AInt 2] = RPanic /\
  round_to_one [1; -2; 0] 1 ([-4; 0; -6], 7) = None.
Proof. split; vm_compute; reflexivity. Qed.

Example C14g_ex_falsifies :
  let s : pbset := ([5; -3; 0; 2; 1], 6) in
  run_args go_funs 100 "pbSet.falsifies" [ex_pb s; AInt (go_IntToLit 2)] =
    RRet (RBool (falsifies s 2)) [ex_pb_back s; RInt 2] /\ falsifies s 2 = true /\
  run_args go_funs 100 "pbSet.falsifies" [ex_pb s; AInt (go_IntToLit (-1))] =
    RRet (RBool (falsifies s (-1))) [ex_pb_back s; RInt 1] /\ falsifies s (-1) = true /\
  run_args go_funs 100 "pbSet.falsifies" [ex_pb s; AInt (go_IntToLit 3)] =
    RRet (RBool false) [ex_pb_back s; RInt 4] /\
  run_args go_funs 100 "pbSet.falsifies" [ex_pb s; AInt (go_IntToLit 6)] = RPanic /\ falsifies s 6 = false.
Proof. repeat split; vm_compute; reflexivity. Qed.

Example C14g_ex_backtrackLevel :
  let s : pbset := ([5; -3; 0; 2; 1], 6) in
  let model := [3; -2; 7; -5; 1] in
  run_args go_funs 100 "pbSet.backtrackLevel" [ex_pb s; ex_solver model []; AInt (go_IntToLit (-4))] =
    RRet (RInt (backtrack_level model 3 s)) [ex_pb_back s; ex_solver_back model []; RInt 7] /\
  backtrack_level model 3 s = 3.
Proof. split; vm_compute; reflexivity. Qed.

Example C14g_ex_roundToOne_short_model :
  run_args go_funs 100 "pbSet.roundToOne" [ex_pb ([-4; 3; -6], 7); ex_solver [1; -2] []; AInt 0; AInt 2] = RPanic /\
  round_to_one [1; -2] 0 ([-4; 3; -6], 7) = Some ([-1; 1; 0], 1).
Proof. split; vm_compute; reflexivity. Qed.

Example C14g_ex_onlyFalsified :
  let s : pbset := ([5; -3; 0; 2; 1], 6) in
  let model := [3; -3; 3; -2; 3] in
  let trail := [go_IntToLit (-4); go_IntToLit 3; go_IntToLit 2; go_IntToLit 1] in
  run_args go_funs 100 "pbSet.onlyFalsified" [ex_pb s; ex_solver model trail; AInt 3; AInt 3] =
    RRet (RInt (only_falsified s model trail 3 3)) [ex_pb_back s; ex_solver_back model trail; RInt 3; RInt 3] /\
  only_falsified s model trail 3 3 = go_IntToLit 2.
Proof. split; vm_compute; reflexivity. Qed.
