(* C11 -- bf.Solve agrees with the truth table.
   Statements only; proofs in Proofs/Bf.v, model in Model/Bf.v. *)
From Coq Require Import List ZArith Bool String.
From GS Require Import Spec.Base Spec.PB Spec.Solver Model.Bf Proofs.Bf.
Import ListNotations.
Local Open Scope string_scope.
Open Scope Z_scope.

(* nnf() preserves the standard semantics (all node types, constants, empty
   and singleton And/Or, double negation, exactly-one groups at both
   polarities) under every assignment that gives the auxiliary variables of
   the groups of more than 4 variables the value of their definition ... *)
Theorem C11_nnf : forall f env, consistentb env (fdefs f) = true ->
  eval env (nnf f) = eval env f.
Proof. exact nnf_eval. Qed.
Print Assumptions C11_nnf.

(* ... which any assignment can be made to do by changing it on auxiliary
   variables only ... *)
Theorem C11_nnf_extend : forall f e0, exists env,
  (forall v, vdummy v = false -> env v = e0 v) /\ consistentb env (fdefs f) = true.
Proof. exact fdefs_extend. Qed.
Print Assumptions C11_nnf_extend.

(* ... under every assignment when the formula has no exactly-one group ... *)
Theorem C11_nnf_core : forall f env, no_unique f = true -> eval env (nnf f) = eval env f.
Proof. exact nnf_eval_core. Qed.
Print Assumptions C11_nnf_core.

(* ... and in one direction under every assignment: the auxiliary variables are
   only used where the group must hold (a negated group is encoded pairwise). *)
Theorem C11_nnf_sound : forall f env, eval env (nnf f) = true -> eval env f = true.
Proof. exact nnf_sound. Qed.
Print Assumptions C11_nnf_sound.

(* nnf() returns a constant or a formula made of literals, And, Or with no And
   directly in an And, no Or directly in an Or, at least two operands. *)
Theorem C11_nnf_shape : forall f, is_nnf (nnf f) = true.
Proof. exact nnf_shape. Qed.
Print Assumptions C11_nnf_shape.

(* ... on which cnfRec does not panic. *)
Theorem C11_nnf_no_panic : forall f, cnf_ok (nnf f) = true.
Proof. exact nnf_cnf_ok. Qed.
Print Assumptions C11_nnf_no_panic.

(* The second normalisation pass of not.nnf (bf.go:170,176) is the identity, and
   the literal mirror with that pass computes [nnf]. *)
Theorem C11_nnf_idem : forall f neg, nnf (nnfp neg f) = nnfp neg f.
Proof. exact nnf_idem. Qed.
Print Assumptions C11_nnf_idem.

Theorem C11_nnf_go : forall f k, no_unique f = true -> (2 * depth f < k)%nat ->
  nnf_go k f = Some (nnf f).
Proof. exact nnf_go_nnf. Qed.
Print Assumptions C11_nnf_go.

(* The formulas built with the public constructors satisfy the side condition
   of the AST-level theorems (no variable named like a dummy-k variable). *)
Theorem C11_desugar_ok : forall s, fv_okb (desugar s) = true.
Proof. exact fv_okb_desugar. Qed.
Print Assumptions C11_desugar_ok.

(* asCnf, AST level. *)
Theorem C11_cnf_complete_form : forall f, fv_okb f = true -> forall env,
  consistentb env (fdefs f) = true -> eval env f = true ->
  exists m, List.length m = List.length (v_all (c_vars (as_cnf f))) /\
            sat_cnf m (c_clauses (as_cnf f)) = true /\
            forall v i, tbl_get (v_all (c_vars (as_cnf f))) v = Some i ->
                        tseitin_name v = false -> var_val m i = env v.
Proof. exact cnf_complete_formb. Qed.
Print Assumptions C11_cnf_complete_form.

Theorem C11_cnf_sound_form : forall f, fv_okb f = true -> forall m dflt,
  sat_cnf m (c_clauses (as_cnf f)) = true -> eval (env_of (as_cnf f) m dflt) f = true.
Proof. exact cnf_sound_formb. Qed.
Print Assumptions C11_cnf_sound_form.

(* asCnf, public API level: no hypothesis. *)
Theorem C11_cnf_complete : forall s env, seval env s = true ->
  exists m, List.length m = List.length (v_all (c_vars (as_cnf (desugar s)))) /\
            sat_cnf m (c_clauses (as_cnf (desugar s))) = true /\
            forall n i, tbl_get (v_all (c_vars (as_cnf (desugar s)))) (pb_var n) = Some i ->
                        var_val m i = env n.
Proof. exact cnf_complete. Qed.
Print Assumptions C11_cnf_complete.

Theorem C11_cnf_sound : forall s m dflt,
  sat_cnf m (c_clauses (as_cnf (desugar s))) = true ->
  seval (names_of (as_cnf (desugar s)) m dflt) s = true.
Proof. exact cnf_sound. Qed.
Print Assumptions C11_cnf_sound.

(* Two exactly-one groups of a formula that share an auxiliary variable define
   it identically (was refuted before the names were quoted, bf.go:374-381). *)
Theorem C11_clash_free : forall s, clash_free s = true.
Proof. exact clash_free_all. Qed.
Print Assumptions C11_clash_free.

(* Solve, over any decision procedure satisfying the contract of Spec/Solver.v:
   no model exactly when the formula is false under every assignment; otherwise
   the returned assignment, completed arbitrarily, makes the formula true. *)
Theorem C11_solve : forall solve, solver_ok solve -> forall s,
  match bf_solve solve (desugar s) with
  | None => forall env, seval env s = false
  | Some mp => forall dflt, seval (complete mp dflt) s = true
  end.
Proof. exact solve_correct. Qed.
Print Assumptions C11_solve.

Theorem C11_solve_ref : forall s,
  match solve_ref (desugar s) with
  | None => forall env, seval env s = false
  | Some mp => forall dflt, seval (complete mp dflt) s = true
  end.
Proof. exact solve_ref_correct. Qed.
Print Assumptions C11_solve_ref.

(* The result binds exactly the named variables that survive constant folding,
   once each: the Go map does not depend on the iteration order and no auxiliary
   variable can hide a user variable (was refuted before bf.go:458). *)
Theorem C11_solve_bindings : forall solve s mp, bf_solve solve (desugar s) = Some mp ->
  NoDup (map fst mp) /\
  forall n, In n (map fst mp) <-> In (pb_var n) (fvars (nnf (desugar s))).
Proof. exact solve_bindingsb. Qed.
Print Assumptions C11_solve_bindings.

(* Eval on a map that binds every name of the formula is the standard semantics. *)
Theorem C11_eval_go : forall m f,
  (forall v, In v (fvars f) -> assoc_str m (vname v) <> None) ->
  eval_go m f = Some (eval (env_map m) f).
Proof. exact eval_go_eval. Qed.
Print Assumptions C11_eval_go.

(* Examples (every connective; groups of 6 names in positive and negative
   positions, under Eq and Xor). *)
Definition C11_ex2 : sform :=
  SAnd [SOr [SVar "x"; SUnique ["a"; "b"; "c"; "d"; "e"; "f"]];
        SImplies (SVar "x") (SNot (SVar "a"));
        SEq (SVar "y") (SUnique ["a"; "b"; "c"; "d"; "e"]);
        SXor (SVar "x") (SNot (SUnique ["d"; "e"]))].

Example C11_ex2_hyps : fv_okb (desugar C11_ex2) = true /\ positive_unique C11_ex2 = false.
Proof. vm_compute. repeat split. Qed.

Example C11_ex2_solve : exists mp, solve_ref (desugar C11_ex2) = Some mp /\
  seval (complete mp (fun _ => false)) C11_ex2 = true /\
  seval (complete mp (fun _ => true)) C11_ex2 = true.
Proof. eexists. vm_compute. repeat split. Qed.

Example C11_and_empty : solve_ref (desugar (SAnd [])) = Some [].
Proof. vm_compute. reflexivity. Qed.

Example C11_or_empty : solve_ref (desugar (SOr [])) = None.
Proof. vm_compute. reflexivity. Qed.

(* The witnesses of the three former findings now behave (same answers as the
   real bf.Solve at ac47465). *)
Example C11_neg_unique_fixed : solve_ref (desugar neg_unique_witness) = None.
Proof. vm_compute. reflexivity. Qed.

Example C11_neg_unique_fixed2 :
  let s := SNot (SUnique ["a"; "b"; "c"; "d"; "e"]) in
  exists mp, solve_ref (desugar s) = Some mp /\
             exactly_one (map (complete mp (fun _ => false)) ["a"; "b"; "c"; "d"; "e"]) = false.
Proof. eexists. vm_compute. split; reflexivity. Qed.

Example C11_clash_fixed :
  solve_ref (desugar clash_witness) =
  Some [("a-b", true); ("c", false); ("d", false); ("e", false); ("f", false);
        ("a", false); ("b-c", true)].
Proof. vm_compute. reflexivity. Qed.

Example C11_name_clash_fixed :
  solve_ref (desugar name_clash_witness) =
  Some [("line-0-a-b-c-d-e", true); ("d", true); ("a", false); ("b", false);
        ("c", false); ("e", false)].
Proof. vm_compute. reflexivity. Qed.

(* D14's shape: or-in-and-in-or; numbering and clause order of asCnf *)
Example C11_as_cnf_nested :
  as_cnf (desugar (SAnd [SNot (SVar "c"); SNot (SVar "e");
            SOr [SVar "a"; SAnd [SVar "b"; SOr [SVar "c"; SAnd [SVar "d"; SVar "e"]]]]]))
  = BfCnf (Vars [(pb_var "c", 1); (pb_var "e", 2); (pb_var "a", 3); (dummy_var "dummy-4", 4);
                 (pb_var "b", 5); (dummy_var "dummy-6", 6); (pb_var "d", 7)]
                [(pb_var "c", 1); (pb_var "e", 2); (pb_var "a", 3); (pb_var "b", 5); (pb_var "d", 7)])
          [[-1]; [-2]; [5; -4]; [7; -6; -4]; [2; -6; -4]; [1; 6; -4]; [3; 4]].
Proof. vm_compute. reflexivity. Qed.
