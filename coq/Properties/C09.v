(* C09: adding constraints to a live solver.  Statements only.
   [solve] is the abstract decision procedure, [infer] the abstract top-level
   propagation / unit learning; pbc_pos = weights > 0, pbc_nonneg = weights
   >= 0, literals non-zero in both (a literal may be repeated). *)
From Coq Require Import List ZArith Bool NArith.
From GS Require Import Spec.Base Spec.PB Spec.Solver Model.Incr Proofs.Incr.
Import ListNotations.
Open Scope Z_scope.

(* propagateUnits: an already true unit is skipped, a unit contradicting a
   fact gives Unsat, the others are appended to the facts. *)
Theorem propagate_units_respects : forall us facts,
  match propagate_units facts us with
  | Some f' =>
      (exists ext, f' = facts ++ ext /\ (forall u, In u ext -> In u us)) /\
      (forall m, forallb (lit_val m) f' =
                 forallb (lit_val m) facts && forallb (lit_val m) us)
  | None => forall m, forallb (lit_val m) facts && forallb (lit_val m) us = false
  end.
Proof. exact propagate_units_spec. Qed.
Print Assumptions propagate_units_respects.

(* AppendClause with weights >= 0 is NOT an equivalence ... *)
Theorem append_clause_equiv_refuted : exists st c m,
  pbc_nonneg c /\ state_models st m /\ sat_pbc m c = true /\
  ~ state_models (add_constraint infer_none st c) m.
Proof. exact add_constraint_equiv_refuted. Qed.
Print Assumptions append_clause_equiv_refuted.

(* ... it is one with weights > 0 (for every m, whatever its length) ... *)
Theorem append_clause_equiv_partial :
  forall infer, infer_ok infer ->
  forall st c m, pbc_pos c ->
    (state_models (add_constraint infer st c) m <-> state_models st m /\ sat_pbc m c = true).
Proof. exact add_constraint_equiv. Qed.
Print Assumptions append_clause_equiv_partial.

(* ... and with weights >= 0 it is still sound. *)
Theorem append_clause_sound :
  forall infer, infer_ok infer ->
  forall st c m, pbc_nonneg c ->
    state_models (add_constraint infer st c) m -> state_models st m /\ sat_pbc m c = true.
Proof. exact add_constraint_sound. Qed.
Print Assumptions append_clause_sound.

(* With weights >= 0 a history can answer differently from fresh solvers ... *)
Theorem C09_history_refuted : exists n base ops,
  problem_ok n base /\ ops_ok pbc_nonneg ops /\
  map is_some (run ref_solve infer_none (init infer_none n base) ops)
  <> fresh_verdicts ref_solve n base ops.
Proof. exact history_refuted. Qed.
Print Assumptions C09_history_refuted.

(* ... with weights > 0 every solve answers Sat with a model of the
   conjunction so far, or Unsat when that conjunction has no model ... *)
Theorem C09_history_partial :
  forall solve infer, solver_ok solve -> infer_ok infer ->
  forall n base ops, problem_ok n base -> ops_ok pbc_pos ops ->
    Forall2 answer_ok (run solve infer (init infer n base) ops) (spec_run n base ops).
Proof. exact history_partial. Qed.
Print Assumptions C09_history_partial.

(* ... that is, exactly as fresh solvers on the successive conjunctions. *)
Theorem C09_fresh_partial :
  forall solve infer solve', solver_ok solve -> infer_ok infer -> solver_ok solve' ->
  forall n base ops, problem_ok n base -> ops_ok pbc_pos ops ->
    map is_some (run solve infer (init infer n base) ops) = fresh_verdicts solve' n base ops.
Proof. exact fresh_partial. Qed.
Print Assumptions C09_fresh_partial.

(* Every Sat model satisfies the whole conjunction (weights >= 0 suffice). *)
Theorem C09_models :
  forall solve infer, solver_ok solve -> infer_ok infer ->
  forall n base ops, ops_ok pbc_nonneg ops ->
    Forall2 (fun out q => forall m, out = Some m ->
                            length m = fst q /\ sat_problem m (snd q) = true)
            (run solve infer (init infer n base) ops) (spec_run n base ops).
Proof. exact models_sound. Qed.
Print Assumptions C09_models.

(* Once the conjunction is unsatisfiable every later solve answers Unsat
   (weights >= 0 suffice).  run (ops1 ++ ops2) = run ops1 ++ run' ops2. *)
Theorem C09_run_app :
  forall solve infer ops1 ops2 st,
    run solve infer st (ops1 ++ ops2) =
    run solve infer st ops1 ++ run solve infer (exec solve infer st ops1) ops2.
Proof. exact run_app. Qed.
Print Assumptions C09_run_app.

Theorem C09_sticky :
  forall solve infer, solver_ok solve -> infer_ok infer ->
  forall n base ops1 ops2, problem_ok n base -> ops_ok pbc_nonneg (ops1 ++ ops2) ->
    (forall m, length m = spec_n n ops1 -> sat_problem m (base ++ added ops1) = false) ->
    Forall (fun out => out = None)
           (run solve infer (exec solve infer (init infer n base) ops1) ops2).
Proof. exact sticky. Qed.
Print Assumptions C09_sticky.

(* The hypotheses are satisfiable. *)
Example C09_hyp_solve : solver_ok ref_solve.
Proof. exact ref_solver_ok. Qed.
Example C09_hyp_infer_none : infer_ok infer_none.
Proof. exact infer_none_ok. Qed.
Example C09_hyp_infer_up : infer_ok infer_up.
Proof. exact infer_up_ok. Qed.
Print Assumptions C09_hyp_infer_up.

Example C09_hyp_ops :
  problem_okb 3 [clause_pbc [1; 2; 3]; clause_pbc [-3]] = true /\
  forallb pbc_posb [card_pbc [1; 2; 4; 4] 2; PBC [(3, 2); (2, -1); (2, 5)] 5] = true.
Proof. vm_compute. auto. Qed.

(* x1 \/ x2 \/ x3, -x3; add a cardinality constraint with a repeated literal
   over a new variable, a unit, a PB constraint that is
   immediately unit, then an immediately contradictory clause. *)
Example C09_ex_run :
  run_ref 3 [clause_pbc [1; 2; 3]; clause_pbc [-3]]
          [OSolve; OAdd (card_pbc [1; 2; 4; 4] 2); OSolve; OAdd (clause_pbc [-4]); OSolve;
           OAdd (PBC [(3, 2); (2, -1); (2, 5)] 5); OSolve; OAdd (clause_pbc [-5; -2]); OSolve; OSolve] =
  [Some [false; true; false]; Some [false; true; false; true]; Some [true; true; false; false];
   Some [true; true; false; false; true]; None; None].
Proof. vm_compute. reflexivity. Qed.

Example C09_ex_fresh :
  fresh_verdicts ref_solve 3 [clause_pbc [1; 2; 3]; clause_pbc [-3]]
          [OSolve; OAdd (card_pbc [1; 2; 4; 4] 2); OSolve; OAdd (clause_pbc [-4]); OSolve;
           OAdd (PBC [(3, 2); (2, -1); (2, 5)] 5); OSolve; OAdd (clause_pbc [-5; -2]); OSolve; OSolve] =
  [true; true; true; true; false; false].
Proof. vm_compute. reflexivity. Qed.

(* the zero-weight witness: the live solver says Unsat, a fresh one Sat *)
Example C09_ex_zero_weight :
  run ref_solve infer_none (init infer_none 2 [])
      [OAdd (PBC [(1, 1); (0, 2)] 1); OAdd (clause_pbc [-2]); OSolve] = [None] /\
  fresh_verdicts ref_solve 2 []
      [OAdd (PBC [(1, 1); (0, 2)] 1); OAdd (clause_pbc [-2]); OSolve] = [true].
Proof. vm_compute. auto. Qed.
