(* Soundness of the judges: an [Ok] verdict of a judge applied to (case,
   observables of the Go implementation) implies the property-level statement
   about those observables.  Statements only; proofs in Proofs/JudgeSound.v. *)
From Coq Require Import List ZArith Bool String NArith Permutation.
From GS Require Import Spec.Base Spec.PB Spec.Solver Spec.URef.
From GS Require Import Judge.Sx Judge.JCommon Judge.J01 Judge.J03 Judge.J04 Judge.J05 Judge.J09 Judge.J11 Judge.J14.
From GS Require Import Model.Rup Proofs.Solve Proofs.JudgeSound.
Import ListNotations.
Open Scope Z_scope.
Open Scope list_scope.

(* ---- C01 / C02 / C14: one Solve ---------------------------------------- *)

Theorem J_solve_sound : forall n P vd m i,
  judge_solve n P vd m = Ok i ->
  (vd = 1 /\ List.length m = n /\ sat_uproblem m P = true) \/
  (vd = 2 /\ forall m', List.length m' = n -> sat_uproblem m' P = false).
Proof. exact judge_solve_sound. Qed.
Print Assumptions J_solve_sound.

Theorem J_solve_complete : forall n P vd m,
  solve_correct n P vd m -> exists i, judge_solve n P vd m = Ok i.
Proof. exact judge_solve_complete. Qed.
Print Assumptions J_solve_complete.

Theorem J_solve_case_sound : forall pb st vd ms n P m i,
  duproblem pb = Some (n, P) -> dbools ms = Some m ->
  judge_solve_case (L [pb; L [I st; I vd; ms]]) = Ok i ->
  maxvar_uproblem P <= Z.of_nat n /\ Forall wf_uc P /\ solve_correct n P vd m.
Proof. exact judge_solve_case_sound. Qed.
Print Assumptions J_solve_case_sound.

(* an Unsat verdict over n variables excludes models of every length *)
Theorem J_unsat_any_length : forall n P, Forall wf_uc P -> maxvar_uproblem P <= Z.of_nat n ->
  (forall m, List.length m = n -> sat_uproblem m P = false) -> forall m, sat_uproblem m P = false.
Proof. exact unsat_any_length. Qed.
Print Assumptions J_unsat_any_length.

(* ---- C03: optimum ------------------------------------------------------- *)

Theorem J_opt_sound : forall n P c vd w m i,
  judge_opt n P c vd w m = Ok i ->
  (vd = 2 /\ w = -1 /\ forall m', List.length m' = n -> sat_uproblem m' P = false) \/
  (vd = 1 /\ List.length m = n /\ sat_uproblem m P = true /\ cost_of m c = w /\
   forall m', List.length m' = n -> sat_uproblem m' P = true -> w <= cost_of m' c).
Proof. exact judge_opt_sound. Qed.
Print Assumptions J_opt_sound.

Theorem J_C03_sound : forall pb cts st vd w ms n P c m i,
  duproblem pb = Some (n, P) -> omap dterm cts = Some c -> dbools ms = Some m ->
  judge_C03 (L [L [pb; L cts]; L [I st; I vd; I w; ms]]) = Ok i ->
  Z.max (maxvar_uproblem P) (maxvar_terms c) <= Z.of_nat n /\ opt_correct n P c vd w m.
Proof. exact judge_C03_sound. Qed.
Print Assumptions J_C03_sound.

(* ---- C05: counting and enumeration -------------------------------------- *)

Theorem J_C05_sound : forall pb st cnt en closed ms n P models i,
  duproblem pb = Some (n, P) -> omap dbools ms = Some models ->
  judge_C05 (L [pb; L [I st; I cnt; I en; I closed; L ms]]) = Ok i ->
  maxvar_uproblem P <= Z.of_nat n /\
  Permutation models (filter (fun m => sat_uproblem m P) (all_models n)) /\
  cnt = Z.of_nat (List.length models) /\ en = Z.of_nat (List.length models) /\ closed = 1.
Proof. exact judge_C05_sound. Qed.
Print Assumptions J_C05_sound.

(* ---- C04: MaxSAT -------------------------------------------------------- *)

Theorem J_maxsat_opt_spec : forall n cs,
  maxsat_opt n cs = min_cost n (fun m => sat_uproblem m (hard_of cs)) (fun m => violated m (soft_of cs)).
Proof. exact maxsat_opt_spec. Qed.
Print Assumptions J_maxsat_opt_spec.

Theorem J_C04_sound : forall nn cs st vd cst ms keysok n cs' m i,
  dnat nn = Some n -> omap dwuc cs = Some cs' -> dbools ms = Some m ->
  judge_C04 (L [L [nn; L cs]; L [I st; I vd; I cst; ms; I keysok]]) = Ok i ->
  maxvar_uproblem (map snd cs') <= Z.of_nat n /\
  (forall wc, In wc cs' -> 0 <= fst wc) /\
  ((vd = 2 /\ forall m', List.length m' = n -> sat_uproblem m' (hard_of cs') = false) \/
   (vd = 1 /\ List.length m = n /\ sat_uproblem m (hard_of cs') = true /\
    violated m (soft_of cs') = cst /\
    forall m', List.length m' = n -> sat_uproblem m' (hard_of cs') = true ->
               cst <= violated m' (soft_of cs'))) /\
  (vd = 1 -> keysok = 1) /\
  (vd = 2 <-> forall m', List.length m' = n -> sat_uproblem m' (hard_of cs') = false).
Proof. exact judge_C04_sound. Qed.
Print Assumptions J_C04_sound.

(* ---- C09 / C10: histories ----------------------------------------------- *)

Theorem J_history_sound : forall ops n P dead ans k i,
  judge_history n P dead ops ans k = Ok i ->
  Forall wf_uc P -> Forall wf_hop ops -> maxvar_uproblem P <= Z.of_nat n ->
  (dead = true -> forall m, sat_uproblem m P = false) ->
  history_correct n P ops ans /\ sticky dead ops ans.
Proof. exact judge_history_sound. Qed.
Print Assumptions J_history_sound.

Theorem J_C09_sound : forall pb ops st answers n P ops' ans i,
  duproblem pb = Some (n, P) -> omap dhop ops = Some ops' -> omap danswer answers = Some ans ->
  judge_C09 (L [L [pb; L ops]; L (I st :: answers)]) = Ok i ->
  history_correct n P ops' ans /\ sticky false ops' ans.
Proof. exact judge_C09_sound. Qed.
Print Assumptions J_C09_sound.

Theorem J_rounds_sound : forall rounds n P ans k i,
  judge_rounds n P rounds ans k = Ok i -> Forall2 (round_correct n P) rounds ans.
Proof. exact judge_rounds_sound. Qed.
Print Assumptions J_rounds_sound.

Theorem J_C10_sound : forall pb rounds st answers n P rs ans i,
  duproblem pb = Some (n, P) -> dZss rounds = Some rs -> omap danswer answers = Some ans ->
  judge_C10 (L [L [pb; rounds]; L (I st :: answers)]) = Ok i ->
  maxvar_uproblem P <= Z.of_nat n /\ Forall2 (round_correct n P) rs ans.
Proof. exact judge_C10_sound. Qed.
Print Assumptions J_C10_sound.

(* ---- C14: learned constraints are entailed ------------------------------ *)

Theorem J_entailed_sound : forall n P c, entailed n P c = true ->
  forall m, List.length m = n -> sat_uproblem m P = true -> sat_uc m c = true.
Proof. exact entailed_sound. Qed.
Print Assumptions J_entailed_sound.

Theorem J_C14_sound : forall pb st vd ms learned n P m ls i,
  duproblem pb = Some (n, P) -> dbools ms = Some m -> omap duc learned = Some ls ->
  judge_C14 (L [pb; L [I st; I vd; ms; L learned]]) = Ok i ->
  solve_correct n P vd m /\
  forall c, In c ls -> forall m', List.length m' = n -> sat_uproblem m' P = true -> sat_uc m' c = true.
Proof. exact judge_C14_sound. Qed.
Print Assumptions J_C14_sound.

(* ---- C12: the unit-propagation-pruned search ---------------------------- *)

Theorem J_prune_up_sound : forall n F pre, wf_cnf F -> prune_up n F pre = true ->
  forall suf, sat_cnf (rev pre ++ suf) F = false.
Proof. exact prune_up_sound. Qed.
Print Assumptions J_prune_up_sound.

Theorem J_cnf_solve_up_none : forall n F, wf_cnf F -> cnf_solve_up n F = None ->
  forall m, List.length m = n -> sat_cnf m F = false.
Proof. exact cnf_solve_up_none. Qed.
Print Assumptions J_cnf_solve_up_none.

Theorem J_cnf_solve_up_some : forall n F m, cnf_solve_up n F = Some m ->
  List.length m = n /\ sat_cnf m F = true.
Proof. exact cnf_solve_up_some. Qed.
Print Assumptions J_cnf_solve_up_some.

Theorem J_export_has_model_spec : forall nb F names env,
  wf_cnf F -> (forall p, In p names -> snd p <> 0) ->
  (export_has_model nb F names env = true <->
   exists m, List.length m = nb /\ sat_cnf m F = true /\
             forall p, In p names -> var_val env (fst p) = lit_val m (snd p)).
Proof. exact export_has_model_spec. Qed.
Print Assumptions J_export_has_model_spec.

(* ---- the hypotheses are satisfiable ------------------------------------- *)

Example J_ex_solve : judge_solve 2 [UC [(1, 1); (1, 2)] Ge 1] 1 [true; false] = Ok [1].
Proof. exact ex_judge_solve. Qed.
Example J_ex_opt : judge_opt 2 [UC [(1, 1); (1, 2)] Ge 1] [(3, 1); (2, 2)] 1 2 [false; true] = Ok [1; 2].
Proof. exact ex_judge_opt. Qed.
Example J_ex_history :
  judge_history 2 [UC [(1, 1); (1, 2)] Ge 1] false [HSolve; HAdd (UC [(1, 1)] Le 0); HAdd (UC [(1, 2)] Le 0); HSolve; HSolve]
                [(1, [true; false]); (2, []); (2, [])] 0 = Ok [3].
Proof. exact ex_judge_history. Qed.
Example J_ex_entailed : entailed 2 [UC [(1, 1); (1, 2)] Ge 2] (UC [(1, 1)] Ge 1) = true.
Proof. exact ex_entailed. Qed.
Example J_ex_prune_up : prune_up 3 [[1; 2]; [-1; 3]; [-3]] [true] = true /\ wf_cnf [[1; 2]; [-1; 3]; [-3]].
Proof. exact ex_prune_up. Qed.
