(* The whole run of the search loop of /repo, observed at its tracing points and replayed by Judge/J22.v on the
   transition system of Model/Search.v.  An Ok of the judge means that the observed run IS a run of that system ending
   with the observed answer, and Properties/C01c.v says what such an answer is worth.
   Statements only; proofs in Proofs/TraceSound.v. *)
From Coq Require Import List ZArith Bool String.
From GS Require Import Spec.Base Spec.PB Judge.Sx Judge.JCommon Model.Learn Model.Search Judge.J21 Judge.J22.
From GS Require Import Proofs.Learn Proofs.Search Proofs.TraceSound.
Import ListNotations.
Open Scope Z_scope.

(* the judge accepts only with a command list that Model.Search.replay runs to the observed answer *)
Theorem J_trace_replay : forall P n units assumed r vd m tr nsn a b c,
  finish_trace P n units assumed r vd m tr nsn = Ok [a; b; c] ->
  exists ks cf, replay P n units assumed ks = Some cf /\
    ((c = 1 /\ vd = 1 /\ cf = Final (ASat m)) \/
     (c = 2 /\ vd = 2 /\ cf = Final AUnsat) \/
     (c = 0 /\ tr = true /\ exists s, cf = Running s)).
Proof. exact finish_trace_replay. Qed.
Print Assumptions J_trace_replay.

(* an accepted Unsat run: the problem handed to the search (original constraints and unit facts) has no model *)
Theorem J_trace_unsat : forall P n units r vd m tr nsn a b,
  finish_trace P n units [] r vd m tr nsn = Ok [a; b; 2] ->
  vd = 2 /\ forall m' : model, sat_problem m' P = false.
Proof. exact finish_trace_unsat. Qed.
Print Assumptions J_trace_unsat.

(* an accepted Sat run: the model the implementation returned has one value per variable and satisfies the problem *)
Theorem J_trace_sat : forall P n units assumed r vd m tr nsn a b,
  vars_inb n P = true ->
  finish_trace P n units assumed r vd m tr nsn = Ok [a; b; 1] ->
  vd = 1 /\ List.length m = n /\ sat_problem m P = true.
Proof. exact finish_trace_sat. Qed.
Print Assumptions J_trace_sat.

(* under assumptions the accepted Unsat run is a run of the model from the assumed literals (then C01c_unsat_sound_assume
   applies: every model of the problem falsifies an assumed literal) *)
Theorem J_trace_unsat_assume : forall P n units assumed r vd m tr nsn a b,
  finish_trace P n units assumed r vd m tr nsn = Ok [a; b; 2] ->
  vd = 2 /\ exists ks, replay P n units assumed ks = Some (Final AUnsat).
Proof. exact finish_trace_unsat_assume. Qed.
Print Assumptions J_trace_unsat_assume.
