(* C16 (the part a model can carry): independent goroutines do not interfere,
   and the channel hand-over of explain.UnsatSubset is race free.
   Model: Model/Chan.v, proofs: Proofs/Chan.v. *)
From Coq Require Import List ZArith.
From GS Require Import Model.Chan Proofs.Chan.
Import ListNotations.

(* Goroutines with pairwise disjoint footprints (channels C t, cells K t):
   under EVERY schedule, goroutine t ends in the state -- code and list of
   observations -- it reaches when it runs alone under the same schedule.
   (If another goroutine panics the whole program stops: then the claim is for
   a goroutine that had finished.) *)
Theorem C16_frame : forall C K s t sched,
  disjoint_footprints C K s ->
  let s' := run sched s in
  let a' := run sched (alone t s) in
  (finished (getthread s' t) = true -> getthread a' t = getthread s' t) /\
  (panic s' = false -> getthread a' t = getthread s' t).
Proof. exact frame. Qed.
Print Assumptions C16_frame.

(* explain.UnsatSubset as coded now, for every certificate, every early-return
   predicate of the checker and every schedule: no panic, every two
   conflicting accesses of the execution are ordered by happens-before, the
   run can always be completed, every fair schedule completes it, and at the
   end both goroutines have finished and the caller holds the solver's status. *)
Theorem C16_hb_unsat_subset : forall lines st brk sched,
  let s0 := us_new_sys lines st brk in
  let s := run sched s0 in
  panic s = false /\ race_free (trace s) /\
  (quiescent s -> us_done st s) /\
  (exists sched', quiescent (run sched' s)) /\
  (forall sched', rounds 2 (mu_us s) sched' -> quiescent (run sched' s)).
Proof. exact hb_unsat_subset. Qed.
Print Assumptions C16_hb_unsat_subset.

(* the program before the fix: an execution with a write and a read of the
   status that happens-before does not order *)
Theorem C16_hb_unsat_subset_old_refuted :
  exists lines st brk sched,
    let tr := trace (run sched (us_old_sys lines st brk)) in
    ~ race_free tr /\
    exists i j a b, i < j /\ nth_error tr i = Some a /\ nth_error tr j = Some b /\
                    conflict a b = true /\ ~ hb tr i j /\ ~ hb tr j i.
Proof. exact hb_unsat_subset_old_refuted. Qed.
Print Assumptions C16_hb_unsat_subset_old_refuted.

(* ... and an execution that leaves the solving goroutine blocked for ever *)
Theorem C16_unsat_subset_old_leak :
  exists lines st brk sched,
    let s := run sched (us_old_sys lines st brk) in
    quiescentb s = true /\ all_finished s = false /\ finished (getthread s 0) = true.
Proof. exact unsat_subset_old_leak. Qed.
Print Assumptions C16_unsat_subset_old_leak.

(* Optimal, Enumerate and the maxsat forwarder communicate through their
   channels only: no execution contains conflicting accesses *)
Theorem C16_hb_streams : forall c trim results batches sched,
  race_free (trace (run sched (optimal_sys c results))) /\
  race_free (trace (run sched (enumerate_sys c batches))) /\
  race_free (trace (run sched (forwarder_sys c trim results))).
Proof. exact hb_streams. Qed.
Print Assumptions C16_hb_streams.

(* the executable happens-before test and race detector are exact *)
Theorem C16_hbb_iff : forall tr i j, hbb tr i j = true <-> hb tr i j.
Proof. exact hbb_iff. Qed.
Print Assumptions C16_hbb_iff.

Theorem C16_races_complete : forall tr, races tr = [] -> race_free tr.
Proof. exact races_complete. Qed.
Print Assumptions C16_races_complete.

Theorem C16_races_sound : forall tr i j, In (i, j) (races tr) -> ~ race_free tr.
Proof. exact races_sound. Qed.
Print Assumptions C16_races_sound.

(* the hypothesis of C16_frame is satisfiable: two goroutines each working on
   its own buffered channel and its own cell *)
Example C16_frame_ex :
  disjoint_footprints (fun t x => x = t) (fun t x => x = t)
    (start [[Send 0 [1%Z]; Write 0 [2%Z]; Recv 0; Read 0; Close 0];
            [Send 1 [3%Z]; Recv 1; Write 1 [4%Z]; Read 1]]
           [(0, mkchan 1); (1, mkchan 1)]).
Proof. exact ex_disjoint_footprints. Qed.

Example C16_frame_run_ex :
  let s := start [[Send 0 [1%Z]; Write 0 [2%Z]; Recv 0; Read 0; Close 0];
                  [Send 1 [3%Z]; Recv 1; Write 1 [4%Z]; Read 1]]
                 [(0, mkchan 1); (1, mkchan 1)] in
  log (getthread (run [0; 1; 1; 0; 1; 0; 0; 1; 0] s) 0) = [OVal [1%Z]; ORead [2%Z]] /\
  log (getthread (run [0; 1; 1; 0; 1; 0; 0; 1; 0] (alone 0 s)) 0) = [OVal [1%Z]; ORead [2%Z]].
Proof. exact ex_frame_run. Qed.
