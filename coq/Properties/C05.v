(* C05: model counting and enumeration.  Statements only. *)
From Coq Require Import List ZArith Bool NArith Permutation.
From GS Require Import Spec.Base Spec.PB Spec.Solver Model.Enum Proofs.Enum.
Import ListNotations.
Open Scope Z_scope.

(* The blocking clause built from the decisions removes exactly the model found. *)
Theorem block_decisions_exact :
  forall solveD, solveD_ok solveD ->
  forall n P m ds, solveD n P = Some (m, ds) ->
  forall m', length m' = n ->
    (sat_problem m' (P ++ [block ds]) = true <-> sat_problem m' P = true /\ m' <> m).
Proof. exact Proofs.Enum.block_decisions_exact. Qed.
Print Assumptions block_decisions_exact.

(* Enumeration terminates within 2^n+1 iterations (the channel is closed) and
   delivers every satisfying total assignment exactly once and nothing else. *)
Theorem C05_enum :
  forall solveD, solveD_ok solveD ->
  forall n P, exists l, enumerate solveD n P = Some l /\
    Permutation l (filter (fun m => sat_problem m P) (all_models n)).
Proof. exact enumerate_perm. Qed.
Print Assumptions C05_enum.

Theorem C05_no_dup :
  forall solveD, solveD_ok solveD ->
  forall n P l, enumerate solveD n P = Some l -> NoDup l.
Proof. exact enumerate_nodup. Qed.
Print Assumptions C05_no_dup.

(* The count is the number of satisfying total assignments, and the number of
   models delivered by enumeration. *)
Theorem C05_count :
  forall solveD, solveD_ok solveD ->
  forall n P,
    model_count solveD n P =
      Some (N.of_nat (length (filter (fun m => sat_problem m P) (all_models n)))) /\
    model_count solveD n P =
      option_map (fun l => N.of_nat (length l)) (enumerate solveD n P).
Proof. exact model_count_spec. Qed.
Print Assumptions C05_count.

(* ... which is what the exhaustive oracle of Spec/Base.v computes. *)
Theorem C05_count_oracle :
  forall solveD, solveD_ok solveD ->
  forall n P, model_count solveD n P = Some (count_models n (fun m => sat_problem m P)).
Proof. exact model_count_dec. Qed.
Print Assumptions C05_count_oracle.

Theorem C05_trivial :
  forall solveD, solveD_ok solveD ->
  forall n, model_count solveD n [] = Some (N.pow 2 (N.of_nat n)).
Proof. exact model_count_trivial. Qed.
Print Assumptions C05_trivial.

Theorem C05_unsat :
  forall solveD, solveD_ok solveD ->
  forall n P, (forall m, length m = n -> sat_problem m P = false) ->
    model_count solveD n P = Some 0%N /\ enumerate solveD n P = Some [].
Proof. exact model_count_unsat. Qed.
Print Assumptions C05_unsat.

(* Same statements for a search that may leave variables unbound (a binding
   array with k unbound variables stands for 2^k models: addCurrentModels /
   countCurrentModels). *)
Theorem C05_enum_pm :
  forall solveD, solveD_pm_ok solveD ->
  forall n P, exists l, enumerate_pm solveD n P = Some l /\ Permutation l (sols n P).
Proof. exact enumerate_pm_perm. Qed.
Print Assumptions C05_enum_pm.

Theorem C05_no_dup_pm :
  forall solveD, solveD_pm_ok solveD ->
  forall n P l, enumerate_pm solveD n P = Some l -> NoDup l.
Proof. exact enumerate_pm_nodup. Qed.
Print Assumptions C05_no_dup_pm.

Theorem C05_count_pm :
  forall solveD, solveD_pm_ok solveD ->
  forall n P,
    count_pm solveD n P = Some (N.of_nat (length (sols n P))) /\
    count_pm solveD n P = option_map (fun l => N.of_nat (length l)) (enumerate_pm solveD n P).
Proof. exact count_pm_spec. Qed.
Print Assumptions C05_count_pm.

Theorem C05_trivial_pm :
  forall solveD, solveD_pm_ok solveD ->
  forall n, count_pm solveD n [] = Some (N.pow 2 (N.of_nat n)).
Proof. exact count_pm_trivial. Qed.
Print Assumptions C05_trivial_pm.

Theorem C05_unsat_pm :
  forall solveD, solveD_pm_ok solveD ->
  forall n P, (forall m, length m = n -> sat_problem m P = false) ->
    count_pm solveD n P = Some 0%N /\ enumerate_pm solveD n P = Some [].
Proof. exact count_pm_unsat. Qed.
Print Assumptions C05_unsat_pm.

(* The loop with any fuel: a finished run is exact, and |models|+1 iterations
   are enough (2^n + 1 in particular). *)
Theorem C05_loop_sound :
  forall solveD, solveD_pm_ok solveD ->
  forall fuel n P l, enum_loop solveD fuel n P = Some l -> Permutation l (sols n P).
Proof. exact enum_loop_sound. Qed.
Print Assumptions C05_loop_sound.

Theorem C05_loop_fuel :
  forall solveD, solveD_pm_ok solveD ->
  forall fuel n P, (length (sols n P) < fuel)%nat ->
    exists l, enum_loop solveD fuel n P = Some l.
Proof. exact enum_loop_fuel. Qed.
Print Assumptions C05_loop_fuel.

Theorem C05_fuel_enough : forall n P, (length (sols n P) < enum_fuel n)%nat.
Proof. exact enum_fuel_enough. Qed.
Print Assumptions C05_fuel_enough.

(* The hypotheses are satisfiable: three executable searches meet the contract. *)
Example C05_hyp_all : solveD_ok solveD_all.
Proof. exact solveD_all_ok. Qed.
Print Assumptions C05_hyp_all.

Example C05_hyp_min : solveD_ok solveD_min.
Proof. exact solveD_min_ok. Qed.
Print Assumptions C05_hyp_min.

Example C05_hyp_ref : solveD_pm_ok solveD_ref.
Proof. exact solveD_ref_ok. Qed.
Print Assumptions C05_hyp_ref.

(* x1 \/ x2 over three variables: six models; two decisions or fewer per model. *)
Example C05_ex_enum :
  enumerate solveD_min 3 [clause_pbc [1; 2]] =
  Some [[false; true; false]; [false; true; true]; [true; false; false];
        [true; false; true]; [true; true; false]; [true; true; true]].
Proof. vm_compute. reflexivity. Qed.

Example C05_ex_decisions :
  solveD_min 3 [clause_pbc [1; 2]; PBC [(2, 1); (1, -2); (1, 3)] 2] =
  Some ([true; false; false], [-2; -3]).
Proof. vm_compute. reflexivity. Qed.

Example C05_ex_count :
  count_ref 3 [clause_pbc [1; 2]; PBC [(2, 1); (1, -2); (1, 3)] 2] = Some 4%N.
Proof. vm_compute. reflexivity. Qed.

(* no constraint: one binding array with three unbound variables, 2^3 models *)
Example C05_ex_trivial :
  solveD_ref 3 [] = Some ([None; None; None], []) /\ count_ref 3 [] = Some 8%N /\
  enumerate_ref 3 [] =
  Some [[false; false; false]; [true; false; false]; [false; true; false]; [true; true; false];
        [false; false; true]; [true; false; true]; [false; true; true]; [true; true; true]].
Proof. vm_compute. auto. Qed.

Example C05_ex_unsat :
  count_ref 2 [clause_pbc [1]; clause_pbc [-1]] = Some 0%N /\
  enumerate_ref 2 [clause_pbc [1]; clause_pbc [-1]] = Some [].
Proof. vm_compute. auto. Qed.
