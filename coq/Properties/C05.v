From Coq Require Import List ZArith.
From GS Require Import Spec.Base Spec.PB.
Theorem C05_placeholder : forall n p, count_models n p = N.of_nat (length (filter p (all_models n))).
Proof. exact count_models_spec. Qed.
Print Assumptions C05_placeholder.
