(* C01c -- whole-search soundness of the CDCL loop (solver.go: Solve, search,
   propagateAndSearch), composed from the conflict-analysis theorems of
   Properties/C06l.v.  The model is Model/Search.v: a nondeterministic
   transition system [step P n] over configurations
     Running (SState st learned lvl) | Final (ASat m) | Final AUnsat | Crashed
   in which every heuristic choice is left open (which literal is decided,
   which constraints propagate and in which order -- lazily or not --, when a
   restart happens, which learned clauses are forgotten), and in which the
   successor of a conflict is the one computed by Model.Learn.conflict_step.
   [run P n a b] is the reflexive-transitive closure.  The initial
   configuration [init_config units A] has the unit constraints [units] of the
   problem and the assumed literals [A] at level 1;
     init_ok P A units :=
       (forall l, In l (units ++ A) -> l <> 0) /\ NoDup (map lvar (units ++ A)) /\
       (forall u, In u units -> forall m, sat_problem m P = true -> lit_val m u = true).
   The constraints of P are arbitrary [pbc] (clauses, cardinality, PB).
   Statements only; proofs in Proofs/Search.v. *)
From Coq Require Import List ZArith Bool.
From GS Require Import Spec.Base Spec.PB Model.Learn Proofs.Learn Model.Search Proofs.Search.
Import ListNotations.
Open Scope Z_scope.

(* ---- the invariant of every reachable configuration ---- *)
Theorem C01c_invariant : forall P n A units st L lvl,
  init_ok P A units -> run P n (init_config units A) (Running (SState st L lvl)) ->
  state_ok st lvl /\
  (forall t c, In t (s_trail st) -> s_reason st (lvar t) = Some c -> In c (P ++ L)) /\
  (forall c, In c L -> forall m, sat_problem m P = true -> sat_pbc m c = true) /\
  (forall t, In t (s_trail st) -> s_reason st (lvar t) = None -> s_assumptions st (lvar t) = false ->
             lvl_of st (lvar t) = 1 -> forall m, sat_problem m P = true -> lit_val m t = true) /\
  (forall v, s_assumptions st v = true -> exists t, In t (s_trail st) /\ lvar t = v /\ In t A).
Proof. exact search_invariant. Qed.
Print Assumptions C01c_invariant.

(* ---- Unsat answers ---- *)
Theorem C01c_unsat_sound : forall P n units,
  init_ok P [] units -> run P n (init_config units []) (Final AUnsat) ->
  forall m, sat_problem m P = false.
Proof. exact search_unsat_sound. Qed.
Print Assumptions C01c_unsat_sound.

(* under assumptions (C10): every model of the problem falsifies an assumed literal *)
Theorem C01c_unsat_sound_assume : forall P n A units,
  init_ok P A units -> run P n (init_config units A) (Final AUnsat) ->
  forall m, sat_problem m P = true -> exists a, In a A /\ lit_val m a = false.
Proof. exact search_unsat_sound_assume. Qed.
Print Assumptions C01c_unsat_sound_assume.

(* ---- Sat answers ---- *)
Theorem C01c_sat_sound : forall P n A units m,
  init_ok P A units -> vars_in n P -> run P n (init_config units A) (Final (ASat m)) ->
  length m = n /\ sat_problem m P = true /\
  forall a, In a A -> 1 <= lvar a <= Z.of_nat n -> lit_val m a = true.
Proof. exact search_sat_sound. Qed.
Print Assumptions C01c_sat_sound.

(* ---- learnClause never runs off the trail, along any run ---- *)
Theorem C01c_no_panic : forall P n A units st L lvl c,
  init_ok P A units -> run P n (init_config units A) (Running (SState st L lvl)) ->
  In c (P ++ L) -> conflicting st lvl c -> conflict_step c lvl st <> OPanic.
Proof. exact search_no_panic. Qed.
Print Assumptions C01c_no_panic.

Theorem C01c_no_crash : forall P n A units,
  init_ok P A units -> ~ run P n (init_config units A) Crashed.
Proof. exact search_no_crash. Qed.
Print Assumptions C01c_no_crash.

(* a conflict analysed at level 1 always ends the search (so the direct
   setUnsat of solver.go:421 and the analysis agree) *)
Theorem C01c_level1_conflict : forall P n A units st L c,
  init_ok P A units -> run P n (init_config units A) (Running (SState st L 1)) ->
  In c (P ++ L) -> conflicting st 1 c -> conflict_step c 1 st = OUnsat.
Proof. exact search_level1_conflict. Qed.
Print Assumptions C01c_level1_conflict.

(* ---- the two state operations of the loop keep a good state ---- *)
Theorem C01c_cleanup_state_ok : forall st lvl bl, state_ok st lvl -> state_ok (cleanup_bindings st bl) bl.
Proof. exact cleanup_state_ok. Qed.
Print Assumptions C01c_cleanup_state_ok.

Theorem C01c_push_state_ok : forall st lvl st2 l lv,
  state_ok st lvl -> lvl <= lv -> 1 <= lv -> l <> 0 -> s_model st (lvar l) = 0 ->
  s_trail st2 = s_trail st ++ [l] ->
  (forall v, s_model st2 v = if v =? lvar l then signed_lvl l lv else s_model st v) ->
  (forall v, v <> lvar l -> s_reason st2 v = s_reason st v) ->
  (forall c, s_reason st2 (lvar l) = Some c -> reason_ok (s_trail st) l c) ->
  state_ok st2 lv.
Proof. exact push_state_ok. Qed.
Print Assumptions C01c_push_state_ok.

(* ---- the executable replay produces runs ---- *)
Theorem C01c_replay_sound : forall P n units A ks cf, replay P n units A ks = Some cf ->
  init_ok P A units /\ run P n (init_config units A) cf.
Proof. exact replay_sound. Qed.
Print Assumptions C01c_replay_sound.

Theorem C01c_replay_unsat : forall P n units ks, replay P n units [] ks = Some (Final AUnsat) ->
  forall m, sat_problem m P = false.
Proof. exact replay_unsat. Qed.
Print Assumptions C01c_replay_unsat.

Theorem C01c_replay_sat : forall P n units A ks m, vars_inb n P = true ->
  replay P n units A ks = Some (Final (ASat m)) -> length m = n /\ sat_problem m P = true.
Proof. exact replay_sat. Qed.
Print Assumptions C01c_replay_sat.

(* ================================================================== *)
(* Examples (non-vacuity): replayed runs, by vm_compute.                *)

(* at least two of x1 x2 x3, pairwise exclusive: decide x1, propagate -x2 and
   -x3, conflict on the cardinality constraint: the unit -x1 is learned and
   bound at level 1 ... *)
Example C01c_ex_unit :
  match replay [card_pbc [1; 2; 3] 2; clause_pbc [-1; -2]; clause_pbc [-1; -3]; clause_pbc [-2; -3]] 3 [] []
               [CDecide 1; CPropagate (-2) 1; CPropagate (-3) 2; CConflict 0] with
  | Some (Running s) =>
    s_trail (ss_st s) = [-1] /\ map (s_model (ss_st s)) [1; 2; 3] = [-1; 0; 0] /\
    ss_lvl s = 1 /\ ss_learned s = []
  | _ => False
  end.
Proof. vm_compute. repeat split. Qed.

(* ... the cardinality constraint then propagates x2 and x3 at level 1 and the
   last clause is falsified: Unsat, directly (solver.go:421) or through
   learnClause at level 1 *)
Example C01c_ex_unsat :
  replay [card_pbc [1; 2; 3] 2; clause_pbc [-1; -2]; clause_pbc [-1; -3]; clause_pbc [-2; -3]] 3 [] []
         [CDecide 1; CPropagate (-2) 1; CPropagate (-3) 2; CConflict 0;
          CPropagate 2 0; CPropagate 3 0; CTopConflict 3] = Some (Final AUnsat) /\
  replay [card_pbc [1; 2; 3] 2; clause_pbc [-1; -2]; clause_pbc [-1; -3]; clause_pbc [-2; -3]] 3 [] []
         [CDecide 1; CPropagate (-2) 1; CPropagate (-3) 2; CConflict 0;
          CPropagate 2 0; CPropagate 3 0; CConflict 3] = Some (Final AUnsat).
Proof. vm_compute. split; reflexivity. Qed.

Example C01c_ex_unsat_meaning :
  forall m, sat_problem m [card_pbc [1; 2; 3] 2; clause_pbc [-1; -2]; clause_pbc [-1; -3]; clause_pbc [-2; -3]] = false.
Proof.
  apply (replay_unsat _ 3 [] [CDecide 1; CPropagate (-2) 1; CPropagate (-3) 2; CConflict 0;
                             CPropagate 2 0; CPropagate 3 0; CTopConflict 3]).
  vm_compute. reflexivity.
Qed.

(* a Sat answer; an answer with an unbound variable is refused *)
Example C01c_ex_sat :
  replay [card_pbc [1; 2; 3] 2; clause_pbc [-1; -2]] 3 [] []
         [CDecide 1; CPropagate (-2) 1; CPropagate 3 0; CAnswerSat] = Some (Final (ASat [true; false; true])) /\
  replay [card_pbc [1; 2; 3] 2; clause_pbc [-1; -2]] 3 [] []
         [CDecide 1; CPropagate (-2) 1; CAnswerSat] = None /\
  vars_inb 3 [card_pbc [1; 2; 3] 2; clause_pbc [-1; -2]] = true /\
  sat_problem [true; false; true] [card_pbc [1; 2; 3] 2; clause_pbc [-1; -2]] = true.
Proof. vm_compute. repeat split. Qed.

(* a longer run on the instance of C06l_ex1 (the first conflict of the real
   solver): a clause is learned and the solver jumps back to level 2; a locked
   clause cannot be forgotten; restart, forget, and a Sat answer *)
Example C01c_ex_jump :
  match replay [clause_pbc [1; -2]; clause_pbc [6; -4]; clause_pbc [4; 2; -5]; clause_pbc [4; -3]; clause_pbc [5; 3; 1]]
               6 [] []
               [CDecide (-1); CPropagate (-2) 0; CDecide (-6); CPropagate (-4) 1; CPropagate (-3) 3;
                CPropagate (-5) 2; CConflict 4] with
  | Some (Running s) =>
    s_trail (ss_st s) = [-1; -2; 4] /\ map (s_model (ss_st s)) [1; 2; 3; 4; 5; 6] = [-2; -2; 0; 2; 0; 0] /\
    ss_lvl s = 2 /\ ss_learned s = [clause_pbc [4; 1]] /\
    replay_step [clause_pbc [1; -2]; clause_pbc [6; -4]; clause_pbc [4; 2; -5]; clause_pbc [4; -3]; clause_pbc [5; 3; 1]]
                6 s (CForget [false]) = None
  | _ => False
  end /\
  replay [clause_pbc [1; -2]; clause_pbc [6; -4]; clause_pbc [4; 2; -5]; clause_pbc [4; -3]; clause_pbc [5; 3; 1]]
         6 [] []
         [CDecide (-1); CPropagate (-2) 0; CDecide (-6); CPropagate (-4) 1; CPropagate (-3) 3;
          CPropagate (-5) 2; CConflict 4; CRestart; CForget [false];
          CDecide 1; CDecide 4; CPropagate 6 1; CDecide 2; CDecide 3; CDecide 5; CAnswerSat]
  = Some (Final (ASat [true; true; true; true; true; true])).
Proof. vm_compute. repeat split. Qed.

(* under the assumptions x1, x2 (the instance of C06l_ex4: the two conflicts
   of the real solver): [-3; -1] is learned, the jump goes to level 1, the next
   conflict meets an assumption: Unsat -- under the assumptions only: the
   problem itself has models *)
Example C01c_ex_assume :
  replay [clause_pbc [-1; -3; 4]; clause_pbc [-1; -3; -4]; clause_pbc [-2; 3; 5]; clause_pbc [-2; 3; -5]]
         5 [] [1; 2]
         [CDecide (-5); CPropagate 3 2; CPropagate 4 0; CConflict 1; CPropagate 5 2; CConflict 3]
  = Some (Final AUnsat) /\
  sat_problem [false; false; false; false; false]
    [clause_pbc [-1; -3; 4]; clause_pbc [-1; -3; -4]; clause_pbc [-2; 3; 5]; clause_pbc [-2; 3; -5]] = true.
Proof. vm_compute. split; reflexivity. Qed.

(* unit constraints of the problem start on the trail *)
Example C01c_ex_units :
  replay [clause_pbc [1]; clause_pbc [-1; 2]; clause_pbc [-2; -1]] 2 [1] []
         [CPropagate 2 1; CTopConflict 2] = Some (Final AUnsat).
Proof. vm_compute. reflexivity. Qed.

(* the hypotheses are satisfiable *)
Example C01c_hyp :
  init_ok [card_pbc [1; 2; 3] 2; clause_pbc [-1; -2]; clause_pbc [-1; -3]; clause_pbc [-2; -3]] [] [] /\
  run [card_pbc [1; 2; 3] 2; clause_pbc [-1; -2]; clause_pbc [-1; -3]; clause_pbc [-2; -3]] 3
      (init_config [] []) (Final AUnsat) /\
  init_ok [clause_pbc [1]; clause_pbc [-1; 2]; clause_pbc [-2; -1]] [] [1] /\
  vars_in 3 [card_pbc [1; 2; 3] 2; clause_pbc [-1; -2]].
Proof.
  split; [|split; [|split]].
  - apply (replay_sound _ 3 [] [] [] (init_config [] [])). vm_compute. reflexivity.
  - apply (replay_sound _ 3 [] [] [CDecide 1; CPropagate (-2) 1; CPropagate (-3) 2; CConflict 0;
                                   CPropagate 2 0; CPropagate 3 0; CTopConflict 3]).
    vm_compute. reflexivity.
  - apply (replay_sound _ 2 [1] [] [] (init_config [1] [])). vm_compute. reflexivity.
  - apply vars_inb_sound. vm_compute. reflexivity.
Qed.
