(* C01 composed: the mirrored CNF front ends (ParseSliceNb: parseSlice +
   simplify2; ParseCNF: clauses as read + simplify2) followed by the verified
   reference search give the right verdict, and on Sat a total model of the
   input AS WRITTEN.  Statements only; proofs in Proofs/Solve.v. *)
From Coq Require Import List ZArith Bool String.
From GS Require Import Spec.Base Spec.PB Model.Text Model.Simplify Model.Solve.
From GS Require Import Proofs.Simplify Proofs.TextDimacs Proofs.Solve.
Import ListNotations.
Open Scope Z_scope.

(* ParseSliceNb(F, n) then search.  The Unsat verdict is about models of EVERY
   length (when parseSlice returns early on an empty clause NbVars only counts
   the clauses before it, but then no assignment at all satisfies F). *)
Theorem C01_slices : forall n F, wf_cnf F -> 0 <= n ->
  match solve_cnf n F with
  | (Sat, Some m) =>
      List.length m = Z.to_nat (gp_nbvars (ParseSliceNb F n)) /\ sat_cnf m F = true
  | (Unsat, None) => forall m, sat_cnf m F = false
  | _ => False
  end.
Proof. exact solve_cnf_spec. Qed.
Print Assumptions C01_slices.

(* a Sat answer means there was no empty clause, and the model has
   max(n, highest variable) entries *)
Theorem C01_slices_sat : forall n F m, wf_cnf F -> 0 <= n ->
  solve_cnf n F = (Sat, Some m) ->
  has_empty F = false /\ List.length m = Z.to_nat (Z.max n (maxvar F)) /\ sat_cnf m F = true.
Proof. exact solve_cnf_sat. Qed.
Print Assumptions C01_slices_sat.

Theorem C01_slices_noempty : forall n F, wf_cnf F -> 0 <= n -> has_empty F = false ->
  match solve_cnf n F with
  | (Sat, Some m) => List.length m = Z.to_nat (Z.max n (maxvar F)) /\ sat_cnf m F = true
  | (Unsat, None) => forall m, sat_cnf m F = false
  | _ => False
  end.
Proof. exact solve_cnf_noempty. Qed.
Print Assumptions C01_slices_noempty.

Theorem C01_slices_unsat_iff : forall n F, wf_cnf F -> 0 <= n ->
  (fst (solve_cnf n F) = Unsat <-> forall m, sat_cnf m F = false).
Proof. exact solve_cnf_unsat_iff. Qed.
Print Assumptions C01_slices_unsat_iff.

(* ---- the DIMACS route: ParseCNF does not call parseSlice --------------- *)

(* simplify2 started on the clauses as read (units and empty clauses are
   ordinary entries of pb.Clauses, pb.Units is empty) keeps the models, for
   every fuel, and NbVars stays the declared n *)
Theorem C01_parse_cnf_equiv : forall fuel n F m, wf_cnf F ->
  sat_gproblem m (parse_cnf fuel n F) = sat_cnf m F.
Proof. exact parse_cnf_equiv. Qed.
Print Assumptions C01_parse_cnf_equiv.

Theorem C01_parse_cnf_nbvars : forall fuel n F, wf_cnf F -> gp_nbvars (parse_cnf fuel n F) = n.
Proof. exact parse_cnf_nbvars. Qed.
Print Assumptions C01_parse_cnf_nbvars.

Theorem C01_parse_cnf_fuel_enough : forall fuel n F,
  (List.length F < fuel)%nat -> parse_cnf_done fuel n F = true.
Proof. exact parse_cnf_fuel_enough. Qed.
Print Assumptions C01_parse_cnf_fuel_enough.

Theorem C01_parse_cnf_fuel_stable : forall n F fuel fuel',
  parse_cnf_done fuel n F = true -> (fuel <= fuel')%nat ->
  parse_cnf fuel' n F = parse_cnf fuel n F /\ parse_cnf_done fuel' n F = true.
Proof. exact parse_cnf_stable. Qed.
Print Assumptions C01_parse_cnf_fuel_stable.

(* whatever text the reader accepts, it returns 0 <= n and clauses whose
   literals are non-zero and within 1..n *)
Theorem C01_parse_dimacs_wf : forall text n F, parse_dimacs text = Some (n, F) -> wf_dimacs n F.
Proof. exact parse_dimacs_wf. Qed.
Print Assumptions C01_parse_dimacs_wf.

Theorem C01_dimacs_problem_solve : forall n F, wf_dimacs n F ->
  match solve_gproblem (parse_cnf_problem n F) with
  | (Sat, Some m) => List.length m = Z.to_nat n /\ sat_cnf m F = true
  | (Unsat, None) => forall m, sat_cnf m F = false
  | _ => False
  end.
Proof. exact solve_cnf_problem_spec. Qed.
Print Assumptions C01_dimacs_problem_solve.

(* text -> verdict: no hypothesis at all.  The model has exactly the declared
   number of variables and satisfies the clause list the reader returned; an
   Unsat verdict excludes models of every length. *)
Theorem C01_dimacs_solve : forall text,
  match parse_dimacs text with
  | None => solve_dimacs text = None
  | Some (n, F) =>
    exists r, solve_dimacs text = Some r /\
      match r with
      | (Sat, Some m) => List.length m = Z.to_nat n /\ sat_cnf m F = true
      | (Unsat, None) => forall m, sat_cnf m F = false
      | _ => False
      end
  end.
Proof. exact solve_dimacs_spec. Qed.
Print Assumptions C01_dimacs_solve.

(* the hypotheses are satisfiable; sample runs *)
Example C01s_hyp_wf : wf_cnf ex_cnf /\ 0 <= 0.
Proof. exact (conj ex_cnf_wf (Z.le_refl 0)). Qed.
Example C01s_hyp_dimacs : wf_dimacs 3 [[1; -2]; []; [3]].
Proof. exact ex_wf_dimacs. Qed.
Example C01s_run : solve_cnf 0 [[1; 2]; [-1]; [3; -2; 4]] = (Sat, Some [false; true; false; true]).
Proof. exact ex_solve_cnf. Qed.
Example C01s_run_empty : solve_cnf 3 [[1; 2]; []; [7]] = (Unsat, None) /\
  gp_nbvars (ParseSliceNb [[1; 2]; []; [7]] 3) = 3.
Proof. exact ex_solve_cnf_empty. Qed.
