(* C14c -- whole-search soundness of the cutting-planes loop (solver.go:
   propagateAndSearchPB, with cuttingPlanes, cleanupBindings, unifyLiteral(s),
   reduceLearnedPB), composed from the theorems about one call of cuttingPlanes
   (Properties/C14s.v).  The model is Model/SearchPB.v: a nondeterministic
   transition system [pstep P n] over configurations
     PRunning (PState trail model reasons learned lvl pending ghost)
     | PFinal (PSat m) | PFinal PUnsat | PCrashed
   in which every heuristic choice is left open (the literal that is decided,
   which constraints propagate, in which order and when, restarts, which
   learned constraints are forgotten -- ANY of them, reasons of bound literals
   included, as the real reduceLearnedPB does; [ghost] is the list of all the
   constraints ever learned, it is not read by any step and only serves to state
   the invariant) and in which the successor of a conflict
   is COMPUTED by [conflict_succ] from cutting_planes_full (result and model
   left behind), cleanupBindings and the pushes.  [prun P n a b] is the
   reflexive-transitive closure; [init_pconfig n units] has the unit facts of
   the problem at level 1;
     init_ok P n units :=
       init_free (repeat 0 n) units = true      (non-zero, in range, distinct variables)
       /\ forall u, In u units -> entails_lit P u.
   The constraints of P are arbitrary [pbc].  The code is the one of commit
   0a73d0f: a learned unit that is already a level-1 fact is skipped, and when
   every unit found by SimplifyPB is already a fact cuttingPlanes learns the
   whole constraint (Model/SearchPB.v, Model/CPSearch.v cp_finish); the
   successor function of the commits before is kept as conflict_succ_old for
   C14c_livelock_old_refuted.  Statements only; proofs in Proofs/SearchPB.v. *)
From Coq Require Import List ZArith Bool.
From GS Require Import Spec.Base Spec.PB Model.PBNorm Model.CP Model.CPSearch Model.SearchPB
                       Proofs.CPSearch Proofs.SearchPB.
Import ListNotations.
Open Scope Z_scope.

(* ---- the invariant ---- *)

(* outside the loop over learned units (pending = []), whatever the problem:
   the bindings are well formed ([wf]: what state_wf3b needs, see
   C14c_no_panic), every reason is a constraint of P or a constraint that was
   learned at some point (G, the ghost component: a reason may have been
   forgotten since), every constraint ever learned and every level-1 literal is
   a consequence of P, the learned constraints still held are among G *)
Theorem C14c_invariant : forall P n units tr md rs L lvl G,
  init_ok P n units -> prun P n (init_pconfig n units) (PRunning (PState tr md rs L lvl [] G)) ->
  wf n tr md rs lvl /\
  reasons_in P G rs /\
  (forall c, In c G -> entails P c) /\ incl L G /\
  facts P tr md.
Proof. exact search_pb_invariant_expanded. Qed.
Print Assumptions C14c_invariant.

(* every reachable running configuration: [good] (the above, and the pending
   units are consequences of P), or [doom]ed: P has no model, everything is at
   level <= 1 and a pending unit is false at level 1, so that the units loop
   ends with Unsat *)
Theorem C14c_invariant_all : forall P n units s,
  init_ok P n units -> prun P n (init_pconfig n units) (PRunning s) ->
  List.length (ps_model s) = n /\ (good P n s \/ doom P s).
Proof. exact search_pb_invariant. Qed.
Print Assumptions C14c_invariant_all.

Theorem C14c_invariant_sat : forall P n units s (m : model),
  init_ok P n units -> sat_problem m P = true ->
  prun P n (init_pconfig n units) (PRunning s) -> good P n s.
Proof. exact search_pb_invariant_sat. Qed.
Print Assumptions C14c_invariant_sat.

(* ---- the answers ---- *)

Theorem C14c_unsat_sound : forall P n units,
  init_ok P n units -> prun P n (init_pconfig n units) (PFinal PUnsat) ->
  forall m : model, sat_problem m P = false.
Proof. exact search_pb_unsat_sound. Qed.
Print Assumptions C14c_unsat_sound.

Theorem C14c_sat_sound : forall P n units m,
  init_ok P n units -> pvars_inb n P = true ->
  prun P n (init_pconfig n units) (PFinal (PSat m)) ->
  List.length m = n /\ sat_problem m P = true.
Proof. exact search_pb_sat_sound. Qed.
Print Assumptions C14c_sat_sound.

(* ---- cuttingPlanes never panics and always terminates, along any run ---- *)

(* at every conflict of every run the state handed to cuttingPlanes meets
   state_wf3b (the hypothesis of C14_search_sound and C14_search_total, and what
   Judge/J21.v checks on the running solver), and the call returns one of its
   three shapes *)
Theorem C14c_no_panic : forall P n units tr md rs L lvl G c,
  init_ok P n units ->
  prun P n (init_pconfig n units) (PRunning (PState tr md rs L lvl [] G)) ->
  In c (P ++ L) -> confl_chk n md c = true ->
  state_wf3b (cp_state (PState tr md rs L lvl [] G) c) = true /\
  match cutting_planes (cp_state (PState tr md rs L lvl [] G) c) with
  | CPPanic | CPPanicArith | CPFuel => False
  | _ => True
  end.
Proof. exact search_pb_no_panic. Qed.
Print Assumptions C14c_no_panic.

Theorem C14c_no_crash : forall P n units,
  init_ok P n units -> ~ prun P n (init_pconfig n units) PCrashed.
Proof. exact search_pb_no_crash. Qed.
Print Assumptions C14c_no_crash.

(* ---- progress of a conflict step (what commit 0a73d0f buys) ---- *)

(* Every conflict step of every run ends the run with Unsat, or leads to a
   doomed configuration (no model, the units loop ends with Unsat), or binds a
   NEW level-1 fact (ghost list unchanged), or learns a constraint that is
   asserting: it is consed onto ps_learned and ps_ghost, the level drops to a
   level >= 2 below the conflict level, and the constraint is an acceptable
   reason (reason_okb: contains the literal, slack below its weight) of the
   literal bound at that level.
     progress P n s cf := match cf with
       | PFinal PUnsat => True
       | PRunning s' => doom P s' \/ (ps_ghost s' = ps_ghost s /\ new_fact s s') \/ new_asserting n s s'
       | _ => False end *)
Theorem C14c_conflict_progress : forall P n units tr md rs L lvl G c,
  init_ok P n units ->
  prun P n (init_pconfig n units) (PRunning (PState tr md rs L lvl [] G)) ->
  In c (P ++ L) -> confl_chk n md c = true ->
  progress P n (PState tr md rs L lvl [] G) (conflict_succ (PState tr md rs L lvl [] G) c).
Proof. exact search_pb_conflict_progress. Qed.
Print Assumptions C14c_conflict_progress.

(* in particular a conflict step never maps a configuration to one with the same
   list of learned constraints and no new level-1 fact *)
Theorem C14c_conflict_not_stationary : forall P n units tr md rs L lvl G c s',
  init_ok P n units ->
  prun P n (init_pconfig n units) (PRunning (PState tr md rs L lvl [] G)) ->
  In c (P ++ L) -> confl_chk n md c = true ->
  conflict_succ (PState tr md rs L lvl [] G) c = PRunning s' ->
  doom P s' \/ ps_ghost s' <> G \/
  exists x, In x (ps_trail s') /\ Z.abs (model_at (ps_model s') x) = 1 /\ Z.abs (model_at md x) <> 1.
Proof. exact search_pb_conflict_not_stationary. Qed.
Print Assumptions C14c_conflict_not_stationary.

(* REFUTED for the code before 0a73d0f (conflict_succ_old = cp_finish_v1 and the
   unit loop that pushed every unit): on the satisfiable problem
     2 x6 +2 x4 +2 x5 +1 ~x3 +2 ~x1 >= 7 ;  x7 + ~x5 + x1 + x2 + ~x6 + x3 + x4 >= 4
   the configuration S reached after the first conflict (trail [x4], level 1,
   nothing learned) is mapped back to S by three decisions, two propagations and
   the conflict step: cuttingPlanes returns the unit x4, which is already a fact,
   and the learned constraint is dropped.  The real solver went round this cycle
   (with two similar ones) for ever. *)
Theorem C14c_livelock_old_refuted :
  exists S s1,
    replay_pb ex_live 7 [] ex_live_pre = Some (PRunning S) /\
    preplay_from ex_live 7 (PRunning S) ex_live_dp = Some (PRunning s1) /\
    ps_pending s1 = [] /\ confl_chk 7 (ps_model s1) go_B = true /\
    fst (cutting_planes_mid_full (cp_state s1 go_B)) = CPUnits [4] /\
    conflict_succ_old s1 go_B = PRunning S.
Proof. exact livelock_old. Qed.
Print Assumptions C14c_livelock_old_refuted.

(* the same step now: the whole constraint 3 x4 + ~x1 + x2 + x5 + x6 + x7 >= 7 is
   learned, back-jump to level 3, x6 bound with it as reason *)
Theorem C14c_livelock_repaired :
  exists S s1,
    replay_pb ex_live 7 [] ex_live_pre = Some (PRunning S) /\
    preplay_from ex_live 7 (PRunning S) ex_live_dp = Some (PRunning s1) /\
    conflict_succ s1 go_B =
      PRunning (PState [4; -1; -7; 6] [-2; 0; 0; 1; 0; 3; -3]
                 [None; None; None; None; None;
                  Some (PBC [(3, 4); (1, -1); (1, 2); (1, 5); (1, 6); (1, 7)] 7); None]
                 [PBC [(3, 4); (1, -1); (1, 2); (1, 5); (1, 6); (1, 7)] 7] 3 []
                 [PBC [(3, 4); (1, -1); (1, 2); (1, 5); (1, 6); (1, 7)] 7]).
Proof. exact livelock_new. Qed.
Print Assumptions C14c_livelock_repaired.

(* ---- what one call contributes (the facts the composition rests on) ---- *)

(* the learned constraint is ASSERTING: after the back-jump it is an acceptable
   reason (Model.CPSearch.reason_okb: it contains the literal and its slack is
   below the weight) of the literal that the loop pushes *)
Theorem C14c_learned_asserting :
  forall n P rs, (forall i c, nth i rs None = Some c -> In c P) ->
  forall tr md0 lvl0, wf n tr md0 rs lvl0 ->
  forall pb pre rt' md' L u,
  rev tr = pre ++ rt' -> md' = zero_list pre md0 ->
  Inv n P rs pb md' rt' -> Aux md0 md' rt' ->
  (forall l, In l rt' -> Z.abs (model_at md' l) <= L) ->
  only_falsified pb md' L rt' None = Some u ->
  forall c props nl, 2 <= L -> cp_finish pb md' u = CPLearn c props nl ->
  props = [- u] /\ nl = backtrack_level md' (vidx u) pb /\
  forall k md1 rs1, cleanup_bindings nl tr md0 rs = (k, md1, rs1) ->
    free_lit md1 (- u) = true /\ reason_okb n (push md1 (- u) nl) c (- u) = true.
Proof. exact fin_learn. Qed.
Print Assumptions C14c_learned_asserting.

(* cleanupBindings on well-formed bindings *)
Theorem C14c_cleanup_wf : forall n tr md rs lvl bl tr1 md1 rs1,
  wf n tr md rs lvl -> 1 <= bl ->
  cleanup_bindings bl tr md rs = (tr1, md1, rs1) ->
  wf n tr1 md1 rs1 bl /\
  exists d, tr = tr1 ++ d /\ md1 = zero_list d md /\ rs1 = none_list d rs.
Proof. exact cleanup_wf. Qed.
Print Assumptions C14c_cleanup_wf.

(* ---- the executable replay produces runs ---- *)

Theorem C14c_replay_sound : forall P n units ks cf, replay_pb P n units ks = Some cf ->
  init_ok P n units /\ prun P n (init_pconfig n units) cf.
Proof. exact replay_pb_sound. Qed.
Print Assumptions C14c_replay_sound.

Theorem C14c_replay_unsat : forall P n units ks, replay_pb P n units ks = Some (PFinal PUnsat) ->
  forall m : model, sat_problem m P = false.
Proof. exact replay_pb_unsat. Qed.
Print Assumptions C14c_replay_unsat.

Theorem C14c_replay_sat : forall P n units ks m, pvars_inb n P = true ->
  replay_pb P n units ks = Some (PFinal (PSat m)) -> List.length m = n /\ sat_problem m P = true.
Proof. exact replay_pb_sat. Qed.
Print Assumptions C14c_replay_sat.

(* ================================================================== *)
(* Examples (non-vacuity): replayed runs, by vm_compute.                *)

(* 3 pigeons in 2 holes, cardinality constraints: one decision, four
   propagations, one call of cuttingPlanes that yields the units ~x1 and ~x2,
   then the first constraint is falsified at level 1 *)
Example C14c_ex_php :
  replay_pb ex_php 6 [] ex_php_run = Some (PFinal PUnsat) /\
  match replay_pb ex_php 6 [] (firstn 6 ex_php_run) with
  | Some (PRunning s) => ps_trail s = [-1] /\ ps_lvl s = 1 /\ ps_pending s = [-2]
  | _ => False
  end.
Proof. vm_compute. repeat split. Qed.

Example C14c_ex_php_meaning : forall m : model, sat_problem m ex_php = false.
Proof. apply (C14c_replay_unsat ex_php 6 [] ex_php_run). vm_compute. reflexivity. Qed.

(* a Sat answer after two learned constraints and two back-jumps; after the
   first conflict: x1 + x7 + x8 >= 1 is learned, back-jump to level 3, x7 pushed
   with the learned constraint as reason; an answer with an unbound variable is
   refused *)
Example C14c_ex_sat :
  replay_pb ex_sat 8 [] ex_sat_run
    = Some (PFinal (PSat [false; true; true; true; true; true; false; true])) /\
  pvars_inb 8 ex_sat = true /\
  sat_problem [false; true; true; true; true; true; false; true] ex_sat = true /\
  match replay_pb ex_sat 8 [] ex_sat_run1 with
  | Some (PRunning s) =>
    ps_trail s = [-1; -8; 7] /\ ps_lvl s = 3 /\
    ps_learned s = [PBC [(1, 1); (1, 7); (1, 8)] 1] /\
    nth 6 (ps_reason s) None = Some (PBC [(1, 1); (1, 7); (1, 8)] 1)
  | _ => False
  end /\
  replay_pb ex_sat 8 [] (ex_sat_run1 ++ [KAnswerSat]) = None.
Proof. vm_compute. repeat split. Qed.

(* FORGETTING A REASON, as reduceLearnedPB really does (isLocked() is never true
   for a constraint learned by cuttingPlanes): x7 is bound with the learned
   constraint as reason, the constraint is forgotten (learned = [], it stays in
   s.reason and in the ghost list), the next analysis resolves on x7 with it and
   learns x1 + x8 >= 1, and the run ends with a correct Sat answer *)
Example C14c_ex_forget :
  match replay_pb ex_sat 8 [] ex_forget_run1 with
  | Some (PRunning s) =>
    ps_trail s = [-1; -8; 7] /\ ps_learned s = [] /\
    nth 6 (ps_reason s) None = Some (PBC [(1, 1); (1, 7); (1, 8)] 1) /\
    ps_ghost s = [PBC [(1, 1); (1, 7); (1, 8)] 1]
  | _ => False
  end /\
  match replay_pb ex_sat 8 [] (firstn 12 ex_forget_run) with
  | Some (PRunning s) =>
    ps_trail s = [-1; 8] /\ ps_lvl s = 2 /\ ps_learned s = [PBC [(1, 1); (1, 8)] 1]
  | _ => False
  end /\
  replay_pb ex_sat 8 [] ex_forget_run
    = Some (PFinal (PSat [false; true; true; true; true; true; false; true])) /\
  sat_problem [false; true; true; true; true; true; false; true] ex_sat = true.
Proof. vm_compute. repeat split. Qed.

(* the observed run of the real solver on a problem with a unit fact: three
   calls of cuttingPlanes (a unit; a learned constraint with a back-jump; a unit
   that is false at level 1) *)
Example C14c_ex_go :
  init_okb ex_go 5 [-3] = true /\
  replay_pb ex_go 5 [-3] ex_go_run = Some (PFinal PUnsat) /\
  match replay_pb ex_go 5 [-3] (firstn 5 ex_go_run) with
  | Some (PRunning s) => ps_trail s = [-3; 1] /\ ps_lvl s = 1 /\ ps_pending s = []
  | _ => False
  end /\
  match replay_pb ex_go 5 [-3] (firstn 8 ex_go_run) with
  | Some (PRunning s) =>
    ps_trail s = [-3; 1; 5; 4] /\ ps_lvl s = 2 /\
    ps_learned s = [PBC [(2, -1); (1, 2); (1, 4); (1, -5)] 2]
  | _ => False
  end.
Proof. vm_compute. repeat split. Qed.

(* the run of the real solver at 0a73d0f on that problem: the unit x4; then the
   constraint 2 x4 + x2 + x3 + x7 >= 4 (whole: its unit x4 is already a fact) with a
   back-jump to level 2; then Sat with the model the solver printed *)
Example C14c_ex_live :
  replay_pb ex_live 7 [] ex_live_run
    = Some (PFinal (PSat [false; true; false; true; true; false; true])) /\
  pvars_inb 7 ex_live = true /\
  sat_problem [false; true; false; true; true; false; true] ex_live = true /\
  match replay_pb ex_live 7 [] (firstn 13 ex_live_run) with
  | Some (PRunning s) =>
    ps_trail s = [4; -3; 7] /\ ps_lvl s = 2 /\
    ps_learned s = [PBC [(2, 4); (1, 2); (1, 3); (1, 7)] 4]
  | _ => False
  end.
Proof. vm_compute. repeat split. Qed.

(* the hypotheses of C14c_no_panic hold at a conflict of a replayed run *)
Example C14c_ex_no_panic :
  match replay_pb ex_sat 8 [] (firstn 6 ex_sat_run1) with
  | Some (PRunning s) =>
    ps_pending s = [] /\ confl_chk 8 (ps_model s) (nth 0 ex_sat (PBC [] 0)) = true /\
    state_wf3b (cp_state s (nth 0 ex_sat (PBC [] 0))) = true /\
    cutting_planes (cp_state s (nth 0 ex_sat (PBC [] 0)))
      = CPLearn (PBC [(1, 1); (1, 7); (1, 8)] 1) [7] 3
  | _ => False
  end.
Proof. vm_compute. repeat split. Qed.
