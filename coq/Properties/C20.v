(* C20: result streams.  Model: Model/Chan.v, proofs: Proofs/Chan.v.
   [stream_safe results ch tp t s] (every reachable state): no panic (no send
   on a closed channel, no double close), what goroutine t received is a
   prefix of [results], the channel was closed at most once, it is closed iff
   the close happened exactly once, and only after goroutine tp finished.
   [stream_done results ch t s]: every goroutine finished, t received exactly
   [results] and then the close, the last value is the returned one, the
   channel was closed exactly once and is drained. *)
From Coq Require Import List ZArith.
From GS Require Import Model.Chan Proofs.Chan.
Import ListNotations.

Theorem C20_optimal_protocol : forall c results sched,
  let s0 := optimal_sys c results in
  let s := run sched s0 in
  stream_safe results 0 0 1 s /\
  (quiescent s -> stream_done results 0 1 s) /\
  (exists sched', quiescent (run sched' s)) /\
  (forall sched', rounds 2 (mu_opt s) sched' -> quiescent (run sched' s)) /\
  nb_steps sched s0 <= 2 * length results + 3.
Proof. exact optimal_protocol. Qed.
Print Assumptions C20_optimal_protocol.

Theorem C20_forwarder_protocol : forall c trim results sched,
  let s0 := forwarder_sys c trim results in
  let s := run sched s0 in
  (stream_safe (map trim results) 1 1 2 s /\ inner_safe results s) /\
  (quiescent s -> stream_done (map trim results) 1 2 s /\ received s 1 = results /\
                  nb_close 0 (trace s) = 1) /\
  (exists sched', quiescent (run sched' s)) /\
  (forall sched', rounds 3 (mu_fwd s) sched' -> quiescent (run sched' s)) /\
  nb_steps sched s0 <= 4 * length results + 7.
Proof. exact forwarder_protocol. Qed.
Print Assumptions C20_forwarder_protocol.

Theorem C20_enumerate_protocol : forall c batches sched,
  let s0 := enumerate_sys c batches in
  let s := run sched s0 in
  stream_safe (concat batches) 0 0 1 s /\
  (quiescent s -> stream_done (concat batches) 0 1 s /\
                  [Z.of_nat (length (received s 1))] = returned_count batches) /\
  (exists sched', quiescent (run sched' s)) /\
  (forall sched', rounds 2 (mu_opt s) sched' -> quiescent (run sched' s)) /\
  nb_steps sched s0 <= 2 * length (concat batches) + 3.
Proof. exact enumerate_protocol. Qed.
Print Assumptions C20_enumerate_protocol.

Theorem C20_accepts_trace_sound : forall results c tr,
  accepts_trace results c tr = true <->
  exists sched, quiescent (run sched (optimal_sys c results)) /\
                consumer_view (returned results) (run sched (optimal_sys c results)) 1 = tr.
Proof. exact accepts_trace_sound. Qed.
Print Assumptions C20_accepts_trace_sound.

Theorem C20_accepts_trace_spec : forall results c tr,
  accepts_trace results c tr = true <->
  tr = map OReceived results ++ [OClosedEv; OReturned (last results [])].
Proof. exact accepts_trace_spec. Qed.
Print Assumptions C20_accepts_trace_spec.

Theorem C20_accepts_enum_trace_sound : forall batches c tr,
  accepts_enum_trace batches c tr = true <->
  exists sched, quiescent (run sched (enumerate_sys c batches)) /\
                consumer_view (returned_count batches) (run sched (enumerate_sys c batches)) 1 = tr.
Proof. exact accepts_enum_trace_sound. Qed.
Print Assumptions C20_accepts_enum_trace_sound.

Theorem C20_stream_values : forall good costv c results sched,
  is_decreasing_stream good costv results ->
  let s := run sched (optimal_sys c results) in
  is_decreasing_stream good costv (received s 1) /\
  (quiescent s -> received s 1 = results /\ last (received s 1) [] = returned results).
Proof. exact stream_values. Qed.
Print Assumptions C20_stream_values.

Theorem C20_forwarder_stream_values :
  forall (good good' : value -> Prop) costv c trim results sched,
  (forall v, good v -> good' (trim v)) -> (forall v, costv (trim v) = costv v) ->
  is_decreasing_stream good costv results ->
  let s := run sched (forwarder_sys c trim results) in
  is_decreasing_stream good' costv (received s 2) /\
  (quiescent s -> received s 2 = map trim results).
Proof. exact forwarder_stream_values. Qed.
Print Assumptions C20_forwarder_stream_values.

(* the hypotheses are satisfiable; a fair schedule exists for every measure *)
Example C20_stream_values_ex :
  is_decreasing_stream (fun v => length v = 3) (fun v => nth 1 v 0%Z)
    [[1; 5; 1]; [1; 3; 0]; [1; 2; 1]]%Z.
Proof. exact ex_decreasing_stream. Qed.

Example C20_rounds_ex : forall n k, rounds n k (round_robin n k).
Proof. exact round_robin_rounds. Qed.

Example C20_forwarder_stream_values_ex :
  (forall v, 2 <= length v -> 2 <= length (trim_result 1 v)) /\
  (forall v, nth 1 (trim_result 1 v) 0%Z = nth 1 v 0%Z).
Proof. exact ex_trim_hyps. Qed.

Example C20_accepts_trace_ex :
  accepts_trace [[1; 5]; [1; 3]]%Z 3
    [OReceived [1; 5]%Z; OReceived [1; 3]%Z; OClosedEv; OReturned [1; 3]%Z] = true /\
  accepts_trace [[1; 5]; [1; 3]]%Z 0
    [OReceived [1; 3]%Z; OReceived [1; 5]%Z; OClosedEv; OReturned [1; 3]%Z] = false /\
  accepts_trace [[1; 5]; [1; 3]]%Z 0
    [OReceived [1; 5]%Z; OReceived [1; 3]%Z; OClosedEv; OReturned [1; 5]%Z] = false /\
  accepts_trace [[1; 5]; [1; 3]]%Z 1 [OReceived [1; 5]%Z; OReceived [1; 3]%Z] = false.
Proof. exact ex_accepts. Qed.
