(* C15: replacing pairwise-encoded at-most-one groups by cardinality
   constraints (Problem.DetectAtMostOne) keeps exactly the same satisfying
   assignments; verdicts, model counts and optima are unchanged. *)
From Coq Require Import List ZArith Bool NArith.
From GS Require Import Spec.Base Spec.PB Spec.Solver Model.Amo Proofs.Amo.
Import ListNotations.
Open Scope Z_scope.

(* All pairs of positions of S are satisfied iff at least |S|-1 literals of S
   are true.  No hypothesis on S (repeated or complementary literals allowed). *)
Theorem clique_iff_card : forall m S,
  (forall i j a b, i <> j -> nth_error S i = Some a -> nth_error S j = Some b ->
                   lit_val m a || lit_val m b = true)
  <-> Z.of_nat (List.length S) - 1 <= count_true m S.
Proof. exact Proofs.Amo.clique_iff_card_pos. Qed.
Print Assumptions clique_iff_card.

(* Translation validation: whatever produced P', if the checker accepts
   (P, P') then P and P' have the same models. *)
Theorem C15_valid_sound : forall P P',
  amo_valid P P' = true ->
  forall m, sat_problem m (gproblem P') = sat_problem m (gproblem P).
Proof. exact amo_valid_problem. Qed.
Print Assumptions C15_valid_sound.

Example C15_valid_sound_hyp :
  amo_valid [([-1;-2],1); ([-1;-3],1); ([-2;-3],1); ([1;2;3],1)]
            [([-2;-3],1); ([1;2;3],1); ([-1;-2;-3],2)] = true.
Proof. vm_compute. reflexivity. Qed.

(* The model of DetectAtMostOne always passes the checker, provided every
   two-literal constraint of the input is a propositional clause. *)
Theorem C15_detect_valid : forall n P,
  bin_wf P = true -> amo_valid P (detect_amo n P) = true.
Proof. exact detect_amo_valid. Qed.
Print Assumptions C15_detect_valid.

Example C15_detect_valid_hyp :
  bin_wf [([-1;-2],1); ([-1;-3],1); ([-2;-3],1); ([1;2;3;4],2)] = true.
Proof. vm_compute. reflexivity. Qed.

(* Same satisfying assignments. *)
Theorem C15_detect : forall n P,
  bin_wf P = true ->
  forall m, sat_problem m (gproblem (detect_amo n P)) = sat_problem m (gproblem P).
Proof. exact detect_amo_problem. Qed.
Print Assumptions C15_detect.

(* Same verdict (the exhaustive search even returns the same model). *)
Theorem C15_verdict : forall n P k,
  bin_wf P = true ->
  find_model k (fun m => sat_problem m (gproblem (detect_amo n P)))
  = find_model k (fun m => sat_problem m (gproblem P)).
Proof. exact detect_amo_verdict. Qed.
Print Assumptions C15_verdict.

Theorem C15_satisfiable : forall n P k,
  bin_wf P = true ->
  PSatisfiable k (gproblem (detect_amo n P)) <-> PSatisfiable k (gproblem P).
Proof. exact detect_amo_satisfiable. Qed.
Print Assumptions C15_satisfiable.

(* Same number of models, same list of models. *)
Theorem C15_count : forall n P k,
  bin_wf P = true ->
  count_models k (fun m => sat_problem m (gproblem (detect_amo n P)))
  = count_models k (fun m => sat_problem m (gproblem P)).
Proof. exact detect_amo_count. Qed.
Print Assumptions C15_count.

Theorem C15_models : forall n P k,
  bin_wf P = true ->
  list_models k (fun m => sat_problem m (gproblem (detect_amo n P)))
  = list_models k (fun m => sat_problem m (gproblem P)).
Proof. exact detect_amo_models. Qed.
Print Assumptions C15_models.

(* Same optimum for every linear cost function. *)
Theorem C15_optimum : forall n P k c,
  bin_wf P = true ->
  min_dec k (gproblem (detect_amo n P)) c = min_dec k (gproblem P) c.
Proof. exact detect_amo_optimum. Qed.
Print Assumptions C15_optimum.

(* Without the hypothesis the statement is false: DetectAtMostOne tests only
   the length of a constraint, so "~x1 + ~x2 >= 2" is treated as a clause. *)
Theorem C15_detect_refuted : exists n P m,
  sat_gcls m (detect_amo n P) <> sat_gcls m P.
Proof. exact detect_amo_refuted. Qed.
Print Assumptions C15_detect_refuted.
