(* C10: solving under assumptions.  Statements only.
   [solve] is the abstract decision procedure; [learn] is what a round adds
   to the solver, with the hypothesis [learn_ok]: it follows from the problem
   alone, not from the assumptions of the round. *)
From Coq Require Import List ZArith Bool NArith.
From GS Require Import Spec.Base Spec.PB Spec.Solver Model.Incr Model.Assume Proofs.Assume.
Import ListNotations.
Open Scope Z_scope.

(* Every round answers Sat (with a model) exactly when the problem together
   with the assumptions of THIS round is satisfiable. *)
Theorem C10_rounds :
  forall solve learn, solver_ok solve -> learn_ok learn ->
  forall n base rounds,
    Forall2 (fun out ls => answer_ok out (n, base ++ units ls))
            (run_rounds solve learn (init_assume n base) rounds) rounds.
Proof. exact rounds_correct. Qed.
Print Assumptions C10_rounds.

(* ... that is, exactly as a fresh solver on problem + assumptions. *)
Theorem C10_fresh :
  forall solve learn, solver_ok solve -> learn_ok learn ->
  forall solve', solver_ok solve' ->
  forall n base rounds,
    map is_some (run_rounds solve learn (init_assume n base) rounds) =
    round_verdicts solve' n base rounds.
Proof. exact rounds_fresh. Qed.
Print Assumptions C10_fresh.

(* A Sat model satisfies the problem, its unit clauses included, and every
   current assumption. *)
Theorem C10_models :
  forall solve learn, solver_ok solve -> learn_ok learn ->
  forall n base rounds,
    Forall2 (fun out ls => forall m, out = Some m ->
               length m = n /\ sat_problem m base = true /\
               (forall c l, In c base -> unit_of c = Some l -> lit_val m l = true) /\
               Forall (fun l => lit_val m l = true) ls)
            (run_rounds solve learn (init_assume n base) rounds) rounds.
Proof. exact rounds_models. Qed.
Print Assumptions C10_models.

(* A contradictory round answers Unsat, for that round only. *)
Theorem C10_round_local :
  forall solve learn, solver_ok solve -> learn_ok learn ->
  forall n base r1 bad r2,
    (forall m, length m = n -> sat_problem m (base ++ units bad) = false) ->
    map is_some (run_rounds solve learn (init_assume n base) (r1 ++ bad :: r2)) =
    map is_some (run_rounds solve learn (init_assume n base) r1) ++
    false :: skipn (length r1)
               (map is_some (run_rounds solve learn (init_assume n base) (r1 ++ r2))).
Proof. exact round_local. Qed.
Print Assumptions C10_round_local.

(* Assumptions that contradict each other, or a unit clause of the problem,
   are such rounds. *)
Theorem C10_opposite_assumptions :
  forall base ls l, l <> 0 -> In l ls -> In (- l) ls ->
  forall m, sat_problem m (base ++ units ls) = false.
Proof. exact opposite_assumptions_unsat. Qed.
Print Assumptions C10_opposite_assumptions.

Theorem C10_assumption_against_unit :
  forall base ls c l, l <> 0 -> In c base -> unit_of c = Some l -> In (- l) ls ->
  forall m, sat_problem m (base ++ units ls) = false.
Proof. exact assumption_against_unit_unsat. Qed.
Print Assumptions C10_assumption_against_unit.

(* The hypotheses are satisfiable. *)
Example C10_hyp_solve : solver_ok ref_solve.
Proof. exact ref_solver_ok. Qed.
Example C10_hyp_learn_none : learn_ok learn_none.
Proof. exact learn_none_ok. Qed.
Example C10_hyp_learn_ref : learn_ok learn_ref.
Proof. exact learn_ref_ok. Qed.
Print Assumptions C10_hyp_learn_ref.

(* -x1 \/ x6 \/ x4, -x3, -x2, x3 \/ x1 (the unit clauses live on the trail).
   Rounds: against a unit clause; satisfiable; opposite assumptions; none;
   against the problem by propagation; the same literal twice. *)
Example C10_ex_init :
  init_assume 6 [clause_pbc [-1; 6; 4]; clause_pbc [-3]; clause_pbc [-2]; clause_pbc [3; 1]] =
  AState 6 [-3; -2] [clause_pbc [-1; 6; 4]; clause_pbc [3; 1]] [] false.
Proof. vm_compute. reflexivity. Qed.

Example C10_ex_rounds :
  run_rounds_ref 6 [clause_pbc [-1; 6; 4]; clause_pbc [-3]; clause_pbc [-2]; clause_pbc [3; 1]]
                 [[3; -5; 6]; [-5; 6]; [5; -5]; []; [-4; -6]; [4; 4]] =
  [None; Some [true; false; false; false; false; true]; None;
   Some [true; false; false; false; false; true]; None;
   Some [true; false; false; true; false; false]].
Proof. vm_compute. reflexivity. Qed.

Example C10_ex_fresh :
  round_verdicts ref_solve 6
    [clause_pbc [-1; 6; 4]; clause_pbc [-3]; clause_pbc [-2]; clause_pbc [3; 1]]
    [[3; -5; 6]; [-5; 6]; [5; -5]; []; [-4; -6]; [4; 4]] =
  [false; true; false; true; false; true].
Proof. vm_compute. reflexivity. Qed.

(* what the fifth round leaves behind: learned facts and the learned clause
   x4 \/ x6, all consequences of the problem alone; the assumptions stay on
   the trail until the next Assume *)
Example C10_ex_learned :
  snd (round ref_solve learn_ref
         (init_assume 6 [clause_pbc [-1; 6; 4]; clause_pbc [-3]; clause_pbc [-2]; clause_pbc [3; 1]])
         [-4; -6]) =
  AState 6 [-3; -2; -3; -2; 1]
         [clause_pbc [-1; 6; 4]; clause_pbc [3; 1]; clause_pbc [4; 6]] [-4; -6] false.
Proof. vm_compute. reflexivity. Qed.
