(* C02g: the constraint constructors of solver/pb.go and solver/card.go,
   EXECUTED.  Gen/GoSrc.v is the syntactic image of the Go functions in the
   language of Model/GoIR.v (regenerated from /repo on every run); the theorems
   below say that running those terms under the semantics of Model/GoIR.v --
   heap of arrays, slice headers that alias, nil vs empty, bounds-check panics --
   computes exactly what the hand-written models of Model/PBNorm.v compute, for
   every heap, every list and every integer, and say what happens to the heap
   (which arrays are written, what the caller's slices hold afterwards).
   Statements only; the proofs are in Proofs/GoIR.v and Proofs/GoSrcPB.v. *)
From Coq Require Import List ZArith Bool String.
From GS Require Import Spec.Base Spec.PB Model.PBNorm Model.GoIR Gen.GoSrc Proofs.GoIR Proofs.GoSrcPB Proofs.GoSrcPBSem.
Import ListNotations.
Open Scope string_scope.
Open Scope list_scope.
Notation length := List.length (only parsing).
Open Scope Z_scope.

(* ------------------------------------------------------------------ the interpreter *)

(* more fuel never changes a result *)
Theorem C02g_exec_mono : forall fe f s st o, exec fe f s st = o -> o <> OFuel ->
  forall f', (f <= f')%nat -> exec fe f' s st = o.
Proof. exact exec_mono. Qed.
Print Assumptions C02g_exec_mono.

(* hence results are unique *)
Theorem C02g_run_det : forall fe f1 f2 g args h o1 o2,
  run fe f1 g args h = o1 -> o1 <> OFuel -> run fe f2 g args h = o2 -> o2 <> OFuel -> o1 = o2.
Proof. exact run_det. Qed.
Print Assumptions C02g_run_det.

(* ------------------------------------------------------------------ straight-line constructors *)

Theorem C02g_PropClause : forall h vl ls, int_slice h vl ls ->
  exists fuel v h', run go_funs fuel "PropClause" [vl] h = OReturn v h' /\
    gopb_of_rval (readback h' v) = Some (prop_clause ls) /\ h' = h /\ v = VStruct [vl; VNil; VInt 1].
Proof. exact PropClause_refines. Qed.
Print Assumptions C02g_PropClause.

Theorem C02g_AtLeast : forall h vl ls n, int_slice h vl ls ->
  exists fuel v h', run go_funs fuel "AtLeast" [vl; VInt n] h = OReturn v h' /\
    gopb_of_rval (readback h' v) = Some (at_least ls n) /\ h' = h /\ v = VStruct [vl; VNil; VInt n].
Proof. exact AtLeast_refines. Qed.
Print Assumptions C02g_AtLeast.

Theorem C02g_AtLeast1 : forall h vl ls, int_slice h vl ls ->
  exists fuel v h', run go_funs fuel "AtLeast1" [vl] h = OReturn v h' /\
    gocard_of_rval (readback h' v) = Some (at_least1 ls) /\ h' = h /\ v = VStruct [vl; VInt 1].
Proof. exact AtLeast1_refines. Qed.
Print Assumptions C02g_AtLeast1.

(* ------------------------------------------------------------------ one fresh array, the old heap a prefix *)

Theorem C02g_AtMost : forall h vl ls n, int_slice h vl ls ->
  exists fuel v h', run go_funs fuel "AtMost" [vl; VInt n] h = OReturn v h' /\
    gopb_of_rval (readback h' v) = Some (at_most ls n) /\
    h' = h ++ [map Z.opp ls] /\ firstn (length h) h' = h /\ length h' = S (length h).
Proof. exact AtMost_refines. Qed.
Print Assumptions C02g_AtMost.

Theorem C02g_AtMost1 : forall h vl ls, int_slice h vl ls ->
  exists fuel v h', run go_funs fuel "AtMost1" [vl] h = OReturn v h' /\
    gocard_of_rval (readback h' v) = Some (at_most1 ls) /\
    h' = h ++ [map Z.opp ls] /\ firstn (length h) h' = h /\ length h' = S (length h).
Proof. exact AtMost1_refines. Qed.
Print Assumptions C02g_AtMost1.

Theorem C02g_Exactly1 : forall h vl ls, int_slice h vl ls ->
  exists fuel c1 c2 h', run go_funs fuel "Exactly1" [vl] h = OReturn (VList [c1; c2]) h' /\
    readback h' (VList [c1; c2]) = RList [readback h' c1; readback h' c2] /\
    gocards_of_rvals [readback h' c1; readback h' c2] = Some (exactly1 ls) /\
    h' = h ++ [map Z.opp ls] /\ firstn (length h) h' = h.
Proof. exact Exactly1_refines. Qed.
Print Assumptions C02g_Exactly1.

(* [ws_opt vw ws] is [None] for the nil slice, [Some ws] otherwise *)
Theorem C02g_WeightSum : forall h vl vw ls ws d, int_slice h vl ls -> int_slice h vw ws ->
  exists fuel, run go_funs fuel "PBConstr.WeightSum" [VStruct [vl; vw; VInt d]] h
    = OReturn (VInt (weight_sum (GoPB ls (ws_opt vw ws) d))) h.
Proof. exact WeightSum_refines. Qed.
Print Assumptions C02g_WeightSum.

(* ------------------------------------------------------------------ GtEq *)

(* weights nil, or non-empty and as many as lits: the model, no allocation,
   no array touched but the two of the arguments *)
Theorem C02g_GtEq : forall h vl vw ls ws n,
  int_slice h vl ls -> int_slice h vw ws -> disjoint_vals vl vw ->
  (vw = VNil \/ (ws <> [] /\ length ls = length ws)) ->
  exists fuel v h',
    run go_funs fuel "GtEq" [vl; vw; VInt n] h = OReturn v h' /\
    gopb_of_rval (readback h' v) = Some (gt_eq ls ws n) /\
    length h' = length h /\
    (forall a, (forall s, vl = VSl s -> a <> s_arr s) -> (forall s, vw = VSl s -> a <> s_arr s) ->
               arr_of h' a = arr_of h a).
Proof. exact GtEq_refines. Qed.
Print Assumptions C02g_GtEq.

(* no amount of fuel gives another outcome *)
Theorem C02g_GtEq_deterministic : forall h vl vw ls ws n fuel o,
  int_slice h vl ls -> int_slice h vw ws -> disjoint_vals vl vw ->
  (vw = VNil \/ (ws <> [] /\ length ls = length ws)) ->
  run go_funs fuel "GtEq" [vl; vw; VInt n] h = o -> o <> OFuel ->
  exists v h', o = OReturn v h' /\ gopb_of_rval (readback h' v) = Some (gt_eq ls ws n) /\
               length h' = length h.
Proof. exact GtEq_deterministic. Qed.
Print Assumptions C02g_GtEq_deterministic.

(* "takes ownership": what the caller's two slices hold afterwards -- the
   result, then one copy of the last input element per deleted pair; outside
   the two windows the two arrays are as before ([outside_same]) *)
Theorem C02g_GtEq_caller_after : forall h sl sw ls ws n,
  int_slice h (VSl sl) ls -> int_slice h (VSl sw) ws -> s_arr sl <> s_arr sw ->
  ws <> [] -> length ls = length ws ->
  exists fuel v h' wl,
    run go_funs fuel "GtEq" [VSl sl; VSl sw; VInt n] h = OReturn v h' /\
    g_ws (gt_eq ls ws n) = Some wl /\
    sl_read h' sl = g_lits (gt_eq ls ws n) ++ repeat (last ls 0) (length ls - length (g_lits (gt_eq ls ws n))) /\
    sl_read h' sw = wl ++ repeat (last ws 0) (length ws - length wl) /\
    outside_same h h' sl /\ outside_same h h' sw.
Proof. exact GtEq_caller_after. Qed.
Print Assumptions C02g_GtEq_caller_after.

(* observation: weights NON-nil of length 0 (any lits): the arguments come back
   as they are, Weights non-nil and empty; [gt_eq ls [] n] models that as nil *)
Theorem C02g_GtEq_empty_weights_observation : forall h vl sw n, s_len sw = O ->
  exists fuel, run go_funs fuel "GtEq" [vl; VSl sw; VInt n] h
               = OReturn (VStruct [vl; VSl sw; VInt n]) h.
Proof. exact GtEq_empty_weights_observation. Qed.
Print Assumptions C02g_GtEq_empty_weights_observation.

Theorem C02g_GtEq_panics : forall h vl vw ls ws n,
  int_slice h vl ls -> int_slice h vw ws -> ws <> [] -> length ls <> length ws ->
  exists fuel, run go_funs fuel "GtEq" [vl; vw; VInt n] h = OPanic.
Proof. exact GtEq_panics. Qed.
Print Assumptions C02g_GtEq_panics.

(* ------------------------------------------------------------------ LtEq *)

(* as many weights as lits, weights nil (then no lits) or non-empty *)
Theorem C02g_LtEq : forall h vl vw ls ws n,
  int_slice h vl ls -> int_slice h vw ws -> disjoint_vals vl vw ->
  length ls = length ws -> (vw = VNil \/ ws <> []) ->
  exists fuel v h',
    run go_funs fuel "LtEq" [vl; vw; VInt n] h = OReturn v h' /\
    gopb_of_rval (readback h' v) = Some (lt_eq ls ws n) /\
    length h' = length h /\
    (forall a, (forall s, vl = VSl s -> a <> s_arr s) -> (forall s, vw = VSl s -> a <> s_arr s) ->
               arr_of h' a = arr_of h a).
Proof. exact LtEq_refines. Qed.
Print Assumptions C02g_LtEq.

Theorem C02g_LtEq_caller_after : forall h sl sw ls ws n,
  int_slice h (VSl sl) ls -> int_slice h (VSl sw) ws -> s_arr sl <> s_arr sw ->
  ws <> [] -> length ls = length ws ->
  exists fuel v h' wl,
    run go_funs fuel "LtEq" [VSl sl; VSl sw; VInt n] h = OReturn v h' /\
    g_ws (lt_eq ls ws n) = Some wl /\
    sl_read h' sl = g_lits (lt_eq ls ws n) ++
                    repeat (last (map Z.opp ls) 0) (length ls - length (g_lits (lt_eq ls ws n))) /\
    sl_read h' sw = wl ++ repeat (last ws 0) (length ws - length wl).
Proof. exact LtEq_caller_after. Qed.
Print Assumptions C02g_LtEq_caller_after.

(* observation: no lits (nil or empty) and weights NON-nil of length 0 *)
Theorem C02g_LtEq_empty_weights_observation : forall h vl sw n,
  (vl = VNil \/ exists s, vl = VSl s /\ s_len s = O) -> s_len sw = O ->
  exists fuel, run go_funs fuel "LtEq" [vl; VSl sw; VInt n] h
               = OReturn (VStruct [vl; VSl sw; VInt (0 - n)]) h.
Proof. exact LtEq_empty_weights_observation. Qed.
Print Assumptions C02g_LtEq_empty_weights_observation.

(* every other case panics: in the loop when weights is shorter (after
   lits[len(weights)] has been negated), in GtEq when it is longer *)
Theorem C02g_LtEq_panics : forall h vl vw ls ws n,
  int_slice h vl ls -> int_slice h vw ws -> disjoint_vals vl vw -> length ls <> length ws ->
  exists fuel, run go_funs fuel "LtEq" [vl; vw; VInt n] h = OPanic.
Proof. exact LtEq_panics. Qed.
Print Assumptions C02g_LtEq_panics.

(* ------------------------------------------------------------------ Eq *)

(* two fresh arrays (the copies handed to GtEq); the originals go through LtEq *)
Theorem C02g_Eq : forall h vl vw ls ws n,
  int_slice h vl ls -> int_slice h vw ws -> disjoint_vals vl vw ->
  length ls = length ws -> ws <> [] ->
  exists fuel v h',
    run go_funs fuel "Eq" [vl; vw; VInt n] h = OReturn v h' /\
    gopbs_of_rval (readback h' v) = Some (eq_ ls ws n) /\
    (v = VNil \/ exists l, v = VList l) /\
    length h' = S (S (length h)) /\
    (forall a, (a < length h)%nat ->
               (forall s, vl = VSl s -> a <> s_arr s) -> (forall s, vw = VSl s -> a <> s_arr s) ->
               arr_of h' a = arr_of h a) /\
    (forall s, vl = VSl s ->
       sl_read h' s = g_lits (lt_eq ls ws n) ++
                      repeat (last (map Z.opp ls) 0) (length ls - length (g_lits (lt_eq ls ws n)))) /\
    (forall s, vw = VSl s -> exists wl, g_ws (lt_eq ls ws n) = Some wl /\
       sl_read h' s = wl ++ repeat (last ws 0) (length ws - length wl)).
Proof. exact Eq_refines. Qed.
Print Assumptions C02g_Eq.

(* observation: no lits and no weights (each nil or of length 0).  The copies
   are two fresh NON-nil empty slices, so when n > 0 the constraint kept has
   Weights non-nil and empty, where [eq_ [] [] n] says nil *)
Theorem C02g_Eq_empty_observation : forall h vl vw n, empty_val vl -> empty_val vw ->
  exists fuel, run go_funs fuel "Eq" [vl; vw; VInt n] h =
    OReturn (list_val ((if 0 <? n then [VStruct [eq_l2 h O; eq_w2 h O; VInt n]] else []) ++
                       (if 0 <? 0 - n then [VStruct [vl; vw; VInt (0 - n)]] else [])))
            ((h ++ [[]]) ++ [[]]).
Proof. exact Eq_empty_observation. Qed.
Print Assumptions C02g_Eq_empty_observation.

(* different lengths: GtEq on the copies panics when there is a weight, LtEq
   on the originals when there is none *)
Theorem C02g_Eq_panics : forall h vl vw ls ws n,
  int_slice h vl ls -> int_slice h vw ws -> disjoint_vals vl vw -> length ls <> length ws ->
  exists fuel, run go_funs fuel "Eq" [vl; vw; VInt n] h = OPanic.
Proof. exact Eq_panics. Qed.
Print Assumptions C02g_Eq_panics.

(* ------------------------------------------------------------------ the hypotheses are satisfiable, the runs concrete *)

(* ------------------------------------------------------------------ what the executed source MEANS
   (the refinements above composed with C02_gteq / C02_lteq / C02_eq): for any literals over distinct variables and as many
   weights of either sign, the constraint(s) the regenerated source of GtEq / LtEq / Eq returns hold under an assignment
   exactly when the weighted sum is >= n / <= n / = n *)
Theorem C02g_GtEq_meaning : forall h vl vw ls ws n,
  int_slice h vl ls -> int_slice h vw ws -> disjoint_vals vl vw ->
  ws <> [] -> length ls = length ws -> wf_clause ls ->
  exists fuel v h' g,
    run go_funs fuel "GtEq" [vl; vw; VInt n] h = OReturn v h' /\
    gopb_of_rval (readback h' v) = Some g /\
    forall m : model, sat_pbc m (pbc_of_gopb g) = sat_uc m (UC (combine ws ls) PB.Ge n).
Proof. exact GtEq_src_meaning. Qed.
Print Assumptions C02g_GtEq_meaning.

Theorem C02g_LtEq_meaning : forall h vl vw ls ws n,
  int_slice h vl ls -> int_slice h vw ws -> disjoint_vals vl vw ->
  ws <> [] -> length ls = length ws -> wf_clause ls ->
  exists fuel v h' g,
    run go_funs fuel "LtEq" [vl; vw; VInt n] h = OReturn v h' /\
    gopb_of_rval (readback h' v) = Some g /\
    forall m : model, sat_pbc m (pbc_of_gopb g) = sat_uc m (UC (combine ws ls) PB.Le n).
Proof. exact LtEq_src_meaning. Qed.
Print Assumptions C02g_LtEq_meaning.

Theorem C02g_Eq_meaning : forall h vl vw ls ws n,
  int_slice h vl ls -> int_slice h vw ws -> disjoint_vals vl vw ->
  ws <> [] -> length ls = length ws -> wf_clause ls ->
  exists fuel v h' gs,
    run go_funs fuel "Eq" [vl; vw; VInt n] h = OReturn v h' /\
    gopbs_of_rval (readback h' v) = Some gs /\
    forall m : model, forallb (fun g => sat_pbc m (pbc_of_gopb g)) gs = sat_uc m (UC (combine ws ls) PB.Eq n).
Proof. exact Eq_src_meaning. Qed.
Print Assumptions C02g_Eq_meaning.

Example C02g_hyps :
  let h := [[1; 2; 3]; [2; -3; 0]] in
  int_slice h (VSl (Slice 0 0 3 3)) [1; 2; 3] /\ int_slice h (VSl (Slice 1 0 3 3)) [2; -3; 0] /\
  disjoint_vals (VSl (Slice 0 0 3 3)) (VSl (Slice 1 0 3 3)) /\ int_slice h VNil [] /\
  empty_val VNil /\ empty_val (VSl (Slice 0 1 0 2)).
Proof.
  cbv zeta. split; [right; eexists; split; [reflexivity|split; [cbv; auto|reflexivity]]|].
  split; [right; eexists; split; [reflexivity|split; [cbv; auto|reflexivity]]|].
  split; [cbv; discriminate|]. split; [left; auto|]. split; [left; reflexivity|].
  right. eexists. split; reflexivity.
Qed.

(* result, then what the CALLER's slices hold afterwards *)
Example C02g_run_GtEq :
  run_args go_funs 200 "GtEq" [ASl (Some [1; 2; 3]); ASl (Some [2; -3; 0]); AInt 5]
  = RRet (RStruct [RSl [1; -2]; RSl [2; 3]; RInt 8]) [RSl [1; -2; 3]; RSl [2; 3; 0]; RInt 5].
Proof. vm_compute. reflexivity. Qed.

Example C02g_model_GtEq : gt_eq [1; 2; 3] [2; -3; 0] 5 = GoPB [1; -2] (Some [2; 3]) 8.
Proof. vm_compute. reflexivity. Qed.

(* three deletions: three copies of the last input element stay behind *)
Example C02g_run_GtEq_tail :
  run_args go_funs 200 "GtEq" [ASl (Some [1; 2; 3; 4; 5]); ASl (Some [0; -3; 0; 0; 7]); AInt 5]
  = RRet (RStruct [RSl [-2; 5]; RSl [3; 7]; RInt 8]) [RSl [-2; 5; 5; 5; 5]; RSl [3; 7; 7; 7; 7]; RInt 5].
Proof. vm_compute. reflexivity. Qed.

Example C02g_run_LtEq :
  run_args go_funs 200 "LtEq" [ASl (Some [1; 2; 3]); ASl (Some [2; -3; 0]); AInt 5]
  = RRet (RStruct [RSl [-1; 2]; RSl [2; 3]; RInt (-3)]) [RSl [-1; 2; -3]; RSl [2; 3; 0]; RInt 5].
Proof. vm_compute. reflexivity. Qed.

Example C02g_run_Eq :
  run_args go_funs 200 "Eq" [ASl (Some [1; 2; 3]); ASl (Some [2; -3; 0]); AInt 1]
  = RRet (RList [RStruct [RSl [1; -2]; RSl [2; 3]; RInt 4]; RStruct [RSl [-1; 2]; RSl [2; 3]; RInt 1]])
         [RSl [-1; 2; -3]; RSl [2; 3; 0]; RInt 1].
Proof. vm_compute. reflexivity. Qed.

Example C02g_model_Eq :
  eq_ [1; 2; 3] [2; -3; 0] 1 = [GoPB [1; -2] (Some [2; 3]) 4; GoPB [-1; 2] (Some [2; 3]) 1].
Proof. vm_compute. reflexivity. Qed.

(* both constraints dropped: the nil slice *)
Example C02g_run_Eq_nil :
  run_args go_funs 200 "Eq" [ASl (Some [1]); ASl (Some [0]); AInt 0]
  = RRet RNil [RSl [-1]; RSl [0]; RInt 0].
Proof. vm_compute. reflexivity. Qed.

(* the corners where the execution and the hand-written model differ *)
Example C02g_run_Eq_empty :
  run_args go_funs 200 "Eq" [ASl None; ASl None; AInt 1]
  = RRet (RList [RStruct [RSl []; RSl []; RInt 1]]) [RNil; RNil; RInt 1] /\
  eq_ [] [] 1 = [GoPB [] None 1].
Proof. vm_compute. split; reflexivity. Qed.

Example C02g_run_GtEq_empty_weights :
  run_args go_funs 200 "GtEq" [ASl (Some [1; 2]); ASl (Some []); AInt 1]
  = RRet (RStruct [RSl [1; 2]; RSl []; RInt 1]) [RSl [1; 2]; RSl []; RInt 1] /\
  gt_eq [1; 2] [] 1 = GoPB [1; 2] None 1.
Proof. vm_compute. split; reflexivity. Qed.

Example C02g_run_panics :
  run_args go_funs 200 "GtEq" [ASl (Some [1; 2]); ASl (Some [1]); AInt 1] = RPanic /\
  run_args go_funs 200 "LtEq" [ASl (Some [1; 2]); ASl None; AInt 1] = RPanic /\
  run_args go_funs 200 "LtEq" [ASl (Some [1; 2]); ASl (Some [1]); AInt 1] = RPanic.
Proof. vm_compute. repeat split; reflexivity. Qed.

Example C02g_run_cards :
  run_args go_funs 200 "AtMost" [ASl (Some [1; -2; 3]); AInt 1]
  = RRet (RStruct [RSl [-1; 2; -3]; RNil; RInt 2]) [RSl [1; -2; 3]; RInt 1] /\
  run_args go_funs 200 "Exactly1" [ASl (Some [1; -2; 3])]
  = RRet (RList [RStruct [RSl [1; -2; 3]; RInt 1]; RStruct [RSl [-1; 2; -3]; RInt 2]]) [RSl [1; -2; 3]].
Proof. vm_compute. split; reflexivity. Qed.
