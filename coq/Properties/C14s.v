(* C14 (the search procedure): Solver.cuttingPlanes of solver/learn_pb.go
   (trail walk, onlyFalsified, the three return shapes) and the use of its
   result in propagateAndSearchPB.  Model: Model/CPSearch.v, proofs and
   diagnosis: Proofs/CPSearch.v.

   [cutting_planes] is the code as it is now (commit 0a73d0f):
     C14_search_sound, C14_search_total, C14_search_fixed_witnesses.
   [cutting_planes_old] is the code before that commit; it violated the verdict,
   no-panic and termination parts of C14: the three C14_search_old_*_refuted
   theorems, each on a state reachable by decisions and sound propagation,
   transcribed from an instrumented run; they are the regression witnesses of
   the repair. *)
From Coq Require Import List ZArith Bool.
From GS Require Import Spec.Base Spec.PB Model.PBNorm Model.CP Model.CPSearch Proofs.CPSearch.
Import ListNotations.
Open Scope Z_scope.

(* ---- the current code ------------------------------------------------ *)

(* MAIN: the learned constraint, or the units, handed back by cuttingPlanes
   are satisfied by every model of any problem P that contains the conflict
   constraint and the reasons, and the answer Unsat is given only when P has no
   model. *)
Theorem C14_search_sound : forall (P : problem) (st : state),
  state_wf2b st = true ->
  In (st_confl st) P ->
  (forall i c, nth i (st_reason st) None = Some c -> In c P) ->
  (forall l, In l (st_trail st) -> Z.abs (model_at (st_model st) l) = 1 ->
     forall m : model, sat_problem m P = true -> lit_val m l = true) ->
  match cutting_planes st with
  | CPLearn c _ _ => forall m : model, sat_problem m P = true -> sat_pbc m c = true
  | CPUnits us => forall m : model, sat_problem m P = true -> forallb (lit_val m) us = true
  | CPUnsat => forall m : model, sat_problem m P = false
  | _ => True
  end.
Proof. exact cp_sound. Qed.
Print Assumptions C14_search_sound.

(* the hypotheses hold on a state of the real solver (the state on which the
   old code answered Unsat): the conclusion there is that x1 is true in every
   model of the problem *)
Example C14_search_sound_hyp :
  state_wf2b st_unsat = true /\
  In (st_confl st_unsat) P_unsat /\
  (forall i c, nth i (st_reason st_unsat) None = Some c -> In c P_unsat) /\
  (forall l, In l (st_trail st_unsat) -> Z.abs (model_at (st_model st_unsat) l) = 1 ->
     forall m : model, sat_problem m P_unsat = true -> lit_val m l = true) /\
  cutting_planes st_unsat = CPUnits [1].
Proof.
  split; [vm_compute; reflexivity|]. split; [left; reflexivity|]. split; [|split].
  - intros i c H.
    do 7 (destruct i as [|i]; [cbn in H; try discriminate; injection H as <-; right; left; reflexivity|]).
    cbn in H. destruct i; discriminate.
  - intros l [<-|[<-|[<-|[<-|[]]]]] H; vm_compute in H; discriminate.
  - vm_compute. reflexivity.
Qed.

Example C14_search_sound_hyp_states :
  state_wf2b st_unsat = true /\ state_wf2b st_panic = true /\ state_wf2b st_div = true /\
  state_wf2b go_st1 = true /\ state_wf2b go_st2 = true /\ state_wf2b go_st3 = true.
Proof. repeat split; vm_compute; reflexivity. Qed.

(* TERMINATION WITHOUT PANIC of one call: with the fuel 2 * len(trail) + 2 the
   call returns one of its three shapes.  (Measure and argument in
   Proofs/CPSearch.v, cp_total.  The statement is about one call: at the level
   of the caller a search-level repetition remains, see Proofs/CPSearch.v.) *)
Theorem C14_search_total : forall st : state,
  state_wf3b st = true -> st_trail st <> [] ->
  match cutting_planes st with
  | CPPanic | CPPanicArith | CPFuel => False
  | _ => True
  end.
Proof. exact cp_total. Qed.
Print Assumptions C14_search_total.

Example C14_search_total_hyp :
  state_wf3b st_unsat = true /\ state_wf3b st_panic = true /\ state_wf3b st_div = true /\
  state_wf3b go_st1 = true /\ state_wf3b go_st2 = true /\ state_wf3b go_st3 = true /\
  st_trail st_unsat <> [].
Proof. repeat split; try (vm_compute; reflexivity). discriminate. Qed.

(* the current code on the three regression states: unit x1 (and the caller
   restarts from the trail [x1]); Unsat; the unit ~x1, which is false at level 1,
   so that the caller answers Unsat *)
Theorem C14_search_fixed_witnesses :
  cutting_planes st_unsat = CPUnits [1] /\
  (exists tr md rs, caller st_unsat = KUnit tr md rs [] /\ tr = [1]) /\
  cutting_planes st_panic = CPUnsat /\ caller st_panic = KUnsat /\
  cutting_planes st_div = CPUnits [-1] /\ caller st_div = KUnsat.
Proof. exact cp_fixed_witnesses. Qed.
Print Assumptions C14_search_fixed_witnesses.

(* the model agrees with the Go output (instrumented runs) on calls with each
   shape of result, including the state handed to propagate by the caller *)
Theorem C14_search_go_outputs :
  cutting_planes go_st1 = CPUnits [1] /\
  caller go_st1 = KUnit [-4; 1] [1; 0; 0; -1; 0; 0; 0; 0] (repeat None 8) [] /\
  cutting_planes go_st2 = CPLearn (PBC [(1, 2); (1, 7)] 1) [7] 2 /\
  (exists md rs, caller go_st2 = KLearn [-4; 1; -2; 7] md rs (PBC [(1, 2); (1, 7)] 1) 2) /\
  cutting_planes go_st3 = CPLearn (PBC [(2, -1); (1, 2); (1, 4); (1, -5)] 2) [4] 2 /\
  (exists md rs, caller go_st3 = KLearn [-3; 1; 5; 4] md rs (PBC [(2, -1); (1, 2); (1, 4); (1, -5)] 2) 2).
Proof. exact go_outputs. Qed.
Print Assumptions C14_search_go_outputs.

(* the same at commit 0a73d0f, on the two calls of a run in which the new end of
   cuttingPlanes matters: a unit that is a new fact is returned as before; a unit
   that is already a fact is not: the whole constraint is learned (before
   0a73d0f: the unit again) *)
Theorem C14_search_go_outputs2 :
  state_wf3b go_st4 = true /\ cutting_planes go_st4 = CPUnits [4] /\
  state_wf3b go_st5 = true /\
  cutting_planes go_st5 = CPLearn (PBC [(2, 4); (1, 2); (1, 3); (1, 7)] 4) [7] 2 /\
  (exists md rs, caller go_st5 = KLearn [4; -3; 7] md rs (PBC [(2, 4); (1, 2); (1, 3); (1, 7)] 4) 2) /\
  fst (cutting_planes_mid_full go_st5) = CPUnits [4].
Proof. exact go_outputs2. Qed.
Print Assumptions C14_search_go_outputs2.

(* ---- the code before 2aa45b5 ------------------------------------------ *)

(* REFUTED (verdict): a conflict state of the search on a satisfiable problem,
   reached by two decisions and two sound propagations, on which the old
   cuttingPlanes answered (nil, nil, -1) and the caller called setUnsat(). *)
Theorem C14_search_old_unsat_refuted :
  exists (P : problem) (n : nat) (run : list step) (ci : nat) (st : state),
    conflict_state P n run ci = Some st /\
    conflict_of P st /\
    state_ok P st = true /\
    decisions st = [-1; -7] /\
    (exists m : model, sat_problem m P = true) /\
    cutting_planes_old st = CPUnsat /\
    caller_old st = KUnsat.
Proof. exact cp_old_unsat_refuted. Qed.
Print Assumptions C14_search_old_unsat_refuted.

(* the witness: Eq([-5 -3 -1 -7], [-2 -2 1 2], 0) after ParsePBConstrs *)
Example C14_search_old_unsat_witness :
  P_unsat = [PBC [(2, 5); (2, 3); (2, -7); (1, -1)] 4; PBC [(2, -5); (2, -3); (2, 7); (1, 1)] 3] /\
  run_unsat = [StDecide (-1); StDecide (-7); StProp 1 (-5); StProp 1 (-3)] /\
  conflict_state P_unsat 7 run_unsat 0 = Some st_unsat /\
  st_trail st_unsat = [-1; -7; -5; -3] /\ st_model st_unsat = [-2; 0; -3; 0; -3; 0; -3] /\
  st_lvl st_unsat = 3 /\
  state_ok P_unsat st_unsat = true /\
  sat_problem [true; false; true; false; true; false; true] P_unsat = true /\
  count_models 7 (fun m => sat_problem m P_unsat) = 24%N /\   (* 3 models x 2^3 unused variables *)
  cutting_planes_old_full st_unsat = (CPUnsat, [-2; 0; 0; 0; 0; 0; 0]).
Proof. repeat split; vm_compute; reflexivity. Qed.

(* REFUTED (no panic): a reachable conflict state on which the old walk read
   s.trail[-1]. *)
Theorem C14_search_old_panic_refuted :
  exists (P : problem) (n : nat) (run : list step) (ci : nat) (st : state),
    conflict_state P n run ci = Some st /\
    conflict_of P st /\
    state_ok P st = true /\
    decisions st = [-1] /\
    cutting_planes_old st = CPPanic /\
    caller_old st = KPanic.
Proof. exact cp_old_panic_refuted. Qed.
Print Assumptions C14_search_old_panic_refuted.

(* the witness: AtMost([1 -3 2],1), AtLeast([3 -2 -1],1), AtMost([3 -2 -1],1);
   the problem has no model, the expected answer was Unsat *)
Example C14_search_old_panic_witness :
  P_panic = [PBC [(1, -1); (1, 3); (1, -2)] 2; PBC [(1, 3); (1, -2); (1, -1)] 1;
             PBC [(1, -3); (1, 2); (1, 1)] 2] /\
  run_panic = [StDecide (-1); StProp 2 (-3); StProp 2 2] /\
  conflict_state P_panic 3 run_panic 0 = Some st_panic /\
  st_trail st_panic = [-1; -3; 2] /\ st_model st_panic = [-2; 2; -2] /\ st_lvl st_panic = 2 /\
  find_model 3 (fun m => sat_problem m P_panic) = None /\
  cutting_planes_old st_panic = CPPanic.
Proof. repeat split; vm_compute; reflexivity. Qed.

(* REFUTED (termination): a reachable conflict state on which the old loop
   never exits: the model is out of fuel for EVERY fuel. *)
Theorem C14_search_old_diverges_refuted :
  exists (P : problem) (n : nat) (run : list step) (ci : nat) (st : state),
    conflict_state P n run ci = Some st /\
    conflict_of P st /\
    state_ok P st = true /\
    forall fuel : nat,
      fst (cp_loop_old fuel (st_n st) (st_reason st) (pbset_of (st_n st) (st_confl st))
                       (st_model st) (rev (st_trail st)) (st_lvl st)) = CPFuel.
Proof. exact cp_old_diverges. Qed.
Print Assumptions C14_search_old_diverges_refuted.

Example C14_search_old_diverges_witness :
  conflict_state P_div 5 run_div 2 = Some st_div /\
  st_trail st_div = [-3; 1; 5; 4; -2] /\ st_model st_div = [1; -2; -1; 2; 2] /\ st_lvl st_div = 2 /\
  find_model 5 (fun m => sat_problem m P_div) = None /\
  cutting_planes_old st_div = CPFuel.
Proof. repeat split; vm_compute; reflexivity. Qed.

(* PARTIAL (held already): whatever the old code handed back was a consequence
   of the conflict constraint and the reasons *)
Theorem C14_search_old_sound_partial : forall (P : problem) (st : state),
  state_wfb st = true ->
  In (st_confl st) P ->
  (forall i c, nth i (st_reason st) None = Some c -> In c P) ->
  match cutting_planes_old st with
  | CPLearn c _ _ => forall m : model, sat_problem m P = true -> sat_pbc m c = true
  | CPUnits us => forall m : model, sat_problem m P = true -> forallb (lit_val m) us = true
  | _ => True
  end.
Proof. exact cp_old_sound. Qed.
Print Assumptions C14_search_old_sound_partial.

Example C14_search_old_sound_hyp :
  state_wfb go_st2 = true /\ In (st_confl go_st2) (st_problem go_st2) /\
  cutting_planes_old go_st2 = CPLearn (PBC [(1, 2); (1, 7)] 1) [7] 2.
Proof. split; [vm_compute; reflexivity|]. split; [left; reflexivity|vm_compute; reflexivity]. Qed.

(* where the old code was right the current code gives the same answer *)
Theorem C14_search_old_agrees :
  cutting_planes_old go_st1 = cutting_planes go_st1 /\
  cutting_planes_old go_st2 = cutting_planes go_st2 /\
  cutting_planes_old go_st3 = cutting_planes go_st3.
Proof. exact go_outputs_old. Qed.
Print Assumptions C14_search_old_agrees.
