(* C02 composed: ParsePBConstrs / ParseCardConstrs (with simplifyPB /
   simplifyCard) followed by the verified reference search give the right
   verdict and a model of every input constraint; the same for user-level
   constraints (>=, <=, =, weights of either sign) sent through the public
   constructors GtEq / LtEq / Eq first.  Statements only; proofs in
   Proofs/Solve.v. *)
From Coq Require Import List ZArith Bool.
From GS Require Import Spec.Base Spec.PB Model.PBNorm Model.Simplify Model.Solve.
From GS Require Import Proofs.Solve.
Import ListNotations.
Open Scope Z_scope.

Theorem C02_solve_pb : forall cs, forallb wf_pbconstrb cs = true ->
  match solve_pb cs with
  | (Sat, Some m) =>
      List.length m = Z.to_nat (maxvar (map pc_lits cs)) /\
      forallb (sat_pbc m) (map pbconstr_pbc cs) = true
  | (Unsat, None) => forall m, forallb (sat_pbc m) (map pbconstr_pbc cs) = false
  | _ => False
  end.
Proof. exact solve_pb_spec. Qed.
Print Assumptions C02_solve_pb.

(* ParseCardConstrs skips a constraint with AtLeast <= 0 before counting its
   variables: the model only covers the variables of the other constraints
   ([card_live]); variables beyond the end of a model read false, and the
   skipped constraints hold under every assignment. *)
Theorem C02_solve_card : forall cs, forallb wf_cardconstrb cs = true ->
  match solve_card cs with
  | (Sat, Some m) =>
      List.length m = Z.to_nat (maxvar (map fst (card_live cs))) /\
      forallb (sat_pbc m) (map card_pbc_of cs) = true
  | (Unsat, None) => forall m, forallb (sat_pbc m) (map card_pbc_of cs) = false
  | _ => False
  end.
Proof. exact solve_card_spec. Qed.
Print Assumptions C02_solve_card.

(* the number of variables of the problem handed to the search *)
Theorem C02_parse_pb_nbvars : forall fuel cs, Proofs.Simplify.wf_pbs cs ->
  gp_status (parse_pb fuel cs) <> Unsat ->
  gp_nbvars (parse_pb fuel cs) = maxvar (map pc_lits cs).
Proof. exact parse_pb_nbvars. Qed.
Print Assumptions C02_parse_pb_nbvars.

Theorem C02_parse_card_nbvars : forall fuel cs, Proofs.Simplify.wf_cards cs ->
  gp_status (parse_card fuel cs) <> Unsat ->
  gp_nbvars (parse_card fuel cs) = maxvar (map fst (card_live cs)).
Proof. exact parse_card_nbvars. Qed.
Print Assumptions C02_parse_card_nbvars.

(* user level.  wf_uc: no literal 0.  The constructors delete zero-weight
   terms, so the model covers the variables that survive normalisation. *)
Theorem C02_solve_user : forall ucs, Forall wf_uc ucs ->
  match solve_user ucs with
  | (Sat, Some m) =>
      List.length m = Z.to_nat (maxvar (map pc_lits (user_pbconstrs ucs))) /\
      sat_uproblem m ucs = true
  | (Unsat, None) => forall m, sat_uproblem m ucs = false
  | _ => False
  end.
Proof. exact solve_user_spec. Qed.
Print Assumptions C02_solve_user.

(* what the constructors produce is accepted by C02_parse_pb_equiv, and means
   the user problem *)
Theorem C02_user_wf : forall ucs, Forall wf_uc ucs ->
  forallb wf_pbconstrb (user_pbconstrs ucs) = true.
Proof. exact user_pbconstrs_wfb. Qed.
Print Assumptions C02_user_wf.

Theorem C02_user_sem : forall (m : list bool) ucs, Forall wf_uc ucs ->
  forallb (sat_pbc m) (map pbconstr_pbc (user_pbconstrs ucs)) = sat_uproblem m ucs.
Proof. exact user_pbconstrs_sem. Qed.
Print Assumptions C02_user_sem.

(* the constraints ParsePBConstrs skips (AtLeast <= 0, on which NewPBClause
   would panic) hold under every assignment *)
Theorem C02_user_skipped_hold : forall ucs g (m : list bool), Forall wf_uc ucs ->
  In g (flat_map norm_uc ucs) -> g_atleast g <= 0 -> sat_pbc m (pbc_of_gopb g) = true.
Proof. exact skipped_constraints_hold. Qed.
Print Assumptions C02_user_skipped_hold.

Example C02s_hyp_user : Forall wf_uc [UC [(2, 1); (-3, 2); (1, 3)] Eq 0; UC [(1, 1); (1, 3)] Ge 1].
Proof. exact ex_wf_user. Qed.
Example C02s_run_user :
  solve_user [UC [(2, 1); (-3, 2); (1, 3)] Eq 0; UC [(1, 1); (1, 3)] Ge 1] = (Sat, Some [true; true; true]).
Proof. exact ex_solve_user. Qed.
Example C02s_hyp_pb : forallb wf_pbconstrb Proofs.Simplify.ex_pbs = true.
Proof. exact Proofs.Simplify.ex_pbs_wf. Qed.
Example C02s_hyp_card : forallb wf_cardconstrb Proofs.Simplify.ex_cards = true.
Proof. exact Proofs.Simplify.ex_cards_wf. Qed.
