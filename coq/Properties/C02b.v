(* C02 (front-end part): ParsePBConstrs + simplifyPB and ParseCardConstrs +
   simplifyCard (solver/parser_pb.go:13-130, solver/problem.go:256-367) keep
   exactly the models of the constraints they are given -- for every value of
   the restart/modified fuel, and without assuming that the variables of a
   constraint are distinct.  Statements only. *)
From Coq Require Import List ZArith Bool.
From GS Require Import Spec.Base Spec.PB Model.Simplify Proofs.Simplify.
Import ListNotations.
Open Scope Z_scope.

(* wf_pbconstrb: non-zero literals, Weights nil or as long as Lits, weights > 0 *)
Theorem C02_parse_pb_equiv : forall cs m fuel, forallb wf_pbconstrb cs = true ->
  sat_gproblem m (parse_pb fuel cs) = forallb (sat_pbc m) (map pbconstr_pbc cs).
Proof. exact parse_pb_equiv. Qed.
Print Assumptions C02_parse_pb_equiv.

Theorem C02_ParsePBConstrs_equiv : forall cs m, forallb wf_pbconstrb cs = true ->
  sat_gproblem m (ParsePBConstrs cs) = forallb (sat_pbc m) (map pbconstr_pbc cs).
Proof. exact (fun cs m H => parse_pb_equiv cs m (parse_pb_fuel cs) H). Qed.
Print Assumptions C02_ParsePBConstrs_equiv.

Theorem C02_parse_pb_status_sat : forall cs fuel, forallb wf_pbconstrb cs = true ->
  gp_status (parse_pb fuel cs) = Sat -> gp_clauses (parse_pb fuel cs) = [].
Proof. exact parse_pb_status_sat. Qed.
Print Assumptions C02_parse_pb_status_sat.

Theorem C02_parse_pb_fuel_enough : forall cs fuel,
  (pb_size cs < fuel)%nat -> parse_pb_done fuel cs = true.
Proof. exact parse_pb_fuel_enough. Qed.
Print Assumptions C02_parse_pb_fuel_enough.

Theorem C02_parse_pb_fuel_stable : forall cs fuel fuel',
  parse_pb_done fuel cs = true -> (fuel <= fuel')%nat ->
  parse_pb fuel' cs = parse_pb fuel cs /\ parse_pb_done fuel' cs = true.
Proof. exact parse_pb_stable. Qed.
Print Assumptions C02_parse_pb_fuel_stable.

(* wf_cardconstrb: non-zero literals.  simplifyCard as it is now in /repo:
   a true literal is removed and the cardinality decremented. *)
Theorem C02_parse_card_equiv : forall cs m fuel, forallb wf_cardconstrb cs = true ->
  sat_gproblem m (parse_card fuel cs) = forallb (sat_pbc m) (map card_pbc_of cs).
Proof. exact parse_card_equiv. Qed.
Print Assumptions C02_parse_card_equiv.

Theorem C02_ParseCardConstrs_equiv : forall cs m, forallb wf_cardconstrb cs = true ->
  sat_gproblem m (ParseCardConstrs cs) = forallb (sat_pbc m) (map card_pbc_of cs).
Proof. exact (fun cs m H => parse_card_equiv cs m (parse_card_fuel cs) H). Qed.
Print Assumptions C02_ParseCardConstrs_equiv.

Theorem C02_parse_card_status_sat : forall cs fuel, forallb wf_cardconstrb cs = true ->
  gp_status (parse_card fuel cs) = Sat -> gp_clauses (parse_card fuel cs) = [].
Proof. exact parse_card_status_sat. Qed.
Print Assumptions C02_parse_card_status_sat.

Theorem C02_parse_card_fuel_enough : forall cs fuel,
  (length cs < fuel)%nat -> parse_card_done fuel cs = true.
Proof. exact parse_card_fuel_enough. Qed.
Print Assumptions C02_parse_card_fuel_enough.

Theorem C02_parse_card_fuel_stable : forall cs fuel fuel',
  parse_card_done fuel cs = true -> (fuel <= fuel')%nat ->
  parse_card fuel' cs = parse_card fuel cs /\ parse_card_done fuel' cs = true.
Proof. exact parse_card_stable. Qed.
Print Assumptions C02_parse_card_fuel_stable.

(* the hypotheses are satisfiable *)
Example C02_hyp_pb : forallb wf_pbconstrb ex_pbs = true.
Proof. exact ex_pbs_wf. Qed.
Example C02_hyp_card : forallb wf_cardconstrb ex_cards = true.
Proof. exact ex_cards_wf. Qed.
