(* C18: what the Go printers write (Problem.CNF, Problem.PBString with
   costFuncString, Solver.PBString, explain's Problem.CNF) is read back by the
   Go readers as a problem with the same models and the same cost function; a
   problem / solver whose status is Unsat is read back as an unsatisfiable
   problem.
   Model: Model/TextPrint.v (printers), Model/Text.v (readers).
   Known limit (finding_pbstring_loses_variables, Proofs/Text.v): the number of
   variables read back from an OPB rendering is the highest variable that
   occurs ([opb_nbvars]), not NbVars. *)
From Coq Require Import List ZArith Bool String Ascii.
From GS Require Import Spec.Base Spec.PB Spec.Solver Model.Text Model.TextPrint Proofs.Text.
Import ListNotations.
Open Scope Z_scope.

(* Problem.CNF(): the unit literals come back as unit clauses, before the
   clauses; the empty clause alone when Status == Unsat *)
Theorem C18_cnf : forall n unsat units cls, wf_cnf_problem (n, unsat, units, cls) ->
  parse_dimacs (print_cnf (n, unsat, units, cls))
  = Some (n, cnf_problem_clauses unsat units cls).
Proof. exact Proofs.TextDimacs.C18_cnf. Qed.
Print Assumptions C18_cnf.

Theorem C18_cnf_models : forall n unsat units cls, wf_cnf_problem (n, unsat, units, cls) ->
  exists F', parse_dimacs (print_cnf (n, unsat, units, cls)) = Some (n, F') /\
             forall m, sat_cnf m F' = negb unsat && (forallb (lit_val m) units && sat_cnf m cls).
Proof. exact Proofs.TextDimacs.C18_cnf_models. Qed.
Print Assumptions C18_cnf_models.
Example C18_cnf_hyp :
  wf_cnf_problem (3, false, [-2], [[1; 3]]) /\ wf_cnf_problem (3, true, [1; -1], [[]; [7]]).
Proof.
  split.
  - split; [discriminate|]. intros _. split.
    + intros u [<-|[]]. split; discriminate.
    + intros c [<-|[]] l [<-|[<-|[]]]; split; discriminate.
  - split; [discriminate|]. discriminate.
Qed.

(* Problem.CNF() is a well-formed DIMACS text: the layout [] of render_dimacs *)
Theorem C18_cnf_wellformed : forall n units cls,
  print_cnf_b (n, false, units, cls) = render_dimacs_b [] n (map (fun u => [u]) units ++ cls).
Proof. exact print_cnf_render. Qed.
Print Assumptions C18_cnf_wellformed.

(* Problem.PBString(): units as "1 l = 1", each constraint as "sum >= degree",
   the cost function unchanged; "1 x1 >= 2" alone when Status == Unsat *)
Theorem C18_opb : forall P,
  wf_pb_problem P -> lines_short (list_ascii_of_string (print_opb P)) ->
  parse_opb (print_opb P)
  = Some (opb_nbvars (pb_problem_ucs P) (pp_cost P), pb_problem_ucs P, pp_cost P).
Proof. exact Proofs.TextOpb.C18_opb. Qed.
Print Assumptions C18_opb.

Theorem C18_opb_models : forall P,
  wf_pb_problem P -> lines_short (list_ascii_of_string (print_opb P)) ->
  exists n' cs',
    parse_opb (print_opb P) = Some (n', cs', pp_cost P) /\
    forall m, sat_uproblem m cs'
              = negb (pp_unsat P)
                && (forallb (lit_val m) (pp_units P) && sat_problem m (pp_clauses P)).
Proof. exact Proofs.Text.C18_opb_models. Qed.
Print Assumptions C18_opb_models.
Example C18_opb_hyp :
  wf_pb_problem (PBProblem 3 false [-2] [PBC [(2, 1); (1, -3)] 2] (Some [(1, 1); (-4, 3)])) /\
  lines_short (list_ascii_of_string
     (print_opb (PBProblem 3 false [-2] [PBC [(2, 1); (1, -3)] 2] (Some [(1, 1); (-4, 3)])))) /\
  wf_pb_problem (PBProblem 3 true [1; -1] [PBC [] 1] None).
Proof.
  split; [|split; [vm_compute; reflexivity|discriminate]].
  intros _. constructor; [|constructor]. split; [discriminate|].
  constructor; [discriminate|constructor].
Qed.

(* Solver.PBString(): the constraints the solver holds (original and learned),
   "1 x1 >= 2" when its status is Unsat, and its top-level facts as
   "1 xN = 1" / "1 xN = 0"; any cost function (negative coefficients included) *)
Theorem C18_solver_opb : forall S,
  wf_solver_view S -> lines_short (list_ascii_of_string (print_solver_opb S)) ->
  parse_opb (print_solver_opb S)
  = Some (opb_nbvars (solver_view_ucs S) (sv_cost S), solver_view_ucs S, sv_cost S).
Proof. exact Proofs.TextOpb.C18_solver_opb. Qed.
Print Assumptions C18_solver_opb.

Theorem C18_solver_opb_models : forall S,
  wf_solver_view S -> lines_short (list_ascii_of_string (print_solver_opb S)) ->
  exists n' cs',
    parse_opb (print_solver_opb S) = Some (n', cs', sv_cost S) /\
    forall m, sat_uproblem m cs'
              = sat_problem m (sv_orig S ++ sv_learned S)
                && (negb (sv_unsat S) && facts_sat m 0 (sv_model S)).
Proof. exact Proofs.Text.C18_solver_opb_models. Qed.
Print Assumptions C18_solver_opb_models.
Example C18_solver_opb_hyp :
  wf_solver_view (SolverView 3 false [PBC [(2, 1); (1, -3)] 2] [PBC [(1, 2); (1, 3)] 1]
                             (Some [(1, 1); (-4, 3); (-2, 2)]) [0; 1; -1]) /\
  lines_short (list_ascii_of_string
     (print_solver_opb (SolverView 3 false [PBC [(2, 1); (1, -3)] 2] [PBC [(1, 2); (1, 3)] 1]
                                   (Some [(1, 1); (-4, 3); (-2, 2)]) [0; 1; -1]))).
Proof.
  split; [|vm_compute; reflexivity].
  repeat constructor; discriminate.
Qed.

(* formerly C18_solver_opb_negative_cost_refuted *)
Theorem C18_solver_opb_negative_cost :
  parse_opb (print_solver_opb
     (SolverView 2 false [PBC [(1, 1); (1, 2)] 1] [] (Some [(1, 1); (-2, 2)]) [0; 0]))
  = Some (2, [UC [(1, 1); (1, 2)] Ge 1], Some [(1, 1); (-2, 2)]).
Proof. exact Proofs.Text.fixed_solver_pbstring_negative_cost. Qed.
Print Assumptions C18_solver_opb_negative_cost.

(* explain's Problem.CNF() *)
Theorem C18_explain : forall n F, wf_dimacs n F ->
  lines_short (list_ascii_of_string (print_explain (n, F))) ->
  parse_dimacs_explain (print_explain (n, F)) = Some (n, Z.of_nat (List.length F), F).
Proof. exact Proofs.TextCnfLines.C18_explain. Qed.
Print Assumptions C18_explain.
Example C18_explain_hyp :
  lines_short (list_ascii_of_string (print_explain (3, [[1; -2]; []; [3]]))).
Proof. vm_compute; reflexivity. Qed.
