(* C18: what the Go printers write (Problem.CNF, Problem.PBString with
   costFuncString, Solver.PBString, explain's Problem.CNF) is read back by the
   Go readers as the same problem.
   Model: Model/TextPrint.v (printers), Model/Text.v (readers).
   Refuted at full strength ([_refuted] below, details in Proofs/Text.v):
   the empty clause in Problem.PBString, a negative cost coefficient in
   Solver.PBString; and the number of variables is not preserved by the OPB
   renderings ([opb_nbvars] = highest variable that occurs). *)
From Coq Require Import List ZArith Bool String Ascii.
From GS Require Import Spec.Base Spec.PB Spec.Solver Model.Text Model.TextPrint Proofs.Text.
Import ListNotations.
Open Scope Z_scope.

(* Problem.CNF(): the unit literals come back as unit clauses, before the clauses *)
Theorem C18_cnf : forall n units cls, wf_cnf_problem (n, units, cls) ->
  parse_dimacs (print_cnf (n, units, cls)) = Some (n, map (fun u => [u]) units ++ cls).
Proof. exact Proofs.TextDimacs.C18_cnf. Qed.
Print Assumptions C18_cnf.
Example C18_cnf_hyp : wf_cnf_problem (3, [-2], [[1; 3]]).
Proof.
  split; [discriminate|]. split.
  - intros u [<-|[]]. split; discriminate.
  - intros c [<-|[]] l [<-|[<-|[]]]; split; discriminate.
Qed.

(* Problem.CNF() is a well-formed DIMACS text: the layout [] of render_dimacs *)
Theorem C18_cnf_wellformed : forall n units cls,
  print_cnf_b (n, units, cls) = render_dimacs_b [] n (map (fun u => [u]) units ++ cls).
Proof. exact print_cnf_render. Qed.
Print Assumptions C18_cnf_wellformed.

(* Problem.PBString(): units as "1 l = 1", each constraint as "sum >= degree",
   the cost function unchanged *)
Theorem C18_opb : forall P,
  wf_pb_problem P -> lines_short (list_ascii_of_string (print_opb P)) ->
  parse_opb (print_opb P)
  = Some (opb_nbvars (pb_problem_ucs P) (pp_cost P), pb_problem_ucs P, pp_cost P).
Proof. exact Proofs.TextOpb.C18_opb. Qed.
Print Assumptions C18_opb.

Theorem C18_opb_models : forall P,
  wf_pb_problem P -> lines_short (list_ascii_of_string (print_opb P)) ->
  exists n' cs',
    parse_opb (print_opb P) = Some (n', cs', pp_cost P) /\
    forall m, sat_uproblem m cs'
              = forallb (lit_val m) (pp_units P) && sat_problem m (pp_clauses P).
Proof. exact Proofs.Text.C18_opb_models. Qed.
Print Assumptions C18_opb_models.
Example C18_opb_hyp :
  wf_pb_problem (PBProblem 3 [-2] [PBC [(2, 1); (1, -3)] 2] (Some [(1, 1); (-4, 3)])) /\
  lines_short (list_ascii_of_string
     (print_opb (PBProblem 3 [-2] [PBC [(2, 1); (1, -3)] 2] (Some [(1, 1); (-4, 3)])))).
Proof.
  split; [|vm_compute; reflexivity].
  constructor; [|constructor]. split; [discriminate|].
  constructor; [discriminate|constructor].
Qed.

Theorem C18_opb_empty_clause_refuted :
  exists P, lines_short (list_ascii_of_string (print_opb P)) /\ parse_opb (print_opb P) = None.
Proof. exact Proofs.Text.C18_opb_empty_clause_refuted. Qed.
Print Assumptions C18_opb_empty_clause_refuted.

(* Solver.PBString(): the constraints the solver holds (original and learned)
   and its top-level facts as "1 xN = 1" / "1 xN = 0" *)
Theorem C18_solver_opb : forall S,
  wf_solver_view S -> lines_short (list_ascii_of_string (print_solver_opb S)) ->
  parse_opb (print_solver_opb S)
  = Some (opb_nbvars (solver_view_ucs S) (sv_cost S), solver_view_ucs S, sv_cost S).
Proof. exact Proofs.TextOpb.C18_solver_opb. Qed.
Print Assumptions C18_solver_opb.

Theorem C18_solver_opb_models : forall S,
  wf_solver_view S -> lines_short (list_ascii_of_string (print_solver_opb S)) ->
  exists n' cs',
    parse_opb (print_solver_opb S) = Some (n', cs', sv_cost S) /\
    forall m, sat_uproblem m cs'
              = sat_problem m (sv_orig S ++ sv_learned S) && facts_sat m 0 (sv_model S).
Proof. exact Proofs.Text.C18_solver_opb_models. Qed.
Print Assumptions C18_solver_opb_models.
Example C18_solver_opb_hyp :
  wf_solver_view (SolverView 3 [PBC [(2, 1); (1, -3)] 2] [PBC [(1, 2); (1, 3)] 1]
                             (Some [(-1, 1); (4, 3)]) [0; 1; -1]) /\
  lines_short (list_ascii_of_string
     (print_solver_opb (SolverView 3 [PBC [(2, 1); (1, -3)] 2] [PBC [(1, 2); (1, 3)] 1]
                                   (Some [(-1, 1); (4, 3)]) [0; 1; -1]))).
Proof.
  split; [|vm_compute; reflexivity]. split.
  - repeat constructor; discriminate.
  - repeat constructor; discriminate.
Qed.

Theorem C18_solver_opb_negative_cost_refuted :
  exists S, lines_short (print_solver_opb_b S) /\
            Forall wf_pbc_print (sv_orig S ++ sv_learned S) /\
            parse_opb_r (print_solver_opb_b S) = PPanic.
Proof. exact Proofs.Text.C18_solver_opb_negative_cost_refuted. Qed.
Print Assumptions C18_solver_opb_negative_cost_refuted.

(* explain's Problem.CNF() *)
Theorem C18_explain : forall n F, wf_dimacs n F ->
  lines_short (list_ascii_of_string (print_explain (n, F))) ->
  parse_dimacs_explain (print_explain (n, F)) = Some (n, Z.of_nat (List.length F), F).
Proof. exact Proofs.TextCnfLines.C18_explain. Qed.
Print Assumptions C18_explain.
Example C18_explain_hyp :
  lines_short (list_ascii_of_string (print_explain (3, [[1; -2]; []; [3]]))).
Proof. vm_compute; reflexivity. Qed.
