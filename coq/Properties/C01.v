(* C01 (and the CNF side of C02): the parse-time front end of package solver
   for CNF, parseSlice + simplify2 (solver/parser.go:28-73,
   solver/problem.go:104-168), keeps exactly the models of the input as
   written -- for every value of the restart fuel.  Statements only. *)
From Coq Require Import List ZArith Bool.
From GS Require Import Spec.Base Spec.PB Model.Simplify Proofs.Simplify.
Import ListNotations.
Open Scope Z_scope.

(* The problem returned by ParseSliceNb(F, n) has exactly the models of F as
   written (empty, unit, duplicate-literal, tautological clauses, conflicting
   units included).  No hypothesis on the length of m is needed. *)
Theorem C01_parse_slice_equiv : forall n F m fuel, wf_cnf F ->
  sat_gproblem m (parse_slice fuel n F) = sat_cnf m F.
Proof. exact parse_slice_equiv. Qed.
Print Assumptions C01_parse_slice_equiv.

Theorem C01_ParseSliceNb_equiv : forall F n m, wf_cnf F ->
  sat_gproblem m (ParseSliceNb F n) = sat_cnf m F.
Proof. exact (fun F n m H => parse_slice_equiv n F m (parse_slice_fuel F) H). Qed.
Print Assumptions C01_ParseSliceNb_equiv.

(* NbVars: parseSlice stops reading at the first empty clause, so only the
   clauses before it count.  (n < 0 makes Go panic in make().) *)
Theorem C01_parse_slice_nbvars : forall n F fuel, wf_cnf F -> 0 <= n ->
  gp_nbvars (parse_slice fuel n F) = Z.max n (maxvar (before_empty F)).
Proof. exact parse_slice_nbvars. Qed.
Print Assumptions C01_parse_slice_nbvars.

Theorem C01_parse_slice_nbvars_noempty : forall n F fuel, wf_cnf F -> 0 <= n ->
  has_empty F = false -> gp_nbvars (parse_slice fuel n F) = Z.max n (maxvar F).
Proof. exact parse_slice_nbvars_noempty. Qed.
Print Assumptions C01_parse_slice_nbvars_noempty.

Theorem C01_status_sat : forall n F fuel, wf_cnf F ->
  gp_status (parse_slice fuel n F) = Sat ->
  gp_clauses (parse_slice fuel n F) = [] /\
  forall m, sat_units m (gp_units (parse_slice fuel n F)) = true -> sat_cnf m F = true.
Proof. exact parse_slice_status_sat. Qed.
Print Assumptions C01_status_sat.

(* ... and the Model array itself, read as a total assignment, is a model *)
Theorem C01_status_sat_witness : forall n F fuel, wf_cnf F ->
  gp_status (parse_slice fuel n F) = Sat ->
  length (model_of (gp_model (parse_slice fuel n F))) = Z.to_nat (gp_nbvars (parse_slice fuel n F)) /\
  sat_cnf (model_of (gp_model (parse_slice fuel n F))) F = true.
Proof. exact parse_slice_sat_witness. Qed.
Print Assumptions C01_status_sat_witness.

Theorem C01_status_unsat : forall n F fuel, wf_cnf F ->
  gp_status (parse_slice fuel n F) = Unsat -> forall m, sat_cnf m F = false.
Proof. exact parse_slice_status_unsat. Qed.
Print Assumptions C01_status_unsat.

(* Units never holds l and -l, and Units and Model describe the same partial
   assignment. *)
Theorem C01_units_consistent : forall n F fuel, wf_cnf F ->
  gp_status (parse_slice fuel n F) <> Unsat ->
  (forall l, In l (gp_units (parse_slice fuel n F)) -> ~ In (- l) (gp_units (parse_slice fuel n F))) /\
  length (gp_model (parse_slice fuel n F)) = Z.to_nat (gp_nbvars (parse_slice fuel n F)) /\
  (forall l, In l (gp_units (parse_slice fuel n F)) ->
     l <> 0 /\ Z.abs l <= gp_nbvars (parse_slice fuel n F) /\
     mget (gp_model (parse_slice fuel n F)) l = (if 0 <? l then 1 else -1)) /\
  (forall v, 1 <= v ->
     (mget (gp_model (parse_slice fuel n F)) v = 1 <-> In v (gp_units (parse_slice fuel n F))) /\
     (mget (gp_model (parse_slice fuel n F)) v = -1 <-> In (- v) (gp_units (parse_slice fuel n F)))).
Proof. exact parse_slice_units_consistent. Qed.
Print Assumptions C01_units_consistent.

(* The restart loop of simplify2 needs at most (number of clauses + 1) passes,
   and more fuel than needed does not change the result. *)
Theorem C01_fuel_enough : forall n F fuel,
  (length F < fuel)%nat -> parse_slice_done fuel n F = true.
Proof. exact parse_slice_fuel_enough. Qed.
Print Assumptions C01_fuel_enough.

Theorem C01_fuel_stable : forall n F fuel fuel',
  parse_slice_done fuel n F = true -> (fuel <= fuel')%nat ->
  parse_slice fuel' n F = parse_slice fuel n F /\ parse_slice_done fuel' n F = true.
Proof. exact parse_slice_stable. Qed.
Print Assumptions C01_fuel_stable.

(* the hypotheses are satisfiable *)
Example C01_hyp_wf : wf_cnf ex_cnf.
Proof. exact ex_cnf_wf. Qed.
Example C01_hyp_sat : gp_status (parse_slice 2 0 ex_cnf) = Sat.
Proof. exact ex_cnf_sat. Qed.
Example C01_hyp_live : gp_status (parse_slice 2 0 ex_cnf) <> Unsat.
Proof. exact ex_cnf_live. Qed.
Example C01_hyp_unsat : wf_cnf [[1; 2]; [-1]; [-2; -2]] /\
  gp_status (parse_slice 3 0 [[1; 2]; [-1]; [-2; -2]]) = Unsat.
Proof. exact ex_cnf_unsat. Qed.
