(* C04: weighted partial MaxSAT (maxsat.New / Solve, maxsat.ParseWCNF / Optimal).
   Statements only. *)
From Coq Require Import List ZArith Bool Sorted.
From GS Require Import Spec.Base Spec.PB Spec.Solver Model.Optim Model.MaxSat Proofs.MaxSat.
Import ListNotations.
Open Scope Z_scope.

(* ---------------- the constraint API ---------------- *)

(* The encoding: for every assignment mu of the user's variables, a solver model that
   agrees with mu on the named variables and satisfies the encoded constraints costs at
   least the weight of the soft constraints violated by mu and mu satisfies the hard
   ones; and some such model costs exactly that (the minimum over the blocking
   variables is the violated weight; the hard constraints are unaffected).  The solver
   is given exactly len(varInts) variables and a cost function it accepts. *)
Theorem C04_encoding :
  forall inst vi P co, encode inst = (vi, P, co) -> wf_inst inst = true ->
  (forall m mu, agrees vi m mu -> sat_problem m P = true ->
     sat_hard mu inst = true /\ violated_weight mu inst <= cost_of m co) /\
  (forall mu, exists m, length m = length vi /\ agrees vi m mu /\
     sat_problem m P = sat_hard mu inst /\ cost_of m co = violated_weight mu inst) /\
  Z.to_nat (problem_nbvars P) = length vi /\
  nonneg_terms co = true /\ cost_wf (length vi) co = true.
Proof. exact encode_correct. Qed.
Print Assumptions C04_encoding.

(* Solve: unsatisfiable exactly when the hard constraints are; otherwise the returned
   maxsat.Model satisfies the hard constraints, its cost is the weight of the soft
   constraints it violates, no assignment does better, and its keys are exactly the
   user's variable names (each once: no blocking variable).  No panic. *)
Theorem C04_solve :
  forall solve, solver_ok solve ->
  forall inst, wf_inst inst = true ->
  match maxsat solve inst with
  | MUnsat => forall mu, sat_hard mu inst = false
  | MSat res w =>
      let mu := to_model (inst_nvars inst) res in
      sat_hard mu inst = true /\ w = violated_weight mu inst /\
      (forall mu', sat_hard mu' inst = true -> w <= violated_weight mu' inst) /\
      (NoDup (map fst res) /\ forall v, In v (map fst res) <-> In v (inst_names inst))
  | MGoPanic => False
  end.
Proof. exact maxsat_correct. Qed.
Print Assumptions C04_solve.

(* The same with the model as a list of booleans over the variables 1..max. *)
Theorem C04_solve_model :
  forall solve, solver_ok solve ->
  forall inst, wf_inst inst = true ->
  match maxsat_model solve inst with
  | None => forall mu, sat_hard mu inst = false
  | Some (m, c) =>
      length m = inst_nvars inst /\ sat_hard m inst = true /\ c = violated_weight m inst /\
      (forall mu', sat_hard mu' inst = true -> c <= violated_weight mu' inst)
  end.
Proof. exact maxsat_model_correct. Qed.
Print Assumptions C04_solve_model.

Theorem C04_projection :
  forall solve, solver_ok solve ->
  forall inst, wf_inst inst = true ->
  forall res w, maxsat solve inst = MSat res w ->
    NoDup (map fst res) /\ (forall v, In v (map fst res) <-> In v (inst_names inst)).
Proof. exact maxsat_projection. Qed.
Print Assumptions C04_projection.

(* Outside wf_inst the faithful mirror (and the Go code) fails: *)

(* a negative coefficient in a soft constraint: answers Unsat although the hard part is
   satisfiable *)
Theorem C04_negative_coeff_refuted :
  exists inst mu, sat_hard mu inst = true /\ maxsat_ref inst = MUnsat.
Proof. exact maxsat_negative_coeff_refuted. Qed.
Print Assumptions C04_negative_coeff_refuted.

(* a soft PB constraint with AtLeast = 0 in last position: panic in Minimize *)
Theorem C04_atleast0_panics :
  exists inst mu, sat_hard mu inst = true /\ maxsat_ref inst = MGoPanic.
Proof. exact maxsat_atleast0_panics. Qed.
Print Assumptions C04_atleast0_panics.

(* a coefficient 0 on the last new variable: it is missing from the returned model *)
Theorem C04_zero_coeff_refuted :
  exists inst res w, maxsat_ref inst = MSat res w /\
    In 2 (inst_names inst) /\ ~ In 2 (map fst res).
Proof. exact maxsat_zero_coeff_refuted. Qed.
Print Assumptions C04_zero_coeff_refuted.

(* ---------------- the WCNF route ---------------- *)

Theorem C04_wcnf_encoding :
  forall w, wf_wcnf w = true ->
  forall n P co, wcnf_encode w = (n, P, co) ->
  let nb := Z.to_nat (w_nbvars w) in
  (forall m, sat_problem m P = true ->
     w_sat_hard (firstn nb m) w = true /\ w_violated (firstn nb m) w <= cost_of m co) /\
  (forall mu,
     let b := map (fun f => negb (sat_clause mu (wl_clause f)))
                  (filter (wl_soft (w_top w)) (w_lines w)) in
     sat_problem (fit nb mu ++ b) P = w_sat_hard mu w /\
     cost_of (fit nb mu ++ b) co = w_violated mu w).
Proof. exact wcnf_encode_correct. Qed.
Print Assumptions C04_wcnf_encoding.

(* Optimal with a results channel (what the gophersat command uses).  A clause is hard
   iff top <> 0 and weight >= top ([wl_soft]).  The returned model has exactly nbVars
   entries (no relaxation variable), everything streamed is a hard-feasible assignment
   of the declared variables with an upper bound of its violated weight, the weights
   strictly decrease and the last streamed result is the returned one. *)
Theorem C04_wcnf :
  forall solve, solver_ok solve ->
  forall w, wf_wcnf w = true -> wcnf_covers w = true ->
  match wcnf_optimal_chan solve w with
  | WPanic => False
  | WDone OUnsat s => (forall mu, w_sat_hard mu w = false) /\ s = [OUnsat]
  | WDone (OSat m c) s =>
      length m = Z.to_nat (w_nbvars w) /\
      w_sat_hard m w = true /\ c = w_violated m w /\
      (forall mu', w_sat_hard mu' w = true -> c <= w_violated mu' w) /\
      Forall (fun x => exists mj cj, x = OSat mj cj /\
                length mj = Z.to_nat (w_nbvars w) /\ w_sat_hard mj w = true /\
                w_violated mj w <= cj) s /\
      StronglySorted (fun a b => oweight b < oweight a) s /\
      last s OUnsat = OSat m c
  end.
Proof. exact wcnf_chan_correct. Qed.
Print Assumptions C04_wcnf.

(* Optimal(nil, stop): the relaxation variables leak into the returned model ... *)
Theorem C04_wcnf_nil_leak_refuted :
  exists w m c, wf_wcnf w = true /\ wcnf_covers w = true /\
    wcnf_optimal_nil_ref w = WDone (OSat m c) [] /\ Z.of_nat (length m) <> w_nbvars w.
Proof. exact wcnf_nil_leak_refuted. Qed.
Print Assumptions C04_wcnf_nil_leak_refuted.

(* ... the result is right once the caller drops them. *)
Theorem C04_wcnf_nil_partial :
  forall solve, solver_ok solve ->
  forall w, wf_wcnf w = true -> wcnf_covers w = true ->
  match wcnf_optimal_nil solve w with
  | WPanic => False
  | WDone OUnsat _ => forall mu, w_sat_hard mu w = false
  | WDone (OSat m c) _ =>
      length m = (Z.to_nat (w_nbvars w) + w_nsoft w)%nat /\
      let mu := firstn (Z.to_nat (w_nbvars w)) m in
      w_sat_hard mu w = true /\ c = w_violated mu w /\
      (forall mu', w_sat_hard mu' w = true -> c <= w_violated mu' w)
  end.
Proof. exact wcnf_nil_partial. Qed.
Print Assumptions C04_wcnf_nil_partial.

(* Without wcnf_covers (only hard clauses and the last declared variable unused): panic. *)
Theorem C04_wcnf_unused_var_panics :
  exists w mu, wf_wcnf w = true /\ w_sat_hard mu w = true /\ wcnf_optimal_chan_ref w = WPanic.
Proof. exact wcnf_unused_var_panics. Qed.
Print Assumptions C04_wcnf_unused_var_panics.

(* ---------------- examples (checked against the Go code) ---------------- *)

Example C04_hyps :
  wf_inst [soft_clause [1; 2]; soft_clause [-1]; weighted_clause [-2] 3; hard_clause [-1; 3];
   weighted_pb [1; 2; 3] [2; 1; 1] 3 2] = true /\
  solver_ok ref_solve.
Proof. split; [reflexivity|exact ref_solver_ok]. Qed.

Example C04_ex1 :
  maxsat_ref [soft_clause [1; 2]; soft_clause [-1]; weighted_clause [-2] 3; hard_clause [-1; 3];
   weighted_pb [1; 2; 3] [2; 1; 1] 3 2] = MSat [(1, true); (2, false); (3, true)] 1 /\
  maxsat_model_ref [soft_clause [1; 2]; soft_clause [-1]; weighted_clause [-2] 3; hard_clause [-1; 3];
   weighted_pb [1; 2; 3] [2; 1; 1] 3 2] = Some ([true; false; true], 1).
Proof. split; vm_compute; reflexivity. Qed.

(* the numbering of the solver: user variables in order of appearance, one blocking
   variable after each soft constraint *)
Example C04_ex1_encode :
  encode [hard_clause [-1]; weighted_pb [1; 2; 3] [] 2 3] =
  ([Some 1; Some 2; Some 3; None],
   [PBC [(1, -1)] 1; PBC [(1, 1); (1, 2); (1, 3); (2, 4)] 2],
   [(3, 4)]).
Proof. vm_compute. reflexivity. Qed.

Example C04_ex2 :
  maxsat_ref [hard_clause [-1]; hard_clause [-2]; weighted_pb [1; 2; 3] [] 2 3; soft_clause [-3]] =
  MSat [(1, false); (2, false); (3, false)] 3.
Proof. vm_compute. reflexivity. Qed.

Example C04_ex_unsat : maxsat_ref [hard_clause [1]; hard_clause [-1]; soft_clause [2]] = MUnsat.
Proof. vm_compute. reflexivity. Qed.

Example C04_wcnf_hyps : wf_wcnf (WCNF 3 10 [[10; 1; 2; 0]; [3; -1; 0]; [2; -2; 0]; [1; 3; 0]]) = true /\ wcnf_covers (WCNF 3 10 [[10; 1; 2; 0]; [3; -1; 0]; [2; -2; 0]; [1; 3; 0]]) = true.
Proof. split; reflexivity. Qed.

Example C04_wcnf_ex1 :
  wcnf_optimal_chan_ref (WCNF 3 10 [[10; 1; 2; 0]; [3; -1; 0]; [2; -2; 0]; [1; 3; 0]]) =
  WDone (OSat [false; true; true] 2) [OSat [false; true; false] 3; OSat [false; true; true] 2].
Proof. vm_compute. reflexivity. Qed.

(* no top: every clause is soft *)
Example C04_wcnf_ex_notop :
  wcnf_optimal_chan_ref (WCNF 2 0 [[5; 1; 0]; [4; -1; 0]; [1; 2; 0]]) =
  WDone (OSat [true; true] 4) [OSat [false; false] 6; OSat [false; true] 5; OSat [true; true] 4].
Proof. vm_compute. reflexivity. Qed.

(* weight >= top is hard *)
Example C04_wcnf_ex_unsat :
  wcnf_optimal_chan_ref (WCNF 2 9 [[9; 1; 0]; [9; -1; 0]; [1; 2; 0]]) = WDone OUnsat [OUnsat].
Proof. vm_compute. reflexivity. Qed.
