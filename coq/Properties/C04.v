(* C04: weighted partial MaxSAT (maxsat.New / Solve, maxsat.ParseWCNF / Optimal).
   Statements only. *)
From Coq Require Import List ZArith Bool Sorted.
From GS Require Import Spec.Base Spec.PB Spec.Solver Model.Optim Model.MaxSat Proofs.MaxSat.
Import ListNotations.
Open Scope Z_scope.

(* ---------------- the constraint API ---------------- *)

(* The encoding: for every assignment mu of the user's variables, a solver model that
   agrees with mu on the named variables and satisfies the encoded constraints costs at
   least the weight of the soft constraints violated by mu and mu satisfies the hard
   ones; and some such model costs exactly that (the minimum over the blocking
   variables is the violated weight; the hard constraints are unaffected).  The solver
   is given exactly len(varInts) variables and a cost function it accepts. *)
Theorem C04_encoding :
  forall inst vi P co, encode inst = (vi, P, co) -> wf_inst inst = true ->
  (forall m mu, agrees vi m mu -> sat_problem m P = true ->
     sat_hard mu inst = true /\ violated_weight mu inst <= cost_of m co) /\
  (forall mu, exists m, length m = length vi /\ agrees vi m mu /\
     sat_problem m P = sat_hard mu inst /\ cost_of m co = violated_weight mu inst) /\
  Z.to_nat (Z.max (problem_nbvars P) (Z.of_nat (length vi))) = length vi /\
  nonneg_terms co = true /\ cost_wf (length vi) co = true.
Proof. exact encode_correct. Qed.
Print Assumptions C04_encoding.

(* Solve: unsatisfiable exactly when the hard constraints are; otherwise the returned
   maxsat.Model satisfies the hard constraints, its cost is the weight of the soft
   constraints it violates, no assignment does better, and its keys are exactly the
   user's variable names (each once: no blocking variable).  No panic. *)
Theorem C04_solve :
  forall solve, solver_ok solve ->
  forall inst, wf_inst inst = true ->
  match maxsat solve inst with
  | MUnsat => forall mu, sat_hard mu inst = false
  | MSat res w =>
      let mu := to_model (inst_nvars inst) res in
      sat_hard mu inst = true /\ w = violated_weight mu inst /\
      (forall mu', sat_hard mu' inst = true -> w <= violated_weight mu' inst) /\
      (NoDup (map fst res) /\ forall v, In v (map fst res) <-> In v (inst_names inst))
  | MGoPanic => False
  end.
Proof. exact maxsat_correct. Qed.
Print Assumptions C04_solve.

(* The same with the model as a list of booleans over the variables 1..max. *)
Theorem C04_solve_model :
  forall solve, solver_ok solve ->
  forall inst, wf_inst inst = true ->
  match maxsat_model solve inst with
  | None => forall mu, sat_hard mu inst = false
  | Some (m, c) =>
      length m = inst_nvars inst /\ sat_hard m inst = true /\ c = violated_weight m inst /\
      (forall mu', sat_hard mu' inst = true -> c <= violated_weight mu' inst)
  end.
Proof. exact maxsat_model_correct. Qed.
Print Assumptions C04_solve_model.

Theorem C04_projection :
  forall solve, solver_ok solve ->
  forall inst, wf_inst inst = true ->
  forall res w, maxsat solve inst = MSat res w ->
    NoDup (map fst res) /\ (forall v, In v (map fst res) <-> In v (inst_names inst)).
Proof. exact maxsat_projection. Qed.
Print Assumptions C04_projection.

(* wf_inst only asks for non-zero literals, a coefficient list that is absent or as long
   as the literal list, and weights >= 0.  The inputs on which the Go code failed before
   it was fixed are inside wf_inst and answered correctly: *)

(* a negative coefficient in a soft constraint (was: Unsat) *)
Example C04_negative_coeff_ok :
  wf_inst [hard_clause [1]; weighted_pb [1] [-3] (-1) 1] = true /\
  maxsat_ref [hard_clause [1]; weighted_pb [1] [-3] (-1) 1] = MSat [(1, true)] 1.
Proof. exact maxsat_negative_coeff_ok. Qed.

(* a soft PB constraint with AtLeast = 0 in last position (was: panic in Minimize) *)
Example C04_atleast0_ok :
  wf_inst [hard_clause [1]; weighted_pb [1] [1] 0 2] = true /\
  maxsat_ref [hard_clause [1]; weighted_pb [1] [1] 0 2] = MSat [(1, true)] 0.
Proof. exact maxsat_atleast0_ok. Qed.

(* a coefficient 0 on the last new variable (was: missing from the returned model) *)
Example C04_zero_coeff_ok :
  wf_inst [hard_pb [1; 2] [1; 0] 1] = true /\
  maxsat_ref [hard_pb [1; 2] [1; 0] 1] = MSat [(1, true); (2, false)] 0.
Proof. exact maxsat_zero_coeff_ok. Qed.

(* ---------------- the WCNF route ---------------- *)

Theorem C04_wcnf_encoding :
  forall w, wf_wcnf w = true ->
  forall n P co, wcnf_encode w = (n, P, co) ->
  let nb := Z.to_nat (w_nbvars w) in
  (forall m, sat_problem m P = true ->
     w_sat_hard (firstn nb m) w = true /\ w_violated (firstn nb m) w <= cost_of m co) /\
  (forall mu,
     let b := map (fun f => negb (sat_clause mu (wl_clause f)))
                  (filter (wl_soft (w_top w)) (w_lines w)) in
     sat_problem (fit nb mu ++ b) P = w_sat_hard mu w /\
     cost_of (fit nb mu ++ b) co = w_violated mu w).
Proof. exact wcnf_encode_correct. Qed.
Print Assumptions C04_wcnf_encoding.

(* Optimal with a results channel (what the gophersat command uses).  wf_wcnf: nbVars >= 0,
   every line is  weight l1..lk 0  with weight >= 0 and 0 < |li| <= nbVars.  A clause is hard
   iff top <> 0 and weight >= top ([wl_soft]).  The returned model has exactly nbVars
   entries (no relaxation variable), everything streamed is a hard-feasible assignment
   of the declared variables with an upper bound of its violated weight, the weights
   strictly decrease and the last streamed result is the returned one. *)
Theorem C04_wcnf :
  forall solve, solver_ok solve ->
  forall w, wf_wcnf w = true ->
  match wcnf_optimal_chan solve w with
  | WPanic => False
  | WDone OUnsat s => (forall mu, w_sat_hard mu w = false) /\ s = [OUnsat]
  | WDone (OSat m c) s =>
      length m = Z.to_nat (w_nbvars w) /\
      w_sat_hard m w = true /\ c = w_violated m w /\
      (forall mu', w_sat_hard mu' w = true -> c <= w_violated mu' w) /\
      Forall (fun x => exists mj cj, x = OSat mj cj /\
                length mj = Z.to_nat (w_nbvars w) /\ w_sat_hard mj w = true /\
                w_violated mj w <= cj) s /\
      StronglySorted (fun a b => oweight b < oweight a) s /\
      last s OUnsat = OSat m c
  end.
Proof. exact wcnf_chan_correct. Qed.
Print Assumptions C04_wcnf.

(* Optimal(nil, stop): the same, trimmed, result; nothing is streamed. *)
Theorem C04_wcnf_nil :
  forall solve, solver_ok solve ->
  forall w, wf_wcnf w = true ->
  match wcnf_optimal_nil solve w with
  | WPanic => False
  | WDone OUnsat _ => forall mu, w_sat_hard mu w = false
  | WDone (OSat m c) _ =>
      length m = Z.to_nat (w_nbvars w) /\
      w_sat_hard m w = true /\ c = w_violated m w /\
      (forall mu', w_sat_hard mu' w = true -> c <= w_violated mu' w)
  end.
Proof. exact wcnf_nil_correct. Qed.
Print Assumptions C04_wcnf_nil.

Theorem C04_wcnf_nil_agrees :
  forall solve, solver_ok solve ->
  forall w, wf_wcnf w = true ->
  match wcnf_optimal_chan solve w, wcnf_optimal_nil solve w with
  | WDone r _, WDone r' s' => r' = r /\ s' = []
  | _, _ => False
  end.
Proof. exact wcnf_nil_agrees. Qed.
Print Assumptions C04_wcnf_nil_agrees.

(* was: the relaxation variables leaked into the model returned by Optimal(nil, stop) *)
Example C04_wcnf_nil_no_leak_ok :
  wf_wcnf (WCNF 3 10 [[10; 1; 2; 0]; [3; -1; 0]; [2; -2; 0]; [1; 3; 0]]) = true /\
  wcnf_optimal_nil_ref (WCNF 3 10 [[10; 1; 2; 0]; [3; -1; 0]; [2; -2; 0]; [1; 3; 0]]) =
  WDone (OSat [false; true; true] 2) [].
Proof. exact wcnf_nil_no_leak_ok. Qed.

(* was: panic when every clause is hard and the last declared variable is unused *)
Example C04_wcnf_unused_var_ok :
  wf_wcnf (WCNF 3 10 [[10; 1; 2; 0]]) = true /\
  wcnf_optimal_chan_ref (WCNF 3 10 [[10; 1; 2; 0]]) =
  WDone (OSat [false; true; false] 0) [OSat [false; true; false] 0] /\
  wcnf_optimal_nil_ref (WCNF 3 10 [[10; 1; 2; 0]]) = WDone (OSat [false; true; false] 0) [].
Proof. exact wcnf_unused_var_ok. Qed.

(* ---------------- examples (checked against the Go code) ---------------- *)

Example C04_hyps :
  wf_inst [soft_clause [1; 2]; soft_clause [-1]; weighted_clause [-2] 3; hard_clause [-1; 3];
   weighted_pb [1; 2; 3] [2; 1; 1] 3 2] = true /\
  solver_ok ref_solve.
Proof. split; [reflexivity|exact ref_solver_ok]. Qed.

Example C04_ex1 :
  maxsat_ref [soft_clause [1; 2]; soft_clause [-1]; weighted_clause [-2] 3; hard_clause [-1; 3];
   weighted_pb [1; 2; 3] [2; 1; 1] 3 2] = MSat [(1, true); (2, false); (3, true)] 1 /\
  maxsat_model_ref [soft_clause [1; 2]; soft_clause [-1]; weighted_clause [-2] 3; hard_clause [-1; 3];
   weighted_pb [1; 2; 3] [2; 1; 1] 3 2] = Some ([true; false; true], 1).
Proof. split; vm_compute; reflexivity. Qed.

(* the numbering of the solver: user variables in order of appearance, one blocking
   variable after each soft constraint *)
Example C04_ex1_encode :
  encode [hard_clause [-1]; weighted_pb [1; 2; 3] [] 2 3] =
  ([Some 1; Some 2; Some 3; None],
   [PBC [(1, -1)] 1; PBC [(1, 1); (1, 2); (1, 3); (2, 4)] 2],
   [(3, 4)]).
Proof. vm_compute. reflexivity. Qed.

Example C04_ex2 :
  maxsat_ref [hard_clause [-1]; hard_clause [-2]; weighted_pb [1; 2; 3] [] 2 3; soft_clause [-3]] =
  MSat [(1, false); (2, false); (3, false)] 3.
Proof. vm_compute. reflexivity. Qed.

(* negative, null and positive coefficients in a soft constraint *)
Example C04_ex3 :
  maxsat_ref [weighted_pb [1; 2; 3] [-2; 0; 3] 1 4; hard_clause [1]; hard_clause [-3]] =
  MSat [(1, true); (2, false); (3, false)] 4.
Proof. vm_compute. reflexivity. Qed.

Example C04_ex4 :
  maxsat_ref [weighted_pb [1; 2] [-1; -1] (-1) 5; weighted_pb [1; 2] [1; 1] 2 3;
              soft_clause [-2; 3]; hard_pb [3; 1] [0; 0] 0] =
  MSat [(1, false); (2, false); (3, false)] 3.
Proof. vm_compute. reflexivity. Qed.

Example C04_ex_unsat : maxsat_ref [hard_clause [1]; hard_clause [-1]; soft_clause [2]] = MUnsat.
Proof. vm_compute. reflexivity. Qed.

Example C04_wcnf_hyps : wf_wcnf (WCNF 3 10 [[10; 1; 2; 0]; [3; -1; 0]; [2; -2; 0]; [1; 3; 0]]) = true.
Proof. reflexivity. Qed.

Example C04_wcnf_ex1 :
  wcnf_optimal_chan_ref (WCNF 3 10 [[10; 1; 2; 0]; [3; -1; 0]; [2; -2; 0]; [1; 3; 0]]) =
  WDone (OSat [false; true; true] 2) [OSat [false; true; false] 3; OSat [false; true; true] 2].
Proof. vm_compute. reflexivity. Qed.

(* no top: every clause is soft *)
Example C04_wcnf_ex_notop :
  wcnf_optimal_chan_ref (WCNF 2 0 [[5; 1; 0]; [4; -1; 0]; [1; 2; 0]]) =
  WDone (OSat [true; true] 4) [OSat [false; false] 6; OSat [false; true] 5; OSat [true; true] 4].
Proof. vm_compute. reflexivity. Qed.

(* weight >= top is hard *)
Example C04_wcnf_ex_unsat :
  wcnf_optimal_chan_ref (WCNF 2 9 [[9; 1; 0]; [9; -1; 0]; [1; 2; 0]]) = WDone OUnsat [OUnsat].
Proof. vm_compute. reflexivity. Qed.

(* declared variables that no clause uses are part of the model *)
Example C04_wcnf_ex_unused :
  wcnf_optimal_chan_ref (WCNF 4 0 [[5; 1; 0]; [4; -1; 0]; [1; 2; 0]]) =
  WDone (OSat [true; true; false; false] 4)
    [OSat [false; false; false; false] 6; OSat [false; true; false; false] 5;
     OSat [true; true; false; false] 4].
Proof. vm_compute. reflexivity. Qed.
