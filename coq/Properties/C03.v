(* C03: optimisation (Solver.Optimal / Solver.Minimize).  Statements only. *)
From Coq Require Import List ZArith Bool Sorted.
From GS Require Import Spec.Base Spec.PB Spec.Solver Model.Optim Proofs.Optim.
Import ListNotations.
Open Scope Z_scope.

(* The constraint added after a model of cost [bound]:
   sum_i w_i * (not l_i) >= maxCost - bound + 1   <->   cost <= bound - 1.
   Neither the sign of the weights nor distinct variables are needed. *)
Theorem strengthen_equiv :
  forall (c : cost) (m : model) (bound : Z),
  Forall (fun t => snd t <> 0) c ->
  (lhs m (map (fun '(w, l) => (w, - l)) c) >= total_weight c - bound + 1
   <-> cost_of m c <= bound - 1).
Proof. exact Proofs.Optim.strengthen_equiv. Qed.
Print Assumptions strengthen_equiv.

(* ... and this is the meaning of the constraint really added (boundConstr: GtEq, saturation,
   sorting, zero weights dropped), for any integer weights ... *)
Theorem bound_pbc_equiv :
  forall (c : cost) (m : model) (bound : Z) (b : pbc),
  Forall (fun t => snd t <> 0) c ->
  bound_pbc c bound = Some b ->
  (sat_pbc m b = true <-> cost_of m c <= bound - 1).
Proof. exact Proofs.Optim.bound_pbc_equiv. Qed.
Print Assumptions bound_pbc_equiv.

(* ... and NewPBClause does not panic when the bound is the cost of some assignment. *)
Theorem bound_pbc_no_panic :
  forall (c : cost) (m : model),
  Forall (fun t => snd t <> 0) c ->
  exists b, bound_pbc c (cost_of m c) = Some b.
Proof. exact Proofs.Optim.bound_pbc_no_panic. Qed.
Print Assumptions bound_pbc_no_panic.

(* Optimal: any integer weights; cost literals non-zero and within the n variables. *)
Theorem C03_optimal :
  forall solve, solver_ok solve ->
  forall n P (c : cost), cost_wf n c = true ->
  match fst (optimal solve n P (Some c)) with
  | OUnsat => ~ PSatisfiable n P
  | OSat m w => is_optimum n P c m /\ w = cost_of m c
  end.
Proof. exact optimal_correct. Qed.
Print Assumptions C03_optimal.

(* The loop needs no more than the default fuel (2 + log2 (sum |w|) doublings: the cost
   decreases by at least 1 at each turn and stays between minCost and the sum of the
   positive weights) and the Go code does not panic. *)
Theorem C03_terminates :
  forall solve, solver_ok solve ->
  forall n P (c : cost), cost_wf n c = true ->
  exists r s, optimal_run solve n P (Some c) = RDone r s /\
    match r with
    | OUnsat => ~ PSatisfiable n P /\ s = [OUnsat]
    | OSat m w => is_optimum n P c m /\ w = cost_of m c /\ stream_ok n P c s r
    end.
Proof. exact optimal_run_correct. Qed.
Print Assumptions C03_terminates.

(* Without cost_wf (a cost literal 0 or above n): Unsat, or an index out of range as soon
   as a model is found. *)
Theorem C03_ill_formed_cost :
  forall solve, solver_ok solve ->
  forall n P (c : cost), cost_wf n c = false ->
  optimal_run solve n P (Some c) = RDone OUnsat [OUnsat] /\ ~ PSatisfiable n P \/
  optimal_run solve n P (Some c) = RPanic [] /\ PSatisfiable n P.
Proof. exact optimal_run_ill_formed. Qed.
Print Assumptions C03_ill_formed_cost.

Theorem C03_no_cost :
  forall solve, solver_ok solve ->
  forall n P,
  match optimal solve n P None with
  | (OUnsat, s) => ~ PSatisfiable n P /\ s = [OUnsat]
  | (OSat m w, s) => w = 0 /\ length m = n /\ sat_problem m P = true /\ s = [OSat m 0]
  end.
Proof. exact optimal_no_cost. Qed.
Print Assumptions C03_no_cost.

(* Minimize returns the weight of Optimal's result, -1 for Unsat; no hypothesis.
   With negative weights -1 is also a possible optimum: the integer alone is then
   ambiguous, s.Model() (nil / panics when Unsat) is not, see the next two theorems. *)
Theorem C03_minimize_agrees :
  forall (solve : solver) n P oc,
  minimize solve n P oc =
  match fst (optimal solve n P oc) with OUnsat => -1 | OSat _ w => w end.
Proof. exact minimize_agrees. Qed.
Print Assumptions C03_minimize_agrees.

(* ... and s.Model() after Minimize is Optimal's model. *)
Theorem C03_minimize_model_agrees :
  forall (solve : solver) n P oc,
  minimize_model solve n P oc =
  match fst (optimal solve n P oc) with OUnsat => None | OSat m _ => Some m end.
Proof. exact minimize_model_agrees. Qed.
Print Assumptions C03_minimize_model_agrees.

Theorem C03_minimize :
  forall solve, solver_ok solve ->
  forall n P (c : cost), cost_wf n c = true ->
  match minimize_run solve n P (Some c) with
  | MRDone w None => w = -1 /\ ~ PSatisfiable n P
  | MRDone w (Some m) => is_optimum n P c m /\ w = cost_of m c
  | _ => False
  end.
Proof. exact minimize_correct. Qed.
Print Assumptions C03_minimize.

(* What is sent on the channel: models of P with their own cost, strictly decreasing
   costs, the last one is the returned result; the Unsat result is sent as well. *)
Theorem C03_stream :
  forall solve, solver_ok solve ->
  forall n P (c : cost), cost_wf n c = true ->
  let (r, s) := optimal solve n P (Some c) in
  match r with
  | OUnsat => s = [OUnsat]
  | OSat _ _ =>
      Forall (fun x => exists mj, x = OSat mj (cost_of mj c) /\ length mj = n /\
                                  sat_problem mj P = true) s /\
      StronglySorted (fun a b => oweight b < oweight a) s /\
      last s OUnsat = r
  end.
Proof. exact optimal_stream. Qed.
Print Assumptions C03_stream.

(* The returned weight is the one of the exhaustive oracle. *)
Theorem C03_min_dec :
  forall solve, solver_ok solve ->
  forall n P (c : cost), cost_wf n c = true ->
  min_dec n P c =
  match fst (optimal solve n P (Some c)) with OUnsat => None | OSat _ w => Some w end.
Proof. exact optimal_min_dec. Qed.
Print Assumptions C03_min_dec.

(* The two inputs on which the Go code failed before it was repaired (wrong optimum 0;
   panic in NewPBClause): *)
Example C03_negative_ok_1 :
  cost_wf 1 [(-1, 1)] = true /\
  optimal_ref 1 [] (Some [(-1, 1)]) = (OSat [true] (-1), [OSat [false] 0; OSat [true] (-1)]) /\
  minimize_ref 1 [] (Some [(-1, 1)]) = -1 /\
  minimize_model_ref 1 [] (Some [(-1, 1)]) = Some [true].
Proof. exact negative_weight_ok_1. Qed.

Example C03_negative_ok_2 :
  cost_wf 2 [(1, 1); (-1, 2)] = true /\
  optimal_ref 2 [PBC [(1, 1)] 1] (Some [(1, 1); (-1, 2)]) =
    (OSat [true; true] 0, [OSat [true; false] 1; OSat [true; true] 0]) /\
  minimize_ref 2 [PBC [(1, 1)] 1] (Some [(1, 1); (-1, 2)]) = 0.
Proof. exact negative_weight_ok_2. Qed.

(* The hypotheses are satisfiable, and the closed instance computes. *)
Example C03_hyps :
  cost_wf 3 [(3, -1); (-2, 2); (0, 3)] = true /\ solver_ok ref_solve.
Proof. split; [reflexivity|exact ref_solver_ok]. Qed.

(* x1+x2+x3 >= 2, min: 3 ~x1 + 2 ~x2 + 4 ~x3 *)
Example C03_ex1 :
  optimal_ref 3 [PBC [(1, 1); (1, 2); (1, 3)] 2] (Some [(3, -1); (2, -2); (4, -3)]) =
  (OSat [true; true; true] 0,
   [OSat [false; true; true] 3; OSat [true; false; true] 2; OSat [true; true; true] 0]).
Proof. vm_compute. reflexivity. Qed.

(* x1+x2+x3 >= 2, min: 3 x1 + 2 x2 + 0 x3 : a zero weight does not force x3 *)
Example C03_ex2 :
  optimal_ref 3 [PBC [(1, 1); (1, 2); (1, 3)] 2] (Some [(3, 1); (2, 2); (0, 3)]) =
  (OSat [false; true; true] 2, [OSat [false; true; true] 2]) /\
  minimize_ref 3 [PBC [(1, 1); (1, 2); (1, 3)] 2] (Some [(3, 1); (2, 2); (0, 3)]) = 2.
Proof. split; vm_compute; reflexivity. Qed.

(* 2 x1 + x2 + x3 + x4 >= 3 and not(x1) or not(x2), min: x1 + 2 x2 + 2 x3 + 3 x4 *)
Example C03_ex3 :
  optimal_ref 4 [PBC [(2, 1); (1, 2); (1, 3); (1, 4)] 3; PBC [(1, -1); (1, -2)] 1]
              (Some [(1, 1); (2, 2); (2, 3); (3, 4)]) =
  (OSat [true; false; true; false] 3,
   [OSat [false; true; true; true] 7; OSat [true; false; false; true] 4;
    OSat [true; false; true; false] 3]) /\
  min_dec 4 [PBC [(2, 1); (1, 2); (1, 3); (1, 4)] 3; PBC [(1, -1); (1, -2)] 1]
          [(1, 1); (2, 2); (2, 3); (3, 4)] = Some 3.
Proof. split; vm_compute; reflexivity. Qed.

Example C03_ex_unsat :
  optimal_ref 1 [PBC [(1, 1)] 1; PBC [(1, -1)] 1] (Some [(3, 1)]) = (OUnsat, [OUnsat]) /\
  minimize_ref 1 [PBC [(1, 1)] 1; PBC [(1, -1)] 1] (Some [(3, 1)]) = -1.
Proof. split; vm_compute; reflexivity. Qed.

Example C03_ex_no_cost :
  optimal_ref 2 [PBC [(1, 1); (1, 2)] 1] None = (OSat [false; true] 0, [OSat [false; true] 0]) /\
  minimize_ref 2 [PBC [(1, 1); (1, 2)] 1] None = 0.
Proof. split; vm_compute; reflexivity. Qed.

(* negative weights: not(x1) or not(x2), x2 or x3 or x4; min: -5 x1 -4 x2 +3 x3 -1 x4 *)
Example C03_ex_neg1 :
  optimal_ref 4 [PBC [(1, -1); (1, -2)] 1; PBC [(1, 2); (1, 3); (1, 4)] 1]
              (Some [(-5, 1); (-4, 2); (3, 3); (-1, 4)]) =
  (OSat [true; false; false; true] (-6),
   [OSat [false; false; false; true] (-1); OSat [false; true; false; false] (-4);
    OSat [false; true; false; true] (-5); OSat [true; false; false; true] (-6)]) /\
  min_dec 4 [PBC [(1, -1); (1, -2)] 1; PBC [(1, 2); (1, 3); (1, 4)] 1]
          [(-5, 1); (-4, 2); (3, 3); (-1, 4)] = Some (-6).
Proof. split; vm_compute; reflexivity. Qed.

(* min: -4 x1 +3 x2 -2 x3 +0 x4 -6 x5, and the bound constraint "cost <= -7" after GtEq:
   6 x5 + 4 x1 + 3 ~x2 + 2 x3 >= 10 (the zero weight in the middle is dropped) *)
Example C03_ex_neg2 :
  optimal_ref 5 [PBC [(3, 1); (2, 2); (2, -3); (1, 4); (1, 5)] 4; PBC [(1, -1); (1, -4)] 1]
              (Some [(-4, 1); (3, 2); (-2, 3); (0, 4); (-6, 5)]) =
  (OSat [true; false; true; false; true] (-12),
   [OSat [false; false; false; true; true] (-6); OSat [true; false; false; false; true] (-10);
    OSat [true; false; true; false; true] (-12)]) /\
  bound_pbc [(-4, 1); (3, 2); (-2, 3); (0, 4); (-6, 5)] (-6) =
  Some (PBC [(6, 5); (4, 1); (3, -2); (2, 3)] 10).
Proof. split; vm_compute; reflexivity. Qed.

(* Minimize's -1 is ambiguous with negative weights: an optimum of -1 and Unsat *)
Example C03_ex_minus_one :
  minimize_ref 2 [PBC [(1, 1); (1, 2)] 1] (Some [(-1, 1); (1, 2)]) = -1 /\
  minimize_model_ref 2 [PBC [(1, 1); (1, 2)] 1] (Some [(-1, 1); (1, 2)]) = Some [true; false] /\
  minimize_ref 1 [PBC [(1, 1)] 1; PBC [(1, -1)] 1] (Some [(-1, 1)]) = -1 /\
  minimize_model_ref 1 [PBC [(1, 1)] 1; PBC [(1, -1)] 1] (Some [(-1, 1)]) = None.
Proof. repeat split; vm_compute; reflexivity. Qed.
