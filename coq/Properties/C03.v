(* C03: optimisation (Solver.Optimal / Solver.Minimize).  Statements only. *)
From Coq Require Import List ZArith Bool Sorted.
From GS Require Import Spec.Base Spec.PB Spec.Solver Model.Optim Proofs.Optim.
Import ListNotations.
Open Scope Z_scope.

(* The constraint added after a model of cost [bound]:
   sum_i w_i * (not l_i) >= maxCost - bound + 1   <->   cost <= bound - 1.
   Neither the sign of the weights nor distinct variables are needed here. *)
Theorem strengthen_equiv :
  forall (c : cost) (m : model) (bound : Z),
  Forall (fun t => snd t <> 0) c ->
  (lhs m (map (fun '(w, l) => (w, - l)) c) >= total_weight c - bound + 1
   <-> cost_of m c <= bound - 1).
Proof. exact Proofs.Optim.strengthen_equiv. Qed.
Print Assumptions strengthen_equiv.

(* ... and this is the meaning of the constraint really built (sorted, zero weights trimmed). *)
Theorem bound_pbc_equiv :
  forall (c : cost) (m : model) (bound : Z),
  Forall (fun t => snd t <> 0) c ->
  (sat_pbc m (bound_pbc c bound) = true <-> cost_of m c <= bound - 1).
Proof. exact Proofs.Optim.bound_pbc_equiv. Qed.
Print Assumptions bound_pbc_equiv.

(* Optimal: weights >= 0, cost literals non-zero and within the n variables. *)
Theorem C03_optimal :
  forall solve, solver_ok solve ->
  forall n P (c : cost), nonneg_terms c = true -> cost_wf n c = true ->
  match fst (optimal solve n P (Some c)) with
  | OUnsat => ~ PSatisfiable n P
  | OSat m w => is_optimum n P c m /\ w = cost_of m c
  end.
Proof. exact optimal_correct. Qed.
Print Assumptions C03_optimal.

(* The loop needs no more than the default fuel and the Go code does not panic. *)
Theorem C03_terminates :
  forall solve, solver_ok solve ->
  forall n P (c : cost), nonneg_terms c = true -> cost_wf n c = true ->
  exists r s, optimal_run solve n P (Some c) = RDone r s /\
    match r with
    | OUnsat => ~ PSatisfiable n P /\ s = [OUnsat]
    | OSat m w => is_optimum n P c m /\ w = cost_of m c /\ stream_ok n P c s r
    end.
Proof. exact optimal_run_nonneg. Qed.
Print Assumptions C03_terminates.

Theorem C03_no_cost :
  forall solve, solver_ok solve ->
  forall n P,
  match optimal solve n P None with
  | (OUnsat, s) => ~ PSatisfiable n P /\ s = [OUnsat]
  | (OSat m w, s) => w = 0 /\ length m = n /\ sat_problem m P = true /\ s = [OSat m 0]
  end.
Proof. exact optimal_no_cost. Qed.
Print Assumptions C03_no_cost.

(* Minimize returns the weight of Optimal's result, -1 for Unsat; no hypothesis. *)
Theorem C03_minimize_agrees :
  forall (solve : solver) n P oc,
  minimize solve n P oc =
  match fst (optimal solve n P oc) with OUnsat => -1 | OSat _ w => w end.
Proof. exact minimize_agrees. Qed.
Print Assumptions C03_minimize_agrees.

(* ... and s.Model() after Minimize is Optimal's model. *)
Theorem C03_minimize_model_agrees :
  forall (solve : solver) n P oc,
  minimize_model solve n P oc =
  match fst (optimal solve n P oc) with OUnsat => None | OSat m _ => Some m end.
Proof. exact minimize_model_agrees. Qed.
Print Assumptions C03_minimize_model_agrees.

(* What is sent on the channel: models of P with their own cost, strictly decreasing
   costs, the last one is the returned result; the Unsat result is sent as well. *)
Theorem C03_stream :
  forall solve, solver_ok solve ->
  forall n P (c : cost), nonneg_terms c = true -> cost_wf n c = true ->
  let (r, s) := optimal solve n P (Some c) in
  match r with
  | OUnsat => s = [OUnsat]
  | OSat _ _ =>
      Forall (fun x => exists mj, x = OSat mj (cost_of mj c) /\ length mj = n /\
                                  sat_problem mj P = true) s /\
      StronglySorted (fun a b => oweight b < oweight a) s /\
      last s OUnsat = r
  end.
Proof. exact optimal_stream. Qed.
Print Assumptions C03_stream.

(* The returned weight is the one of the exhaustive oracle. *)
Theorem C03_min_dec :
  forall solve, solver_ok solve ->
  forall n P (c : cost), nonneg_terms c = true -> cost_wf n c = true ->
  min_dec n P c =
  match fst (optimal solve n P (Some c)) with OUnsat => None | OSat _ w => Some w end.
Proof. exact optimal_min_dec. Qed.
Print Assumptions C03_min_dec.

(* Any weights: the loop always terminates within the default fuel, what it returns is a
   model with its cost, optimal unless the loop stopped because of "cost == 0". *)
Theorem C03_optimal_partial :
  forall solve, solver_ok solve ->
  forall n P (c : cost),
  optimal_run solve n P (Some c) <> RFuel /\
  forall m w s, optimal_run solve n P (Some c) = RDone (OSat m w) s ->
    length m = n /\ sat_problem m P = true /\ w = cost_of m c /\
    (w = 0 \/ is_optimum n P c m) /\ stream_ok n P c s (OSat m w).
Proof. exact optimal_partial. Qed.
Print Assumptions C03_optimal_partial.

(* Negative weights (ParseOPB accepts them in "min:"): wrong optimum ... *)
Theorem C03_negative_refuted :
  exists n P (c : cost) m w,
    cost_wf n c = true /\
    fst (optimal_ref n P (Some c)) = OSat m w /\ minimize_ref n P (Some c) = w /\
    ~ is_optimum n P c m.
Proof. exact negative_weight_refuted. Qed.
Print Assumptions C03_negative_refuted.

(* ... or a panic in NewPBClause. *)
Theorem C03_negative_panics :
  exists n P (c : cost) s,
    cost_wf n c = true /\ PSatisfiable n P /\
    optimal_run_ref n P (Some c) = RPanic s /\ minimize_run_ref n P (Some c) = MRPanic.
Proof. exact negative_weight_panics. Qed.
Print Assumptions C03_negative_panics.

(* The hypotheses are satisfiable, and the closed instance computes. *)
Example C03_hyps :
  nonneg_terms [(3, -1); (2, -2); (4, -3)] = true /\ cost_wf 3 [(3, -1); (2, -2); (4, -3)] = true /\
  solver_ok ref_solve.
Proof. split; [reflexivity|]. split; [reflexivity|exact ref_solver_ok]. Qed.

(* x1+x2+x3 >= 2, min: 3 ~x1 + 2 ~x2 + 4 ~x3 *)
Example C03_ex1 :
  optimal_ref 3 [PBC [(1, 1); (1, 2); (1, 3)] 2] (Some [(3, -1); (2, -2); (4, -3)]) =
  (OSat [true; true; true] 0,
   [OSat [false; true; true] 3; OSat [true; false; true] 2; OSat [true; true; true] 0]).
Proof. vm_compute. reflexivity. Qed.

(* x1+x2+x3 >= 2, min: 3 x1 + 2 x2 + 0 x3 : a zero weight does not force x3 *)
Example C03_ex2 :
  optimal_ref 3 [PBC [(1, 1); (1, 2); (1, 3)] 2] (Some [(3, 1); (2, 2); (0, 3)]) =
  (OSat [false; true; true] 2, [OSat [false; true; true] 2]) /\
  minimize_ref 3 [PBC [(1, 1); (1, 2); (1, 3)] 2] (Some [(3, 1); (2, 2); (0, 3)]) = 2.
Proof. split; vm_compute; reflexivity. Qed.

(* 2 x1 + x2 + x3 + x4 >= 3 and not(x1) or not(x2), min: x1 + 2 x2 + 2 x3 + 3 x4 *)
Example C03_ex3 :
  optimal_ref 4 [PBC [(2, 1); (1, 2); (1, 3); (1, 4)] 3; PBC [(1, -1); (1, -2)] 1]
              (Some [(1, 1); (2, 2); (2, 3); (3, 4)]) =
  (OSat [true; false; true; false] 3,
   [OSat [false; true; true; true] 7; OSat [true; false; false; true] 4;
    OSat [true; false; true; false] 3]) /\
  min_dec 4 [PBC [(2, 1); (1, 2); (1, 3); (1, 4)] 3; PBC [(1, -1); (1, -2)] 1]
          [(1, 1); (2, 2); (2, 3); (3, 4)] = Some 3.
Proof. split; vm_compute; reflexivity. Qed.

Example C03_ex_unsat :
  optimal_ref 1 [PBC [(1, 1)] 1; PBC [(1, -1)] 1] (Some [(3, 1)]) = (OUnsat, [OUnsat]) /\
  minimize_ref 1 [PBC [(1, 1)] 1; PBC [(1, -1)] 1] (Some [(3, 1)]) = -1.
Proof. split; vm_compute; reflexivity. Qed.

Example C03_ex_no_cost :
  optimal_ref 2 [PBC [(1, 1); (1, 2)] 1] None = (OSat [false; true] 0, [OSat [false; true] 0]) /\
  minimize_ref 2 [PBC [(1, 1); (1, 2)] 1] None = 0.
Proof. split; vm_compute; reflexivity. Qed.
