(* C01h -- the decision heap of the CDCL loop (solver/queue.go and its users
   chooseLit, varBumpActivity, cleanupBindings, rebuildOrderHeap in
   solver/solver.go).  Model: Model/Heap.v; proofs: Proofs/Heap.v.

   Why it matters for C01: Solve answers Sat when chooseLit() returns -1
   (solver.go:392, :441), and Model/Search.v's St_answer_sat assumes that every
   variable is bound at that moment.  That rests on
       covers q model := every unbound variable is in q.content
   being an invariant of the search loop -- C01h_step / C01h_run below -- so
   that C01h_choose_none_all_bound holds.

   Findings about the Go code (all harmless for the answers, see the report):
   * cleanupBindings inserts every variable it puts back twice, and
     rebuildOrderHeap hands nbVars copies of variable 0 to build: [content]
     holds duplicates, [contains] can answer false for a variable that is in
     the heap, decrease can break the heap order, the heap grows beyond nbVars
     (C01h_cleanup_strict_refuted, C01h_rebuild_strict_refuted,
      C01h_contains_complete_refuted, C01h_decrease_ord_refuted, C01h_ex_growth).
   * What survives -- and is enough -- is the one-directional invariant
     [heap_ix]: indices[v] = z >= 0 -> content[z] = v.  No unbound variable is
     ever lost.

   Vocabulary (Proofs/Heap.v):
     heap_ix act q     elements of content are valid indices; indices[v]>=0 -> content[indices[v]] = v
     heap_ord act c    key(content[parent j]) >= key(content[j]) for all j > 0
     heap_wf act q     heap_ix /\ heap_ord               (what the code maintains)
     heap_strict act q heap_wf /\ NoDup content /\ (In v content -> contains q v = true)
     unbound model v   model[v] = 0;   all_bound model: no such v
     covers q model    unbound model v -> In v (content q)
     bumped act0 act n act is act0 after varBumpActivity(n) (order of the others kept, n not lower)
   Statements only. *)
From Coq Require Import List ZArith Bool Permutation.
From GS Require Import Model.Heap Proofs.Heap.
Import ListNotations.

(* ================================================================== *)
(* 1. contains                                                         *)

Theorem C01h_contains_sound : forall act q v,
  heap_ix act q -> contains q v = true -> In v (content q).
Proof. exact contains_sound. Qed.
Print Assumptions C01h_contains_sound.

(* FULL STATEMENT (false of the code as it is used, see the refutation):
     heap_wf act q -> (contains q v = true <-> In v (content q))          *)
Theorem C01h_contains_complete_partial : forall act q v,
  heap_strict act q -> In v (content q) -> contains q v = true.
Proof. exact contains_complete. Qed.
Print Assumptions C01h_contains_complete_partial.

(* reached from New by rebuildOrderHeap + chooseLit on a 1-variable solver *)
Theorem C01h_contains_complete_refuted :
  exists act pol s0 ops s log v,
    hinit act pol = Ok s0 /\ Forall (op_ok (length act)) ops /\
    hrun s0 ops = Ok (s, log) /\ heap_wf (h_act s) (h_q s) /\
    In v (content (h_q s)) /\ contains (h_q s) v = false.
Proof. exact contains_complete_refuted. Qed.
Print Assumptions C01h_contains_complete_refuted.

(* ================================================================== *)
(* 2. queue.go, function by function: no crash, no fuel exhaustion, the
      multiset of elements, the invariants                              *)

Theorem C01h_new_queue : forall act,
  exists q, new_queue act = Ok q /\ heap_strict act q /\
    Permutation (content q) (seq 0 (length act)) /\ length act <= length (indices q).
Proof. exact new_queue_ok. Qed.
Print Assumptions C01h_new_queue.

Theorem C01h_insert : forall act q n, heap_ix act q -> n < length act ->
  exists q', insert act q n = Ok q' /\ heap_ix act q' /\
    Permutation (content q') (n :: content q) /\
    contains q' n = true /\
    length (indices q') = Nat.max (length (indices q)) (S n) /\
    (forall v, contains q v = true -> contains q' v = true) /\
    (heap_ord act (content q) -> heap_ord act (content q')).
Proof. exact insert_ok. Qed.
Print Assumptions C01h_insert.

Theorem C01h_insert_strict : forall act q n q', heap_strict act q -> ~ In n (content q) ->
  n < length act -> insert act q n = Ok q' -> heap_strict act q'.
Proof. exact insert_strict. Qed.
Print Assumptions C01h_insert_strict.

(* removeMin removes exactly one copy of the element it returns, which has
   the largest activity when the heap is ordered *)
Theorem C01h_remove_min : forall act q, heap_ix act q -> content q <> [] ->
  exists q' x, remove_min act q = Ok (q', x) /\ heap_ix act q' /\
    Permutation (content q) (x :: content q') /\
    length (indices q') = length (indices q) /\
    (forall v, v <> x -> contains q v = true -> contains q' v = true) /\
    (heap_ord act (content q) ->
       heap_ord act (content q') /\
       forall v, In v (content q) -> (key act v <= key act x)%Z).
Proof. exact remove_min_ok. Qed.
Print Assumptions C01h_remove_min.

Theorem C01h_remove_min_strict : forall act q q' x, heap_strict act q ->
  remove_min act q = Ok (q', x) ->
  heap_strict act q' /\ ~ In x (content q') /\ contains q' x = false.
Proof. exact remove_min_strict. Qed.
Print Assumptions C01h_remove_min_strict.

(* decrease(n) after the activity of n went up.
   FULL STATEMENT (false, see the refutation): the last conjunct without
   [occurs_once (content q) n].                                          *)
Theorem C01h_decrease_partial : forall act q n, heap_ix act q -> contains q n = true ->
  exists q', decrease act q n = Ok q' /\ heap_ix act q' /\
    Permutation (content q') (content q) /\
    length (indices q') = length (indices q) /\
    (forall v, contains q v = true -> contains q' v = true) /\
    (forall act0, heap_ord act0 (content q) -> bumped act0 act n ->
                  occurs_once (content q) n -> heap_ord act (content q')).
Proof. exact decrease_ok. Qed.
Print Assumptions C01h_decrease_partial.

Theorem C01h_decrease_strict : forall act0 act q n q', heap_strict act0 q ->
  length act = length act0 -> bumped act0 act n -> contains q n = true ->
  decrease act q n = Ok q' -> heap_strict act q'.
Proof. exact decrease_strict. Qed.
Print Assumptions C01h_decrease_strict.

Theorem C01h_decrease_ord_refuted :
  exists act0 act q n q',
    heap_wf act0 q /\ length act = length act0 /\ bumped act0 act n /\
    contains q n = true /\ decrease act q n = Ok q' /\
    ~ heap_ord act (content q').
Proof. exact decrease_ord_refuted. Qed.
Print Assumptions C01h_decrease_ord_refuted.

(* build: whatever the duplicates in ns, the result is an ordered heap of
   exactly ns, and [contains] is exact on it *)
Theorem C01h_build : forall act q ns, heap_ix act q ->
  (forall v, In v ns -> v < length (indices q) /\ v < length act) ->
  exists q', build act q ns = Ok q' /\ heap_wf act q' /\
    Permutation (content q') ns /\
    length (indices q') = length (indices q) /\
    (forall v, In v ns -> contains q' v = true).
Proof. exact build_ok. Qed.
Print Assumptions C01h_build.

Theorem C01h_build_strict : forall act q ns q', heap_ix act q -> NoDup ns ->
  (forall v, In v ns -> v < length (indices q) /\ v < length act) ->
  build act q ns = Ok q' -> heap_strict act q'.
Proof. exact build_strict. Qed.
Print Assumptions C01h_build_strict.

(* the two percolations, on which everything above rests *)
Theorem C01h_percolate_up : forall act c ix i,
  heap_ix act (Q c ix) -> i < length c ->
  exists q', percolate_up act (Q c ix) i = Ok q' /\ heap_ix act q' /\
    step_rel c ix (content q') (indices q') /\
    (up_pre act c i -> heap_ord act (content q')).
Proof. exact percolate_up_ok. Qed.
Print Assumptions C01h_percolate_up.

Theorem C01h_percolate_down : forall act k0 c ix i,
  heap_ix act (Q c ix) -> i < length c -> k0 <= i ->
  exists q', percolate_down act (Q c ix) i = Ok q' /\ heap_ix act q' /\
    step_rel c ix (content q') (indices q') /\
    (down_pre act k0 c i -> ord_from act k0 (content q')).
Proof. exact percolate_down_ok. Qed.
Print Assumptions C01h_percolate_down.

(* ================================================================== *)
(* 3. The users in solver.go                                           *)

(* chooseLit: either -1, the heap is empty and nothing is unbound; or the
   literal of an unbound variable v (sign from the saved polarity), every
   other unbound variable is still in the heap, and v has the largest
   activity among the unbound variables when the heap is ordered          *)
Theorem C01h_choose_lit : forall act q model pol,
  heap_ix act q -> length model = length act -> length pol = length act ->
  covers q model ->
  exists q' l, choose_lit act q model pol = Ok (q', l) /\ heap_ix act q' /\
    length (indices q') = length (indices q) /\
    (forall v, In v (content q') -> In v (content q)) /\
    (heap_ord act (content q) -> heap_ord act (content q')) /\
    (heap_strict act q -> heap_strict act q') /\
    ((l = (-1)%Z /\ content q' = [] /\ forall v, v < length model -> ~ unbound model v) \/
     (exists v, l = signed_lit v (negb (nth v pol false)) /\ unbound model v /\
        (forall w, w <> v -> unbound model w -> In w (content q')) /\
        (heap_ord act (content q) ->
           forall w, unbound model w -> (key act w <= key act v)%Z))).
Proof. exact choose_lit_ok. Qed.
Print Assumptions C01h_choose_lit.

Theorem C01h_choose_none_all_bound : forall act q model pol q',
  heap_ix act q -> length model = length act -> length pol = length act ->
  covers q model -> choose_lit act q model pol = Ok (q', (-1)%Z) ->
  all_bound model /\ content q' = [].
Proof. exact choose_lit_none. Qed.
Print Assumptions C01h_choose_none_all_bound.

Theorem C01h_choose_some_unbound : forall act q model pol q' l,
  heap_ix act q -> length model = length act -> length pol = length act ->
  covers q model -> choose_lit act q model pol = Ok (q', l) -> l <> (-1)%Z ->
  unbound model (lit_var l) /\
  l = signed_lit (lit_var l) (negb (nth (lit_var l) pol false)) /\
  heap_ix act q' /\
  (forall lvl, lvl <> 0%Z -> covers q' (put model (lit_var l) lvl)) /\
  (heap_ord act (content q) ->
     forall w, unbound model w -> (key act w <= key act (lit_var l))%Z).
Proof. exact choose_lit_some. Qed.
Print Assumptions C01h_choose_some_unbound.

Theorem C01h_var_bump : forall act q v, heap_ix act q ->
  exists q', var_bump act q v = Ok q' /\ heap_ix act q' /\
    Permutation (content q') (content q) /\
    length (indices q') = length (indices q) /\
    (forall act0, heap_strict act0 q -> length act = length act0 -> bumped act0 act v ->
                  heap_strict act q').
Proof. exact var_bump_ok. Qed.
Print Assumptions C01h_var_bump.

(* cleanupBindings: the variables vs become unbound, nothing else changes in
   the model, and [covers] holds again.
   FULL STATEMENT (false, see the refutation): ... /\ (heap_strict act q ->
   heap_strict act q').                                                   *)
Theorem C01h_cleanup_bindings_partial : forall act vs q model,
  heap_ix act q -> length model = length act -> (forall v, In v vs -> v < length act) ->
  covers q model ->
  exists q' model', cleanup_bindings act vs q model = Ok (q', model') /\
    heap_ix act q' /\ length model' = length model /\
    (forall w, In w vs -> unbound model' w) /\
    (forall w, ~ In w vs -> nth_error model' w = nth_error model w) /\
    covers q' model' /\
    length (indices q) <= length (indices q') /\
    (heap_ord act (content q) -> heap_ord act (content q')) /\
    (forall v, In v (content q) -> In v (content q')).
Proof. exact cleanup_bindings_ok. Qed.
Print Assumptions C01h_cleanup_bindings_partial.

(* one decision and one backtrack from the state built by New *)
Theorem C01h_cleanup_strict_refuted :
  exists act pol s0 ops s log,
    hinit act pol = Ok s0 /\ heap_strict act (h_q s0) /\
    Forall (op_ok (length act)) ops /\ hrun s0 ops = Ok (s, log) /\
    ~ NoDup (content (h_q s)).
Proof. exact cleanup_strict_refuted. Qed.
Print Assumptions C01h_cleanup_strict_refuted.

(* rebuildOrderHeap on its actual behaviour: the heap is nbVars copies of
   variable 0 followed by the unbound variables [us], it is ordered, every
   unbound variable is in it, and [contains] is exact.
   FULL STATEMENT (false, see the refutation): Permutation (content q') us,
   i.e. heap_strict act q'.                                               *)
Theorem C01h_rebuild_order_heap_partial : forall act q model n,
  heap_ix act q -> length model = n -> n <= length act -> n <= length (indices q) ->
  exists q' us, rebuild_order_heap act q model n = Ok q' /\ heap_wf act q' /\
    covers q' model /\ length (indices q') = length (indices q) /\
    Permutation (content q') (repeat 0 n ++ us) /\
    (forall w, In w us <-> unbound model w) /\ NoDup us /\
    (forall v, contains q' v = true <-> In v (content q')).
Proof. exact rebuild_order_heap_ok. Qed.
Print Assumptions C01h_rebuild_order_heap_partial.

Theorem C01h_rebuild_strict_refuted :
  exists act pol s0 s log,
    hinit act pol = Ok s0 /\ heap_strict act (h_q s0) /\
    hrun s0 [ORebuild] = Ok (s, log) /\
    content (h_q s) = [0; 0; 0; 1] /\ ~ NoDup (content (h_q s)).
Proof. exact rebuild_strict_refuted. Qed.
Print Assumptions C01h_rebuild_strict_refuted.

(* ================================================================== *)
(* 4. The invariant of the search loop                                 *)
(* hstate_ok s := heap_ix /\ |model| = |polarity| = |activity| <= |indices|
                  /\ covers.
   op_ok n o   := what the loop guarantees about a request (levels <> 0,
                  variables < n, activity slice of length n).              *)

Theorem C01h_init : forall act pol, length pol = length act ->
  exists s, hinit act pol = Ok s /\ hstate_ok s /\ h_act s = act /\
            heap_strict act (h_q s).
Proof. exact hinit_ok. Qed.
Print Assumptions C01h_init.

Theorem C01h_step : forall s o, hstate_ok s -> op_ok (length (h_act s)) o ->
  exists s' ol, hstep s o = Ok (s', ol) /\ hstate_ok s' /\
    length (h_act s') = length (h_act s) /\
    (ol = Some (-1)%Z -> all_bound (h_model s)) /\
    (forall l, ol = Some l -> l <> (-1)%Z ->
       unbound (h_model s) (lit_var l) /\ nth (lit_var l) (h_model s') 0%Z <> 0%Z).
Proof. exact hstep_ok. Qed.
Print Assumptions C01h_step.

Theorem C01h_run : forall ops s, hstate_ok s -> Forall (op_ok (length (h_act s))) ops ->
  exists s' log, hrun s ops = Ok (s', log) /\ hstate_ok s' /\
    length (h_act s') = length (h_act s).
Proof. exact hrun_ok. Qed.
Print Assumptions C01h_run.

(* from New, after any sequence of decisions, propagations, bumps,
   backtracks and heap rebuilds: chooseLit() = -1 only if every variable is
   bound (no corruption of the heap can lose an unbound variable)          *)
Theorem C01h_run_choose_none_all_bound : forall act pol ops s0 s log lvl s',
  length pol = length act -> hinit act pol = Ok s0 ->
  Forall (op_ok (length act)) ops -> hrun s0 ops = Ok (s, log) ->
  hstep s (OChoose lvl) = Ok (s', Some (-1)%Z) ->
  all_bound (h_model s).
Proof. exact choose_none_all_bound. Qed.
Print Assumptions C01h_run_choose_none_all_bound.

(* ================================================================== *)
(* 5. The model's index arithmetic and literal encoding are those of the
      generated translation of the Go sources (Gen/GoTypes.v)            *)

Theorem C01h_left_go : forall i : nat, Z.of_nat (h_left i) = GS.Gen.GoTypes.go_left (Z.of_nat i).
Proof. exact h_left_go. Qed.
Print Assumptions C01h_left_go.
Theorem C01h_right_go : forall i : nat, Z.of_nat (h_right i) = GS.Gen.GoTypes.go_right (Z.of_nat i).
Proof. exact h_right_go. Qed.
Print Assumptions C01h_right_go.
Theorem C01h_parent_go : forall i : nat, 0 < i ->
  Z.of_nat (h_parent i) = GS.Gen.GoTypes.go_parent (Z.of_nat i).
Proof. exact h_parent_go. Qed.
Print Assumptions C01h_parent_go.
Theorem C01h_signed_lit_go : forall (v : nat) (b : bool),
  signed_lit v b = GS.Gen.GoTypes.go_Var_SignedLit (Z.of_nat v) b.
Proof. exact signed_lit_go. Qed.
Print Assumptions C01h_signed_lit_go.
Theorem C01h_lit_var_go : forall l : Z, (0 <= l)%Z ->
  Z.of_nat (lit_var l) = GS.Gen.GoTypes.go_Lit_Var l.
Proof. exact lit_var_go. Qed.
Print Assumptions C01h_lit_var_go.

(* ================================================================== *)
(* 6. Examples                                                         *)

(* ---- the hypotheses are satisfiable ---- *)
Example C01h_hyp_strict : heap_strict ex_act ex_qA.
Proof. exact ex_strict. Qed.
Example C01h_hyp_wf_dups :
  heap_wf ex_act ex_qC3 /\ ~ NoDup (content ex_qC3) /\ contains ex_qC3 1 = true.
Proof. exact ex_wf_dups. Qed.
Example C01h_hyp_covers : covers ex_qR1 [0; 1; 0; -1; 0]%Z /\ heap_ix ex_actR ex_qR1.
Proof. exact ex_covers. Qed.

(* ---- traces of the Go code (printed by a test inside package solver on the
   committed sources) replayed by the model ---- *)
Example go_new_queue : new_queue ex_act = Ok ex_qA.
Proof. vm_compute. reflexivity. Qed.
Example go_remove_min :
  remove_min ex_act ex_qA = Ok (ex_qB1, 5) /\
  remove_min ex_act ex_qB1 = Ok (ex_qB2, 7) /\
  remove_min ex_act ex_qB2 = Ok (ex_qB3, 4).
Proof. vm_compute. repeat split. Qed.
Example go_insert :
  insert ex_act ex_qB3 5 = Ok ex_qC1 /\ insert ex_act ex_qC1 5 = Ok ex_qC2 /\
  insert ex_act ex_qC2 1 = Ok ex_qC3 /\
  contains ex_qC3 1 = true /\ contains ex_qC3 7 = false /\ contains ex_qC3 5 = true.
Proof. vm_compute. repeat split. Qed.
Example go_decrease : decrease ex_act2 ex_qC3 1 = Ok ex_qD.
Proof. vm_compute. reflexivity. Qed.
Example go_pop_all : pop_all ex_act2 20 ex_qD = Ok ([1; 5; 1; 5; 2; 0; 6; 3], ex_qE).
Proof. vm_compute. reflexivity. Qed.
Example go_build :
  build ex_act2 ex_qE [0; 0; 0; 2; 3; 6; 7] = Ok ex_qF /\
  remove_min ex_act2 ex_qF = Ok (ex_qF1, 7) /\ contains ex_qF1 0 = true /\
  insert ex_act2 ex_qF1 0 = Ok ex_qF2.
Proof. vm_compute. repeat split. Qed.
(* through rebuildOrderHeap, chooseLit and the real cleanupBindings *)
Example go_rebuild_order_heap :
  new_queue ex_actR = Ok ex_qR /\
  rebuild_order_heap ex_actR ex_qR [0; 1; 0; -1; 0]%Z 5 = Ok ex_qR1 /\
  choose_lit ex_actR ex_qR1 [0; 1; 0; -1; 0]%Z ex_polR = Ok (ex_qR2, 9%Z) /\
  choose_lit ex_actR ex_qR2 [0; 1; 0; -1; 2]%Z ex_polR = Ok (ex_qR3, 5%Z) /\
  choose_lit ex_actR ex_qR3 [0; 1; 2; -1; 2]%Z ex_polR = Ok (ex_qR4, 1%Z) /\
  cleanup_bindings ex_actR [4; 2] ex_qR4 [2; 1; 2; -1; 2]%Z
    = Ok (ex_qR5, [2; 1; 0; -1; 0]%Z) /\
  rebuild_order_heap ex_actR (Q [4; 0; 2; 0; 0; 0; 0] [6; -1; 2; -1; 0]%Z) [0; 1; 0; 1; 1]%Z 5
    = Ok ex_qR2 /\
  choose_lit ex_actR ex_qR2 [0; 1; 0; 1; 1]%Z ex_polR = Ok (ex_qR3, 5%Z).
Proof. vm_compute. repeat split. Qed.

(* ---- a whole run of the machine, through rebuild_order_heap, ending with
   chooseLit = -1 and every variable bound ---- *)
Example C01h_ex_run :
  hinit [1; 3; 2]%Z [false; true; false] = Ok ex_s0 /\
  Forall (op_ok 3) ex_ops /\
  hrun ex_s0 (firstn 4 ex_ops)
    = Ok (HS [1; 3; 7]%Z (Q [2; 2; 1; 0; 1] [3; 4; 1]%Z) [0; 0; 0]%Z [false; true; false], [2; 5]%Z) /\
  hrun ex_s0 (firstn 6 ex_ops)
    = Ok (HS [1; 3; 7]%Z (Q [2; 0; 0; 0; 0] [1; -1; 0]%Z) [0; 1; 0]%Z [false; true; false], [2; 5]%Z) /\
  hrun ex_s0 ex_ops
    = Ok (HS [1; 3; 7]%Z (Q [] [-1; -1; -1]%Z) [-2; 1; 2]%Z [false; true; false], [2; 5; 5; -1]%Z).
Proof. exact ex_run. Qed.

(* ---- the heap grows beyond the number of variables ---- *)
Example C01h_ex_growth :
  hrun (HS [1; 3]%Z (Q [1; 0] [1; 0]%Z) [0; 0]%Z [false; true])
       [OChoose 2; OChoose 3; OCleanup [2; 1]%Z; OChoose 2; OChoose 3; OCleanup [1; 2]%Z;
        OChoose 2; OChoose 3; OCleanup [2; 1]%Z]
  = Ok (HS [1; 3]%Z (Q [1; 1; 0; 0] [3; 1]%Z) [0; 0]%Z [false; true], [2; 1; 2; 1; 2; 1]%Z).
Proof. vm_compute. reflexivity. Qed.
