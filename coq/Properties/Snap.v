(* Soundness of the snapshot judges (Judge/J21.v): the tie between the search loop of /repo, observed at its tracing
   points, and the theorems about the mirrored conflict analysis (Properties/C06l.v, Properties/C14s.v).
   Statements only; proofs in Proofs/SnapSound.v. *)
From Coq Require Import List ZArith Bool String.
From GS Require Import Spec.Base Spec.PB Judge.Sx Judge.JCommon Model.PBNorm Model.CP Model.Learn Model.CPSearch Judge.J21.
From GS Require Import Proofs.Learn Proofs.CPSearch Proofs.SnapSound.
Import ListNotations.
Open Scope Z_scope.

(* learnClause, observed: an Ok means that the observed state meets the hypotheses of the C06l theorems and that the
   clause the implementation learned is entailed by the conflict and the antecedents, falsified by the state, asserting
   at the conflict level, with a backjump level strictly below it. *)
Theorem J_snap_learn_sound : forall sn confl i,
  sn_confl sn = Some confl ->
  judge_learn_snap sn = Ok i ->
  sn_reskind sn = 0 -> sn_done sn = true ->
  let st := mk_state (sn_trail sn) (sn_model sn) (sn_reasons sn) (sn_assum sn) in
  Proofs.Learn.state_ok st (sn_lvl sn) /\ Proofs.Learn.confl_ok st (sn_lvl sn) confl /\
  (forall m : model, sat_pbc m confl = true ->
     (forall r, In r (learn_antecedents confl (sn_lvl sn) st) -> sat_pbc m r = true) ->
     sat_clause m (sn_learnt sn) = true) /\
  (forall x, In x (sn_learnt sn) -> x <> 0 /\ Model.Learn.lit_false st x = true) /\
  lvl_of st (lvar (hd 0 (sn_learnt sn))) = sn_lvl sn /\
  1 <= lvl_of st (lvar (nth 1 (sn_learnt sn) 0)) < sn_lvl sn.
Proof. exact judge_learn_snap_sound. Qed.
Print Assumptions J_snap_learn_sound.

(* cuttingPlanes, observed: the state meets state_wf3b (so C14_search_sound and C14_search_total apply to it) and the
   call returned the level and the propagated literals of the model. *)
Theorem J_snap_cp_sound : forall sn confl i,
  sn_confl sn = Some confl ->
  judge_cp_snap sn = Ok i ->
  let st := State (sn_trail sn) (sn_model sn) (sn_reasons sn) confl (sn_lvl sn) in
  state_wf3b st = true /\
  (sn_done sn = true ->
   match cutting_planes st with
   | CPUnsat => sn_newlvl sn = -1
   | CPUnits us => sn_newlvl sn = 1 /\ (forall y, In y (sn_props sn) <-> In y us)
   | CPLearn c props nl => sn_newlvl sn = nl /\ (forall y, In y (sn_props sn) <-> In y props)
   | _ => False
   end).
Proof. exact judge_cp_snap_sound. Qed.
Print Assumptions J_snap_cp_sound.

(* a quiet point, observed: a good state in which no constraint held by the solver is falsified *)
Theorem J_snap_quiet_sound : forall sn i,
  judge_quiet_snap sn = Ok i ->
  Proofs.Learn.state_ok (mk_state (sn_trail sn) (sn_model sn) (sn_reasons sn) (sn_assum sn)) (sn_lvl sn) /\
  forall k c, nth_error (sn_constrs sn) k = Some c ->
              held_to_account (sn_norig sn) (sn_cp sn) (Z.of_nat k) = true -> 0 <= slack_of (sn_model sn) c.
Proof. exact judge_quiet_snap_sound. Qed.
Print Assumptions J_snap_quiet_sound.

(* for clauses and cardinality constraints where the code promises it: no literal is left to propagate *)
Theorem J_snap_quiet_complete : forall complete md c, quiet_constr complete md c = true ->
  0 <= slack_of md c /\
  (complete = true -> unit_weights c = true ->
   forall t, In t (terms c) -> l_free md (snd t) = true -> 0 < fst t -> fst t <= slack_of md c).
Proof. exact quiet_constr_spec. Qed.
Print Assumptions J_snap_quiet_complete.

(* the judges are not vacuous: a hand-written state on which each accepts *)
Example J_snap_learn_hyp :
  exists i, judge_learn_snap
    (Snap 0 2 [-1; -2] [-2; -2] [None; Some (PBC [(1, 1); (1, -2)] 1)] [false; false]
          (Some (PBC [(1, 1); (1, 2)] 1)) [] true 1 [] 1 [] 0 0 false 0 [] [] [] []) = Ok i.
Proof. vm_compute. eexists. reflexivity. Qed.
