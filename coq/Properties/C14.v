(* C14 (inference rules only): every constraint produced by the arithmetic of
   the cutting-planes strategy (learn_pb.go: pbSet, clause, clash, roundToOne,
   divideBy) is a logical consequence of its premises.  The trail walk
   [cuttingPlanes] is not modelled. *)
From Coq Require Import List ZArith Bool.
From GS Require Import Spec.Base Spec.PB Model.CP Proofs.CP.
Import ListNotations.
Open Scope Z_scope.

(* clash: cancelling addition *)
Theorem C14_clash_sound : forall a b m,
  (List.length (fst b) <= List.length (fst a))%nat ->
  sat_pbset m a = true -> sat_pbset m b = true -> sat_pbset m (clash a b) = true.
Proof. exact clash_sound. Qed.
Print Assumptions C14_clash_sound.

Example C14_clash_hyp :
  let a : pbset := ([5; -3; 0; 2; 1], 6) in
  let b : pbset := ([-2; 6; 1; 2; 2], 7) in
  let m := [true; true; false; true; false] in
  (List.length (fst b) <= List.length (fst a))%nat /\
  sat_pbset m a = true /\ sat_pbset m b = true.
Proof. cbv zeta. split; [apply le_n|]. split; reflexivity. Qed.

(* weakening: drop the term of variable j+1, subtract its weight from the degree *)
Theorem C14_weaken_sound : forall j s m,
  sat_pbset m s = true -> sat_pbset m (weaken_at j s) = true.
Proof. exact weaken_sound. Qed.
Print Assumptions C14_weaken_sound.

(* the weakening loop of roundToOne, for any assignment (any choice of the
   literals to weaken) *)
Theorem C14_weaken_round_sound : forall wi assign s m,
  sat_pbset m s = true -> sat_pbset m (weaken_round wi assign s) = true.
Proof. exact weaken_round_sound. Qed.
Print Assumptions C14_weaken_round_sound.

(* divideBy really computes ceilings of the absolute values (Go's truncating
   / and %, both signs) ... *)
Theorem C14_divide_weight_ceil : forall c w, 0 < c ->
  Z.abs (div_w c w) = (Z.abs w + c - 1) / c.
Proof. exact div_w_ceil. Qed.
Print Assumptions C14_divide_weight_ceil.

(* ... and of the degree when it is not negative *)
Theorem C14_divide_degree_ceil : forall c d, 0 < c -> 0 <= d ->
  div_card c d = (d + c - 1) / c.
Proof. exact div_card_ceil. Qed.
Print Assumptions C14_divide_degree_ceil.

(* divideBy is sound unless the degree lies strictly between -coeff and 0 *)
Theorem C14_divide_sound : forall c s m,
  0 < c -> ~ (- c < snd s < 0) ->
  sat_pbset m s = true -> sat_pbset m (divide_by c s) = true.
Proof. exact divide_sound. Qed.
Print Assumptions C14_divide_sound.

Example C14_divide_hyp :
  0 < 3 /\ ~ (- 3 < snd ([3; 3; 1; 4; 3], 8) < 0) /\
  sat_pbset [true; true; false; true; false] ([3; 3; 1; 4; 3], 8) = true.
Proof. split; [reflexivity|]. split; [cbn; intros [_ H]; discriminate H|reflexivity]. Qed.

(* REFUTED as coded: a negative non-divisible degree is rounded the wrong way *)
Theorem C14_divide_refuted : exists c s m,
  0 < c /\ sat_pbset m s = true /\ sat_pbset m (divide_by c s) = false.
Proof. exact divide_refuted. Qed.
Print Assumptions C14_divide_refuted.

(* and the side condition is necessary: whenever -coeff < degree < 0 some
   model of the premise falsifies the conclusion *)
Theorem C14_divide_unsound_iff : forall c ws d, 0 < c -> - c < d < 0 ->
  exists m, sat_pbset m (ws, d) = true /\ sat_pbset m (divide_by c (ws, d)) = false.
Proof. exact divide_unsound_iff. Qed.
Print Assumptions C14_divide_unsound_iff.

(* roundToOne: sound for every assignment when the degree left by the
   weakening loop is not in ]-wi, 0[ *)
Theorem C14_round_sound : forall assign locked s s' m,
  round_to_one assign locked s = Some s' -> round_ok assign locked s ->
  sat_pbset m s = true -> sat_pbset m s' = true.
Proof. exact round_sound. Qed.
Print Assumptions C14_round_sound.

Example C14_round_hyp :
  round_to_one [1; -2; 0] 0 ([-4; 3; -6], 7) = Some ([-1; 1; 0], 1) /\
  round_ok [1; -2; 0] 0 ([-4; 3; -6], 7) /\
  sat_pbset [false; true; false] ([-4; 3; -6], 7) = true.
Proof.
  split; [reflexivity|]. split; [|reflexivity].
  unfold round_ok. cbn. intros [_ H]. discriminate H.
Qed.

(* the side condition holds when the constraint is conflicting (negative
   slack) under the assignment, the situation intended by RoundingSAT *)
Theorem C14_round_ok_of_conflict : forall assign lvl locked s,
  slack assign lvl s < 0 -> round_ok assign locked s.
Proof. exact round_ok_of_conflict. Qed.
Print Assumptions C14_round_ok_of_conflict.

(* REFUTED as coded (no side condition) *)
Theorem C14_round_refuted : exists assign locked s s' m,
  round_to_one assign locked s = Some s' /\
  sat_pbset m s = true /\ sat_pbset m s' = false.
Proof. exact round_refuted. Qed.
Print Assumptions C14_round_refuted.

(* clause() of pbSet(c) has the meaning of c *)
Theorem C14_pbset_roundtrip : forall n c m,
  pbc_ok n c = true -> sat_pbset m (pbset_of n c) = sat_pbc m c.
Proof. exact pbset_roundtrip. Qed.
Print Assumptions C14_pbset_roundtrip.

Example C14_pbset_roundtrip_hyp :
  pbc_ok 5 (PBC [(5, 1); (3, -2); (2, 4); (1, 5)] 6) = true.
Proof. vm_compute. reflexivity. Qed.

(* Every constraint derivable from the problem with the rules (under their
   side conditions) is satisfied by every model of the problem. *)
Theorem C14_derivation_sound : forall n P s, derivable n P s ->
  forall m, sat_problem m P = true -> sat_pbset m s = true.
Proof. exact derivable_sound. Qed.
Print Assumptions C14_derivation_sound.

Example C14_derivation_hyp :
  derivable 5 [PBC [(5, 1); (3, -2); (2, 4); (1, 5)] 6]
            (divide_by 2 (pbset_of 5 (PBC [(5, 1); (3, -2); (2, 4); (1, 5)] 6))).
Proof.
  apply D_divide; [|reflexivity|cbn; intros [_ H]; discriminate H].
  apply D_axiom; [left; reflexivity|reflexivity].
Qed.
