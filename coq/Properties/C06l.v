(* C06l -- conflict analysis (learn.go, sort.go, backtrackData, cleanupBindings,
   conflict branch of propagateAndSearch).  Serves C01 (the invariant of the
   search is kept, what is learned is a consequence), C06 (each learned clause
   follows from the conflict and the reasons by unit propagation alone) and
   C10 (what is learned under assumptions follows from the problem alone).
   Statements only; the model is Model/Learn.v, the proofs Proofs/Learn.v.
   [learned_lits r] is [Some c] for [LearnedClause c], [Some [u]] for
   [LearnedUnit u], [None] for [TopLevelConflict]/[LearnPanic]. *)
From Coq Require Import List ZArith Bool Sorted.
From GS Require Import Spec.Base Spec.PB Model.Rup Proofs.Rup Model.Learn Proofs.Learn.
Import ListNotations.
Open Scope Z_scope.

(* ---- the hypotheses can be checked by computation on a concrete state ---- *)
Theorem C06l_state_check : forall trail ml rl al lvl,
  state_okb trail ml rl al lvl = true -> state_ok (mk_state trail ml rl al) lvl.
Proof. exact state_okb_sound. Qed.
Print Assumptions C06l_state_check.

Theorem C06l_confl_check : forall st lvl confl, confl_okb st lvl confl = true -> confl_ok st lvl confl.
Proof. exact confl_okb_sound. Qed.
Print Assumptions C06l_confl_check.

Theorem C06l_clauses_check : forall trail ml rl al lvl confl,
  state_okb trail ml rl al lvl = true ->
  all_clausesb (mk_state trail ml rl al) confl = true ->
  (forall t1 t t2 c, s_trail (mk_state trail ml rl al) = t1 ++ t :: t2 ->
     s_reason (mk_state trail ml rl al) (lvar t) = Some c -> clause_reason_ok t1 t c) /\
  clause_confl (mk_state trail ml rl al) confl.
Proof. exact all_clausesb_sound. Qed.
Print Assumptions C06l_clauses_check.

(* a clause reason is a reason *)
Theorem C06l_clause_reason : forall t1 l c, clause_reason_ok t1 l c -> reason_ok t1 l c.
Proof. exact clause_reason_is_reason. Qed.
Print Assumptions C06l_clause_reason.

(* ---- learnClause does not run off the trail ---- *)
Theorem C06l_no_panic : forall st lvl confl, state_ok st lvl -> confl_ok st lvl confl ->
  learn_clause confl lvl st <> LearnPanic.
Proof. exact learn_no_panic. Qed.
Print Assumptions C06l_no_panic.

(* ---- learn_entailed: clause, cardinality and PB reasons alike ---- *)
Theorem C06l_learn_entailed : forall st lvl confl, state_ok st lvl -> confl_ok st lvl confl ->
  forall c, learned_lits (learn_clause confl lvl st) = Some c ->
  forall m, sat_pbc m confl = true ->
  (forall r, In r (learn_antecedents confl lvl st) -> sat_pbc m r = true) ->
  sat_clause m c = true.
Proof. exact learn_entailed. Qed.
Print Assumptions C06l_learn_entailed.

(* the antecedents: reasons of trail literals; a unit fact [t] only when t is
   a reason-less, non-assumed literal of level lvl that is not the first of
   its level -- never from level 2 on *)
Theorem C06l_antecedents_origin : forall st lvl confl, state_ok st lvl -> confl_ok st lvl confl ->
  forall r, In r (learn_antecedents confl lvl st) ->
  (exists t, In t (s_trail st) /\ s_reason st (lvar t) = Some r) \/
  (exists t t1 t2, s_trail st = t1 ++ t :: t2 /\ r = clause_pbc [t] /\
       s_reason st (lvar t) = None /\ s_assumptions st (lvar t) = false /\
       lvl_of st (lvar t) = lvl /\ exists t', In t' t1 /\ lvl_of st (lvar t') = lvl).
Proof. exact learn_antecedents_origin. Qed.
Print Assumptions C06l_antecedents_origin.

Theorem C06l_antecedents_reasons : forall st lvl confl, state_ok st lvl -> confl_ok st lvl confl ->
  2 <= lvl ->
  (forall t1 t t2, s_trail st = t1 ++ t :: t2 -> s_reason st (lvar t) = None ->
             2 <= lvl_of st (lvar t) -> forall t', In t' t1 -> lvl_of st (lvar t') < lvl_of st (lvar t)) ->
  forall r, In r (learn_antecedents confl lvl st) ->
  exists t, In t (s_trail st) /\ s_reason st (lvar t) = Some r.
Proof. exact learn_antecedents_reasons. Qed.
Print Assumptions C06l_antecedents_reasons.

(* ---- learn_falsified ---- *)
Theorem C06l_learn_falsified : forall st lvl confl, state_ok st lvl -> confl_ok st lvl confl ->
  forall c, learned_lits (learn_clause confl lvl st) = Some c ->
  forall x, In x c -> x <> 0 /\ lit_false st x = true.
Proof. exact learn_falsified. Qed.
Print Assumptions C06l_learn_falsified.

(* ---- learn_asserting: first UIP ---- *)
Theorem C06l_learn_asserting : forall st lvl confl, state_ok st lvl -> confl_ok st lvl confl ->
  forall c, learned_lits (learn_clause confl lvl st) = Some c ->
  exists h tl_, c = h :: tl_ /\ In (- h) (s_trail st) /\ lvl_of st (lvar h) = lvl /\
                (forall x, In x tl_ -> 1 <= lvl_of st (lvar x) < lvl) /\
                StronglySorted (by_level st) tl_.
Proof. exact learn_asserting. Qed.
Print Assumptions C06l_learn_asserting.

(* ---- learn_backjump ---- *)
Theorem C06l_learn_backjump : forall st lvl confl, state_ok st lvl -> confl_ok st lvl confl ->
  forall c, learn_clause confl lvl st = LearnedClause c ->
  exists h x r, c = h :: x :: r /\
    backtrack_data st c = (lvl_of st (lvar x), h) /\
    lvl_of st (lvar h) = lvl /\ 1 <= lvl_of st (lvar x) < lvl /\
    forall y, In y (x :: r) -> lvl_of st (lvar y) <= lvl_of st (lvar x).
Proof. exact learn_backjump. Qed.
Print Assumptions C06l_learn_backjump.

(* after cleanupBindings(btLevel) the clause is unit *)
Theorem C06l_backjump_unit : forall st lvl confl, state_ok st lvl -> confl_ok st lvl confl ->
  forall c, learn_clause confl lvl st = LearnedClause c ->
  exists st' bl h tl_,
    conflict_step confl lvl st = OJump st' bl h c /\ c = h :: tl_ /\
    1 <= bl < lvl /\
    s_model st' (lvar h) = 0 /\
    s_reason st' (lvar h) = Some (clause_pbc c) /\
    (forall y, In y tl_ -> lit_false st' y = true /\ In (- y) (s_trail st') /\ lvl_of st (lvar y) <= bl) /\
    (exists y, In y tl_ /\ lvl_of st (lvar y) = bl) /\
    s_trail st' = keep_prefix st bl (s_trail st).
Proof. exact backjump_unit. Qed.
Print Assumptions C06l_backjump_unit.

(* ... and once its first literal is bound the state is a good state again,
   with the learned clause as the reason of that literal (C01: the invariant
   is kept through a conflict) *)
Theorem C06l_conflict_step_ok : forall st lvl confl, state_ok st lvl -> confl_ok st lvl confl ->
  forall st' bl h c, conflict_step confl lvl st = OJump st' bl h c ->
  state_ok (unify_literal st' h bl) bl /\
  clause_reason_ok (s_trail st') h (clause_pbc c) /\
  s_reason (unify_literal st' h bl) (lvar h) = Some (clause_pbc c) /\
  lit_true (unify_literal st' h bl) h = true.
Proof. exact conflict_step_ok. Qed.
Print Assumptions C06l_conflict_step_ok.

(* ---- minimize_sound ---- *)
Theorem C06l_minimize_sound : forall st lvl confl, state_ok st lvl -> confl_ok st lvl confl ->
  forall a, analyze st confl lvl = WDone a ->
  let pre := finish sort_literals st a in
  let post := minimize_learned st (a_met a) pre in
  (forall m, sat_pbc m confl = true -> (forall r, In r (a_used a) -> sat_pbc m r = true) ->
             sat_clause m pre = true) /\
  (forall m, sat_clause m pre = true ->
             (forall r, In r (removed_reasons st (a_met a) pre) -> sat_pbc m r = true) ->
             sat_clause m post = true) /\
  (forall x, In x post -> In x pre) /\ hd 0 post = hd 0 pre.
Proof. exact minimize_sound. Qed.
Print Assumptions C06l_minimize_sound.

(* the test commented out at learn.go:122 has to stay out *)
Theorem C06l_minimize_gt1_refuted : exists trail ml rl al lvl confl,
  let st := mk_state trail ml rl al in
  state_okb trail ml rl al lvl = true /\ confl_okb st lvl confl = true /\
  s_assumptions st 1 = true /\
  match analyze st confl lvl with
  | WDone a => exists m,
      sat_pbc m confl = true /\
      forallb (fun t => match s_reason st (lvar t) with Some c => sat_pbc m c | None => true end)
              trail = true /\
      sat_clause m (minimize_learned_gt1 st (a_met a) (finish sort_literals st a)) = false /\
      sat_clause m (minimize_learned st (a_met a) (finish sort_literals st a)) = true
  | _ => False
  end.
Proof. exact minimize_gt1_refuted. Qed.
Print Assumptions C06l_minimize_gt1_refuted.

(* the hypothesis "the false literals of the conflict have distinct
   variables" is needed: addClauseLits does not test met[] *)
Theorem C06l_confl_dup_refuted : exists trail ml rl al lvl confl,
  let st := mk_state trail ml rl al in
  state_okb trail ml rl al lvl = true /\
  (forall x, In x (c_lits confl) -> x <> 0 /\ lit_false st x = true /\ lvl_of st (lvar x) = lvl) /\
  learn_clause confl lvl st = LearnPanic.
Proof. exact confl_dup_refuted. Qed.
Print Assumptions C06l_confl_dup_refuted.

(* ---- learn_is_rup (C06), clause antecedents ---- *)
Theorem C06l_learn_is_rup : forall st lvl confl, state_ok st lvl -> confl_ok st lvl confl ->
  (forall t1 t t2 c, s_trail st = t1 ++ t :: t2 -> s_reason st (lvar t) = Some c ->
                     clause_reason_ok t1 t c) ->
  clause_confl st confl ->
  forall c, learned_lits (learn_clause confl lvl st) = Some c ->
  rup (map c_lits (confl :: learn_antecedents confl lvl st)) c.
Proof. exact learn_is_rup. Qed.
Print Assumptions C06l_learn_is_rup.

Theorem C06l_rup_line_complete : forall D c fuel, wf_cnf D -> rup D c ->
  (length D < fuel)%nat -> rup_line fuel D c = Some true.
Proof. exact rup_line_complete. Qed.
Print Assumptions C06l_rup_line_complete.

Theorem C06l_learn_rup_line : forall st lvl confl, state_ok st lvl -> confl_ok st lvl confl ->
  (forall t1 t t2 c, s_trail st = t1 ++ t :: t2 -> s_reason st (lvar t) = Some c ->
                     clause_reason_ok t1 t c) ->
  clause_confl st confl ->
  forall c, learned_lits (learn_clause confl lvl st) = Some c ->
  forall fuel, (S (length (learn_antecedents confl lvl st)) < fuel)%nat ->
  rup_line fuel (map c_lits (confl :: learn_antecedents confl lvl st)) c = Some true.
Proof. exact learn_rup_line. Qed.
Print Assumptions C06l_learn_rup_line.

(* ---- learn_assumptions (C10) ---- *)
Theorem C06l_learn_top : forall st lvl confl, state_ok st lvl -> confl_ok st lvl confl ->
  learn_clause confl lvl st = TopLevelConflict ->
  exists t, In t (s_trail st) /\ s_assumptions st (lvar t) = true /\ lvl_of st (lvar t) = lvl.
Proof. exact learn_top. Qed.
Print Assumptions C06l_learn_top.

Theorem C06l_learn_assumptions : forall st lvl confl, state_ok st lvl -> confl_ok st lvl confl ->
  forall (Pm : list bool -> Prop),
  (forall m, Pm m -> sat_pbc m confl = true) ->
  (forall t c, In t (s_trail st) -> s_reason st (lvar t) = Some c -> forall m, Pm m -> sat_pbc m c = true) ->
  (forall t, In t (s_trail st) -> s_reason st (lvar t) = None -> s_assumptions st (lvar t) = false ->
             lvl_of st (lvar t) = 1 -> forall m, Pm m -> lit_val m t = true) ->
  (forall t1 t t2, s_trail st = t1 ++ t :: t2 -> s_reason st (lvar t) = None ->
             2 <= lvl_of st (lvar t) -> forall t', In t' t1 -> lvl_of st (lvar t') < lvl_of st (lvar t)) ->
  forall c, learned_lits (learn_clause confl lvl st) = Some c ->
  forall m, Pm m -> sat_clause m c = true.
Proof. exact learn_assumptions. Qed.
Print Assumptions C06l_learn_assumptions.

(* in the shape of Model.Assume.learn_ok (F: top-level facts, D: database) *)
Theorem C06l_learn_assumptions_db : forall st lvl confl, state_ok st lvl -> confl_ok st lvl confl ->
  forall (F : list lit) (D : problem),
  In confl D ->
  (forall t c, In t (s_trail st) -> s_reason st (lvar t) = Some c -> In c D) ->
  (forall t, In t (s_trail st) -> s_reason st (lvar t) = None -> s_assumptions st (lvar t) = false ->
             lvl_of st (lvar t) = 1 -> In t F) ->
  (forall t1 t t2, s_trail st = t1 ++ t :: t2 -> s_reason st (lvar t) = None ->
             2 <= lvl_of st (lvar t) -> forall t', In t' t1 -> lvl_of st (lvar t') < lvl_of st (lvar t)) ->
  forall c, learned_lits (learn_clause confl lvl st) = Some c ->
  forall m, sat_problem m (map (fun l => clause_pbc [l]) F ++ D) = true ->
            sat_pbc m (clause_pbc c) = true.
Proof. exact learn_assumptions_db. Qed.
Print Assumptions C06l_learn_assumptions_db.

(* ---- nothing depends on which sorting algorithm sort.Sort runs ---- *)
Theorem C06l_sort_literals_ok : sort_ok sort_literals.
Proof. exact sort_literals_ok. Qed.
Print Assumptions C06l_sort_literals_ok.

Theorem C06l_learn_entailed_any_sort : forall st lvl confl, state_ok st lvl -> confl_ok st lvl confl ->
  forall srt, sort_ok srt ->
  forall c, learned_lits (learn_clause_gen srt confl lvl st) = Some c ->
  forall m, sat_pbc m confl = true ->
  (forall r, In r (learn_antecedents_gen srt confl lvl st) -> sat_pbc m r = true) ->
  sat_clause m c = true.
Proof. exact learn_entailed_gen. Qed.
Print Assumptions C06l_learn_entailed_any_sort.

Theorem C06l_learn_asserting_any_sort : forall st lvl confl, state_ok st lvl -> confl_ok st lvl confl ->
  forall srt, sort_ok srt ->
  forall c, learned_lits (learn_clause_gen srt confl lvl st) = Some c ->
  exists h tl_, c = h :: tl_ /\ In (- h) (s_trail st) /\ lvl_of st (lvar h) = lvl /\
                (forall x, In x tl_ -> 1 <= lvl_of st (lvar x) < lvl) /\
                StronglySorted (by_level st) tl_.
Proof. exact learn_asserting_gen. Qed.
Print Assumptions C06l_learn_asserting_any_sort.

Theorem C06l_learn_backjump_any_sort : forall st lvl confl, state_ok st lvl -> confl_ok st lvl confl ->
  forall srt, sort_ok srt ->
  forall c, learn_clause_gen srt confl lvl st = LearnedClause c ->
  exists h x r, c = h :: x :: r /\
    backtrack_data st c = (lvl_of st (lvar x), h) /\
    lvl_of st (lvar h) = lvl /\ 1 <= lvl_of st (lvar x) < lvl /\
    forall y, In y (x :: r) -> lvl_of st (lvar y) <= lvl_of st (lvar x).
Proof. exact learn_backjump_gen. Qed.
Print Assumptions C06l_learn_backjump_any_sort.

(* ================================================================== *)
(* Examples.  ex1, ex2, ex3, ex4, ex5 are the states of the REAL solver at
   its first (ex4b: second) conflict on five tiny instances (trail, levels and
   reasons printed by an instrumented copy), and the learned clause is the
   line the unmodified solver sends on CertChan:
     ex1  p cnf 6 5 : 1 -2 / 6 -4 / 4 2 -5 / 4 -3 / 5 3 1           -> "4 1 0"
     ex2  opb: x1+~x2>=1; x6+x2+x4+x5>=2; ~x4+~x5+x3>=1; ~x4+~x3+x1>=1 -> "6 1 0"
     ex3  p cnf 8 6 : 7 -6 / 6 8 -5 / 6 1 -4 / 5 4 / 1 -2 / 7 -3    -> "6 8 1 0"
     ex4  p cnf 5 4 : -1 -3 4 / -1 -3 -4 / -2 3 5 / -2 3 -5, Assume(1, 2)
                                                      -> "-3 -1 0" then "0"
     ex5  opb: 2x2+x1+x3>=2; ~x2+~x3>=1; ~x2+x4>=1; ~x4+~x2+x1>=1    -> "1 0" *)

(* ex1: two levels, minimizeLearned removes the literal 2 *)
Example C06l_ex1 :
  let tr := [-1; -2; -6; -4; -3; -5] in
  let ml := [-2; -2; -3; -3; -3; -3] in
  let rl := [None; Some (clause_pbc [1; -2]); Some (clause_pbc [4; -3]);
             Some (clause_pbc [6; -4]); Some (clause_pbc [-5; 4; 2]); None] in
  let st := mk_state tr ml rl [] in
  let confl := clause_pbc [5; 3; 1] in
  state_okb tr ml rl [] 3 = true /\ confl_okb st 3 confl = true /\
  all_clausesb st confl = true /\
  learn_clause confl 3 st = LearnedClause [4; 1] /\
  learn_antecedents confl 3 st =
    [clause_pbc [4; -3]; clause_pbc [-5; 4; 2]; clause_pbc [1; -2]] /\
  (match analyze st confl 3 with WDone a => finish sort_literals st a | _ => [] end) = [4; 1; 2] /\
  backtrack_data st [4; 1] = (2, 4) /\
  rup_line 5 (map c_lits (confl :: learn_antecedents confl 3 st)) [4; 1] = Some true.
Proof. vm_compute. repeat split. Qed.

(* ex2: a cardinality constraint (at least 2 of x6 x2 x4 x5) is the reason of
   x4 and x5; only its false literals 6 and 2 are used *)
Example C06l_ex2 :
  let tr := [-1; -2; -6; 4; 5; 3] in
  let ml := [-2; -2; 3; 3; 3; -3] in
  let rl := [None; Some (clause_pbc [1; -2]); Some (clause_pbc [-4; -5; 3]);
             Some (card_pbc [6; 2; 4; 5] 2); Some (card_pbc [6; 2; 4; 5] 2); None] in
  let st := mk_state tr ml rl [] in
  let confl := clause_pbc [-4; -3; 1] in
  state_okb tr ml rl [] 3 = true /\ confl_okb st 3 confl = true /\
  learn_clause confl 3 st = LearnedClause [6; 1] /\
  learn_antecedents confl 3 st =
    [card_pbc [6; 2; 4; 5] 2; card_pbc [6; 2; 4; 5] 2; clause_pbc [-4; -5; 3]; clause_pbc [1; -2]].
Proof. vm_compute. repeat split. Qed.

(* ex3: three levels; sortLiterals reorders [6; 1; 8] into [6; 8; 1]; the
   solver jumps back to level 3 and x7, x6, ... are unbound *)
Example C06l_ex3 :
  let tr := [-1; -2; -8; -7; -6; -3; -5; -4] in
  let ml := [-2; -2; -4; -4; -4; -4; -4; -3] in
  let rl := [None; Some (clause_pbc [1; -2]); Some (clause_pbc [7; -3]); Some (clause_pbc [-4; 6; 1]);
             Some (clause_pbc [-5; 6; 8]); Some (clause_pbc [7; -6]); None; None] in
  let st := mk_state tr ml rl [] in
  let confl := clause_pbc [5; 4] in
  state_okb tr ml rl [] 4 = true /\ confl_okb st 4 confl = true /\ all_clausesb st confl = true /\
  learn_clause confl 4 st = LearnedClause [6; 8; 1] /\
  (match analyze st confl 4 with WDone a => a_lits a | _ => [] end) = [1; 8] /\
  compute_lbd st [6; 8; 1] = 3 /\
  (match conflict_step confl 4 st with
   | OJump st' bl l c => Some (s_trail st', map (s_model st') [1; 2; 3; 4; 5; 6; 7; 8], bl, l, c)
   | _ => None
   end) = Some ([-1; -2; -8], [-2; -2; 0; 0; 0; 0; 0; -3], 3, 6, [6; 8; 1]) /\
  rup_line 5 (map c_lits (confl :: learn_antecedents confl 4 st)) [6; 8; 1] = Some true.
Proof. vm_compute. repeat split. Qed.

(* ex4a: under the assumptions x1, x2 (level 1): the assumption literal -1 is
   KEPT in the learned clause [-3; -1], a consequence of the problem alone *)
Example C06l_ex4a :
  let tr := [1; 2; -5; 3; 4] in
  let ml := [1; 1; 2; 2; -2] in
  let rl := [None; None; Some (clause_pbc [3; 5; -2]); Some (clause_pbc [4; -3; -1]); None] in
  let st := mk_state tr ml rl [true; true] in
  let confl := clause_pbc [-4; -3; -1] in
  state_okb tr ml rl [true; true] 2 = true /\ confl_okb st 2 confl = true /\
  learn_clause confl 2 st = LearnedClause [-3; -1] /\
  learn_antecedents confl 2 st = [clause_pbc [4; -3; -1]] /\
  backtrack_data st [-3; -1] = (1, -3).
Proof. vm_compute. repeat split. Qed.

(* ex4b: the next conflict, at level 1: the analysis reaches the assumed
   variable 2 and answers TopLevelConflict; were x1, x2 top-level facts
   instead, it would learn the unit -1 using the fact x2 *)
Example C06l_ex4b :
  let tr := [1; 2; -3; 5] in
  let ml := [1; 1; -1; 0; 1] in
  let rl := [None; None; Some (clause_pbc [-3; -1]); None; Some (clause_pbc [5; 3; -2])] in
  let confl := clause_pbc [-5; 3; -2] in
  state_okb tr ml rl [true; true] 1 = true /\
  confl_okb (mk_state tr ml rl [true; true]) 1 confl = true /\
  learn_clause confl 1 (mk_state tr ml rl [true; true]) = TopLevelConflict /\
  learn_clause confl 1 (mk_state tr ml rl []) = LearnedUnit (-1) /\
  learn_antecedents confl 1 (mk_state tr ml rl []) =
    [clause_pbc [2]; clause_pbc [-3; -1]; clause_pbc [5; 3; -2]] /\
  (match conflict_step confl 1 (mk_state tr ml rl []) with OUnsat => true | _ => false end) = true.
Proof. vm_compute. repeat split. Qed.

(* ex5: a PB reason (2 x2 + x1 + x3 >= 2 propagated x2 when x1 became false);
   its literal x3 was falsified AFTER the propagation: the pointer has passed
   it (met, "deduced afterwards"), so it is not added *)
Example C06l_ex5 :
  let tr := [-1; 2; -3; 4] in
  let ml := [-2; 2; -2; 2] in
  let rl := [None; Some (PBC [(2, 2); (1, 1); (1, 3)] 2); Some (clause_pbc [-2; -3]);
             Some (clause_pbc [-2; 4])] in
  let st := mk_state tr ml rl [] in
  let confl := clause_pbc [-4; -2; 1] in
  state_okb tr ml rl [] 2 = true /\ confl_okb st 2 confl = true /\
  learn_clause confl 2 st = LearnedUnit 1 /\
  learn_antecedents confl 2 st = [PBC [(2, 2); (1, 1); (1, 3)] 2; clause_pbc [-2; 4]].
Proof. vm_compute. repeat split. Qed.

(* the hypotheses of the theorems above hold for ex1 *)
Example C06l_hyp_ex1 :
  let st := mk_state [-1; -2; -6; -4; -3; -5] [-2; -2; -3; -3; -3; -3]
              [None; Some (clause_pbc [1; -2]); Some (clause_pbc [4; -3]);
               Some (clause_pbc [6; -4]); Some (clause_pbc [-5; 4; 2]); None] [] in
  state_ok st 3 /\ confl_ok st 3 (clause_pbc [5; 3; 1]) /\ clause_confl st (clause_pbc [5; 3; 1]).
Proof.
  cbv zeta. split; [apply state_okb_sound; vm_compute; reflexivity|].
  split; [apply confl_okb_sound; vm_compute; reflexivity|].
  apply (all_clausesb_sound _ _ _ _ 3); vm_compute; reflexivity.
Qed.
