(* C17: text syntax of boolean formulas (bf/parser.go).  Statements only. *)
From Coq Require Import List String Ascii Arith Bool.
From GS Require Import Model.BfParse Proofs.BfParse.
Import ListNotations.
Open Scope string_scope.
Open Scope nat_scope.
Open Scope list_scope.

(* ---- round trip: documented priorities, right nesting, redundant parentheses ---- *)

(* Printing any formula with minimal parentheses for the documented priorities
   (; < = < -> < | < & < ^, right nesting) plus 0..2 redundant pairs around any
   sub-term, then parsing, gives back an equivalent formula. *)
Theorem C17_roundtrip :
  forall lay a, wf_idents a ->
  exists a', parse (print lay a) = Some a' /\ a' = a /\
             forall env, eval_ast env a' = eval_ast env a.
Proof. exact roundtrip. Qed.
Print Assumptions C17_roundtrip.

(* ... in fact exactly the same tree *)
Theorem C17_roundtrip_exact :
  forall lay a, wf_idents a -> parse (print lay a) = Some a.
Proof. exact parse_print. Qed.
Print Assumptions C17_roundtrip_exact.

Example C17_roundtrip_hyp :
  wf_idents (ABin And (ABin And (AVar "a") (AVar "b"))
                      (ABin Or (AVar "c") (ANot (AUniq ["x"; "y_1"])))).
Proof. reflexivity. Qed.

(* Go keywords and decimal numbers are ordinary names, also inside braces *)
Example C17_roundtrip_hyp_kw :
  wf_idents (ABin Impl (AUniq ["if"; "b"; "12"]) (AVar "for")).
Proof. reflexivity. Qed.

(* whitespace and comments: the tokenizer gives back the printed tokens *)
Theorem C17_chars :
  forall lay a, wf_idents a -> tokenize (print_chars lay a) = print lay a.
Proof. exact tokenize_print_chars. Qed.
Print Assumptions C17_chars.

(* for any list of tokens of the documented alphabet, any blanks/comments *)
Theorem C17_tokenize_any :
  forall lay ts, forallb good_tok ts = true -> tokenize (chars_of_toks lay ts) = ts.
Proof. exact tokenize_chars_of_toks. Qed.
Print Assumptions C17_tokenize_any.

Theorem C17_roundtrip_chars :
  forall lay a, wf_idents a -> parse_chars (print_chars lay a) = Some a.
Proof. exact parse_chars_print_chars. Qed.
Print Assumptions C17_roundtrip_chars.

Theorem C17_layout_irrelevant :
  forall lay1 lay2 a, wf_idents a ->
  parse_chars (print_chars lay1 a) = parse_chars (print_chars lay2 a).
Proof. exact layout_irrelevant. Qed.
Print Assumptions C17_layout_irrelevant.

(* priorities on every pair of operators (corollary, by computation) *)
Theorem C17_prec :
  forall o1 o2 x y z,
  parse ([TId x] ++ op_toks o1 ++ [TId y] ++ op_toks o2 ++ [TId z]) =
  Some (if lvl o2 <=? lvl o1
        then ABin o1 (AVar x) (ABin o2 (AVar y) (AVar z))
        else ABin o2 (ABin o1 (AVar x) (AVar y)) (AVar z)).
Proof. exact prec_pairs. Qed.
Print Assumptions C17_prec.

Theorem C17_right_nesting :
  forall o x y z,
  parse ([TId x] ++ op_toks o ++ [TId y] ++ op_toks o ++ [TId z]) =
  Some (ABin o (AVar x) (ABin o (AVar y) (AVar z))).
Proof. exact right_nesting. Qed.
Print Assumptions C17_right_nesting.

(* ---- errors ---- *)

(* the mirror never runs out of fuel: it answers Some or None on every input *)
Theorem C17_total :
  forall toks, parse_clause (parse_fuel toks) toks <> OutOfFuel.
Proof. exact parse_clause_total. Qed.
Print Assumptions C17_total.

(* exact description of what is accepted, and with which tree *)
Theorem C17_grammar : forall toks a, parse toks = Some a <-> DerTop toks a.
Proof. exact parse_iff. Qed.
Print Assumptions C17_grammar.

(* unbalanced parentheses or braces give an error *)
Theorem C17_unbalanced : forall toks a, parse toks = Some a -> balanced toks.
Proof. exact parse_balanced. Qed.
Print Assumptions C17_unbalanced.

Example C17_unbalanced_hyp :
  parse [TLp; TId "a"; TAmp; TLb; TId "b"; TRb; TRp] =
    Some (ABin And (AVar "a") (AUniq ["b"])).
Proof. reflexivity. Qed.

(* shape of accepted texts: operand/operator alternation, balanced
   parentheses, brace groups of names separated by commas *)
Theorem C17_shape : forall toks a, parse toks = Some a -> accept toks = true.
Proof. exact parse_accept. Qed.
Print Assumptions C17_shape.

(* the variables of the result are the names of the text, in order: no
   punctuation sign ever becomes a variable *)
Theorem C17_names :
  forall toks a, parse toks = Some a -> names_from a = tok_names toks.
Proof. exact parse_names. Qed.
Print Assumptions C17_names.

(* trailing tokens: after a complete formula (not already ended by ";") any
   token except ; = | & - gives an error, i.e. identifiers ( ) { } , ^ > *)
Theorem C17_trailing :
  forall toks a t rest,
  parse toks = Some a -> (forall p, toks <> p ++ [TSemi]) -> nocont t = true ->
  parse (toks ++ t :: rest) = None.
Proof. exact trailing. Qed.
Print Assumptions C17_trailing.

(* the special case: one final ";" is accepted and ignored, two are not *)
Theorem C17_trailing_semi :
  forall toks a,
  parse toks = Some a -> (forall p, toks <> p ++ [TSemi]) ->
  parse (toks ++ [TSemi]) = Some a /\ parse (toks ++ [TSemi; TSemi]) = None.
Proof. exact trailing_semi. Qed.
Print Assumptions C17_trailing_semi.

Example C17_trailing_hyp :
  parse [TId "a"; TBar; TId "b"] = Some (ABin Or (AVar "a") (AVar "b")) /\
  (forall p, [TId "a"; TBar; TId "b"] <> p ++ [TSemi]) /\ nocont TRp = true.
Proof.
  split; [reflexivity|]. split; [|reflexivity].
  intros p E. change [TId "a"; TBar; TId "b"] with ([TId "a"; TBar] ++ [TId "b"]) in E.
  apply app_inj_tail in E. destruct E as [_ E]. discriminate.
Qed.

(* missing operand *)
Theorem C17_missing_operand :
  forall toks o, o <> Seq -> parse (toks ++ op_toks o) = None.
Proof. exact missing_right_operand. Qed.
Print Assumptions C17_missing_operand.

Theorem C17_missing_left_operand :
  forall toks o, parse (op_toks o ++ toks) = None.
Proof. exact missing_left_operand. Qed.
Print Assumptions C17_missing_left_operand.

(* an operator followed by anything that cannot start an operand: another
   operator, ")" "}" "," ">" "-", TBad *)
Theorem C17_operator_then_stray :
  forall pre o t rest,
  operand_start t = false -> parse (pre ++ op_toks o ++ t :: rest) = None.
Proof. exact operator_then_stray. Qed.
Print Assumptions C17_operator_then_stray.

(* the same at the beginning of the text and after "(" or "^" *)
Theorem C17_stray_first :
  forall t rest, operand_start t = false -> parse (t :: rest) = None.
Proof. exact stray_first. Qed.
Print Assumptions C17_stray_first.

Theorem C17_open_then_stray :
  forall pre t0 t rest,
  t0 = TLp \/ t0 = TCaret -> operand_start t = false ->
  parse (pre ++ t0 :: t :: rest) = None.
Proof. exact open_then_stray. Qed.
Print Assumptions C17_open_then_stray.

Theorem C17_two_operators :
  forall pre post o1 o2, parse (pre ++ op_toks o1 ++ op_toks o2 ++ post) = None.
Proof. exact two_operators. Qed.
Print Assumptions C17_two_operators.

(* ---- former deviations (fixed in gophersat), remaining particularities ---- *)

Theorem C17_stray_operand_examples :
  parse [TId "a"; TAmp; TComma] = None /\
  parse [TId "a"; TBar; TRb] = None /\
  parse [TId "a"; TAmp; TMinus] = None /\
  parse [TId "a"; TEq; TGt] = None /\
  parse [TMinus; TMinus; TGt; TId "a"] = None /\
  parse [TRb] = None.
Proof. exact stray_operand_examples. Qed.
Print Assumptions C17_stray_operand_examples.

Theorem C17_brace_examples :
  parse [TLb; TRb] = None /\
  parse [TLb; TRb; TRb] = None /\
  parse [TLb; TId "a"; TComma; TRb] = None /\
  parse [TLb; TId "a"; TComma; TRb; TRb] = None /\
  parse [TLb; TLp; TRb] = None /\
  parse [TLb; TComma; TRb] = None /\
  parse [TLb; TId "a"; TId "b"; TRb] = None /\
  parse [TLb; TId "if"; TComma; TId "b"; TRb] = Some (AUniq ["if"; "b"]) /\
  parse [TId "if"; TAmp; TId "1"] = Some (ABin And (AVar "if") (AVar "1")).
Proof. exact brace_examples. Qed.
Print Assumptions C17_brace_examples.

Theorem C17_paren_semi :
  parse [TLp; TId "a"; TSemi; TId "b"; TRp] = Some (ABin Seq (AVar "a") (AVar "b")) /\
  parse [TLp; TId "a"; TSemi; TRp] = None /\
  parse [TId "a"; TSemi] = Some (AVar "a") /\
  parse [TId "a"; TSemi; TSemi] = None.
Proof. exact paren_semi. Qed.
Print Assumptions C17_paren_semi.

(* ---- texts checked against the real bf.Parse (go1.23, /repo at d42b61a "the
        formula parser took stray punctuation signs for variable names"):
        same error/success and same truth table ---- *)

Example go_01 : parse_string "a" = Some (AVar "a"). Proof. reflexivity. Qed.
Example go_02 : parse_string "a ;" = Some (AVar "a"). Proof. reflexivity. Qed.
Example go_03 : parse_string "a ; b" = Some (ABin Seq (AVar "a") (AVar "b")). Proof. reflexivity. Qed.
Example go_04 : parse_string "a ; ;" = None. Proof. reflexivity. Qed.
Example go_05 : parse_string "( a ; )" = None. Proof. reflexivity. Qed.
Example go_06 : parse_string "(a;b);c" = Some (ABin Seq (ABin Seq (AVar "a") (AVar "b")) (AVar "c")).
Proof. reflexivity. Qed.
Example go_07 : parse_string "& a" = None. Proof. reflexivity. Qed.
Example go_08 : parse_string "a b" = None. Proof. reflexivity. Qed.
Example go_09 : parse_string "a )" = None. Proof. reflexivity. Qed.
Example go_10 : parse_string "( a" = None. Proof. reflexivity. Qed.
Example go_11 : parse_string "{ }" = None. Proof. reflexivity. Qed.
Example go_12 : parse_string "{ } }" = None. Proof. reflexivity. Qed.
Example go_13 : parse_string "{a,}" = None. Proof. reflexivity. Qed.
Example go_14 : parse_string "{a b}" = None. Proof. reflexivity. Qed.
Example go_15 : parse_string "{a,b,c}" = Some (AUniq ["a"; "b"; "c"]). Proof. reflexivity. Qed.
Example go_16 : parse_string "{if, b}" = Some (AUniq ["if"; "b"]). Proof. reflexivity. Qed.
Example go_17 : parse_string "a & ," = None. Proof. reflexivity. Qed.
Example go_18 : parse_string "a | }" = None. Proof. reflexivity. Qed.
Example go_19 : parse_string "- -> a" = None. Proof. reflexivity. Qed.
Example go_20 : parse_string "a - > b" = Some (ABin Impl (AVar "a") (AVar "b")). Proof. reflexivity. Qed.
Example go_21 : parse_string "a -> b -> c" = Some (ABin Impl (AVar "a") (ABin Impl (AVar "b") (AVar "c"))).
Proof. reflexivity. Qed.
Example go_22 : parse_string "a & b | c" = Some (ABin Or (ABin And (AVar "a") (AVar "b")) (AVar "c")).
Proof. reflexivity. Qed.
Example go_23 : parse_string "a = b -> c" = Some (ABin Equiv (AVar "a") (ABin Impl (AVar "b") (AVar "c"))).
Proof. reflexivity. Qed.
Example go_24 : parse_string "a -> b = c" = Some (ABin Equiv (ABin Impl (AVar "a") (AVar "b")) (AVar "c")).
Proof. reflexivity. Qed.
Example go_25 : parse_string "(a & b) & c" = Some (ABin And (ABin And (AVar "a") (AVar "b")) (AVar "c")).
Proof. reflexivity. Qed.
Example go_26 : parse_string "^ a & b" = Some (ABin And (ANot (AVar "a")) (AVar "b")). Proof. reflexivity. Qed.
Example go_27 : parse_string "a &" = None. Proof. reflexivity. Qed.
Example go_28 : parse_string "a & & b" = None. Proof. reflexivity. Qed.
Example go_29 : parse_string "a ->" = None. Proof. reflexivity. Qed.
Example go_30 : parse_string "a - b" = None. Proof. reflexivity. Qed.
Example go_31 : parse_string "a /* c */ & /* d */ b" = Some (ABin And (AVar "a") (AVar "b")).
Proof. reflexivity. Qed.
Example go_32 : parse_string "a/**/&b//" = Some (ABin And (AVar "a") (AVar "b")). Proof. reflexivity. Qed.
Example go_33 : parse_string "((a))" = Some (AVar "a"). Proof. reflexivity. Qed.
Example go_34 : parse_string "()" = None. Proof. reflexivity. Qed.
Example go_35 : parse_string "" = None. Proof. reflexivity. Qed.
Example go_36 : parse_string "a ^ b" = None. Proof. reflexivity. Qed.
Example go_37 : parse_string "a ; b ;" = Some (ABin Seq (AVar "a") (AVar "b")). Proof. reflexivity. Qed.
Example go_38 : parse_string "(a ; b ;)" = None. Proof. reflexivity. Qed.
Example go_39 : parse_string "a = = b" = None. Proof. reflexivity. Qed.
Example go_40 : parse_string "a1_ & _b" = Some (ABin And (AVar "a1_") (AVar "_b")). Proof. reflexivity. Qed.
Example go_41 : parse_string "a & -" = None. Proof. reflexivity. Qed.
Example go_42 : parse_string "a = >" = None. Proof. reflexivity. Qed.
Example go_43 : parse_string "{ ( }" = None. Proof. reflexivity. Qed.
Example go_44 : parse_string "{a,}}" = None. Proof. reflexivity. Qed.
Example go_45 : parse_string "1 & a" = Some (ABin And (AVar "1") (AVar "a")). Proof. reflexivity. Qed.
Example go_46 : parse_string "{1, 23}" = Some (AUniq ["1"; "23"]). Proof. reflexivity. Qed.
Example go_47 : parse_string "08 | a" = Some (ABin Or (AVar "08") (AVar "a")). Proof. reflexivity. Qed.
Example go_48 : parse_string "12a" = None. Proof. reflexivity. Qed.
Example go_49 : parse_string "a & #" = None. Proof. reflexivity. Qed.
Example go_50 : parse_string "^ )" = None. Proof. reflexivity. Qed.
Example go_51 : parse_string "x_1 -> 23;" = Some (ABin Impl (AVar "x_1") (AVar "23")). Proof. reflexivity. Qed.
