(* C13: the readers (DIMACS CNF, OPB, WCNF, explain's DIMACS) read every
   well-formed text, under a free layout, as the problem it denotes.
   Model: Model/Text.v (readers), Model/TextPrint.v (layouts).
   The layouts that the formats allow but the Go readers reject are the
   [finding_*] of Proofs/Text.v; the two statements that are false at full
   strength are the [_refuted] theorems below. *)
From Coq Require Import List ZArith String Ascii.
From GS Require Import Spec.Base Spec.PB Spec.Solver Model.Text Model.TextPrint Proofs.Text.
Import ListNotations.
Open Scope Z_scope.

Theorem C13_read_print_Z : forall z, read_Z (print_Z z) = Some z.
Proof. exact read_Z_print_Z. Qed.
Print Assumptions C13_read_print_Z.

Theorem C13_dimacs : forall lay n F, wf_dimacs n F ->
  parse_dimacs (render_dimacs lay n F) = Some (n, F).
Proof. exact Proofs.TextDimacs.C13_dimacs. Qed.
Print Assumptions C13_dimacs.
Example C13_dimacs_hyp : wf_dimacs 3 [[1; -2]; []; [3]].
Proof.
  split; [discriminate|]. intros c Hc l Hl.
  repeat (destruct Hc as [<-|Hc]; [repeat (destruct Hl as [<-|Hl]; [split; [discriminate|discriminate]|]); destruct Hl|]).
  destruct Hc.
Qed.

(* the fuel of the byte machine: enough for every text, and irrelevant beyond *)
Theorem C13_dimacs_never_out_of_fuel : forall s, parse_dimacs_r s <> PFuel.
Proof. exact parse_dimacs_never_out_of_fuel. Qed.
Print Assumptions C13_dimacs_never_out_of_fuel.

Theorem C13_dimacs_fuel : forall lay n F, wf_dimacs n F ->
  forall f, (S (List.length (render_dimacs_b lay n F)) <= f)%nat ->
  cnf_top f (render_dimacs_b lay n F) 0 [] = POk (n, F).
Proof. exact Proofs.TextDimacs.C13_dimacs_fuel. Qed.
Print Assumptions C13_dimacs_fuel.

(* OPB: the constraints and the cost function are read back exactly (hence the
   same models and the same cost for every model); the number of variables is
   the highest variable mentioned, not the declared one. *)
Theorem C13_opb : forall lay n cs cost,
  wf_opb (n, cs, cost) ->
  lines_short (list_ascii_of_string (render_opb lay (n, cs, cost))) ->
  parse_opb (render_opb lay (n, cs, cost)) = Some (opb_nbvars cs cost, cs, cost).
Proof. exact Proofs.TextOpb.C13_opb. Qed.
Print Assumptions C13_opb.
Example C13_opb_hyp :
  wf_opb (2, [UC [(1, 1); (-2, -2)] Ge (-1); UC [(1, 2)] Eq 1], Some [(3, 1)]) /\
  lines_short (list_ascii_of_string
     (render_opb [1%nat; 0%nat; 2%nat; 5%nat]
        (2, [UC [(1, 1); (-2, -2)] Ge (-1); UC [(1, 2)] Eq 1], Some [(3, 1)]))).
Proof.
  split; [|vm_compute; reflexivity].
  repeat constructor; discriminate.
Qed.

Theorem C13_opb_declared_nbvars_refuted :
  exists lay n cs cost,
    wf_opb (n, cs, cost) /\
    lines_short (list_ascii_of_string (render_opb lay (n, cs, cost))) /\
    parse_opb (render_opb lay (n, cs, cost)) <> Some (n, cs, cost).
Proof. exact Proofs.Text.C13_opb_declared_nbvars_refuted. Qed.
Print Assumptions C13_opb_declared_nbvars_refuted.

Theorem C13_opb_long_line_refuted :
  exists lay P, wf_opb P /\ parse_opb (render_opb lay P) = None.
Proof. exact Proofs.Text.C13_opb_long_line_refuted. Qed.
Print Assumptions C13_opb_long_line_refuted.

Theorem C13_wcnf : forall lay n top items, wf_wcnf (n, top, items) ->
  lines_short (list_ascii_of_string (render_wcnf lay (n, top, items))) ->
  parse_wcnf (render_wcnf lay (n, top, items)) = Some (n, top, items).
Proof. exact Proofs.TextCnfLines.C13_wcnf. Qed.
Print Assumptions C13_wcnf.
Example C13_wcnf_hyp :
  wf_wcnf (2, 9, [(9, [1; -2]); (3, [])]) /\
  lines_short (list_ascii_of_string (render_wcnf [2%nat; 1%nat] (2, 9, [(9, [1; -2]); (3, [])]))).
Proof.
  split; [|vm_compute; reflexivity]. split; [discriminate|].
  repeat constructor; intros l Hl; cbn in Hl;
    repeat (destruct Hl as [<-|Hl]; [discriminate|]); destruct Hl.
Qed.

(* explain.ParseCNF: line-based layouts (one clause per line) *)
Theorem C13_explain : forall lay n F, wf_dimacs n F ->
  lines_short (list_ascii_of_string (render_explain lay n F)) ->
  parse_dimacs_explain (render_explain lay n F) = Some (n, Z.of_nat (List.length F), F).
Proof. exact Proofs.TextCnfLines.C13_explain. Qed.
Print Assumptions C13_explain.
Example C13_explain_hyp :
  lines_short (list_ascii_of_string (render_explain [2%nat; 1%nat] 3 [[1; -2]; []; [3]])).
Proof. vm_compute; reflexivity. Qed.
