(* C07 -- MUS extraction (explain/mus.go). *)
From Coq Require Import List ZArith Bool.
From GS Require Import Spec.Base Model.Rup Proofs.Rup Model.Mus Proofs.Mus.
Import ListNotations.
Open Scope Z_scope.

(* is_mus n F S: S is a sub-multiset of F, unsatisfiable, and removing any
   single occurrence makes it satisfiable.  Oracle contracts:
     sat     decides satisfiability,
     subset  is UnsatSubset (C08_subset),
     minrelax returns an optimum of the relaxed problem (C03/C04).           *)

Theorem C07_deletion : forall n sat subset,
  (forall nv f, sat nv f = true <-> Satisfiable nv f) ->
  (forall f, (~ Satisfiable n f -> exists s, subset f = Some s) /\
             (forall s, subset f = Some s -> submultiset s f /\ ~ Satisfiable n s)) ->
  forall F, ~ Satisfiable n F ->
  exists S, mus_deletion n sat subset F = MusOk S /\ is_mus n F S.
Proof. exact mus_deletion_correct. Qed.
Print Assumptions C07_deletion.

Theorem C07_deletion_sat : forall n sat subset,
  (forall f, (~ Satisfiable n f -> exists s, subset f = Some s) /\
             (forall s, subset f = Some s -> submultiset s f /\ ~ Satisfiable n s)) ->
  forall F, Satisfiable n F -> mus_deletion n sat subset F = MusErr.
Proof. exact mus_deletion_sat. Qed.
Print Assumptions C07_deletion_sat.

(* the relax-literal / assumption encoding of the Go code computes the same *)
Theorem C07_deletion_encoding : forall n sat,
  (forall nv f, sat nv f = true <-> Satisfiable nv f) ->
  forall subset F, (forall s, subset F = Some s -> cnf_in n s) ->
  mus_deletion_relax n sat subset F = mus_deletion n sat subset F.
Proof. exact mus_deletion_relax_eq. Qed.
Print Assumptions C07_deletion_encoding.

Theorem C07_insertion : forall n sat subset,
  (forall nv f, sat nv f = true <-> Satisfiable nv f) ->
  (forall f, (~ Satisfiable n f -> exists s, subset f = Some s) /\
             (forall s, subset f = Some s -> submultiset s f /\ ~ Satisfiable n s)) ->
  forall F, ~ Satisfiable n F ->
  exists S, mus_insertion n sat subset F = MusOk S /\ is_mus n F S.
Proof. exact mus_insertion_correct. Qed.
Print Assumptions C07_insertion.

Theorem C07_insertion_sat : forall n sat subset,
  (forall f, (~ Satisfiable n f -> exists s, subset f = Some s) /\
             (forall s, subset f = Some s -> submultiset s f /\ ~ Satisfiable n s)) ->
  forall F, Satisfiable n F -> mus_insertion n sat subset F = MusErr.
Proof. exact mus_insertion_sat. Qed.
Print Assumptions C07_insertion_sat.

(* MUSMaxSat after the repair of D19 (commit 6770e40): the clauses gathered
   by the MaxSat rounds are minimised by MUSDeletion. *)
Theorem C07_maxsat : forall n sat subset minrelax,
  (forall nv f, sat nv f = true <-> Satisfiable nv f) ->
  (forall f, (~ Satisfiable n f -> exists s, subset f = Some s) /\
             (forall s, subset f = Some s -> submultiset s f /\ ~ Satisfiable n s)) ->
  (forall hard soft,
    match minrelax n hard soft with
    | Some m => length m = n /\ sat_cnf m hard = true /\
                forall m', length m' = n -> sat_cnf m' hard = true -> viol m soft <= viol m' soft
    | None => ~ Satisfiable n hard
    end) ->
  forall F, ~ Satisfiable n F ->
  exists S, mus_maxsat n sat subset minrelax F = MusOk S /\ is_mus n F S.
Proof. exact mus_maxsat_correct. Qed.
Print Assumptions C07_maxsat.

Theorem C07_maxsat_sat : forall n sat subset minrelax,
  (forall hard soft,
    match minrelax n hard soft with
    | Some m => length m = n /\ sat_cnf m hard = true /\
                forall m', length m' = n -> sat_cnf m' hard = true -> viol m soft <= viol m' soft
    | None => ~ Satisfiable n hard
    end) ->
  forall F, Satisfiable n F -> mus_maxsat n sat subset minrelax F = MusErr.
Proof. exact mus_maxsat_sat. Qed.
Print Assumptions C07_maxsat_sat.

(* Regression witnesses of the repaired defect: the algorithm as it was
   ([mus_maxsat_old] = the gathering loop alone) is not minimal, with the
   exhaustive oracle ... *)
Theorem C07_maxsat_old_refuted :
  exists n F S, ~ Satisfiable n F /\ mus_maxsat_old_ref n F = MusOk S /\ ~ is_mus n F S.
Proof. exact mus_maxsat_old_ref_refuted. Qed.
Print Assumptions C07_maxsat_old_refuted.

(* ... and with any oracle that returns an optimum *)
Theorem C07_maxsat_old_refuted_any_oracle : forall minrelax,
  (forall hard soft,
    match minrelax 2%nat hard soft with
    | Some m => length m = 2%nat /\ sat_cnf m hard = true /\
                forall m', length m' = 2%nat -> sat_cnf m' hard = true -> viol m soft <= viol m' soft
    | None => ~ Satisfiable 2 hard
    end) ->
  ~ Satisfiable 2 [[1]; [-1]; [2]; [-2]] /\
  exists S, mus_maxsat_old 2 minrelax [[1]; [-1]; [2]; [-2]] = MusOk S /\
            ~ is_mus 2 [[1]; [-1]; [2]; [-2]] S.
Proof. exact mus_maxsat_old_refuted_any_oracle. Qed.
Print Assumptions C07_maxsat_old_refuted_any_oracle.

(* what the old algorithm did guarantee *)
Theorem C07_maxsat_old_partial : forall n minrelax,
  (forall hard soft,
    match minrelax n hard soft with
    | Some m => length m = n /\ sat_cnf m hard = true /\
                forall m', length m' = n -> sat_cnf m' hard = true -> viol m soft <= viol m' soft
    | None => ~ Satisfiable n hard
    end) ->
  forall F, ~ Satisfiable n F ->
  exists S, mus_maxsat_old n minrelax F = MusOk S /\ submultiset S F /\ ~ Satisfiable n S.
Proof. exact mus_maxsat_old_partial. Qed.
Print Assumptions C07_maxsat_old_partial.

(* the contract assumed of [subset] is what C08 proves of UnsatSubset *)
Theorem C07_subset_contract : forall n F ssat cert S,
  wf_cnf F -> wf_cnf cert -> In [] cert ->
  unsat_subset n F false ssat cert = Some S ->
  submultiset S F /\ ~ Satisfiable n S.
Proof. exact unsat_subset_contract. Qed.
Print Assumptions C07_subset_contract.

(* the executable instances and the executable specification *)
Theorem C07_deletion_ref : forall n F, ~ Satisfiable n F ->
  exists S, mus_deletion_ref n F = MusOk S /\ is_mus n F S.
Proof. exact mus_deletion_ref_correct. Qed.
Print Assumptions C07_deletion_ref.

Theorem C07_insertion_ref : forall n F, ~ Satisfiable n F ->
  exists S, mus_insertion_ref n F = MusOk S /\ is_mus n F S.
Proof. exact mus_insertion_ref_correct. Qed.
Print Assumptions C07_insertion_ref.

Theorem C07_maxsat_ref : forall n F, ~ Satisfiable n F ->
  exists S, mus_maxsat_ref n F = MusOk S /\ is_mus n F S.
Proof. exact mus_maxsat_ref_correct. Qed.
Print Assumptions C07_maxsat_ref.

Theorem C07_ref_sat : forall n F, Satisfiable n F ->
  mus_deletion_ref n F = MusErr /\ mus_insertion_ref n F = MusErr /\ mus_maxsat_ref n F = MusErr.
Proof.
  exact (fun n F H => conj (mus_deletion_ref_sat n F H)
                        (conj (mus_insertion_ref_sat n F H) (mus_maxsat_ref_sat n F H))).
Qed.
Print Assumptions C07_ref_sat.

Theorem C07_is_musb : forall n F S, is_musb n F S = true <-> is_mus n F S.
Proof. exact is_musb_spec. Qed.
Print Assumptions C07_is_musb.

(* the hypotheses are satisfiable: the reference oracles meet the contracts *)
Example C07_ex_oracles :
  (forall nv f, sat_ref nv f = true <-> Satisfiable nv f) /\
  (forall n f, (~ Satisfiable n f -> exists s, subset_ref n f = Some s) /\
               (forall s, subset_ref n f = Some s -> submultiset s f /\ ~ Satisfiable n s)) /\
  (forall n hard soft,
    match minrelax_ref n hard soft with
    | Some m => length m = n /\ sat_cnf m hard = true /\
                forall m', length m' = n -> sat_cnf m' hard = true -> viol m soft <= viol m' soft
    | None => ~ Satisfiable n hard
    end).
Proof. exact (conj sat_ref_ok (conj subset_ref_ok minrelax_ref_ok)). Qed.

Example C07_ex_d19 :
  mus_deletion_ref 5 F_d19 = MusOk [[-3]; [3]] /\
  mus_deletion_relax_ref 5 F_d19 = MusOk [[-3]; [3]] /\
  mus_insertion_ref 5 F_d19 = MusOk [[3]; [2; -5]; [-2; -3]; [5]] /\
  mus_maxsat_old_ref 5 F_d19 = MusOk [[3]; [5]; [-3]] /\
  is_musb 5 F_d19 [[3]; [5]; [-3]] = false /\
  mus_maxsat_ref 5 F_d19 = MusOk [[3]; [-3]] /\
  is_musb 5 F_d19 [[3]; [-3]] = true /\
  mus_maxsat_ref 2 F_two_cores = MusOk [[2]; [-2]].
Proof. vm_compute. repeat split. Qed.
