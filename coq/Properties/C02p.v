(* C02 (propagation part): the constraint propagation rules of the CDCL engine,
   solver/watcher.go -- propagate, simplifyPropClauses, simplifyCardConstr,
   simplifyCardAMOConstr, slackSum, propagateAll, simplifyPseudoBool,
   updateWatchPB, watchClause/watchPB/watchCardAMO, unifyLiteral -- as mirrored
   in Model/Propagate.v.  Statements only.

   a : assignment is Go's s.model ([]decLevel); [extends m a]: the total model m
   agrees with a; [slack a ts card] = weights of the non-false literals - card.
   Outcomes: Conflict | Props (literals pushed on the trail, in order) |
   Crash (Go index-out-of-range panic) | NoFuel. *)
From Coq Require Import List ZArith Bool Permutation.
From GS Require Import Spec.Base Spec.PB Model.Propagate Proofs.Propagate.
Import ListNotations.
Open Scope Z_scope.

(* ---- the slack rule ------------------------------------------------- *)

Theorem C02_slack_rule : forall a ts card, nonneg_terms ts = true ->
  (slack a ts card < 0 -> forall m, extends m a -> sat_pbc m (PBC ts card) = false) /\
  (forall t, In t ts -> lit_status a (snd t) = LIndet -> slack a ts card < fst t ->
     forall m, extends m a -> sat_pbc m (PBC ts card) = true -> lit_val m (snd t) = true) /\
  (slack a ts card = 0 -> forall t, In t ts -> lit_status a (snd t) = LIndet -> 0 < fst t ->
     forall m, extends m a -> sat_pbc m (PBC ts card) = true -> lit_val m (snd t) = true).
Proof. exact slack_rule. Qed.
Print Assumptions C02_slack_rule.

(* the rule is exact on distinct variables: a literal whose weight does not
   exceed the slack can be false in a satisfying total extension *)
Theorem C02_slack_rule_complete : forall a ts card n t,
  nonneg_terms ts = true -> NoDup (map vidx (map snd ts)) ->
  in_range (repeat 0 n) (map snd ts) -> (length a <= n)%nat ->
  In t ts -> lit_status a (snd t) = LIndet -> fst t <= slack a ts card ->
  exists m, length m = n /\ extends m a /\ sat_pbc m (PBC ts card) = true /\
            lit_val m (snd t) = false.
Proof. exact slack_rule_complete. Qed.
Print Assumptions C02_slack_rule_complete.

(* propagateAll (slack = 0) pushes EVERY unbound literal.  That is implied for
   the literals of positive weight ... *)
Theorem C02_propagate_all_partial : forall a lvl ts card ps a',
  nonneg_terms ts = true -> slack a ts card = 0 ->
  (forall t, In t ts -> lit_status a (snd t) = LIndet -> 0 < fst t) ->
  prop_unbound a lvl (map snd ts) = (ps, a') ->
  forall l, In l ps -> forall m, extends m a -> sat_pbc m (PBC ts card) = true -> lit_val m l = true.
Proof. exact propagate_all_sound. Qed.
Print Assumptions C02_propagate_all_partial.

(* ... and wrong for a zero-weight literal: 2 x1 + 2 x2 + 0 x3 >= 2, x1 false *)
Theorem C02_propagate_all_zero_refuted :
  exists a lvl ts card m l,
    nonneg_terms ts = true /\ slack a ts card = 0 /\
    In l (fst (prop_unbound a lvl (map snd ts))) /\
    extends m a /\ sat_pbc m (PBC ts card) = true /\ lit_val m l = false.
Proof. exact propagate_all_zero_refuted. Qed.
Print Assumptions C02_propagate_all_zero_refuted.

(* ---- simplifyCardConstr ---------------------------------------------- *)

Theorem C02_card_rule : forall a lvl ls card o a' ls',
  simplify_card a lvl ls card = (o, a', ls') ->
  (o = Conflict -> forall m, extends m a -> sat_pbc m (card_pbc ls card) = false) /\
  (forall ps, o = Props ps ->
     a' = assign_all a lvl ps /\
     forall l, In l ps ->
       In l ls /\ lit_status a l = LIndet /\ slack a (unit_terms ls) card = 0 /\
       forall m, extends m a -> sat_pbc m (card_pbc ls card) = true -> lit_val m l = true) /\
  a_le a a' /\ Permutation ls ls'.
Proof. exact simplify_card_sound. Qed.
Print Assumptions C02_card_rule.

(* nothing pushed (early return, early break or full count): the constraint
   is satisfied already or has more than card non-false literals; in the second
   case swapFalse has made the card+1 watched literals non-false *)
Theorem C02_card_rule_quiet : forall a lvl ls card a' ls',
  card <= Z.of_nat (length ls) ->
  simplify_card a lvl ls card = (Props [], a', ls') ->
  (card <= count_st LSat a ls \/ card < count_st LSat a ls + count_st LIndet a ls) /\
  (card <= count_st LSat a ls \/
   forall l, In l (firstn (Z.to_nat (card + 1)) ls') -> lit_status a l <> LUnsat).
Proof. exact simplify_card_quiet. Qed.
Print Assumptions C02_card_rule_quiet.

Theorem C02_card_rule_complete : forall a lvl ls card a' ls',
  card <= Z.of_nat (length ls) ->
  simplify_card a lvl ls card = (Props [], a', ls') ->
  ~ conflicting a (mk_card ls card) /\ ~ propagating a (mk_card ls card).
Proof. exact simplify_card_complete. Qed.
Print Assumptions C02_card_rule_complete.

Theorem C02_card_rule_complete_sem : forall a lvl ls card a' ls' n l,
  card <= Z.of_nat (length ls) -> NoDup (map vidx ls) ->
  in_range (repeat 0 n) ls -> (length a <= n)%nat ->
  simplify_card a lvl ls card = (Props [], a', ls') ->
  In l ls -> lit_status a l = LIndet ->
  exists m, length m = n /\ extends m a /\ sat_pbc m (card_pbc ls card) = true /\
            lit_val m l = false.
Proof. exact simplify_card_complete_sem. Qed.
Print Assumptions C02_card_rule_complete_sem.

(* "simplifyCardConstr never panics" is false when a variable is repeated
   (watcher.go:435 reads past the end): x3 + ~x2 + ~x2 >= 2, x3 false *)
Theorem C02_card_rule_no_crash_refuted :
  fst (fst (simplify_card ex_dup_a 3 ex_dup_lits 2)) = Crash /\
  exists m, extends m ex_dup_a /\ sat_pbc m (card_pbc ex_dup_lits 2) = true.
Proof. exact simplify_card_dup_crash. Qed.
Print Assumptions C02_card_rule_no_crash_refuted.

Theorem C02_card_rule_no_crash_partial : forall a lvl ls card,
  NoDup (map vidx ls) -> card <= Z.of_nat (length ls) ->
  fst (fst (simplify_card a lvl ls card)) <> Crash.
Proof. exact simplify_card_no_crash. Qed.
Print Assumptions C02_card_rule_no_crash_partial.

(* ---- simplifyCardAMOConstr / watchCardAMO ---------------------------- *)

(* the branch of watchClause that fills wlistCardAMO needs card = Len+1 and
   then panics in watchCardAMO: the list stays empty, the function is dead *)
Theorem C02_amo_dead : forall c, watch_kind c = WAMO ->
  c_card c = Z.of_nat (length (c_lits c)) + 1 /\ watch_clause c = None.
Proof. exact watch_amo_dead. Qed.
Print Assumptions C02_amo_dead.

Theorem C02_amo_unreachable : forall c,
  c_card c <= Z.of_nat (length (c_lits c)) -> watch_kind c <> WAMO.
Proof. exact watch_amo_unreachable. Qed.
Print Assumptions C02_amo_unreachable.

(* the constraints it was written for (card = Len-1, problem.go:235) take the
   general cardinality branch *)
Theorem C02_amo_shape_goes_to_card : forall ls, (3 <= length ls)%nat ->
  watch_kind (mk_card ls (Z.of_nat (length ls) - 1)) = WCard.
Proof. exact amo_shape_goes_to_card. Qed.
Print Assumptions C02_amo_shape_goes_to_card.

(* were it called (from wlistCardAMO[lit], so with a false literal) it would be sound *)
Theorem C02_amo_rule_partial : forall a lvl ls card o a',
  Z.of_nat (length ls) = card + 1 ->
  simplify_card_amo a lvl ls card = (o, a') ->
  (o = Conflict -> forall m, extends m a -> sat_pbc m (card_pbc ls card) = false) /\
  (forall ps, o = Props ps -> (exists l, In l ls /\ lit_status a l = LUnsat) ->
     forall l, In l ps -> forall m, extends m a -> sat_pbc m (card_pbc ls card) = true ->
       lit_val m l = true) /\
  o <> Crash /\ a_le a a'.
Proof. exact simplify_card_amo_sound. Qed.
Print Assumptions C02_amo_rule_partial.

(* without a false literal it pushes everything (foundFalse is not read again) *)
Theorem C02_amo_rule_refuted :
  exists a lvl ls card m l,
    Z.of_nat (length ls) = card + 1 /\
    In l (match fst (simplify_card_amo a lvl ls card) with Props ps => ps | _ => [] end) /\
    extends m a /\ sat_pbc m (card_pbc ls card) = true /\ lit_val m l = false.
Proof. exact simplify_card_amo_unguarded_refuted. Qed.
Print Assumptions C02_amo_rule_refuted.

(* ---- simplifyPropClauses: one watcher -------------------------------- *)

Theorem C02_clause_rule : forall a tl other c,
  In (- tl) (firstn 2 c) -> lit_status a (- tl) = LUnsat ->
  let st := clause_step a tl other c in
  (cs_out st = Conflict -> forall m, extends m a -> sat_clause m c = false) /\
  (forall ps l, cs_out st = Props ps -> In l ps ->
     In l c /\ lit_status a l = LIndet /\
     forall m, extends m a -> sat_clause m c = true -> lit_val m l = true) /\
  Permutation c (cs_lits st).
Proof. exact clause_step_rule. Qed.
Print Assumptions C02_clause_rule.

(* two-watched-literal invariant: at most one of the two watched literals is
   false.  Then a silent step means the clause is neither unit nor falsified,
   and afterwards the first literal is true or both watched ones are non-false *)
Theorem C02_clause_rule_quiet : forall a tl other c,
  In (- tl) (firstn 2 c) -> lit_status a (- tl) = LUnsat ->
  In other c -> count_st LUnsat a (firstn 2 c) <= 1 ->
  let st := clause_step a tl other c in
  cs_out st = Props [] ->
  (~ conflicting a (mk_clause c) /\ ~ propagating a (mk_clause c)) /\
  (is_sat a other = false ->
   lit_status a (nth 0 (cs_lits st) 0) = LSat \/ none_false a (firstn 2 (cs_lits st))).
Proof. exact clause_step_quiet. Qed.
Print Assumptions C02_clause_rule_quiet.

(* the hypothesis is needed: both watched literals false, a third one unbound *)
Theorem C02_clause_rule_quiet_needs_inv :
  cs_out (clause_step [-1; -1; 0] (-2) 1 [1; 2; 3]) = Props [] /\
  propagatingb [-1; -1; 0] (mk_clause [1; 2; 3]) = true.
Proof. exact clause_step_quiet_needs_inv. Qed.
Print Assumptions C02_clause_rule_quiet_needs_inv.

(* ---- simplifyPseudoBool ---------------------------------------------- *)

(* pb_wf a ts: weights >= 0, every literal of weight 0 is bound *)
Theorem C02_pb_loop : forall fuel a lvl ts card o a' u, 0 < lvl -> pb_wf a ts ->
  simplify_pb fuel a lvl ts card = (o, a', u) ->
  a_le a a' /\ (forall ps, o = Props ps -> a' = assign_all a lvl ps) /\
  forall m, extends m a -> sat_pbc m (PBC ts card) = true ->
    o <> Conflict /\ extends m a' /\
    (forall ps, o = Props ps -> forall l, In l ps -> lit_val m l = true).
Proof. exact simplify_pb_sound. Qed.
Print Assumptions C02_pb_loop.

Theorem C02_pb_loop_conflict : forall fuel a lvl ts card a' u, 0 < lvl -> pb_wf a ts ->
  simplify_pb fuel a lvl ts card = (Conflict, a', u) ->
  forall m, extends m a -> sat_pbc m (PBC ts card) = false.
Proof. exact simplify_pb_conflict. Qed.
Print Assumptions C02_pb_loop_conflict.

(* fuel = number of literals + 1 is enough *)
Theorem C02_pb_loop_fuel : forall a lvl ts card, 0 < lvl -> in_range a (map snd ts) ->
  fst (fst (simplifyPseudoBool a lvl ts card)) <> NoFuel.
Proof. exact simplify_pb_fuel. Qed.
Print Assumptions C02_pb_loop_fuel.

(* "the loop ends on a fixpoint of the slack rule" holds when no literal
   occurs with its negation ... *)
Theorem C02_pb_loop_fixpoint_partial : forall fuel a lvl ts card ps a' u, 0 < lvl ->
  nonneg_terms ts = true -> no_compl (map snd ts) -> in_range a (map snd ts) ->
  simplify_pb fuel a lvl ts card = (Props ps, a', u) ->
  pb_fixpoint a' ts card /\
  (u = true -> 0 < slack a' ts card /\
     forall t, In t ts -> lit_status a' (snd t) = LIndet -> fst t <= slack a' ts card).
Proof. exact simplify_pb_fixpoint. Qed.
Print Assumptions C02_pb_loop_fixpoint_partial.

(* ... and fails otherwise: 1 x2 + 2 x3 + 1 ~x2 >= 2, x3 false: x2 is pushed,
   the constraint is then violated, true is returned *)
Theorem C02_pb_loop_fixpoint_refuted :
  exists a lvl ts card ps a' u,
    nonneg_terms ts = true /\ in_range a (map snd ts) /\ 0 < lvl /\
    simplifyPseudoBool a lvl ts card = (Props ps, a', u) /\
    slack a' ts card < 0.
Proof. exact simplify_pb_fixpoint_compl_refuted. Qed.
Print Assumptions C02_pb_loop_fixpoint_refuted.

(* ---- antecedents ----------------------------------------------------- *)

Theorem C02_antecedent_slack : forall a ts card t, nonneg_terms ts = true -> In t ts ->
  lit_status a (snd t) = LIndet -> slack a ts card < fst t ->
  forall m, sat_pbc m (PBC ts card) = true ->
    sat_clause m (snd t :: false_lits a (map snd ts)) = true.
Proof. exact slack_reason. Qed.
Print Assumptions C02_antecedent_slack.

Theorem C02_conflict_clause_slack : forall a ts card, nonneg_terms ts = true ->
  slack a ts card < 0 ->
  forall m, sat_pbc m (PBC ts card) = true -> sat_clause m (false_lits a (map snd ts)) = true.
Proof. exact slack_conflict_clause. Qed.
Print Assumptions C02_conflict_clause_slack.

(* learn.go reads the false literals at conflict time: more of them is weaker *)
Theorem C02_antecedent_mono : forall a a' ls l m, a_le a a' ->
  sat_clause m (l :: false_lits a ls) = true -> sat_clause m (l :: false_lits a' ls) = true.
Proof. exact reason_mono. Qed.
Print Assumptions C02_antecedent_mono.

(* all three kinds at once, through [examine]: tl is the true literal taken
   from the trail, w a constraint that watches -tl *)
Theorem C02_antecedent : forall a lvl tl w w' o a', 0 < lvl -> wc_ok a w ->
  lit_status a (- tl) = LUnsat -> watches w tl = true ->
  examine a lvl tl w = (w', o, a') ->
  forall m, sat_pbc m (c_pbc (w_c w)) = true ->
    (o = Conflict -> sat_clause m (conflict_clause a' (w_c w)) = true) /\
    (forall ps l, o = Props ps -> In l ps -> sat_clause m (reason_clause a' l (w_c w)) = true).
Proof. exact examine_antecedent. Qed.
Print Assumptions C02_antecedent.

Theorem C02_antecedent_card : forall a lvl ls card ps a' ls',
  simplify_card a lvl ls card = (Props ps, a', ls') ->
  forall l, In l ps -> forall m, sat_pbc m (card_pbc ls card) = true ->
    sat_clause m (l :: false_lits a ls) = true.
Proof. exact simplify_card_reason. Qed.
Print Assumptions C02_antecedent_card.

Theorem C02_antecedent_clause : forall a tl other c,
  In (- tl) (firstn 2 c) -> lit_status a (- tl) = LUnsat ->
  (forall ps l, cs_out (clause_step a tl other c) = Props ps -> In l ps ->
     forall m, sat_clause m c = true -> sat_clause m (l :: false_lits a c) = true) /\
  (cs_out (clause_step a tl other c) = Conflict ->
     forall m, sat_clause m c = true -> sat_clause m (false_lits a c) = true).
Proof. exact clause_step_reason. Qed.
Print Assumptions C02_antecedent_clause.

Theorem C02_antecedent_pb : forall fuel a lvl ts card o a' u, 0 < lvl -> pb_wf a ts ->
  simplify_pb fuel a lvl ts card = (o, a', u) ->
  forall m, sat_pbc m (PBC ts card) = true ->
    (o = Conflict -> sat_clause m (false_lits a' (map snd ts)) = true) /\
    (forall ps, o = Props ps -> forall l, In l ps ->
       sat_clause m (l :: false_lits a' (map snd ts)) = true).
Proof. exact simplify_pb_reason. Qed.
Print Assumptions C02_antecedent_pb.

(* with a zero weight the reason of a literal pushed by propagateAll is not implied *)
Theorem C02_antecedent_zero_refuted :
  exists a lvl ts card ps a' u l m,
    nonneg_terms ts = true /\ simplifyPseudoBool a lvl ts card = (Props ps, a', u) /\ In l ps /\
    sat_pbc m (PBC ts card) = true /\ sat_clause m (l :: false_lits a' (map snd ts)) = false.
Proof. exact simplify_pb_reason_zero_refuted. Qed.
Print Assumptions C02_antecedent_zero_refuted.

(* ---- watches --------------------------------------------------------- *)

(* watch_wf: clause of >= 2 literals; card+1 <= Len; PB: weights >= 0, the
   first weight is the largest, weight(0)+card <= sum of the weights *)
Theorem C02_watch_invariant : forall a c, watch_wf c -> none_false a (watched_lits c) ->
  ~ conflicting a c /\ ~ propagating a c.
Proof. exact watch_invariant. Qed.
Print Assumptions C02_watch_invariant.

Theorem C02_watch_invariant_pb_goal_refuted :
  exists a c, c_kind c = KPB /\ nonneg_terms (c_terms c) = true /\ head_maxb (c_terms c) = true /\
    none_falseb a (watched_lits c) = true /\ propagatingb a c = true.
Proof. exact watch_invariant_pb_goal_refuted. Qed.
Print Assumptions C02_watch_invariant_pb_goal_refuted.

Theorem C02_watch_invariant_pb_unsorted_refuted :
  exists a c, c_kind c = KPB /\ nonneg_terms (c_terms c) = true /\
    pb_goal (c_terms c) (c_card c) <=? wall (c_terms c) = true /\
    none_falseb a (watched_lits c) = true /\ propagatingb a c = true /\ conflictingb a c = false.
Proof. exact watch_invariant_pb_unsorted_refuted. Qed.
Print Assumptions C02_watch_invariant_pb_unsorted_refuted.

(* what updateWatchPB really establishes: the watched literals are non-false
   and their weights sum to more than the degree *)
Theorem C02_watch_invariant_pb_partial : forall a ts card, nonneg_terms ts = true ->
  0 < slack a ts card -> pb_watch_inv a (update_watch_pb a ts card) ts card.
Proof. exact update_watch_pb_inv. Qed.
Print Assumptions C02_watch_invariant_pb_partial.

(* simplifyPseudoBool calls it only in that situation *)
Theorem C02_watch_pb_step : forall fuel a lvl ts card o a', nonneg_terms ts = true ->
  simplify_pb fuel a lvl ts card = (o, a', true) ->
  pb_watch_inv a' (update_watch_pb a' ts card) ts card.
Proof. exact simplify_pb_watch_step. Qed.
Print Assumptions C02_watch_pb_step.

(* enough for conflicts: no violation before a watched literal becomes false *)
Theorem C02_watch_pb_conflict_complete : forall fl ts card a', nonneg_terms ts = true ->
  card < wall (select fl ts) -> none_false a' (select fl (map snd ts)) ->
  0 < slack a' ts card.
Proof. exact pb_watch_conflict_complete. Qed.
Print Assumptions C02_watch_pb_conflict_complete.

(* not enough for units ("sum above degree + max weight" is NOT maintained):
   2 x1 + 2 x2 + x3 + x4 >= 2, x1 false -> watches x2, x3; x4 false -> x2 implied *)
Theorem C02_watch_invariant_pb_refuted :
  exists a a' ts card,
    nonneg_terms ts = true /\ head_max ts /\
    simplifyPseudoBool a 2 ts card = (Props [], a, true) /\
    a_le a a' /\
    none_falseb a' (select (update_watch_pb a ts card) (map snd ts)) = true /\
    propagatingb a' (mk_pb ts card) = true.
Proof. exact update_watch_pb_unit_refuted. Qed.
Print Assumptions C02_watch_invariant_pb_refuted.

(* swapFalse: a permutation whose first card+1 literals are non-false *)
Theorem C02_swap_false : forall a card ls ls', swap_false a card ls = Some ls' ->
  Permutation ls ls' /\
  (forall l, In l (firstn (Z.to_nat (card + 1)) ls') -> non_false a l = true).
Proof. exact swap_false_spec. Qed.
Print Assumptions C02_swap_false.

(* ---- propagate / unifyLiteral ---------------------------------------- *)

(* all_post a ws ws' o a': a <= a', same length, ws' still well-formed, every
   model of ws is a model of ws', every pushed literal is non-zero and true in
   a', and for every total m extending a that satisfies ws: o is not Conflict
   and, when o = Props _, m extends a' *)
Theorem C02_propagate_sound : forall fuel a lvl todo ws ws' o a', 0 < lvl -> ws_ok a ws ->
  (forall l, In l todo -> lit_status a (- l) = LUnsat) ->
  propagate fuel a lvl todo ws = (ws', o, a') -> all_post a ws ws' o a'.
Proof. exact propagate_sound. Qed.
Print Assumptions C02_propagate_sound.

Theorem C02_propagate_conflict : forall fuel a lvl todo ws ws' a', 0 < lvl -> ws_ok a ws ->
  (forall l, In l todo -> lit_status a (- l) = LUnsat) ->
  propagate fuel a lvl todo ws = (ws', Conflict, a') ->
  forall m, extends m a -> ~ ws_sat m ws.
Proof. exact propagate_conflict. Qed.
Print Assumptions C02_propagate_conflict.

Theorem C02_unify_literal_sound : forall fuel a lvl tl ws ws' o a', 0 < lvl -> ws_ok a ws ->
  tl <> 0 -> (vidx tl < length a)%nat -> lit_status a tl = LIndet ->
  unify_literal fuel a lvl tl ws = (ws', o, a') ->
  forall m, extends m a -> lit_val m tl = true -> ws_sat m ws ->
    o <> Conflict /\ (forall ps, o = Props ps -> extends m a' /\ ws_sat m ws').
Proof. exact unify_literal_sound. Qed.
Print Assumptions C02_unify_literal_sound.

(* ---- the hypotheses are satisfiable ---------------------------------- *)

Example C02_hyp_slack : nonneg_terms ex_upd_ts = true /\ slack ex_upd_a ex_upd_ts 2 = 2 /\
  slack ex_upd_a ex_upd_ts 5 < 0.
Proof. exact ex_slack_hyp. Qed.

Example C02_hyp_card :
  simplify_card [0; -1; 0; -1] 2 [1; 2; 3; 4] 2 = (Props [1; 3], [2; -1; 2; -1], [1; 2; 3; 4]) /\
  simplify_card [0; -1; 0; 0] 2 [1; 2; 3; 4] 2 = (Props [], [0; -1; 0; 0], [1; 4; 3; 2]) /\
  simplify_card [0; -1; -1; -1] 2 [1; 2; 3; 4] 2 = (Conflict, [0; -1; -1; -1], [1; 2; 3; 4]) /\
  NoDup (map vidx [1; 2; 3; 4]) /\ in_range (repeat 0 4%nat) [1; 2; 3; 4].
Proof. exact ex_card_hyp. Qed.

Example C02_hyp_amo :
  Z.of_nat (length ex_amo_lits) = 2 + 1 /\
  simplify_card_amo [0; -1; 0] 2 ex_amo_lits 2 = (Props [1; 3], [2; -1; 2]) /\
  (exists l, In l ex_amo_lits /\ lit_status [0; -1; 0] l = LUnsat).
Proof. exact ex_amo_hyp. Qed.

Example C02_hyp_clause :
  In (- (-2)) (firstn 2 [2; 1; 3; 4]) /\ lit_status [0; -1; -1; -1] (- (-2)) = LUnsat /\
  cs_out (clause_step [0; -1; -1; -1] (-2) 1 [2; 1; 3; 4]) = Props [1] /\
  In 1 [2; 1; 3; 4] /\ count_st LUnsat [0; -1; 0; 0] (firstn 2 [2; 1; 3; 4]) <= 1 /\
  cs_out (clause_step [0; -1; 0; 0] (-2) 4 [2; 1; 3; 4]) = Props [].
Proof. exact ex_clause_hyp. Qed.

Example C02_hyp_pb :
  pb_wf ex_upd_a ex_upd_ts /\ no_compl (map snd ex_upd_ts) /\ in_range ex_upd_a (map snd ex_upd_ts) /\
  simplifyPseudoBool ex_upd_a 2 ex_upd_ts 2 = (Props [], ex_upd_a, true) /\
  simplifyPseudoBool ex_upd_a' 2 ex_upd_ts 2 = (Props [2], [-1; 2; 0; -2], false) /\
  0 < slack ex_upd_a ex_upd_ts 2.
Proof. exact ex_pb_hyp. Qed.

Example C02_hyp_watch : forall w, In w ex_ws -> watch_wf (w_c w).
Proof. exact ex_watch_wf. Qed.

Example C02_hyp_propagate : ws_ok (assign ex_a0 2 (-1)) ex_ws.
Proof. exact ex_ws_ok. Qed.
Example C02_hyp_propagate_todo :
  forall l, In l [-1] -> lit_status (assign ex_a0 2 (-1)) (- l) = LUnsat.
Proof. exact ex_todo_ok. Qed.
Example C02_hyp_propagate_run :
  snd (fst (propagate 10 (assign ex_a0 2 (-1)) 2 [-1] ex_ws)) = Conflict.
Proof. exact ex_propagate_conflict. Qed.
Example C02_hyp_propagate_run2 :
  snd (fst (propagate 10 (assign ex_a0 2 1) 2 [1] ex_ws)) = Props [] /\
  ws_ok (assign ex_a0 2 1) ex_ws.
Proof. exact ex_propagate_props. Qed.
