(* C19: the executable's standard output follows the competition conventions and
   is truthful.  Statements only; the model is Model/Cli.v (mirror of
   /repo/main.go), the proofs are in Proofs/Cli.v.
   stdout is a list of lines without their newline; the "file" is (n, P): n
   variables and the normalised constraints P, plus a cost c for optimisation. *)
From Coq Require Import List ZArith Bool NArith String Ascii.
From GS Require Import Spec.Base Spec.PB Spec.Solver Model.Cli Proofs.Cli.
Import ListNotations.
Open Scope string_scope.
Open Scope Z_scope.

(* ---- the decimal printer (Go's %d) is inverted by the strict reader ---- *)
Theorem C19_decimal : forall z, read_Z (print_Z z) = Some z.
Proof. exact read_Z_print_Z. Qed.
Print Assumptions C19_decimal.

(* ---- "v" lines ---- *)
(* decision: "v 1 -2 3 0" (main.go:225-233) *)
Theorem C19_v_line : forall m, read_v (print_v m) = Some m.
Proof. exact read_v_print_v. Qed.
Print Assumptions C19_v_line.

(* optimisation: "v x1 -x2 " -- no terminating 0, trailing space (main.go:252-262) *)
Theorem C19_v_line_opb : forall m, read_vx (print_vx m) = Some m.
Proof. exact read_vx_print_vx. Qed.
Print Assumptions C19_v_line_opb.

(* ... which is never a DIMACS "v" line *)
Theorem C19_v_line_opb_not_dimacs : forall m, read_v (print_vx m) = None.
Proof. exact read_v_print_vx. Qed.
Print Assumptions C19_v_line_opb_not_dimacs.

(* ---- comment lines ---- *)
(* "c solving <path>" (main.go:51) is a comment for EVERY path string *)
Theorem C19_header_is_comment : forall path, is_comment (header path) = true.
Proof. exact is_comment_header. Qed.
Print Assumptions C19_header_is_comment.

Theorem C19_header_ignored : forall path ls,
  read_answer (with_header path ls) = read_answer ls.
Proof. exact read_answer_header. Qed.
Print Assumptions C19_header_ignored.

(* comment lines ("c" or "c ...": the header, all -verbose output) are ignored
   wherever they occur *)
Theorem C19_comments_ignored : forall ls,
  read_answer ls = read_answer (filter (fun l => negb (is_comment l)) ls).
Proof. exact read_answer_ignores_comments. Qed.
Print Assumptions C19_comments_ignored.

(* stdout as a byte stream splits back into its lines *)
Theorem C19_lines : forall ls, Forall (fun l => no_char nl l = true) ls ->
  lines_of (unlines ls) = ls.
Proof. exact lines_of_unlines. Qed.
Print Assumptions C19_lines.

(* ---- what is read back from the rendered output, for EVERY stream ---- *)
Theorem C19_read_decision : forall stream,
  read_answer (render_decision stream) = Some (answer_of_decision stream).
Proof. exact read_render_decision. Qed.
Print Assumptions C19_read_decision.

Theorem C19_read_optim : forall stream,
  read_answer (render_optim stream) = Some (answer_of_optim stream).
Proof. exact read_render_optim. Qed.
Print Assumptions C19_read_optim.

Theorem C19_read_count : forall nb,
  read_answer (render_count nb) =
  Some {| a_status := None; a_model := None; a_costs := []; a_count := Some (Z.of_N nb) |}.
Proof. exact read_render_count. Qed.
Print Assumptions C19_read_count.

(* ---- truthfulness ---- *)
(* decision (.cnf): hypotheses = library-level spec of the last result of the
   stream (the zero value, status Indet, when the stream is empty) *)
Theorem C19_truthful_decision : forall n P path stream,
  ((r_status (last_result stream) = Sat ->
      List.length (r_model (last_result stream)) = n /\
      sat_problem (r_model (last_result stream)) P = true) /\
   (r_status (last_result stream) = Unsat -> ~ PSatisfiable n P)) ->
  exists ans,
    read_answer (with_header path (render_decision stream)) = Some ans /\
    truthful_decision n P ans.
Proof. exact truthful_decision_thm. Qed.
Print Assumptions C19_truthful_decision.

(* optimisation (.opb, .wcnf): hypotheses = shape of the stream sent by Optimal
   (solver.go:945-1032) *)
Theorem C19_truthful_optim : forall n P c path stream,
  ((exists r, stream = [r] /\ r_status r = Unsat /\ ~ PSatisfiable n P) \/
   (stream <> [] /\
    Forall (fun r => r_status r = Sat /\ List.length (r_model r) = n /\
                     sat_problem (r_model r) P = true /\
                     r_weight r = cost_of (r_model r) c) stream /\
    strictly_decreasing (map r_weight stream) /\
    is_optimum n P c (r_model (last_result stream)))) ->
  exists ans,
    read_answer (with_header path (render_optim stream)) = Some ans /\
    truthful_optim n P c ans /\
    a_costs ans = map r_weight (filter is_sat_result stream) /\
    (Forall (fun r => r_status r = Sat) stream -> a_costs ans = map r_weight stream).
Proof. exact truthful_optim_thm. Qed.
Print Assumptions C19_truthful_optim.

(* -count: the count alone on a line *)
Theorem C19_truthful_count : forall n P path nb,
  nb = count_models n (fun m => sat_problem m P) ->
  exists ans,
    read_answer (with_header path (render_count nb)) = Some ans /\
    truthful_count n P ans.
Proof. exact truthful_count_thm. Qed.
Print Assumptions C19_truthful_count.

(* the three modes together; [decision_stream_ok] and [optim_stream_ok] are the
   hypotheses spelled out in the two theorems above *)
Theorem C19_truthful :
  (forall n P path stream, decision_stream_ok n P stream ->
     exists ans, read_answer (with_header path (render_decision stream)) = Some ans /\
                 truthful_decision n P ans) /\
  (forall n P c path stream, optim_stream_ok n P c stream ->
     exists ans, read_answer (with_header path (render_optim stream)) = Some ans /\
                 truthful_optim n P c ans /\
                 a_costs ans = map r_weight (filter is_sat_result stream)) /\
  (forall n P path nb, nb = count_models n (fun m => sat_problem m P) ->
     exists ans, read_answer (with_header path (render_count nb)) = Some ans /\
                 truthful_count n P ans).
Proof. exact truthful_thm. Qed.
Print Assumptions C19_truthful.

(* ---- the decision tree of main() ---- *)
Theorem C19_dispatch : forall path fl,
  (f_help fl = true -> dispatch path fl = AHelp) /\
  (f_help fl = false -> f_mus fl = true -> dispatch path fl = AMus) /\
  (f_help fl = false -> f_mus fl = false -> has_suffix path ".bf" = true ->
     dispatch path fl = ABf) /\
  (f_help fl = false -> f_mus fl = false -> has_suffix path ".bf" = false ->
     has_suffix path ".wcnf" = true -> dispatch path fl = AWcnf) /\
  (f_help fl = false -> f_mus fl = false -> has_suffix path ".bf" = false ->
     has_suffix path ".wcnf" = false -> has_suffix path ".cnf" = true ->
     f_count fl = true -> dispatch path fl = ACount FCnf) /\
  (f_help fl = false -> f_mus fl = false -> has_suffix path ".bf" = false ->
     has_suffix path ".wcnf" = false -> has_suffix path ".cnf" = true ->
     f_count fl = false -> dispatch path fl = ASolveCnf (f_certified fl) (f_cp fl)) /\
  (f_help fl = false -> f_mus fl = false -> has_suffix path ".bf" = false ->
     has_suffix path ".wcnf" = false -> has_suffix path ".cnf" = false ->
     has_suffix path ".opb" = true ->
     f_count fl = true -> dispatch path fl = ACount FOpb) /\
  (f_help fl = false -> f_mus fl = false -> has_suffix path ".bf" = false ->
     has_suffix path ".wcnf" = false -> has_suffix path ".cnf" = false ->
     has_suffix path ".opb" = true ->
     f_count fl = false -> dispatch path fl = ASolveOpb (f_certified fl) (f_cp fl)) /\
  (f_help fl = false -> f_mus fl = false -> has_suffix path ".bf" = false ->
     has_suffix path ".wcnf" = false -> has_suffix path ".cnf" = false ->
     has_suffix path ".opb" = false -> dispatch path fl = AErrFormat) /\
  dispatch path fl <> APanicBf.
Proof. exact dispatch_spec. Qed.
Print Assumptions C19_dispatch.

Theorem C19_has_suffix : forall s suf,
  has_suffix s suf = true <-> exists pre, s = (pre ++ suf)%string.
Proof. exact has_suffix_iff. Qed.
Print Assumptions C19_has_suffix.

(* the four suffixes are pairwise exclusive: the order of the tests is not observable *)
Theorem C19_suffixes_exclusive : forall p,
  (has_suffix p ".bf" = true ->
     has_suffix p ".wcnf" = false /\ has_suffix p ".cnf" = false /\
     has_suffix p ".opb" = false) /\
  (has_suffix p ".wcnf" = true ->
     has_suffix p ".cnf" = false /\ has_suffix p ".opb" = false) /\
  (has_suffix p ".cnf" = true -> has_suffix p ".opb" = false).
Proof. exact suffixes_exclusive. Qed.
Print Assumptions C19_suffixes_exclusive.

Theorem C19_dispatch_args : forall args fl,
  (f_help fl = true -> dispatch_args args fl = ARun AHelp) /\
  (f_help fl = false -> List.length args <> 1%nat -> dispatch_args args fl = AUsageError) /\
  (forall p, f_help fl = false -> args = [p] -> dispatch_args args fl = ARun (dispatch p fl)).
Proof. exact dispatch_args_spec. Qed.
Print Assumptions C19_dispatch_args.

(* flags in the order verbose, certified, mus, count, cp, help *)
Example C19_dispatch_examples :
  dispatch "a.cnf" (MkFlags false false false false false false) = ASolveCnf false false /\
  dispatch "a.cnf.bf" (MkFlags false false false false false false) = ABf /\
  dispatch "x.opb" (MkFlags false false false true false false) = ACount FOpb /\
  dispatch "x.txt" (MkFlags false false false true false false) = AErrFormat /\
  dispatch "x.wcnf" (MkFlags false false false true false false) = AWcnf /\
  dispatch "x.bf" (MkFlags false false false true false false) = ABf /\
  dispatch "x.cnf" (MkFlags false true false false true false) = ASolveCnf true true /\
  dispatch "x.cnf" (MkFlags false false true true false false) = AMus /\
  dispatch "x.cnf" (MkFlags false false true true false true) = AHelp.
Proof. exact dispatch_examples. Qed.

(* ---- refutations: where the conventions are NOT met ---- *)
(* solver.OutputModel (solver.go:186-206, unused by main.go) prints a "v" line
   without the terminating 0 *)
Theorem C19_output_model_not_dimacs_refuted : exists m, read_v (output_model_v m) = None.
Proof. exact output_model_not_dimacs_refuted. Qed.
Print Assumptions C19_output_model_not_dimacs_refuted.

(* a path containing a newline splits the header into two physical lines *)
Theorem C19_header_newline_refuted : exists path stream,
  read_stdout (unlines (with_header path (render_decision stream))) = None.
Proof. exact header_newline_refuted. Qed.
Print Assumptions C19_header_newline_refuted.

(* -certified writes the RUP certificate on stdout as well *)
Theorem C19_certified_stdout_refuted :
  (exists ans,
     read_answer (with_header "f.cnf"
        ("0" :: render_decision [MkResult Unsat [] 0])) = Some ans /\
     forall n P, ~ truthful_decision n P ans) /\
  read_answer (with_header "f.cnf"
     ("1 0" :: "0" :: render_decision [MkResult Unsat [] 0])) = None.
Proof. exact certified_stdout_refuted. Qed.
Print Assumptions C19_certified_stdout_refuted.

(* ... the certificate lines can be separated from the answer lines *)
Example C19_split_cert :
  split_cert (with_header "f.cnf"
     ("1 0" :: "-2 3 0" :: "0" :: render_decision [MkResult Unsat [] 0])) =
  (["c solving f.cnf"; "s UNSATISFIABLE"], ["1 0"; "-2 3 0"; "0"]) /\
  read_answer (fst (split_cert (with_header "f.cnf"
     ("1 0" :: "-2 3 0" :: "0" :: render_decision [MkResult Unsat [] 0])))) =
  Some (answer_of_decision [MkResult Unsat [] 0]).
Proof. exact split_cert_example. Qed.

(* ---- the hypotheses are satisfiable ---- *)
(* x1 + x2 >= 1 over two variables; 0 >= 1 over one variable *)
Example C19_hyp_decision :
  decision_stream_ok 2 [PBC [(1, 1); (1, 2)] 1] [MkResult Sat [true; false] 0] /\
  decision_stream_ok 1 [PBC [] 1] [MkResult Unsat [] 0] /\
  decision_stream_ok 1 [PBC [] 1] [].
Proof. exact ex_decision_ok. Qed.
Print Assumptions C19_hyp_decision.

(* minimise x1 + 2 x2 under x1 + x2 >= 1: costs 2 then 1 *)
Example C19_hyp_optim :
  optim_stream_ok 2 [PBC [(1, 1); (1, 2)] 1] [(1, 1); (2, 2)]
    [MkResult Sat [false; true] 2; MkResult Sat [true; false] 1] /\
  optim_stream_ok 1 [PBC [] 1] [] [MkResult Unsat [] 0].
Proof. exact ex_optim_ok. Qed.
Print Assumptions C19_hyp_optim.

Example C19_hyp_count :
  3%N = count_models 2 (fun m => sat_problem m [PBC [(1, 1); (1, 2)] 1]).
Proof. exact ex_count_ok. Qed.

Example C19_ex_outputs :
  with_header "f.cnf" (render_decision [MkResult Sat [true; false] 0]) =
    ["c solving f.cnf"; "s SATISFIABLE"; "v 1 -2 0"] /\
  with_header "f.cnf" (render_decision [MkResult Unsat [] 0]) =
    ["c solving f.cnf"; "s UNSATISFIABLE"] /\
  with_header "f.cnf" (render_decision []) = ["c solving f.cnf"; "s UNKNOWN"] /\
  with_header "f.opb"
    (render_optim [MkResult Sat [false; true] 2; MkResult Sat [true; false] 1]) =
    ["c solving f.opb"; "o 2"; "o 1"; "s OPTIMUM FOUND"; "v x1 -x2 "] /\
  with_header "f.opb" (render_optim [MkResult Sat [true] 0]) =
    ["c solving f.opb"; "o 0"; "s OPTIMUM FOUND"; "v x1 "] /\
  with_header "f.opb" (render_optim [MkResult Unsat [] 0]) =
    ["c solving f.opb"; "s UNSATISFIABLE"] /\
  with_header "f.cnf" (render_count 3) = ["c solving f.cnf"; "3"] /\
  read_answer ["c solving f.opb"; "o 2"; "o 1"; "s OPTIMUM FOUND"; "v x1 -x2 "] =
    Some {| a_status := Some SOptimum; a_model := Some [true; false];
            a_costs := [2; 1]; a_count := None |}.
Proof. exact ex_outputs. Qed.

Example C19_ex_bf :
  read_bf_answer (with_header "f.bf"
     (render_bf (Some [("b", true); ("a", false); ("B", true)]))) =
  Some (Some [("B", true); ("a", false); ("b", true)]) /\
  read_bf_answer (with_header "f.bf" (render_bf None)) = Some None.
Proof. exact read_bf_example. Qed.
