(* C06 -- RUP refutations.  The solver is not modelled here: every emitted
   certificate is replayed by the extracted [rup_check], whose acceptance
   means what the property says. *)
From Coq Require Import List ZArith Bool.
From GS Require Import Spec.Base Model.Rup Proofs.Rup.
Import ListNotations.
Open Scope Z_scope.

(* a conflict reported by propagating the negation of c over d -- with any
   fuel -- means that every model of d satisfies c *)
Theorem C06_rup_sound : forall fuel d c, wf_cnf d -> wf_clause c ->
  rup_line fuel d c = Some true ->
  forall m, sat_cnf m d = true -> sat_clause m c = true.
Proof. exact rup_sound. Qed.
Print Assumptions C06_rup_sound.

Theorem C06_checker : forall n F cert, rup_check n F cert = true ->
  Forall (fun c => forall m, length m = n -> sat_cnf m F = true -> sat_clause m c = true) cert.
Proof. exact rup_check_entails. Qed.
Print Assumptions C06_checker.

(* without the restriction on the length of the model *)
Theorem C06_checker_any_model : forall n F cert, rup_check n F cert = true ->
  Forall (fun c => forall m, sat_cnf m F = true -> sat_clause m c = true) cert.
Proof. exact rup_check_sound. Qed.
Print Assumptions C06_checker_any_model.

Theorem C06_refutation : forall n F cert, rup_check n F cert = true -> In [] cert ->
  ~ Satisfiable n F.
Proof. exact rup_check_refutes. Qed.
Print Assumptions C06_refutation.

(* parse-time Unsat emits nothing: the formula itself must be refuted by
   unit propagation *)
Theorem C06_up_refutes : forall n F, wf_cnf F -> up_refutes n F = true -> ~ Satisfiable n F.
Proof. exact up_refutes_sound. Qed.
Print Assumptions C06_up_refutes.

Theorem C06_sat_side : forall n F cert, Satisfiable n F -> rup_check n F cert = true ->
  Forall (fun c => forall m, length m = n -> sat_cnf m F = true -> sat_clause m c = true) cert /\
  ~ In [] cert.
Proof. exact rup_check_sat_side. Qed.
Print Assumptions C06_sat_side.

Example C06_ex_unsat :
  rup_check 2 [[1; 2]; [-1; 2]; [1; -2]; [-1; -2]] [[1]; []] = true.
Proof. vm_compute. reflexivity. Qed.

Example C06_ex_sat :
  Satisfiable 2 [[1; 2]; [-1; 2]] /\ rup_check 2 [[1; 2]; [-1; 2]] [[2]] = true.
Proof. split; [exists [false; true]; split; reflexivity|vm_compute; reflexivity]. Qed.

Example C06_ex_up_refutes : up_refutes 2 [[1]; [-1; 2]; [-2]] = true.
Proof. vm_compute. reflexivity. Qed.
