(* GoIR2: GoIR (Model/GoIR.v) extended with break / continue, Go's truncated division and remainder, slices of bool,
   range over a slice of slices, and results of calls that are thrown away.  Everything said in GoIR.v holds here;
   the additions are listed at the end of this comment.  Kept as a separate file so that the proofs about pb.go / card.go
   (Proofs/GoSrcPB.v, over GoIR.v) are not disturbed; GoIR.v is the sub-language without the additions.

   GoIR: a small imperative language with Go's slice semantics, deeply embedded.

   Purpose.  The hand-written models of coq/Model/*.v are tied to the Go code by
   running both on the same inputs.  For the functions that [gotocoq -ir]
   can translate, the tie is a theorem instead: the translator turns the Go
   syntax tree of a function of /repo into a term of type [fdef] below
   (coq/Gen/GoSrc.v, regenerated on every run, a purely syntactic mapping), and
   coq/Proofs/GoSrc*.v prove that EXECUTING THAT TERM under the semantics of
   this file computes what the hand-written model computes, for every input.
   When the Go text changes, the term changes and the proof is re-checked
   against what the code says now.

   What is modelled faithfully:
   - a slice of int is a header (array, offset, length, capacity) into a heap
     of arrays; sub-slicing shares the array; [a[i] = e], [copy] and
     [append] within capacity write through to the shared array (so a callee
     that "takes ownership" of its argument visibly changes the caller's
     slice, and two slices of one array see each other's writes);
   - the nil slice is distinct from an empty slice ([== nil], [len], [range]
     and [append] treat it as Go does);
   - index and slice bounds are checked; a violation is a panic ([OPanic]),
     as is [panic(...)];
   - [for] with condition and post statement, [range] over a slice (the
     header is evaluated once, the elements are read when their turn comes),
     [if]/[else], assignments, [return], calls by value of headers;
   - struct values ([PBConstr], [CardConstr]) are tuples of values, copied on
     assignment; a slice of structs is a list value ([VList]).

   What is not:
   - Go [int] is [Z]: no overflow;
   - [append] beyond the capacity of an int slice is outside the language
     ([OStuck]): a theorem stating that a run ends in [OReturn] also states
     that the run never grows an array by [append] (new arrays come from
     [make] only), so the growth policy of the runtime is not in the trusted
     base;
   - a slice of structs has value semantics (no aliasing between two such
     slices is modelled);
   - variables live in one flat frame per call: the translator refuses a
     function that declares the same name twice;
   - anything the translator does not know makes it fail, and the failure is
     reported as an obligation that no longer checks.

   Additions of GoIR2:
   - [SBreak] / [SContinue] with the outcomes [OBreak] / [OContinue], consumed by the innermost loop;
   - [Quot] / [Rem]: Go's / and % on int (truncation toward zero, a zero divisor panics);
   - a slice of bool lives in the same heap with 0 for false and anything else for true: [EIdxB] reads a bool,
     [SSetIdx] with a bool value writes 0 or 1; [make([]bool, n)] is [SMake] (all false);
   - [range] over a slice of slices ([VList] of headers) binds the value variable to the header;
   - a struct reached through a POINTER (a pointer receiver, a pointer parameter) is represented by the translator as a
     struct value whose int and bool fields are BOXED (each in a one-element array of the heap: [p.f] is [p.f[0]],
     [p.f = e] is [p.f[0] = e]), so that assignments through the pointer are seen by the caller; slice fields of such
     a struct can be read, indexed and written through, but not assigned (the translator refuses that);
   - conversions between integer types are the identity (no overflow);
   - an argument of a call that panics makes the call panic (in GoIR.v it makes the call stuck; there every argument of
     every translated call is a variable).

   [exec] takes fuel (one unit per nesting step, loop iteration or call);
   [OFuel] is not a result: the theorems exhibit enough fuel, and
   [exec_mono] (Proofs/GoIR.v) shows that more fuel never changes a result. *)
From Coq Require Import List ZArith Bool String.
Import ListNotations.
Open Scope list_scope.
Notation length := List.length (only parsing).
Open Scope Z_scope.

(* ------------------------------------------------------------------ values *)

Record slice := Slice { s_arr : nat; s_off : nat; s_len : nat; s_cap : nat }.

Inductive val :=
| VInt (z : Z)
| VBool (b : bool)
| VNil                          (* the nil slice (of ints or of structs) *)
| VSl (s : slice)               (* a non-nil []int *)
| VStruct (fs : list val)
| VList (l : list val).         (* a non-nil slice of structs, by value *)

Definition heap := list (list Z).
Definition env := list (string * val).
Record state := St { locals : env; hp : heap }.

Fixpoint lookup (x : string) (e : env) : option val :=
  match e with
  | [] => None
  | (y, v) :: r => if String.eqb x y then Some v else lookup x r
  end.

Fixpoint upd (x : string) (v : val) (e : env) : env :=
  match e with
  | [] => [(x, v)]
  | (y, w) :: r => if String.eqb x y then (x, v) :: r else (y, w) :: upd x v r
  end.

(* ------------------------------------------------------------------ heap *)

Definition arr_of (h : heap) (a : nat) : list Z := nth a h [].

(* the elements a slice denotes *)
Definition sl_read (h : heap) (s : slice) : list Z :=
  firstn (s_len s) (skipn (s_off s) (arr_of h (s_arr s))).

(* overwrite [ys] at position [o] of [l] (positions beyond the end are dropped;
   callers check the bound first) *)
Fixpoint write_at (o : nat) (ys : list Z) (l : list Z) : list Z :=
  match o, l with
  | O, _ =>
    match ys, l with
    | [], _ => l
    | y :: ys', _ :: l' => y :: write_at O ys' l'
    | _ :: _, [] => []
    end
  | S o', x :: l' => x :: write_at o' ys l'
  | S _, [] => []
  end.

Fixpoint set_arr (a : nat) (l : list Z) (h : heap) : heap :=
  match a, h with
  | O, _ :: r => l :: r
  | S a', x :: r => x :: set_arr a' l r
  | _, [] => []
  end.

Definition heap_write (h : heap) (a o : nat) (ys : list Z) : heap :=
  set_arr a (write_at o ys (arr_of h a)) h.

Definition alloc (h : heap) (l : list Z) : nat * heap := (length h, (h ++ [l])%list).

(* a header is well formed in a heap: its window lies inside its array *)
Definition slice_ok (h : heap) (s : slice) : Prop :=
  (s_arr s < length h)%nat /\ (s_len s <= s_cap s)%nat /\
  (s_off s + s_cap s <= length (arr_of h (s_arr s)))%nat.

(* ------------------------------------------------------------------ syntax *)

Inductive binop := Add | Sub | Mul | Quot | Rem | Lt | Le | Gt | Ge | Eq | Ne | And | Or.

Inductive expr :=
| EInt (z : Z)
| EBool (b : bool)
| ENil
| EVar (x : string)
| EBin (o : binop) (a b : expr)
| ENeg (a : expr)
| ENot (a : expr)
| ELen (a : expr)
| EIdx (a i : expr)                          (* a[i] *)
| EIdxB (a i : expr)                         (* a[i], a a slice of bool *)
| ESub (a : expr) (lo hi : option expr)      (* a[lo:hi] *)
| EFld (a : expr) (k : nat)                  (* a.f, f the k-th declared field *)
| EStruct (fs : list expr)                   (* T{...}, every field, in declaration order *)
| EList (es : list expr).                    (* []T{e1, ..., en}, T a struct type *)

Inductive stmt :=
| SSkip
| SSet (x : string) (e : expr)               (* x = e ; x := e ; var x T = e *)
| SSetIdx (a i e : expr)                     (* a[i] = e *)
| SSeq (a b : stmt)
| SIf (c : expr) (a b : stmt)
| SFor (c : expr) (post body : stmt)         (* for ; c ; post { body }   (init is sequenced before) *)
| SRange (i v : string) (a : expr) (body : stmt)   (* for i, v := range a { body }, "_" for a blank *)
| SReturn (e : expr)
| SPanic
| SBreak
| SContinue
| SMake (x : string) (n : expr)              (* x := make([]int, n) *)
| SCopy (d s : expr)                         (* copy(d, s) *)
| SAppendSl (x : string) (a b : expr)        (* x = append(a, b...)   int slices *)
| SAppendV (x : string) (a e : expr)         (* x = append(a, e)      a slice of structs *)
| SCall (x : string) (f : string) (args : list expr).   (* x := f(args) *)

Record fdef := FDef { f_params : list string; f_body : stmt }.
Definition funenv := list (string * fdef).

Fixpoint find_fun (f : string) (fe : funenv) : option fdef :=
  match fe with
  | [] => None
  | (g, d) :: r => if String.eqb f g then Some d else find_fun f r
  end.

(* ------------------------------------------------------------------ expressions *)

Inductive eres := EV (v : val) | EPanic | EStuck.

Definition ebind (r : eres) (k : val -> eres) : eres :=
  match r with EV v => k v | EPanic => EPanic | EStuck => EStuck end.

Definition eval_bin (o : binop) (a b : val) : eres :=
  match o, a, b with
  | Add, VInt x, VInt y => EV (VInt (x + y))
  | Sub, VInt x, VInt y => EV (VInt (x - y))
  | Mul, VInt x, VInt y => EV (VInt (x * y))
  | Quot, VInt x, VInt y => if y =? 0 then EPanic else EV (VInt (Z.quot x y))
  | Rem, VInt x, VInt y => if y =? 0 then EPanic else EV (VInt (Z.rem x y))
  | Lt, VInt x, VInt y => EV (VBool (x <? y))
  | Le, VInt x, VInt y => EV (VBool (x <=? y))
  | Gt, VInt x, VInt y => EV (VBool (y <? x))
  | Ge, VInt x, VInt y => EV (VBool (y <=? x))
  | Eq, VInt x, VInt y => EV (VBool (x =? y))
  | Ne, VInt x, VInt y => EV (VBool (negb (x =? y)))
  | Eq, VBool x, VBool y => EV (VBool (Bool.eqb x y))
  | Ne, VBool x, VBool y => EV (VBool (negb (Bool.eqb x y)))
  (* a slice can only be compared with nil *)
  | Eq, VNil, VNil => EV (VBool true)
  | Eq, VSl _, VNil => EV (VBool false)
  | Eq, VNil, VSl _ => EV (VBool false)
  | Eq, VList _, VNil => EV (VBool false)
  | Eq, VNil, VList _ => EV (VBool false)
  | Ne, VNil, VNil => EV (VBool false)
  | Ne, VSl _, VNil => EV (VBool true)
  | Ne, VNil, VSl _ => EV (VBool true)
  | Ne, VList _, VNil => EV (VBool true)
  | Ne, VNil, VList _ => EV (VBool true)
  | _, _, _ => EStuck
  end.

(* a[lo:hi] on a header; [lo], [hi] already defaulted *)
Definition sub_slice (s : slice) (lo hi : Z) : eres :=
  if (0 <=? lo) && (lo <=? hi) && (hi <=? Z.of_nat (s_cap s)) then
    EV (VSl (Slice (s_arr s) (s_off s + Z.to_nat lo) (Z.to_nat (hi - lo)) (s_cap s - Z.to_nat lo)))
  else EPanic.

Definition as_int (r : eres) (k : Z -> eres) : eres :=
  ebind r (fun v => match v with VInt z => k z | _ => EStuck end).

Fixpoint eval (st : state) (e : expr) {struct e} : eres :=
  match e with
  | EInt z => EV (VInt z)
  | EBool b => EV (VBool b)
  | ENil => EV VNil
  | EVar x => match lookup x (locals st) with Some v => EV v | None => EStuck end
  | EBin And a b =>
    ebind (eval st a) (fun va => match va with
      | VBool false => EV (VBool false)
      | VBool true => ebind (eval st b) (fun vb => match vb with VBool _ => EV vb | _ => EStuck end)
      | _ => EStuck end)
  | EBin Or a b =>
    ebind (eval st a) (fun va => match va with
      | VBool true => EV (VBool true)
      | VBool false => ebind (eval st b) (fun vb => match vb with VBool _ => EV vb | _ => EStuck end)
      | _ => EStuck end)
  | EBin o a b => ebind (eval st a) (fun va => ebind (eval st b) (fun vb => eval_bin o va vb))
  | ENeg a => as_int (eval st a) (fun z => EV (VInt (- z)))
  | ENot a => ebind (eval st a) (fun v => match v with VBool b => EV (VBool (negb b)) | _ => EStuck end)
  | ELen a =>
    ebind (eval st a) (fun v => match v with
      | VNil => EV (VInt 0)
      | VSl s => EV (VInt (Z.of_nat (s_len s)))
      | VList l => EV (VInt (Z.of_nat (length l)))
      | _ => EStuck end)
  | EIdx a i =>
    ebind (eval st a) (fun va => as_int (eval st i) (fun k =>
      match va with
      | VNil => EPanic
      | VSl s =>
        if (0 <=? k) && (k <? Z.of_nat (s_len s))
        then EV (VInt (nth (s_off s + Z.to_nat k) (arr_of (hp st) (s_arr s)) 0))
        else EPanic
      | VList l =>
        if (0 <=? k) && (k <? Z.of_nat (length l)) then EV (nth (Z.to_nat k) l VNil) else EPanic
      | _ => EStuck
      end))
  | EIdxB a i =>
    ebind (eval st a) (fun va => as_int (eval st i) (fun k =>
      match va with
      | VNil => EPanic
      | VSl s =>
        if (0 <=? k) && (k <? Z.of_nat (s_len s))
        then EV (VBool (negb (nth (s_off s + Z.to_nat k) (arr_of (hp st) (s_arr s)) 0 =? 0)))
        else EPanic
      | _ => EStuck
      end))
  | ESub a lo hi =>
    ebind (eval st a) (fun va =>
      as_int (match lo with Some e1 => eval st e1 | None => EV (VInt 0) end) (fun l =>
        match va with
        | VSl s =>
          as_int (match hi with Some e2 => eval st e2 | None => EV (VInt (Z.of_nat (s_len s))) end)
                 (fun h => sub_slice s l h)
        | VNil =>
          as_int (match hi with Some e2 => eval st e2 | None => EV (VInt 0) end)
                 (fun h => if (l =? 0) && (h =? 0) then EV VNil else EPanic)
        | _ => EStuck
        end))
  | EFld a k =>
    ebind (eval st a) (fun v => match v with
      | VStruct fs => match nth_error fs k with Some f => EV f | None => EStuck end
      | _ => EStuck end)
  | EStruct fs =>
    (fix go (l : list expr) (acc : list val) : eres :=
       match l with
       | [] => EV (VStruct (rev acc))
       | e1 :: r => ebind (eval st e1) (fun v => go r (v :: acc))
       end) fs []
  | EList es =>
    (fix go (l : list expr) (acc : list val) : eres :=
       match l with
       | [] => EV (VList (rev acc))
       | e1 :: r => ebind (eval st e1) (fun v => go r (v :: acc))
       end) es []
  end.

(* arguments of a call, left to right; the first panic wins *)
Inductive lres := LV (vs : list val) | LPanic | LStuck.

Fixpoint eval_list (st : state) (es : list expr) : lres :=
  match es with
  | [] => LV []
  | e :: r =>
    match eval st e with
    | EV v => match eval_list st r with LV vs => LV (v :: vs) | o => o end
    | EPanic => LPanic
    | EStuck => LStuck
    end
  end.

(* ------------------------------------------------------------------ statements *)

Inductive outcome :=
| ONormal (s : state)
| OReturn (v : val) (h : heap)
| OBreak (s : state)
| OContinue (s : state)
| OPanic
| OFuel
| OStuck.

Definition set_local (st : state) (x : string) (v : val) : state :=
  St (upd x v (locals st)) (hp st).

(* the elements of an int-slice value (nil reads as empty) *)
Definition read_val (h : heap) (v : val) : option (list Z) :=
  match v with
  | VNil => Some []
  | VSl s => Some (sl_read h s)
  | _ => None
  end.

(* for i, v := range <n elements>: [k] is the index of the next turn, [get st k] the k-th element read in [st] *)
Fixpoint range_go (run : state -> outcome) (i v : string) (get : state -> nat -> val)
         (n : nat) (k : nat) (st : state) : outcome :=
  match n with
  | O => ONormal st
  | S n' =>
    let st1 := if String.eqb i "_" then st else set_local st i (VInt (Z.of_nat k)) in
    let st2 := if String.eqb v "_" then st1 else set_local st1 v (get st1 k) in
    match run st2 with
    | ONormal st3 => range_go run i v get n' (S k) st3
    | OContinue st3 => range_go run i v get n' (S k) st3
    | OBreak st3 => ONormal st3
    | o => o
    end
  end.

Definition get_sl (s : slice) (st : state) (k : nat) : val :=
  VInt (nth (s_off s + k) (arr_of (hp st) (s_arr s)) 0).
Definition get_list (l : list val) (st : state) (k : nat) : val := nth k l VNil.

Fixpoint bind_params (ps : list string) (vs : list val) : option env :=
  match ps, vs with
  | [], [] => Some []
  | p :: ps', v :: vs' => match bind_params ps' vs' with Some e => Some ((p, v) :: e) | None => None end
  | _, _ => None
  end.

Definition of_eres (r : eres) (k : val -> outcome) : outcome :=
  match r with EV v => k v | EPanic => OPanic | EStuck => OStuck end.

Fixpoint exec (fe : funenv) (fuel : nat) (s : stmt) (st : state) {struct fuel} : outcome :=
  match fuel with
  | O => OFuel
  | S f =>
    match s with
    | SSkip => ONormal st
    | SSet x e => of_eres (eval st e) (fun v => ONormal (set_local st x v))
    | SSetIdx a i e =>
      of_eres (eval st a) (fun va => of_eres (eval st i) (fun vi => of_eres (eval st e) (fun ve =>
        match va, vi, ve with
        | VSl s, VInt k, VInt z =>
          if (0 <=? k) && (k <? Z.of_nat (s_len s))
          then ONormal (St (locals st) (heap_write (hp st) (s_arr s) (s_off s + Z.to_nat k) [z]))
          else OPanic
        | VSl s, VInt k, VBool b =>
          if (0 <=? k) && (k <? Z.of_nat (s_len s))
          then ONormal (St (locals st) (heap_write (hp st) (s_arr s) (s_off s + Z.to_nat k) [if b then 1 else 0]))
          else OPanic
        | VNil, VInt _, VInt _ => OPanic
        | VNil, VInt _, VBool _ => OPanic
        | _, _, _ => OStuck
        end)))
    | SSeq a b =>
      match exec fe f a st with
      | ONormal st' => exec fe f b st'
      | o => o
      end
    | SIf c a b =>
      of_eres (eval st c) (fun v => match v with
        | VBool true => exec fe f a st
        | VBool false => exec fe f b st
        | _ => OStuck end)
    | SFor c post body =>
      of_eres (eval st c) (fun v => match v with
        | VBool false => ONormal st
        | VBool true =>
          match exec fe f body st with
          | ONormal st1 | OContinue st1 =>
            match exec fe f post st1 with
            | ONormal st2 => exec fe f (SFor c post body) st2
            | OBreak _ | OContinue _ => OStuck
            | o => o
            end
          | OBreak st1 => ONormal st1
          | o => o
          end
        | _ => OStuck end)
    | SRange i v a body =>
      of_eres (eval st a) (fun va => match va with
        | VNil => ONormal st
        | VSl s => range_go (exec fe f body) i v (get_sl s) (s_len s) O st
        | VList l => range_go (exec fe f body) i v (get_list l) (length l) O st
        | _ => OStuck end)
    | SReturn e => of_eres (eval st e) (fun v => OReturn v (hp st))
    | SPanic => OPanic
    | SBreak => OBreak st
    | SContinue => OContinue st
    | SMake x n =>
      of_eres (eval st n) (fun v => match v with
        | VInt k =>
          if k <? 0 then OPanic
          else let (a, h') := alloc (hp st) (repeat 0 (Z.to_nat k)) in
               ONormal (St (upd x (VSl (Slice a O (Z.to_nat k) (Z.to_nat k))) (locals st)) h')
        | _ => OStuck end)
    | SCopy d s =>
      of_eres (eval st d) (fun vd => of_eres (eval st s) (fun vs =>
        match read_val (hp st) vs with
        | Some ys =>
          match vd with
          | VNil => ONormal st
          | VSl sd => ONormal (St (locals st) (heap_write (hp st) (s_arr sd) (s_off sd) (firstn (s_len sd) ys)))
          | _ => OStuck
          end
        | None => OStuck
        end))
    | SAppendSl x a b =>
      of_eres (eval st a) (fun va => of_eres (eval st b) (fun vb =>
        match read_val (hp st) vb with
        | Some ys =>
          match va with
          | VNil => match ys with [] => ONormal (set_local st x VNil) | _ => OStuck end
          | VSl s =>
            if (s_len s + length ys <=? s_cap s)%nat
            then ONormal (St (upd x (VSl (Slice (s_arr s) (s_off s) (s_len s + length ys) (s_cap s))) (locals st))
                             (heap_write (hp st) (s_arr s) (s_off s + s_len s) ys))
            else OStuck       (* growth of an array by append: outside the language *)
          | _ => OStuck
          end
        | None => OStuck
        end))
    | SAppendV x a e =>
      of_eres (eval st a) (fun va => of_eres (eval st e) (fun ve =>
        match va, ve with
        | VNil, VStruct _ => ONormal (set_local st x (VList [ve]))
        | VList l, VStruct _ => ONormal (set_local st x (VList (l ++ [ve])%list))
        | _, _ => OStuck
        end))
    | SCall x g args =>
      match find_fun g fe with
      | Some d =>
        match eval_list st args with
        | LV vs =>
          match bind_params (f_params d) vs with
          | Some e0 =>
            match exec fe f (f_body d) (St e0 (hp st)) with
            | OReturn v h' => ONormal (St (upd x v (locals st)) h')
            | ONormal _ => OStuck          (* fell off the end of a function (the translator ends every body with a return) *)
            | OBreak _ | OContinue _ => OStuck
            | o => o
            end
          | None => OStuck
          end
        | LPanic => OPanic
        | LStuck => OStuck
        end
      | None => OStuck
      end
    end
  end.

(* a whole call from outside *)
Definition run (fe : funenv) (fuel : nat) (g : string) (args : list val) (h : heap) : outcome :=
  match find_fun g fe with
  | Some d =>
    match bind_params (f_params d) args with
    | Some e0 => exec fe fuel (f_body d) (St e0 h)
    | None => OStuck
    end
  | None => OStuck
  end.

(* ------------------------------------------------------------------ running on concrete inputs
   (used by the correspondence check: lists in, lists out) *)

(* put each int-slice argument in its own fresh array; [None] is the nil slice *)
Inductive arg := AInt (z : Z) | ASl (l : option (list Z)) | AStruct (fs : list arg) | AList (es : list arg).

Fixpoint load_arg (a : arg) (h : heap) {struct a} : val * heap :=
  match a with
  | AInt z => (VInt z, h)
  | ASl None => (VNil, h)
  | ASl (Some l) => let (i, h1) := alloc h l in (VSl (Slice i O (length l) (length l)), h1)
  | AStruct fs =>
    let (vs, h') :=
      (fix go (l : list arg) (h0 : heap) : list val * heap :=
         match l with
         | [] => ([], h0)
         | x :: r => let (v, h1) := load_arg x h0 in let (vs, h2) := go r h1 in (v :: vs, h2)
         end) fs h in
    (VStruct vs, h')
  | AList es =>
    let (vs, h') :=
      (fix go (l : list arg) (h0 : heap) : list val * heap :=
         match l with
         | [] => ([], h0)
         | x :: r => let (v, h1) := load_arg x h0 in let (vs, h2) := go r h1 in (v :: vs, h2)
         end) es h in
    (VList vs, h')
  end.

Fixpoint load_args (as_ : list arg) (h : heap) : list val * heap :=
  match as_ with
  | [] => ([], h)
  | a :: r => let (v, h1) := load_arg a h in let (vs, h') := load_args r h1 in (v :: vs, h')
  end.

(* results with every slice read out of the final heap *)
Inductive rval := RInt (z : Z) | RBool (b : bool) | RNil | RSl (l : list Z) | RStruct (fs : list rval) | RList (l : list rval).

Fixpoint readback (h : heap) (v : val) : rval :=
  match v with
  | VInt z => RInt z
  | VBool b => RBool b
  | VNil => RNil
  | VSl s => RSl (sl_read h s)
  | VStruct fs => RStruct (map (readback h) fs)
  | VList l => RList (map (readback h) l)
  end.

Inductive rout := RRet (r : rval) (args_after : list rval) | RPanic | RFuel | RStuck.

(* run [g] on arguments in fresh arrays; report the result and what the caller's slices hold afterwards *)
Definition run_args (fe : funenv) (fuel : nat) (g : string) (as_ : list arg) : rout :=
  let (vs, h) := load_args as_ [] in
  match run fe fuel g vs h with
  | OReturn v h' => RRet (readback h' v) (map (readback h') vs)
  | OPanic => RPanic
  | OFuel => RFuel
  | ONormal _ | OBreak _ | OContinue _ => RStuck
  | OStuck => RStuck
  end.
