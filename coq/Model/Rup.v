(* Model/Rup.v -- executable mirror of gophersat's certificate checker
   (package explain: problem.go, check.go, parser.go) and an independent,
   cleaner RUP checker used to replay the real solver's certificates.
   Definitions only; the proofs are in Proofs/Rup.v. *)
From Coq Require Import List ZArith Lia Bool.
From GS Require Import Spec.Base.
Import ListNotations.
Open Scope Z_scope.

(* ================================================================== *)
(* 1. The [units] array  (problem.go:16: for each var, 0 if unbound,   *)
(*    1 if true, -1 if false).  Index v-1 holds variable v.            *)
(* Go panics on an index outside [0, NbVars); the model reads 0 there  *)
(* and ignores the write.  All theorems that need it carry the         *)
(* hypothesis that literals are in range ([lits_in]); [range_okb] is   *)
(* its executable form, for the judge.                                 *)

Fixpoint set_nth {A : Type} (i : nat) (x : A) (l : list A) : list A :=
  match l, i with
  | [], _ => []
  | _ :: r, O => x :: r
  | a :: r, S j => a :: set_nth j x r
  end.

Definition get_unit (u : list Z) (v : Z) : Z := nth (Z.to_nat (v - 1)) u 0.

Definition set_unit (u : list Z) (v : Z) (x : Z) : list Z :=
  if 1 <=? v then set_nth (Z.to_nat (v - 1)) x u else u.

(* parser.go:81-103 (ParseCNF): every unit clause writes its literal into
   [units]; a later unit clause on the same variable overwrites.          *)
Definition init_unit_step (u : list Z) (c : clause) : list Z :=
  match c with
  | [l] => if 0 <? l then set_unit u l 1 else set_unit u (- l) (-1)
  | _ => u
  end.

Definition init_units (n : nat) (f : cnf) : list Z :=
  fold_left init_unit_step f (repeat 0 n).

(* ================================================================== *)
(* 2. (pb *Problem).unsat()  -- problem.go:51-112                       *)

(* Outcome of the inner loop over the literals of one clause
   (problem.go:60-83).                                                  *)
Inductive scan_res :=
| SSat              (* sat = true                                        *)
| SFalse            (* unbound = 0, not sat                              *)
| SUnit (l : lit)   (* unbound = 1, unit = l                             *)
| SMany.            (* unbound = 2: the loop was left by [break]         *)

(* [unit = None] is unbound = 0; [Some l] is unbound = 1 with unit = l.
   An unbound literal equal to [unit] is skipped (problem.go:70-72, the fix
   of "a clause with a repeated literal was not seen as unit"); any other
   second unbound literal leaves the loop (76-78): a true literal behind it
   is not seen.                                                          *)
Fixpoint scan_clause (u : list Z) (c : clause) (unit : option lit) : scan_res :=
  match c with
  | [] => match unit with None => SFalse | Some l => SUnit l end
  | lit :: r =>
    let v := Z.abs lit in
    let binding := get_unit u v in
    if binding =? 0 then
      match unit with
      | None => scan_clause u r (Some lit)
      | Some l0 => if lit =? l0 then scan_clause u r unit else SMany
      end
    else if binding * lit =? v then SSat
    else scan_clause u r unit
  end.

(* problem.go:96-100 *)
Definition assign_lit (u : list Z) (l : lit) : list Z :=
  if l <? 0 then set_unit u (- l) (-1) else set_unit u l 1.

(* problem.go:90-92 and 102-104: only original clauses are tagged *)
Definition tag (nb i : nat) (t : list bool) : list bool :=
  if (i <? nb)%nat then set_nth i true t else t.

(* The clause list together with the [done] marks (problem.go:52). *)
Definition marked := list (bool * clause).

Inductive pass_res :=
| PConflict (t : list bool)                                   (* return true *)
| PCont (mk : marked) (u : list Z) (t : list bool) (modified : bool).

Definition pcons (d : bool) (c : clause) (r : pass_res) : pass_res :=
  match r with
  | PConflict t => PConflict t
  | PCont mk u t md => PCont ((d, c) :: mk) u t md
  end.

(* One execution of the body of [for modified] : problem.go:55-108.
   [i] is the index of the head of [mk] in pb.Clauses.                   *)
Fixpoint pass (nb i : nat) (mk : marked) (u : list Z) (t : list bool) (md : bool)
  : pass_res :=
  match mk with
  | [] => PCont [] u t md
  | (d, c) :: r =>
    if d then pcons true c (pass nb (S i) r u t md)
    else
      match scan_clause u c None with
      | SSat => pcons true c (pass nb (S i) r u t md)
      | SFalse => PConflict (tag nb i t)
      | SUnit l => pcons true c (pass nb (S i) r (assign_lit u l) (tag nb i t) true)
      | SMany => pcons false c (pass nb (S i) r u t md)
      end
  end.

(* The [for modified] loop.  Result [Some true]: conflict found;
   [Some false]: fixpoint without conflict; [None]: out of fuel (never
   happens with fuel = number of clauses + 1: Proofs/Rup.up_loop_fuel).  *)
Fixpoint up_loop (fuel nb : nat) (mk : marked) (u : list Z) (t : list bool)
  : option bool * list bool :=
  match fuel with
  | O => (None, t)
  | S f =>
    match pass nb 0 mk u t false with
    | PConflict t' => (Some true, t')
    | PCont mk' u' t' md => if md then up_loop f nb mk' u' t' else (Some false, t')
    end
  end.

Definition up_unsat (fuel nb : nat) (clauses : cnf) (u : list Z) (t : list bool)
  : option bool * list bool :=
  up_loop fuel nb (map (pair false) clauses) u t.

(* ================================================================== *)
(* 3. check.go                                                         *)

(* check.go:35-41: the negation of every literal of the (non tautological)
   line is written over [units] -- overwriting what was there.           *)
Definition neg_lit (u : list Z) (l : lit) : list Z :=
  if 0 <? l then set_unit u l (-1) else set_unit u (- l) 1.

Definition neg_assign (u : list Z) (c : clause) : list Z := fold_left neg_lit c u.

(* check.go:23-29 (the fix of "tautological lines were rejected"): does a
   literal of the line have its complement among the literals before it ?  *)
Fixpoint taut_scan (seen : list lit) (c : clause) : bool :=
  match c with
  | [] => false
  | l :: r => if existsb (fun l2 => l2 =? - l) seen then true else taut_scan (l :: seen) r
  end.

Definition is_taut (c : clause) : bool := taut_scan [] c.

(* check.go:22-45.  A tautological line is accepted at once: [units] and
   the tags are not touched.  Otherwise [units] is restored afterwards, so
   only the verdict and the tags are returned.                           *)
Definition check_line (nb : nat) (clauses : cnf) (u : list Z) (t : list bool)
           (line : clause) : option bool * list bool :=
  if is_taut line then (Some true, t)
  else up_unsat (S (length clauses)) nb clauses (neg_assign u line) t.

(* A certificate line after strings.Fields. *)
Inductive tok := TInt (z : Z) | TWord.

Inductive line_res :=
| LSkip                (* empty line, or first field not an integer      *)
| LErr                 (* parseClause failed: return false, err          *)
| LClause (c : clause).

(* parser.go:12-24: zeros are dropped wherever they are *)
Fixpoint parse_clause (fields : list tok) : option clause :=
  match fields with
  | [] => Some []
  | TWord :: _ => None
  | TInt z :: r =>
    match parse_clause r with
    | None => None
    | Some c => Some (if z =? 0 then c else z :: c)
    end
  end.

(* check.go:54-65 / 92-103 *)
Definition parse_line (fields : list tok) : line_res :=
  match fields with
  | [] => LSkip
  | TWord :: _ => LSkip
  | TInt _ :: _ =>
    match parse_clause fields with None => LErr | Some c => LClause c end
  end.

Record check_out := mkOut {
  valid : bool;          (* first result                                 *)
  perr : bool;           (* err != nil                                   *)
  cls : cnf;             (* pb.Clauses before the deferred restore       *)
  tgs : list bool        (* pb.tagged                                    *)
}.

Definition is_nil {A : Type} (l : list A) : bool :=
  match l with [] => true | _ => false end.

(* The loops of Unsat ([early = false], check.go:90-113) and UnsatChan
   ([early = true], check.go:53-80).                                     *)
Fixpoint check_lines (early : bool) (nb : nat) (clauses : cnf) (u : list Z)
         (t : list bool) (lines : list line_res) : check_out :=
  match lines with
  | [] => mkOut true false clauses t
  | LSkip :: r => check_lines early nb clauses u t r
  | LErr :: _ => mkOut false true clauses t
  | LClause c :: r =>
    match check_line nb clauses u t c with
    | (Some true, t') =>
      if early && is_nil c then mkOut true false clauses t'
      else check_lines early nb (clauses ++ [c]) u t' r
    | (_, t') => mkOut false false clauses t'
    end
  end.

(* explain.Problem -- problem.go:12-19 *)
Record Problem := mkProblem {
  Clauses : cnf;
  NbVars : nat;
  NbClauses : nat;
  punits : list Z;
  tagged : list bool
}.

(* problem.go:21-27.  (If len(Clauses) > NbClauses Go panics; the model
   is faithful for len(Clauses) <= NbClauses.)                           *)
Definition init_tagged (pb : Problem) : list bool :=
  let t := map (fun c => (length c =? 1)%nat) (Clauses pb) in
  t ++ repeat false (NbClauses pb - length t).

(* problem.go:45-47 *)
Definition restore (nb : nat) (clauses : cnf) : cnf := firstn nb clauses.

Definition run_lines (early : bool) (pb : Problem) (lines : list line_res)
  : (bool * bool) * Problem :=
  let o := check_lines early (NbClauses pb) (Clauses pb) (punits pb)
                       (init_tagged pb) lines in
  ((valid o, perr o),
   mkProblem (restore (NbClauses pb) (cls o)) (NbVars pb) (NbClauses pb)
             (punits pb) (tgs o)).

(* (pb *Problem).Unsat(io.Reader) and UnsatChan on raw lines: result is
   ((valid, err != nil), pb afterwards).                                 *)
Definition Unsat_lines := run_lines false.
Definition UnsatChan_lines := run_lines true.

(* The same on already parsed clause lines. *)
Definition Unsat (pb : Problem) (cert : list clause) : bool * Problem :=
  let r := run_lines false pb (map LClause cert) in (fst (fst r), snd r).
Definition UnsatChan (pb : Problem) (cert : list clause) : bool * Problem :=
  let r := run_lines true pb (map LClause cert) in (fst (fst r), snd r).

(* The problem ParseCNF builds from "p cnf n (length f)" and the clauses f *)
Definition mk_problem (n : nat) (f : cnf) : Problem :=
  mkProblem f n (length f) (init_units n f) [].

(* Verdict only; [u0] is the initial content of [units]. *)
Definition check_cert_reader (f : cnf) (u0 : list Z) (cert : list clause) : bool :=
  fst (Unsat (mkProblem f (length u0) (length f) u0 []) cert).
Definition check_cert_chan (f : cnf) (u0 : list Z) (cert : list clause) : bool :=
  fst (UnsatChan (mkProblem f (length u0) (length f) u0 []) cert).

(* Go would panic (index out of range) unless this holds. *)
Definition lit_in_rangeb (n : nat) (l : lit) : bool :=
  (1 <=? Z.abs l) && (Z.abs l <=? Z.of_nat n).
Definition range_okb (n : nat) (f : cnf) : bool := forallb (forallb (lit_in_rangeb n)) f.

(* ------------------------------------------------------------------ *)
(* UnsatSubset -- check.go:124-160.  The solver is not modelled: its
   observable behaviour is an input: [trivial] (ParseSlice answered Unsat),
   [status_sat] (Solve answered Sat) and the certificate lines it sent. *)

Fixpoint select {A : Type} (mask : list bool) (l : list A) : list A :=
  match mask, l with
  | b :: ms, x :: xs => if b then x :: select ms xs else select ms xs
  | _, _ => []
  end.

Definition UnsatSubset (pb : Problem) (trivial status_sat : bool) (cert : list clause)
  : option cnf * Problem :=
  if trivial then (Some (Clauses pb), pb)
  else
    let '(v, pb') := UnsatChan pb cert in
    if negb v || status_sat then (None, pb')
    else (Some (select (tagged pb') (Clauses pb')), pb').

Definition unsat_subset (n : nat) (f : cnf) (trivial status_sat : bool)
           (cert : list clause) : option cnf :=
  fst (UnsatSubset (mk_problem n f) trivial status_sat cert).

(* ================================================================== *)
(* 4. An independent RUP checker (shares nothing with the above).       *)
(* The assignment is the list of literals that are true.                *)

Definition memz (l : Z) (a : list Z) : bool := existsb (Z.eqb l) a.

Inductive cstatus := CSat | CConflict | CUnit (l : lit) | CMany.

Definition clause_status (a : list lit) (c : clause) : cstatus :=
  if existsb (fun l => memz l a) c then CSat
  else
    match filter (fun l => negb (memz (- l) a)) c with
    | [] => CConflict
    | l :: r => if forallb (Z.eqb l) r then CUnit l else CMany
    end.

(* one pass; None = conflict *)
Fixpoint rup_pass (d : cnf) (a : list lit) (changed : bool) : option (list lit * bool) :=
  match d with
  | [] => Some (a, changed)
  | c :: r =>
    match clause_status a c with
    | CConflict => None
    | CUnit l => rup_pass r (l :: a) true
    | _ => rup_pass r a changed
    end
  end.

(* Some true: conflict; Some false: fixpoint, no conflict; None: out of fuel *)
Fixpoint rup_prop (fuel : nat) (d : cnf) (a : list lit) : option bool :=
  match fuel with
  | O => None
  | S f =>
    match rup_pass d a false with
    | None => Some true
    | Some (a', ch) => if ch then rup_prop f d a' else Some false
    end
  end.

Definition inconsistent (a : list lit) : bool := existsb (fun l => memz (- l) a) a.

Definition rup_line (fuel : nat) (d : cnf) (c : clause) : option bool :=
  let a := map Z.opp c in
  if inconsistent a then Some true else rup_prop fuel d a.

Fixpoint rup_check_from (fuel : nat) (d : cnf) (cert : list clause) : bool :=
  match cert with
  | [] => true
  | c :: r =>
    match rup_line fuel d c with
    | Some true => rup_check_from fuel (d ++ [c]) r
    | _ => false
    end
  end.

(* [n] = number of variables; every productive pass binds a new variable,
   so n + 1 passes reach the fixpoint.  Clauses containing the literal 0
   are refused.                                                          *)
Definition rup_check (n : nat) (f : cnf) (cert : list clause) : bool :=
  wf_cnfb f && wf_cnfb cert && rup_check_from (S n) f cert.

(* does unit propagation alone refute f ? (used for "the empty clause is
   derivable at the end")                                                *)
Definition up_refutes (n : nat) (f : cnf) : bool :=
  match rup_line (S n) f [] with Some true => true | _ => false end.
