(* Model of the SEARCH part of the cutting-planes strategy:
     solver/learn_pb.go:104-160   Solver.cuttingPlanes  (the trail walk), as it is
                                  at commit 0a73d0f (cp_loop, cp_finish, cutting_planes);
                                  the code before that commit is kept as
                                  cp_loop_old / cutting_planes_old (it is the
                                  subject of the *_old_*_refuted theorems)
     solver/learn_pb.go:178-195   pbSet.onlyFalsified
     solver/solver.go:469-515     the use of the result in propagateAndSearchPB
     solver/solver.go:294-352     cleanupBindings
   The arithmetic (pbSet, clash, roundToOne, divideBy, falsifies,
   backtrackLevel) is Model/CP.v; NewPBClause's sort and Clause.SimplifyPB are
   Model/PBNorm.v.  Definitions only; proofs are in Proofs/CPSearch.v.

   Representation.
   * literals are DIMACS integers, variable v (1-based) has index v-1;
   * s.model is a [list Z] of signed decision levels (0 = unassigned); the walk
     of cuttingPlanes zeroes entries IN PLACE and that is modelled: the model is
     threaded through the loop and returned;
   * s.reason is a [list (option pbc)] (None = nil: a decision, or a top-level
     unit -- gophersat gives both a nil reason);
   * s.trail is never modified by cuttingPlanes (line 120 is commented out), only
     the index [ptr] moves down.  The pair (s.trail, ptr) is represented by the
     REVERSED PREFIX  rt = [trail[ptr]; trail[ptr-1]; ...; trail[0]]:
         ptr = length rt - 1,   s.trail[ptr] = hd rt,   ptr = -1  <->  rt = [].
     Reading s.trail[ptr] with rt = [] is Go's
         panic: runtime error: index out of range [-1]
     and is the explicit outcome [CPPanic].
   * activity bumping (seen, varBumpActivity, clauseBumpActivity) does not
     influence the result and is left out. *)
From Coq Require Import List ZArith Bool.
From GS Require Import Spec.Base Spec.PB Model.PBNorm Model.CP.
Import ListNotations.
Open Scope Z_scope.

(* ------------------------------------------------------------------ *)
(* State read and written by cuttingPlanes                             *)

Record state := State {
  st_trail  : list lit;            (* s.trail, oldest first *)
  st_model  : list Z;              (* s.model *)
  st_reason : list (option pbc);   (* s.reason *)
  st_confl  : pbc;                 (* confl *)
  st_lvl    : Z                    (* lvl *)
}.

Definition st_n (st : state) : nat := List.length (st_model st).   (* s.nbVars *)

Inductive result :=
| CPPanic        (* index out of range [-1] on s.trail (learn_pb.go:117; before
                    2aa45b5 also the last line of the inner walk) *)
| CPPanicArith   (* another Go panic: integer divide by zero in roundToOne (locked
                    variable of weight 0), or NewPBClause "Invalid cardinality
                    value" (card < 1) *)
| CPFuel         (* the model ran out of fuel *)
| CPUnsat                                        (* return nil, nil, -1 *)
| CPUnits (us : list lit)                        (* return nil, propagated, 1 *)
| CPLearn (c : pbc) (props : list lit) (newlvl : Z).  (* return learned, [unit], btLvl *)

Definition vidx (l : lit) : nat := Z.to_nat (Z.abs l - 1).          (* lit.Var() *)
Definition model_at (md : list Z) (l : lit) : Z := nth (vidx l) md 0.
Definition reason_at (rs : list (option pbc)) (l : lit) : option pbc := nth (vidx l) rs None.

Fixpoint set_nth_g {A : Type} (i : nat) (x : A) (l : list A) {struct l} : list A :=
  match l with
  | [] => []
  | y :: r => match i with O => x :: r | S k => y :: set_nth_g k x r end
  end.

(* learn_pb.go:178-195  onlyFalsified(s, ptr, lvl).  [None] is Go's Lit(-1).
     for ptr >= 0 { lit := s.trail[ptr]
       if abs(s.model[lit.Var()]) != lvl { return res }
       if pb.falsifies(lit) { if res != -1 { return -1 }; res = lit }
       ptr-- }
     return res *)
Fixpoint only_falsified (pb : pbset) (md : list Z) (lvl : Z) (rt : list lit)
         (res : option lit) : option lit :=
  match rt with
  | [] => res
  | l :: r =>
    if negb (Z.abs (model_at md l) =? lvl) then res
    else if falsifies pb l then
      match res with
      | Some _ => None
      | None => only_falsified pb md lvl r (Some l)
      end
    else only_falsified pb md lvl r res
  end.

(* learn_pb.go:117-126
     lit := s.trail[ptr]
     for !pb.falsifies(lit) {
       s.model[lit.Var()] = 0
       ptr--
       if ptr < 0 { return nil, nil, -1 }
       lit = s.trail[ptr] }
   Result: WStop: the new model, the literal found and the rest of the reversed
   prefix (so that the new rt is l :: r).  WEmpty: the walk went through the
   whole trail (return nil, nil, -1 at :122-124), with the model it leaves.
   Called with rt = [] it is WEmpty too, but cp_loop tests that case first:
   line 117 reads s.trail[-1]. *)
Inductive walk_res :=
| WEmpty (md : list Z)
| WStop (md : list Z) (l : lit) (r : list lit).

Fixpoint walk (pb : pbset) (md : list Z) (rt : list lit) : walk_res :=
  match rt with
  | [] => WEmpty md
  | l :: r =>
    if falsifies pb l then WStop md l r
    else walk pb (set_nth (vidx l) 0 md) r
  end.

(* l is already a top-level fact:  abs(s.model[l.Var()]) == 1 && s.litStatus(l) == Sat *)
Definition is_fact (md : list Z) (l : lit) : bool :=
  (Z.abs (model_at md l) =? 1) && Bool.eqb (0 <? model_at md l) (0 <? l).

(* learn_pb.go:143-169 (after commit 0a73d0f)  after the loop; [u] is the result
   of onlyFalsified.
     unit := u.Negation()
     btLvl := pb.backtrackLevel(s, unit)
     pb.roundToOne(s, unit.Var(), lvl)
     full := pb.clause()
     propagated, learned, ok := full.SimplifyPB()
     if !ok { return nil, nil, -1 }
     for _, l := range propagated {
       if !(abs(s.model[l.Var()]) == 1 && s.litStatus(l) == Sat) { return nil, propagated, 1 } }
     if len(propagated) > 0 { learned = full }
     return learned, []Lit{unit}, btLvl
   pb.clause() is NewPBClause (panics when card < 1, sorts by decreasing
   weight, does not saturate the weights).  s.model is the model left by the
   walk.  SimplifyPB cannot return (no unit, nil, true) when card >= 1
   (Proofs/CPSearch.v, finish_no_nil); that branch would make the caller
   dereference a nil clause and is mapped to CPPanicArith. *)
Definition cp_finish (pb : pbset) (md : list Z) (u : lit) : result :=
  let unit := - u in
  let bt := backtrack_level md (vidx u) pb in
  match round_to_one md (vidx u) pb with
  | None => CPPanicArith
  | Some pb' =>
    if snd pb' <? 1 then CPPanicArith
    else
      let full := PBC (sort_terms (set_terms 1 (fst pb'))) (snd pb') in
      match simplify_pb full with
      | None => CPUnsat
      | Some (us, rest) =>
        if forallb (is_fact md) us then
          match us, rest with
          | [], Some c => CPLearn c [unit] bt
          | [], None => CPPanicArith
          | _ :: _, _ => CPLearn full [unit] bt     (* every unit is already a fact *)
          end
        else CPUnits us
      end
  end.

(* the same before commit 0a73d0f:
     if propagated, learned, ok := pb.clause().SimplifyPB(); !ok { return nil, nil, -1 }
     else if len(propagated) > 0 { return nil, propagated, 1 }
     else { return learned, []Lit{unit}, btLvl } *)
Definition cp_finish_v1 (pb : pbset) (md : list Z) (u : lit) : result :=
  let unit := - u in
  let bt := backtrack_level md (vidx u) pb in
  match round_to_one md (vidx u) pb with
  | None => CPPanicArith
  | Some pb' =>
    if snd pb' <? 1 then CPPanicArith
    else
      match simplify_pb (PBC (sort_terms (set_terms 1 (fst pb'))) (snd pb')) with
      | None => CPUnsat
      | Some ((_ :: _) as us, _) => CPUnits us
      | Some ([], Some c) => CPLearn c [unit] bt
      | Some ([], None) => CPPanicArith
      end
  end.

(* learn_pb.go:113-142  the main loop.
     for pb.onlyFalsified(s, ptr, lvl) < 0 {
       if lvl == 1 { return nil, nil, -1 }
       <walk>
       v := lit.Var()
       lvl = abs(s.model[v])
       pb.roundToOne(s, v, lvl)
       reason := s.reason[v]
       if reason == nil { continue }
       pb2 := s.pbSet(reason, s.pbSetBuf2)
       pb2.roundToOne(s, v, lvl)
       pb.clash(s, pb2) }
   One unit of fuel per iteration of this loop (the inner walk is structural).
   Returns the result and the final s.model. *)
Fixpoint cp_loop (fuel : nat) (n : nat) (rs : list (option pbc)) (pb : pbset)
         (md : list Z) (rt : list lit) (lvl : Z) : result * list Z :=
  match fuel with
  | O => (CPFuel, md)
  | S f =>
    match only_falsified pb md lvl rt None with
    | Some u => (cp_finish pb md u, md)
    | None =>
      if lvl =? 1 then (CPUnsat, md)                                   (* :114-116 *)
      else
        match rt with
        | [] => (CPPanic, md)                     (* :117 s.trail[-1], empty trail *)
        | _ :: _ =>
          match walk pb md rt with
          | WEmpty md' => (CPUnsat, md')                               (* :122-124 *)
          | WStop md' l r =>
            let lvl' := Z.abs (model_at md' l) in                      (* :128 *)
            match round_to_one md' (vidx l) pb with                    (* :130 *)
            | None => (CPPanicArith, md')
            | Some pb1 =>
              match reason_at rs l with
              | None => cp_loop f n rs pb1 md' (l :: r) lvl'           (* :132-134 *)
              | Some c =>
                match round_to_one md' (vidx l) (pbset_of n c) with    (* :139-140 *)
                | None => (CPPanicArith, md')
                | Some pb2 => cp_loop f n rs (clash pb1 pb2) md' (l :: r) lvl'  (* :141 *)
                end
              end
            end
          end
        end
    end
  end.

(* fuel: every iteration that does not exit either resolves the literal the
   walk stopped on (its weight becomes 0 and the next walk passes it), or stops
   on a decision, and then the next iteration exits: len(trail) + 3 iterations
   are enough on the states of the search (Proofs/CPSearch.v, cp_total). *)
Definition cp_fuel (st : state) : nat := 2 * List.length (st_trail st) + 2.

Definition cutting_planes_full (st : state) : result * list Z :=
  cp_loop (cp_fuel st) (st_n st) (st_reason st)
          (pbset_of (st_n st) (st_confl st))            (* :111 *)
          (st_model st) (rev (st_trail st))             (* :112 ptr = len-1 *)
          (st_lvl st).

Definition cutting_planes (st : state) : result := fst (cutting_planes_full st).

(* ------------------------------------------------------------------ *)
(* The code BEFORE commit 2aa45b5 (lines of that version):
     :117-126  lit := s.trail[ptr]
               for !pb.falsifies(lit) {
                 if s.reason[lit.Var()] == nil { lvl-- }
                 s.model[lit.Var()] = 0
                 ptr--
                 lit = s.trail[ptr] }
     :127-134  v := lit.Var(); pb.roundToOne(s, v, lvl); reason := s.reason[v]
               if reason == nil { lvl--; continue }
   the rest as above. *)
Inductive walk_old_res :=
| WOPanic
| WOStop (md : list Z) (l : lit) (r : list lit) (lvl : Z).

Fixpoint walk_old (pb : pbset) (rs : list (option pbc)) (md : list Z) (lvl : Z)
         (rt : list lit) : walk_old_res :=
  match rt with
  | [] => WOPanic                                     (* s.trail[-1] *)
  | l :: r =>
    if falsifies pb l then WOStop md l r lvl
    else walk_old pb rs (set_nth (vidx l) 0 md)
                  (match reason_at rs l with None => lvl - 1 | Some _ => lvl end) r
  end.

Fixpoint cp_loop_old (fuel : nat) (n : nat) (rs : list (option pbc)) (pb : pbset)
         (md : list Z) (rt : list lit) (lvl : Z) : result * list Z :=
  match fuel with
  | O => (CPFuel, md)
  | S f =>
    match only_falsified pb md lvl rt None with
    | Some u => (cp_finish_v1 pb md u, md)
    | None =>
      if lvl =? 1 then (CPUnsat, md)
      else
        match walk_old pb rs md lvl rt with
        | WOPanic => (CPPanic, md)
        | WOStop md' l r lvl' =>
          match round_to_one md' (vidx l) pb with
          | None => (CPPanicArith, md')
          | Some pb1 =>
            match reason_at rs l with
            | None => cp_loop_old f n rs pb1 md' (l :: r) (lvl' - 1)
            | Some c =>
              match round_to_one md' (vidx l) (pbset_of n c) with
              | None => (CPPanicArith, md')
              | Some pb2 => cp_loop_old f n rs (clash pb1 pb2) md' (l :: r) lvl'
              end
            end
          end
        end
    end
  end.

Definition cutting_planes_old_full (st : state) : result * list Z :=
  cp_loop_old (cp_fuel st) (st_n st) (st_reason st)
              (pbset_of (st_n st) (st_confl st)) (st_model st) (rev (st_trail st)) (st_lvl st).

Definition cutting_planes_old (st : state) : result := fst (cutting_planes_old_full st).

(* The code between commits 2aa45b5 and 0a73d0f: the current loop with the
   earlier end (cp_finish_v1).  Only used to state the search-level repetition
   that 0a73d0f repairs (Properties/C14c.v). *)
Fixpoint cp_loop_mid (fuel : nat) (n : nat) (rs : list (option pbc)) (pb : pbset)
         (md : list Z) (rt : list lit) (lvl : Z) : result * list Z :=
  match fuel with
  | O => (CPFuel, md)
  | S f =>
    match only_falsified pb md lvl rt None with
    | Some u => (cp_finish_v1 pb md u, md)
    | None =>
      if lvl =? 1 then (CPUnsat, md)
      else
        match rt with
        | [] => (CPPanic, md)
        | _ :: _ =>
          match walk pb md rt with
          | WEmpty md' => (CPUnsat, md')
          | WStop md' l r =>
            let lvl' := Z.abs (model_at md' l) in
            match round_to_one md' (vidx l) pb with
            | None => (CPPanicArith, md')
            | Some pb1 =>
              match reason_at rs l with
              | None => cp_loop_mid f n rs pb1 md' (l :: r) lvl'
              | Some c =>
                match round_to_one md' (vidx l) (pbset_of n c) with
                | None => (CPPanicArith, md')
                | Some pb2 => cp_loop_mid f n rs (clash pb1 pb2) md' (l :: r) lvl'
                end
              end
            end
          end
        end
    end
  end.

Definition cutting_planes_mid_full (st : state) : result * list Z :=
  cp_loop_mid (cp_fuel st) (st_n st) (st_reason st)
              (pbset_of (st_n st) (st_confl st)) (st_model st) (rev (st_trail st)) (st_lvl st).

(* ------------------------------------------------------------------ *)
(* The caller: propagateAndSearchPB, solver.go:469-515                 *)

(* solver.go:294-352 cleanupBindings(lvl): the longest prefix of the trail whose
   literals have |model| <= lvl is kept (a zeroed entry counts as level 0), the
   other literals are unassigned and lose their reason. *)
Fixpoint split_trail (md : list Z) (lvl : Z) (tr : list lit) : list lit * list lit :=
  match tr with
  | [] => ([], [])
  | l :: r =>
    if Z.abs (model_at md l) <=? lvl
    then let '(k, d) := split_trail md lvl r in (l :: k, d)
    else ([], tr)
  end.

Definition cleanup_bindings (lvl : Z) (tr : list lit) (md : list Z)
           (rs : list (option pbc)) : list lit * list Z * list (option pbc) :=
  let '(k, d) := split_trail md lvl tr in
  (k,
   fold_left (fun m l => set_nth (vidx l) 0 m) d md,
   fold_left (fun r l => set_nth_g (vidx l) None r) d rs).

Definition signed_lvl (l : lit) (lvl : Z) : Z := if 0 <? l then lvl else - lvl.   (* lvlToSignedLvl *)
Definition lit_false (md : list Z) (l : lit) : bool :=                      (* litStatus = Unsat *)
  let a := model_at md l in negb (a =? 0) && negb (Bool.eqb (0 <? a) (0 <? l)).

Inductive caller_res :=
| KUnsat                       (* return s.setUnsat() *)
| KPanic | KFuel
| KUnit (tr : list lit) (md : list Z) (rs : list (option pbc)) (rest : list lit)
    (* :474-487, first unit: state at the call propagate(len(trail)-1, 1);
       [rest] are the units still to be treated by the same loop *)
| KLearn (tr : list lit) (md : list Z) (rs : list (option pbc)) (c : pbc) (lvl : Z).
    (* :502-510: state at the first call of propagate inside unifyLiterals *)

(* solver.go, newLvl == 1 (after 0a73d0f): a unit that is false at level 1 ends
   the search; one that is already a fact is skipped (continue, BEFORE
   cleanupBindings); the first other one is bound at level 1 *)
Fixpoint caller_units (st : state) (md : list Z) (us : list lit) : caller_res :=
  match us with
  | [] => KPanic   (* every unit skipped: not produced by cuttingPlanes *)
  | u :: rest =>
    if (Z.abs (model_at md u) =? 1) && lit_false md u then KUnsat
    else if Z.abs (model_at md u) =? 1 then caller_units st md rest
    else
      let '(tr1, md1, rs1) := cleanup_bindings 1 (st_trail st) md (st_reason st) in
      KUnit (tr1 ++ [u]) (set_nth (vidx u) (signed_lvl u 1) md1) rs1 rest
  end.

Definition caller_of (res : result * list Z) (st : state) : caller_res :=
  match res with
  | (CPPanic, _) | (CPPanicArith, _) => KPanic
  | (CPFuel, _) => KFuel
  | (CPUnsat, _) => KUnsat                                          (* newLvl == -1 *)
  | (CPUnits us, md) => caller_units st md us                       (* newLvl == 1 *)
  | (CPLearn c props newlvl, md) =>
    if newlvl =? 1 then caller_units st md props                    (* newLvl == 1 is tested first *)
    else
    let '(tr1, md1, rs1) := cleanup_bindings newlvl (st_trail st) md (st_reason st) in
    KLearn (tr1 ++ props)
           (fold_left (fun m l => set_nth (vidx l) (signed_lvl l newlvl) m) props md1)
           (fold_left (fun r l => set_nth_g (vidx l) (Some c) r) props rs1)
           c newlvl
  end.

Definition caller (st : state) : caller_res := caller_of (cutting_planes_full st) st.
Definition caller_old (st : state) : caller_res := caller_of (cutting_planes_old_full st) st.

(* ------------------------------------------------------------------ *)
(* States of the real search: decisions and sound propagation          *)

(* sum of the weights of the literals of c that are not false *)
Fixpoint poss (md : list Z) (ts : list term) : Z :=
  match ts with
  | [] => 0
  | t :: r => (if lit_false md (snd t) then 0 else fst t) + poss md r
  end.

(* c is falsified by the assignment *)
Definition falsified_by (md : list Z) (c : pbc) : bool := poss md (terms c) <? degree c.

(* c forces l: l is a literal of c and without it the degree is out of reach *)
Definition propagates (md : list Z) (c : pbc) (l : lit) : bool :=
  existsb (fun t : term => (snd t =? l) && (poss md (terms c) - fst t <? degree c)) (terms c).

Definition free_lit (md : list Z) (l : lit) : bool :=
  negb (l =? 0) && Nat.ltb (vidx l) (List.length md) && (model_at md l =? 0).

Definition push (md : list Z) (l : lit) (lvl : Z) : list Z := set_nth (vidx l) (signed_lvl l lvl) md.

(* search states over n variables, problem P: (trail, model, reason, lvl).
   Level 1 is the top level (parser_pb.go:96-127, solver.go:127-134: the units of
   the problem are on the trail at level 1 with a nil reason; a learned unit
   likewise, solver.go:482-484); search() starts deciding at level 2. *)
Inductive reach (P : problem) (n : nat)
  : list lit -> list Z -> list (option pbc) -> Z -> Prop :=
| R_init : reach P n [] (repeat 0 n) (repeat None n) 1
| R_unit : forall tr md rs l c, reach P n tr md rs 1 ->
    In c P -> free_lit md l = true -> propagates md c l = true ->
    reach P n (tr ++ [l]) (push md l 1) rs 1
| R_decide : forall tr md rs lvl l, reach P n tr md rs lvl ->
    free_lit md l = true ->
    reach P n (tr ++ [l]) (push md l (lvl + 1)) rs (lvl + 1)
| R_prop : forall tr md rs lvl l c, reach P n tr md rs lvl ->
    In c P -> free_lit md l = true -> propagates md c l = true ->
    reach P n (tr ++ [l]) (push md l lvl) (set_nth_g (vidx l) (Some c) rs) lvl.

(* st is a conflict of the search on P: the state is reachable and the conflict
   constraint is a constraint of P falsified by the assignment *)
Definition conflict_of (P : problem) (st : state) : Prop :=
  reach P (st_n st) (st_trail st) (st_model st) (st_reason st) (st_lvl st) /\
  In (st_confl st) P /\ falsified_by (st_model st) (st_confl st) = true.

(* executable replay of a run: the constraints are given by their index in P *)
Inductive step :=
| StUnit (ci : nat) (l : lit)      (* top-level unit forced by constraint ci *)
| StDecide (l : lit)
| StProp (ci : nat) (l : lit).     (* l propagated by constraint ci *)

Definition sstate := (list lit * list Z * list (option pbc) * Z)%type.

Definition replay_step (P : problem) (s : sstate) (x : step) : option sstate :=
  let '(tr, md, rs, lvl) := s in
  match x with
  | StUnit ci l =>
    match nth_error P ci with
    | Some c => if (lvl =? 1) && free_lit md l && propagates md c l
                then Some (tr ++ [l], push md l 1, rs, 1) else None
    | None => None
    end
  | StDecide l =>
    if free_lit md l then Some (tr ++ [l], push md l (lvl + 1), rs, lvl + 1) else None
  | StProp ci l =>
    match nth_error P ci with
    | Some c => if free_lit md l && propagates md c l
                then Some (tr ++ [l], push md l lvl, set_nth_g (vidx l) (Some c) rs, lvl)
                else None
    | None => None
    end
  end.

Fixpoint replay (P : problem) (s : sstate) (xs : list step) : option sstate :=
  match xs with
  | [] => Some s
  | x :: r => match replay_step P s x with Some s' => replay P s' r | None => None end
  end.

Definition init_sstate (n : nat) : sstate := ([], repeat 0 n, repeat None n, 1).

(* the state in which cuttingPlanes is called after the run xs, when constraint
   number ci is found falsified *)
Definition conflict_state (P : problem) (n : nat) (xs : list step) (ci : nat) : option state :=
  match replay P (init_sstate n) xs, nth_error P ci with
  | Some (tr, md, rs, lvl), Some c =>
    if falsified_by md c then Some (State tr md rs c lvl) else None
  | _, _ => None
  end.

(* Independent direct check of a state: every trail literal is true in the
   model, every reason is a constraint of P and propagates its literal under
   the assignment of the literals that precede it on the trail, the conflict
   constraint is a constraint of P and is falsified. *)
Definition lit_true (md : list Z) (l : lit) : bool :=
  let a := model_at md l in negb (a =? 0) && Bool.eqb (0 <? a) (0 <? l).

Definition term_eqb (a b : term) : bool := (fst a =? fst b) && (snd a =? snd b).
Fixpoint terms_eqb (a b : list term) : bool :=
  match a, b with
  | [], [] => true
  | x :: r, y :: s => term_eqb x y && terms_eqb r s
  | _, _ => false
  end.
Definition pbc_eqb (a b : pbc) : bool := terms_eqb (terms a) (terms b) && (degree a =? degree b).

(* the assignment restricted to the literals of [pre] *)
Definition model_of (n : nat) (md : list Z) (pre : list lit) : list Z :=
  fold_left (fun m l => set_nth (vidx l) (model_at md l) m) pre (repeat 0 n).

Fixpoint reasons_ok (P : problem) (n : nat) (md : list Z) (rs : list (option pbc))
         (pre rest : list lit) : bool :=
  match rest with
  | [] => true
  | l :: r =>
    match reason_at rs l with
    | None => true
    | Some c => existsb (pbc_eqb c) P && propagates (model_of n md pre) c l
    end && reasons_ok P n md rs (pre ++ [l]) r
  end.

Definition state_ok (P : problem) (st : state) : bool :=
  forallb (lit_true (st_model st)) (st_trail st) &&
  reasons_ok P (st_n st) (st_model st) (st_reason st) [] (st_trail st) &&
  existsb (pbc_eqb (st_confl st)) P &&
  falsified_by (st_model st) (st_confl st).

(* the decisions of a state: the trail literals of level >= 2 without reason *)
Definition decisions (st : state) : list lit :=
  filter (fun l => match reason_at (st_reason st) l with
                   | None => 1 <? Z.abs (model_at (st_model st) l)
                   | Some _ => false end) (st_trail st).

(* ------------------------------------------------------------------ *)
(* Side conditions of the soundness theorem (Proofs/CPSearch.v)        *)

(* sum of the weights of the literals of a pbSet that are not falsified *)
Fixpoint nfsum (assign ws : list Z) : Z :=
  match ws with
  | [] => 0
  | w :: r =>
    (if w =? 0 then 0 else if not_falsified (hd 0 assign) w then Z.abs w else 0)
    + nfsum (tl assign) r
  end.

(* the pbSet is falsified by the assignment (negative slack) *)
Definition conflicting (md : list Z) (s : pbset) : bool := nfsum md (fst s) <? snd s.

(* the reason c of literal l, seen as a pbSet over n variables, under the
   assignment md in which l is the last assigned literal: c is well formed,
   l occurs in c, is not false, and c propagated it. *)
Definition reason_okb (n : nat) (md : list Z) (c : pbc) (l : lit) : bool :=
  let s := pbset_of n c in
  let w := nth (vidx l) (fst s) 0 in
  pbc_ok n c && negb (w =? 0) && not_falsified (model_at md l) w &&
  (nfsum md (fst s) - Z.abs w <? snd s).

(* the trail literal l is not false in md (true, or already unassigned) *)
Definition trail_lit_okb (md : list Z) (l : lit) : bool :=
  (model_at md l =? 0) || Bool.eqb (0 <? model_at md l) (0 <? l).

(* over the reversed trail, un-assigning the literals in the order of the walk *)
Fixpoint reasons_wfb (n : nat) (rs : list (option pbc)) (md : list Z) (rt : list lit) : bool :=
  match rt with
  | [] => true
  | l :: r =>
    trail_lit_okb md l &&
    match reason_at rs l with None => true | Some c => reason_okb n md c l end &&
    reasons_wfb n rs (set_nth (vidx l) 0 md) r
  end.

Definition state_wfb (st : state) : bool :=
  pbc_ok (st_n st) (st_confl st) &&
  conflicting (st_model st) (pbset_of (st_n st) (st_confl st)) &&
  reasons_wfb (st_n st) (st_reason st) (st_model st) (rev (st_trail st)).

(* Further conditions, used for the verdict (cp_sound): the trail literals
   are non-zero, on distinct variables, true in the model, with levels that do
   not decrease along the trail; every assigned variable is on the trail; no
   level exceeds lvl. *)
Fixpoint trail_okb (md0 : list Z) (rt : list lit) : bool :=
  match rt with
  | [] => true
  | l :: r =>
    negb (l =? 0) && negb (model_at md0 l =? 0) &&
    Bool.eqb (0 <? model_at md0 l) (0 <? l) &&
    forallb (fun l' => negb (Nat.eqb (vidx l') (vidx l)) &&
                       (Z.abs (model_at md0 l') <=? Z.abs (model_at md0 l))) r &&
    trail_okb md0 r
  end.

Definition assigned_okb (md : list Z) (tr : list lit) : bool :=
  forallb (fun j => (nth j md 0 =? 0) || existsb (fun l => Nat.eqb (vidx l) j) tr)
          (seq 0 (List.length md)).

Definition state_wf2b (st : state) : bool :=
  state_wfb st &&
  trail_okb (st_model st) (rev (st_trail st)) &&
  assigned_okb (st_model st) (st_trail st) &&
  forallb (fun l => Z.abs (model_at (st_model st) l) <=? st_lvl st) (st_trail st).

(* For termination (cp_total): a literal without reason is a top-level literal
   or the first literal of its level (a decision). *)
Fixpoint decisions_okb (rs : list (option pbc)) (md0 : list Z) (rt : list lit) : bool :=
  match rt with
  | [] => true
  | l :: r =>
    match reason_at rs l with
    | Some _ => true
    | None => (Z.abs (model_at md0 l) =? 1) ||
              forallb (fun l' => negb (Z.abs (model_at md0 l') =? Z.abs (model_at md0 l))) r
    end && decisions_okb rs md0 r
  end.

Definition state_wf3b (st : state) : bool :=
  state_wf2b st && decisions_okb (st_reason st) (st_model st) (rev (st_trail st)).
