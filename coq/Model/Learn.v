(* Model/Learn.v -- executable mirror of gophersat's conflict analysis:
   solver/learn.go (addClauseLits, learnClause, minimizeLearned, computeLbd),
   solver/sort.go (sortLiterals), and in solver/solver.go: litStatus (:210),
   cleanupBindings (:294), backtrackData (:369) and the conflict branch of
   propagateAndSearch (:405-439).

   Definitions only; the proofs are in Proofs/Learn.v.

   Representation.
   * A literal is a non-zero DIMACS integer (Spec.Base.lit); its variable is
     [Z.abs l] (Go: Lit.Var()).  The Go arrays indexed by variables ([model],
     [reason], [assumptions], [met], [metLvl]) are total functions on [Z]
     ([of_list] builds one from a list: index i holds variable i+1).
   * A constraint (Go: *Clause, which is a clause, a cardinality constraint
     or a PB constraint) is a [pbc]; learn.go only reads its literals
     (c.Len(), c.Get(i)), that is [c_lits c], in order.  A clause is
     [clause_pbc c].
   * activity bumping/decay (varBumpActivity, clauseBumpActivity, ...) has no
     influence on the result and is not modelled, except that the list of the
     constraints on which learnClause calls clauseBumpActivity(reason)
     (learn.go:70) is recorded in the ghost field [a_used]: these are exactly
     the antecedents that were resolved on. *)
From Coq Require Import List ZArith Lia Bool.
From GS Require Import Spec.Base Spec.PB.
Import ListNotations.
Open Scope Z_scope.

(* ================================================================== *)
(* 1. The part of the solver state learnClause reads                   *)

Record lstate := LState {
  s_trail : list lit;            (* s.trail, oldest first                         *)
  s_model : Z -> Z;              (* s.model[v]: signed decision level, 0 = unbound *)
  s_reason : Z -> option pbc;    (* s.reason[v]: nil for decisions/assumptions/facts *)
  s_assumptions : Z -> bool      (* s.assumptions[v]                               *)
}.

(* helper to write states by hand: index i of the list is variable i+1 *)
Definition of_list {A : Type} (l : list A) (d : A) : Z -> A :=
  fun v => if 1 <=? v then nth (Z.to_nat (v - 1)) l d else d.

Definition lvar (l : lit) : Z := Z.abs l.                 (* Lit.Var()      *)
Definition lneg (l : lit) : lit := - l.                   (* Lit.Negation() *)
Definition c_lits (c : pbc) : list lit := map snd (terms c). (* c.Get(0..Len-1) *)

(* abs(s.model[v]) *)
Definition lvl_of (st : lstate) (v : Z) : Z := Z.abs (s_model st v).

(* solver.go:210-219 litStatus(l) == Unsat / == Sat *)
Definition lit_false (st : lstate) (l : lit) : bool :=
  let a := s_model st (lvar l) in
  negb (a =? 0) && negb (Bool.eqb (0 <? a) (0 <? l)).
Definition lit_true (st : lstate) (l : lit) : bool :=
  let a := s_model st (lvar l) in
  negb (a =? 0) && Bool.eqb (0 <? a) (0 <? l).

(* arr[v] = true *)
Definition bset (f : Z -> bool) (v : Z) : Z -> bool :=
  fun x => if x =? v then true else f x.

(* ================================================================== *)
(* 2. learn.go                                                         *)

(* The local variables of learnClause. [a_lits] is lits[1:] (slot 0 is kept
   for the asserting literal, learn.go:50, and filled at :92).           *)
Record acc := Acc {
  a_met : Z -> bool;       (* met                                          *)
  a_metLvl : Z -> bool;    (* metLvl                                       *)
  a_lits : list lit;       (* lits[1:]                                     *)
  a_nb : nat;              (* nbLvl                                        *)
  a_used : list pbc        (* ghost: reasons resolved on, most recent first;
                              a resolved variable WITHOUT reason (only
                              possible at level 1, see :61-66) is recorded
                              as the unit constraint made of its literal   *)
}.

Definition acc0 : acc := Acc (fun _ => false) (fun _ => false) [] O [].

(* The body of the loop over the literals of a constraint.
   [chk = false]: addClauseLits, learn.go:21-36 (no test of met[v]).
   [chk = true] : the loop over the reason, learn.go:71-87 (if !met[v2]).  *)
Definition add_lit (chk : bool) (st : lstate) (lvl : Z) (a : acc) (l : lit) : acc :=
  let v := lvar l in
  if chk && a_met a v then a                          (* :73 *)
  else if negb (lit_false st l) then a                (* :24-27, :74-76: continue *)
  else
    if lvl_of st v =? lvl                             (* :30, :79 *)
    then Acc (bset (a_met a) v) (bset (a_metLvl a) v) (a_lits a) (S (a_nb a)) (a_used a)
    else Acc (bset (a_met a) v) (a_metLvl a) (a_lits a ++ [l]) (a_nb a) (a_used a).

Definition add_lits (chk : bool) (st : lstate) (lvl : Z) (ls : list lit) (a : acc) : acc :=
  fold_left (add_lit chk st lvl) ls a.

(* addClauseLits, learn.go:18-38 *)
Definition add_clause_lits (st : lstate) (confl : pbc) (lvl : Z) (a : acc) : acc :=
  add_lits false st lvl (c_lits confl) a.

Inductive walk_res :=
| WDone (a : acc)         (* the loop [for nbLvl > 1] was left               *)
| WTop                    (* return nil, -1 (learn.go:65)                    *)
| WPanic.                 (* ptr = -1: Go panics, index out of range         *)

(* learn.go:55-89.  [rt] is s.trail[0..ptr] REVERSED: its head is
   s.trail[ptr].  The two nested loops are one structural recursion on [rt]:
   the inner loop (:56-61) does not touch nbLvl, so testing [nbLvl > 1] again
   before each of its steps gives the same answer as the outer test.      *)
Fixpoint walk (st : lstate) (lvl : Z) (rt : list lit) (a : acc) : walk_res :=
  if (a_nb a <=? 1)%nat then WDone a                  (* :55 for nbLvl > 1 *)
  else
    match rt with
    | [] => WPanic
    | t :: r =>
      let v := lvar t in
      if negb (a_metLvl a v) then                     (* :56 *)
        walk st lvl r
             (if lvl_of st v =? lvl                   (* :57-59 *)
              then Acc (bset (a_met a) v) (a_metLvl a) (a_lits a) (a_nb a) (a_used a)
              else a)                                 (* :60 ptr-- *)
      else if s_assumptions st v then WTop            (* :63-66 *)
      else
        let a1 := Acc (a_met a) (a_metLvl a) (a_lits a) (pred (a_nb a)) (a_used a) in (* :67-68 *)
        match s_reason st v with                      (* :69 *)
        | Some c =>
          let a2 := add_lits true st lvl (c_lits c) a1 in
          walk st lvl r (Acc (a_met a2) (a_metLvl a2) (a_lits a2) (a_nb a2) (c :: a_used a2))
        | None =>
          walk st lvl r (Acc (a_met a1) (a_metLvl a1) (a_lits a1) (a_nb a1)
                             (clause_pbc [t] :: a_used a1))
        end
    end.

(* learn.go:90-95: the FIRST literal of the trail, in trail order, whose
   variable has metLvl set (metLvl is never reset when a variable is
   resolved on).                                                          *)
Fixpoint first_marked (metLvl : Z -> bool) (tr : list lit) : option lit :=
  match tr with
  | [] => None
  | l :: r => if metLvl (lvar l) then Some l else first_marked metLvl r
  end.

(* lits[0] when the scan above finds nothing: Go keeps whatever the buffer
   s.bufLits held (0 the first time, which prints as the literal 1). Cannot
   happen in a state satisfying [Proofs.Learn.state_ok].                  *)
Definition stale_lit : lit := 0.

(* sort.go: Less(i, j) = abs(model[lits[i].Var()]) > abs(model[lits[j].Var()]).
   sort.Sort is not stable in general; up to 12 elements (go1.23
   sort/zsortinterface.go: insertionSort) it is the insertion sort below,
   which is stable.  Every theorem of Proofs/Learn.v is proved for ANY
   sorting function (a permutation whose result is ordered by decreasing
   level: [sort_ok]), and then instantiated with this one.                *)
Fixpoint insert_lit (st : lstate) (x : lit) (l : list lit) : list lit :=
  match l with
  | [] => [x]
  | y :: r => if lvl_of st (lvar y) <? lvl_of st (lvar x) then x :: y :: r
              else y :: insert_lit st x r
  end.

Definition sort_literals (st : lstate) (lits : list lit) : list lit :=
  fold_left (fun sorted x => insert_lit st x sorted) lits [].

(* minimizeLearned, learn.go:112-131: learned[0] is kept; learned[i] is kept
   iff it has no reason or its reason has a literal whose variable is not
   met.  (The in-place compaction learned[sz] = learned[i] only reads
   positions i >= sz.)  ALL the literals of the reason are looked at, also
   those that are not false; the test on the level (:122) is commented out. *)
Definition keep_lit (st : lstate) (met : Z -> bool) (l : lit) : bool :=
  match s_reason st (lvar l) with
  | None => true
  | Some c => existsb (fun x => negb (met (lvar x))) (c_lits c)
  end.

Definition minimize_learned (st : lstate) (met : Z -> bool) (learned : list lit) : list lit :=
  match learned with
  | [] => []           (* not reachable: len(learned) >= 1 *)
  | h :: r => h :: filter (keep_lit st met) r
  end.

(* ghost: the reasons of the literals minimizeLearned removes *)
Definition removed_reasons (st : lstate) (met : Z -> bool) (learned : list lit) : list pbc :=
  flat_map (fun l => if keep_lit st met l then []
                     else match s_reason st (lvar l) with Some c => [c] | None => [] end)
           (tl learned).

Inductive result :=
| LearnedClause (lits : list lit)   (* learned, -1 : at least 2 literals   *)
| LearnedUnit (l : lit)             (* nil, unit                           *)
| TopLevelConflict                  (* nil, -1                             *)
| LearnPanic.                       (* Go panics (index out of range)      *)

(* what learnClause has in lits[0:] at learn.go:98, before minimizeLearned;
   the sorting function is a parameter *)
Definition finish (srt : lstate -> list lit -> list lit) (st : lstate) (a : acc)
  : list lit :=
  let l0 := match first_marked (a_metLvl a) (s_trail st) with      (* :90-95 *)
            | Some l => lneg l
            | None => stale_lit
            end in
  srt st (l0 :: a_lits a).                                         (* :98 *)

Definition analyze (st : lstate) (confl : pbc) (lvl : Z) : walk_res :=
  walk st lvl (rev (s_trail st)) (add_clause_lits st confl lvl acc0).  (* :53-54 *)

Definition learn_clause_gen (srt : lstate -> list lit -> list lit)
           (confl : pbc) (lvl : Z) (st : lstate) : result :=
  match analyze st confl lvl with
  | WPanic => LearnPanic
  | WTop => TopLevelConflict
  | WDone a =>
    let lits := minimize_learned st (a_met a) (finish srt st a) in   (* :99 *)
    match lits with
    | [l] => LearnedUnit l                                           (* :100-103 *)
    | _ => LearnedClause lits                                        (* :104-109 *)
    end
  end.

(* learnClause, learn.go:44-110 *)
Definition learn_clause := learn_clause_gen sort_literals.

(* ghost: the constraints the learned clause was derived from, besides the
   conflict: reasons resolved on, unit facts resolved on, reasons of the
   literals removed by minimizeLearned                                    *)
Definition learn_antecedents_gen (srt : lstate -> list lit -> list lit)
           (confl : pbc) (lvl : Z) (st : lstate) : list pbc :=
  match analyze st confl lvl with
  | WDone a => a_used a ++ removed_reasons st (a_met a) (finish srt st a)
  | _ => []
  end.
Definition learn_antecedents := learn_antecedents_gen sort_literals.

(* computeLbd, learn.go:4-14: 1 + number of changes of level along the clause *)
Fixpoint lbd_from (st : lstate) (cur : Z) (c : list lit) : Z :=
  match c with
  | [] => 0
  | l :: r => let lv := lvl_of st (lvar l) in
              if lv =? cur then lbd_from st cur r else 1 + lbd_from st lv r
  end.
Definition compute_lbd (st : lstate) (c : list lit) : Z :=
  1 + lbd_from st (lvl_of st (lvar (nth 0 c 0))) c.

(* ================================================================== *)
(* 3. solver.go: what is done with the learned clause                   *)

(* backtrackData, solver.go:369-372 *)
Definition backtrack_data (st : lstate) (c : list lit) : Z * lit :=
  (lvl_of st (lvar (nth 1 c 0)), nth 0 c 0).

(* cleanupBindings, solver.go:294-352: the longest prefix of the trail whose
   levels are <= lvl is kept; every variable behind it is unbound and loses
   its reason.                                                            *)
Fixpoint keep_prefix (st : lstate) (lvl : Z) (tr : list lit) : list lit :=
  match tr with
  | [] => []
  | l :: r => if lvl_of st (lvar l) <=? lvl then l :: keep_prefix st lvl r else []
  end.

Definition memv (v : Z) (ls : list lit) : bool := existsb (fun l => lvar l =? v) ls.

Definition cleanup_bindings (st : lstate) (lvl : Z) : lstate :=
  let kept := keep_prefix st lvl (s_trail st) in
  let dropped := skipn (length kept) (s_trail st) in
  LState kept
         (fun v => if memv v dropped then 0 else s_model st v)
         (fun v => if memv v dropped then None else s_reason st v)
         (s_assumptions st).

(* lvlToSignedLvl, watcher.go:269 *)
Definition signed_lvl (l : lit) (lvl : Z) : Z := if 0 <? l then lvl else - lvl.

Inductive outcome :=
| OUnsat                                    (* return s.setUnsat()            *)
| OUnit (st : lstate) (unit : lit)          (* :415-426, before unifyLiteral(unit, 1):
                                               the state after cleanupBindings(1) and
                                               s.model[unit.Var()] = ...; [unit] is then
                                               put on the trail and propagated at level 1 *)
| OJump (st : lstate) (lvl : Z) (l : lit) (learnt : list lit)
                                            (* :428-438: state after cleanupBindings(lvl) and
                                               s.reason[lit.Var()] = learnt; the next turn of
                                               the loop calls unifyLiteral(lit, lvl)          *)
| OPanic.

(* the conflict branch of propagateAndSearch, solver.go:405-439 *)
Definition conflict_step_gen (srt : lstate -> list lit -> list lit)
           (confl : pbc) (lvl : Z) (st : lstate) : outcome :=
  match learn_clause_gen srt confl lvl st with
  | LearnPanic => OPanic
  | TopLevelConflict => OUnsat                                          (* :413 unit == -1 *)
  | LearnedUnit u =>
    if (lvl_of st (lvar u) =? 1) && lit_false st u then OUnsat          (* :413 *)
    else
      let st1 := cleanup_bindings st 1 in                               (* :418 *)
      OUnit (LState (s_trail st1)
                    (fun v => if v =? lvar u then signed_lvl u 1 else s_model st1 v) (* :419-420 *)
                    (s_reason st1) (s_assumptions st1)) u
  | LearnedClause c =>
    let (bl, l) := backtrack_data st c in                               (* :434 *)
    let st1 := cleanup_bindings st bl in                                (* :435 *)
    OJump (LState (s_trail st1) (s_model st1)
                  (fun v => if v =? lvar l then Some (clause_pbc c) else s_reason st1 v) (* :436 *)
                  (s_assumptions st1)) bl l c
  end.
Definition conflict_step := conflict_step_gen sort_literals.

(* unifyLiteral, watcher.go:329-331 (before propagate) *)
Definition unify_literal (st : lstate) (l : lit) (lvl : Z) : lstate :=
  LState (s_trail st ++ [l])
         (fun v => if v =? lvar l then signed_lvl l lvl else s_model st v)
         (s_reason st) (s_assumptions st).

(* ================================================================== *)
(* 4. Variant: minimizeLearned with the test that is commented out at
   learn.go:122 ([&& abs(s.model[lit.Var()]) > 1]) put back.  Used only to
   show why it has to stay out (Proofs.Learn.minimize_gt1_refuted).       *)
Definition keep_lit_gt1 (st : lstate) (met : Z -> bool) (l : lit) : bool :=
  match s_reason st (lvar l) with
  | None => true
  | Some c => existsb (fun x => negb (met (lvar x)) && (1 <? lvl_of st (lvar x))) (c_lits c)
  end.
Definition minimize_learned_gt1 (st : lstate) (met : Z -> bool) (learned : list lit) : list lit :=
  match learned with [] => [] | h :: r => h :: filter (keep_lit_gt1 st met) r end.

(* ================================================================== *)
(* 5. Executable checks of the hypotheses of Proofs/Learn.v, for states
   written by hand: the Go arrays are given as lists (index i = variable
   i+1).  Sound (Proofs.Learn.state_okb_sound, confl_okb_sound), not
   complete (a reason must force its literal by the slack argument).     *)

Definition mk_state (trail : list lit) (ml : list Z) (rl : list (option pbc))
           (al : list bool) : lstate :=
  LState trail (of_list ml 0) (of_list rl None) (of_list al false).

Definition memz_l (x : Z) (l : list Z) : bool := existsb (Z.eqb x) l.

Fixpoint nodupb (l : list Z) : bool :=
  match l with [] => true | x :: r => negb (memz_l x r) && nodupb r end.

Fixpoint wsum (ts : list term) : Z :=
  match ts with [] => 0 | t :: r => fst t + wsum r end.

Definition nonneg_w (c : pbc) : bool := forallb (fun t => 0 <=? fst t) (terms c).
Definition nonzero_lits (c : pbc) : bool := forallb (fun x => negb (x =? 0)) (c_lits c).

(* c propagates l once the literals whose negations are in [pre] are false:
   without l, the terms that are left cannot reach the degree             *)
Definition pb_reason_chk (pre : list lit) (l : lit) (c : pbc) : bool :=
  nonneg_w c && nonzero_lits c &&
  memz_l l (c_lits c) && negb (memz_l (- l) pre) &&
  (wsum (filter (fun t => negb (memz_l (- snd t) pre) && negb (snd t =? l)) (terms c))
   <? degree c).

Fixpoint trail_chk (st : lstate) (pre tr : list lit) : bool :=
  match tr with
  | [] => true
  | l :: r =>
    forallb (fun l' => lvl_of st (lvar l') <=? lvl_of st (lvar l)) pre &&
    match s_reason st (lvar l) with
    | None => true
    | Some c => pb_reason_chk pre l c
    end &&
    trail_chk st (pre ++ [l]) r
  end.

Definition state_okb (trail : list lit) (ml : list Z) (rl : list (option pbc))
           (al : list bool) (lvl : Z) : bool :=
  let st := mk_state trail ml rl al in
  forallb (fun l => negb (l =? 0)) trail &&
  nodupb (map lvar trail) &&
  forallb (lit_true st) trail &&
  forallb (fun i => let v := Z.of_nat (S i) in
                    (s_model st v =? 0) || memz_l v (map lvar trail))
          (seq 0 (length ml)) &&
  forallb (fun l => lvl_of st (lvar l) <=? lvl) trail &&
  trail_chk st [] trail.

(* the conflict: the terms that are not false cannot reach the degree *)
Definition confl_okb (st : lstate) (lvl : Z) (confl : pbc) : bool :=
  nonneg_w confl && nonzero_lits confl &&
  nodupb (map lvar (filter (lit_false st) (c_lits confl))) &&
  existsb (fun x => lit_false st x && (lvl_of st (lvar x) =? lvl)) (c_lits confl) &&
  (wsum (filter (fun t => negb (lit_false st (snd t))) (terms confl)) <? degree confl).

(* every reason on the trail is a clause, and so is the conflict *)
Definition is_clause (c : pbc) : bool :=
  forallb (fun t => fst t =? 1) (terms c) && (degree c =? 1).
Definition all_clausesb (st : lstate) (confl : pbc) : bool :=
  is_clause confl && forallb (lit_false st) (c_lits confl) &&
  forallb (fun l => match s_reason st (lvar l) with None => true | Some c => is_clause c end)
          (s_trail st).
