(* Model/Heap.v -- executable mirror of gophersat's decision heap:
   solver/queue.go (type queue, newQueue, lt, left/right/parent, percolateUp,
   percolateDown, empty, contains, decrease, insert, removeMin, build) and of
   its users in solver/solver.go: chooseLit (:259-271), varBumpActivity
   (:234-236), the re-insertion loop of cleanupBindings (:294-335) and
   rebuildOrderHeap (:374-382).

   Definitions only; the proofs are in Proofs/Heap.v.

   Representation.
   * Go slices are lists.  An index that is out of range makes the Go program
     panic: here the function returns [Crash].  Loops that are not a plain
     [range] take a [fuel : nat] and return [OutOfFuel] when it is used up
     (Proofs/Heap.v shows that neither happens on a well-formed heap).
   * A variable (Go: Var, an int32 >= 0 used as an index) and a position in
     [content] are [nat]; the values held by [indices] are [Z] because the
     code stores -1 for "absent" (queue.go:30).  Reading a position out of
     [indices] therefore goes through [to_pos], which crashes on a negative
     value exactly as [q.content[-1]] does.
   * [q.activity] is the solver's own slice ("not a copy", queue.go:28): the
     heap only reads it, the solver changes it behind the heap's back
     (varBumpActivity).  It is therefore not a field of [queue] here but an
     argument [act : list Z] of every function that compares two keys.
     Activities are integers instead of float64: only the order matters
     ([lt], queue.go:42), ties are possible, and [>] is irreflexive as for
     floats.
   * The field is called [content] in queue.go (not [heap]).            *)
From Coq Require Import List ZArith Bool.
Import ListNotations.

(* ================================================================== *)
(* 0. Outcomes and slice accesses                                      *)

Inductive res (A : Type) : Type :=
| Ok (a : A)
| Crash                 (* Go: panic, index out of range                 *)
| OutOfFuel.            (* artefact of the model: the fuel was too small *)
Arguments Ok {A} a.
Arguments Crash {A}.
Arguments OutOfFuel {A}.

Definition bind {A B : Type} (r : res A) (f : A -> res B) : res B :=
  match r with Ok a => f a | Crash => Crash | OutOfFuel => OutOfFuel end.

Notation "'do' x <- r ; k" := (bind r (fun x => k))
  (at level 200, x pattern, r at level 100, k at level 200, right associativity).

(* l[i] *)
Definition get {A : Type} (l : list A) (i : nat) : res A :=
  match nth_error l i with Some a => Ok a | None => Crash end.

(* l with position i overwritten (unchanged when i is out of range) *)
Fixpoint put {A : Type} (l : list A) (i : nat) (a : A) : list A :=
  match l, i with
  | [], _ => []
  | _ :: t, O => a :: t
  | h :: t, S i' => h :: put t i' a
  end.

(* l[i] = a *)
Definition upd {A : Type} (l : list A) (i : nat) (a : A) : res (list A) :=
  if (i <? length l)%nat then Ok (put l i a) else Crash.

(* using a value read from [indices] as a position: content[-1] panics *)
Definition to_pos (z : Z) : res nat :=
  if (z <? 0)%Z then Crash else Ok (Z.to_nat z).

(* ================================================================== *)
(* 1. solver/queue.go                                                  *)

(* queue.go:27-31 (without [activity], see above) *)
Record queue := Q {
  content : list nat;     (* q.content: the binary heap, root at 0       *)
  indices : list Z        (* q.indices[v]: position of v in content, -1 = absent *)
}.

(* queue.go:42-44  lt(i, j) = q.activity[i] > q.activity[j] *)
Definition q_lt (act : list Z) (i j : nat) : res bool :=
  do a <- get act i;
  do b <- get act j;
  Ok (b <? a)%Z.

(* queue.go:47-49.  Positions are [nat] here; Proofs/Heap.v ties these to the
   generated translations Gen.GoTypes.go_left / go_right / go_parent.
   parent(0) is -1 in Go and 0 here: percolateUp computes it but never uses
   it, because [i != 0] is tested first (queue.go:54).                   *)
Definition h_left (i : nat) : nat := i * 2 + 1.
Definition h_right (i : nat) : nat := (i + 1) * 2.
Definition h_parent (i : nat) : nat := Nat.div2 (i - 1).

(* queue.go:54-59, the loop of percolateUp.  The Go loop carries [p] with
   the invariant p = parent(i); it is recomputed here.  Result: the slices
   and the final [i].                                                    *)
Fixpoint up_loop (act : list Z) (fuel : nat) (c : list nat) (ix : list Z)
         (x i : nat) : res (list nat * list Z * nat) :=
  match fuel with
  | O => OutOfFuel
  | S f =>
    if (i =? 0)%nat then Ok (c, ix, i) else              (* :54 i != 0 &&      *)
    let p := h_parent i in
    do cp <- get c p;                                    (* :54 q.content[p]   *)
    do b <- q_lt act x cp;                                 (* :54 q.lt(x, ...)   *)
    if negb b then Ok (c, ix, i) else
    do c1 <- upd c i cp;                                 (* :55 content[i] = content[p] *)
    do cp1 <- get c1 p;                                  (* :56 indices[content[p]] = i *)
    do ix1 <- upd ix cp1 (Z.of_nat i);
    up_loop act f c1 ix1 x p                             (* :57-58 i = p; p = parent(p) *)
  end.

(* queue.go:51-62 *)
Definition percolate_up (act : list Z) (q : queue) (i : nat) : res queue :=
  do x <- get (content q) i;                             (* :52 *)
  do r <- up_loop act (S i) (content q) (indices q) x i;
  let '(c, ix, i') := r in
  do c2 <- upd c i' x;                                   (* :60 *)
  do ix2 <- upd ix x (Z.of_nat i');                      (* :61 *)
  Ok (Q c2 ix2).

(* queue.go:67-72  the child with the larger activity (the left one on a tie
   or when there is no right child); only called when left(i) < len(content) *)
Definition pick_child (act : list Z) (c : list nat) (i : nat) : res nat :=
  if (h_right i <? length c)%nat then                          (* :68 *)
    do cr <- get c (h_right i);
    do cl <- get c (h_left i);
    do b <- q_lt act cr cl;
    Ok (if b then h_right i else h_left i)                     (* :69, :71 *)
  else Ok (h_left i).                                          (* :71 *)

(* queue.go:66-79, the loop of percolateDown *)
Fixpoint down_loop (act : list Z) (fuel : nat) (c : list nat) (ix : list Z)
         (x i : nat) : res (list nat * list Z * nat) :=
  match fuel with
  | O => OutOfFuel
  | S f =>
    if negb (h_left i <? length c)%nat then Ok (c, ix, i) else   (* :66 *)
    do child <- pick_child act c i;                            (* :67-72 *)
    do cc <- get c child;
    do b <- q_lt act cc x;                                     (* :73 *)
    if negb b then Ok (c, ix, i) else                          (* :74 break *)
    do c1 <- upd c i cc;                                       (* :76 *)
    do ci <- get c1 i;                                         (* :77 indices[content[i]] = i *)
    do ix1 <- upd ix ci (Z.of_nat i);
    down_loop act f c1 ix1 x child                             (* :78 *)
  end.

(* queue.go:64-82 *)
Definition percolate_down (act : list Z) (q : queue) (i : nat) : res queue :=
  do x <- get (content q) i;                             (* :65 *)
  do r <- down_loop act (length (content q)) (content q) (indices q) x i;
  let '(c, ix, i') := r in
  do c2 <- upd c i' x;                                   (* :80 *)
  do ix2 <- upd ix x (Z.of_nat i');                      (* :81 *)
  Ok (Q c2 ix2).

(* queue.go:84 *)
Definition empty (q : queue) : bool := (length (content q) =? 0)%nat.

(* queue.go:86-88  n < len(q.indices) && q.indices[n] >= 0 *)
Definition contains (q : queue) (n : nat) : bool :=
  (n <? length (indices q))%nat && (0 <=? nth n (indices q) (-1))%Z.

(* queue.go:90-92 *)
Definition decrease (act : list Z) (q : queue) (n : nat) : res queue :=
  do z <- get (indices q) n;
  do i <- to_pos z;
  percolate_up act q i.

(* queue.go:95-97: append -1 until len(indices) > n *)
Definition grow (ix : list Z) (n : nat) : list Z :=
  ix ++ repeat (-1)%Z (S n - length ix).

(* queue.go:94-101 *)
Definition insert (act : list Z) (q : queue) (n : nat) : res queue :=
  let ix0 := grow (indices q) n in                       (* :95-97 *)
  do ix1 <- upd ix0 n (Z.of_nat (length (content q)));   (* :98 *)
  let c1 := content q ++ [n] in                          (* :99 *)
  do z <- get ix1 n;                                     (* :100 *)
  do i <- to_pos z;
  percolate_up act (Q c1 ix1) i.

(* queue.go:103-113; returns the new queue and the removed element *)
Definition remove_min (act : list Z) (q : queue) : res (queue * nat) :=
  let c := content q in
  do x <- get c 0;                                       (* :104 *)
  do last <- get c (length c - 1);                       (* :105 *)
  do c1 <- upd c 0 last;
  do c0 <- get c1 0;                                     (* :106 indices[content[0]] = 0 *)
  do ix1 <- upd (indices q) c0 0%Z;
  do ix2 <- upd ix1 x (-1)%Z;                            (* :107 *)
  let c2 := firstn (length c1 - 1) c1 in                 (* :108 *)
  do q' <- (if (1 <? length c2)%nat                      (* :109-111 *)
            then percolate_down act (Q c2 ix2) 0
            else Ok (Q c2 ix2));
  Ok (q', x).                                            (* :112 *)

(* queue.go:117-119  for i := range q.content { q.indices[q.content[i]] = -1 } *)
Fixpoint clear_ix (c : list nat) (ix : list Z) : res (list Z) :=
  match c with
  | [] => Ok ix
  | v :: c' => do ix1 <- upd ix v (-1)%Z; clear_ix c' ix1
  end.

(* queue.go:121-124  for i, val := range ns { indices[val] = i; content = append(content, val) }
   [i] = number of elements already appended *)
Fixpoint fill_ix (ns : list nat) (i : nat) (ix : list Z) : res (list Z) :=
  match ns with
  | [] => Ok ix
  | v :: ns' => do ix1 <- upd ix v (Z.of_nat i); fill_ix ns' (S i) ix1
  end.

(* queue.go:125-127  for i := len/2 - 1; i >= 0; i-- { percolateDown(i) };
   [k] = i + 1 *)
Fixpoint build_down (act : list Z) (k : nat) (q : queue) : res queue :=
  match k with
  | O => Ok q
  | S i => do q1 <- percolate_down act q i; build_down act i q1
  end.

(* queue.go:116-128 *)
Definition build (act : list Z) (q : queue) (ns : list nat) : res queue :=
  do ix1 <- clear_ix (content q) (indices q);            (* :117-119 *)
  do ix2 <- fill_ix ns 0 ix1;                            (* :120-124; content = ns *)
  build_down act (Nat.div2 (length ns)) (Q ns ix2).      (* :125-127 *)

(* queue.go:32-40  insert 0, 1, ..., len(activity)-1 into the empty queue *)
Fixpoint insert_all (act : list Z) (vs : list nat) (q : queue) : res queue :=
  match vs with
  | [] => Ok q
  | v :: vs' => do q1 <- insert act q v; insert_all act vs' q1
  end.

Definition new_queue (act : list Z) : res queue :=
  insert_all act (seq 0 (length act)) (Q [] []).

(* ================================================================== *)
(* 2. The users in solver/solver.go                                    *)
(* [model] is s.model, indexed by Var: 0 = unbound, otherwise the signed
   decision level.  [polarity] is s.polarity.                            *)

(* types.go:80-85  Var.SignedLit(signed) *)
Definition signed_lit (v : nat) (signed : bool) : Z :=
  if signed then (Z.of_nat v * 2 + 1)%Z else (Z.of_nat v * 2)%Z.

(* solver.go:260-266  the loop of chooseLit; [None] is v == -1 *)
Fixpoint choose_loop (act : list Z) (fuel : nat) (q : queue) (model : list Z)
  : res (queue * option nat) :=
  match fuel with
  | O => OutOfFuel
  | S f =>
    if empty q then Ok (q, None) else                    (* :261 *)
    do r <- remove_min act q;                            (* :262 *)
    let '(q1, v2) := r in
    do m <- get model v2;                                (* :262 s.model[v2] == 0 *)
    if (m =? 0)%Z then Ok (q1, Some v2)                  (* :263 *)
    else choose_loop act f q1 model                      (* bound: dropped *)
  end.

(* solver.go:259-271; the result is the Lit (internal encoding), -1 for none.
   s.Stats.NbDecisions++ is not modelled.                                *)
Definition choose_lit (act : list Z) (q : queue) (model : list Z)
           (polarity : list bool) : res (queue * Z) :=
  do r <- choose_loop act (S (length (content q))) q model;
  let '(q1, ov) := r in
  match ov with
  | None => Ok (q1, (-1)%Z)                              (* :267-269 *)
  | Some v => do p <- get polarity v;
              Ok (q1, signed_lit v (negb p))             (* :271 *)
  end.

(* solver.go:234-236, the end of varBumpActivity(v); [act] is the activity
   slice AFTER s.activity[v] += s.varInc (and the possible rescaling)     *)
Definition var_bump (act : list Z) (q : queue) (v : nat) : res queue :=
  if contains q v then decrease act q v else Ok q.

(* solver.go:315-329, the loop of cleanupBindings over s.trail[i:], of which
   only the variables [vs] matter here (the reset of s.reason is not modelled,
   s.polarity is updated by [save_polarity] in [hstep] below).  [ti] is toInsert. *)
Fixpoint cleanup_loop (act : list Z) (vs : list nat) (q : queue) (model : list Z)
         (ti : list nat) : res (queue * list Z * list nat) :=
  match vs with
  | [] => Ok (q, model, ti)
  | v :: vs' =>
    do model1 <- upd model v 0%Z;                        (* :318 s.model[v] = 0 *)
    if negb (contains q v) then                          (* :324 *)
      do q1 <- insert act q v;                           (* :325-326 *)
      cleanup_loop act vs' q1 model1 (ti ++ [v])
    else cleanup_loop act vs' q model1 ti
  end.

(* solver.go:331-333  for i := len(toInsert)-1; i >= 0; i-- { insert(toInsert[i]) }:
   every variable just inserted is inserted A SECOND TIME *)
Definition cleanup_bindings (act : list Z) (vs : list nat) (q : queue) (model : list Z)
  : res (queue * list Z) :=
  do r <- cleanup_loop act vs q model [];
  let '(q1, model1, ti) := r in
  do q2 <- insert_all act (rev ti) q1;
  Ok (q2, model1).

(* solver.go:375-380  ints := make([]int, s.nbVars) -- nbVars ZEROES -- and
   then append(ints, v) for every unbound v: the slice handed to build is
   0, ..., 0 (nbVars times) followed by the unbound variables               *)
Fixpoint unbound_from (model : list Z) (v n : nat) : res (list nat) :=
  match n with
  | O => Ok []
  | S n' =>
    do m <- get model v;                                 (* :377 s.model[v] == 0 *)
    do r <- unbound_from model (S v) n';
    Ok (if (m =? 0)%Z then v :: r else r)
  end.

(* solver.go:374-382 *)
Definition rebuild_order_heap (act : list Z) (q : queue) (model : list Z) (nbVars : nat)
  : res queue :=
  do us <- unbound_from model 0 nbVars;
  build act q (repeat 0 nbVars ++ us).                   (* :381 *)

(* ================================================================== *)
(* 3. The heap as the search loop drives it                            *)
(* The part of the solver state the heap depends on, and the five things
   the search loop (solver.go:386-442, :445-530) does to it, in any order. *)

Record hstate := HS {
  h_act : list Z;          (* s.activity *)
  h_q : queue;             (* s.varQueue *)
  h_model : list Z;        (* s.model    *)
  h_pol : list bool        (* s.polarity *)
}.

Inductive hop :=
| OChoose (lvl : Z)                  (* lit = s.chooseLit(); when lit != -1, unifyLiteral(lit, lvl)
                                        binds its variable: s.model[lit.Var()] = +-lvl (watcher.go:348) *)
| OBind (v : nat) (lvl : Z)          (* propagation (or addLearnedUnit) binds v at level lvl *)
| OBump (act' : list Z) (v : nat)    (* varBumpActivity(v); act' is s.activity afterwards *)
| OCleanup (ls : list Z)             (* cleanupBindings un-binds the literals ls = s.trail[i:] *)
| ORebuild.                          (* rebuildOrderHeap() *)

(* types.go:88-90  Lit.Var() = Var(l / 2) *)
Definition lit_var (l : Z) : nat := Z.to_nat (Z.quot l 2).

(* types.go:103-105  Lit.IsPositive() = l%2 == 0 *)
Definition lit_positive (l : Z) : bool := (Z.rem l 2 =? 0)%Z.

(* solver.go:324  s.polarity[v] = lit2.IsPositive(), for every lit2 of s.trail[i:]
   (resetOptimPolarity, :334, only concerns optimisation problems and is not modelled) *)
Definition save_polarity (pol : list bool) (ls : list Z) : list bool :=
  fold_left (fun p l => put p (lit_var l) (lit_positive l)) ls pol.

(* the new state and, for OChoose, the literal returned by chooseLit *)
Definition hstep (s : hstate) (o : hop) : res (hstate * option Z) :=
  match o with
  | OChoose lvl =>
    do r <- choose_lit (h_act s) (h_q s) (h_model s) (h_pol s);
    let '(q1, l) := r in
    if (l =? -1)%Z then Ok (HS (h_act s) q1 (h_model s) (h_pol s), Some l)
    else do m1 <- upd (h_model s) (lit_var l) lvl;
         Ok (HS (h_act s) q1 m1 (h_pol s), Some l)
  | OBind v lvl =>
    do m1 <- upd (h_model s) v lvl;
    Ok (HS (h_act s) (h_q s) m1 (h_pol s), None)
  | OBump act' v =>
    do q1 <- var_bump act' (h_q s) v;
    Ok (HS act' q1 (h_model s) (h_pol s), None)
  | OCleanup ls =>
    do r <- cleanup_bindings (h_act s) (map lit_var ls) (h_q s) (h_model s);
    let '(q1, m1) := r in
    Ok (HS (h_act s) q1 m1 (save_polarity (h_pol s) ls), None)
  | ORebuild =>
    do q1 <- rebuild_order_heap (h_act s) (h_q s) (h_model s) (length (h_model s));
    Ok (HS (h_act s) q1 (h_model s) (h_pol s), None)
  end.

(* a sequence of operations; the log lists the literals chosen, in order *)
Fixpoint hrun (s : hstate) (ops : list hop) : res (hstate * list Z) :=
  match ops with
  | [] => Ok (s, [])
  | o :: ops' =>
    do r <- hstep s o;
    let '(s1, ol) := r in
    do r2 <- hrun s1 ops';
    let '(s2, log) := r2 in
    Ok (s2, match ol with Some l => l :: log | None => log end)
  end.

(* solver.go:104-126 (New): activity given, every variable unbound *)
Definition hinit (act : list Z) (pol : list bool) : res hstate :=
  do q <- new_queue act;
  Ok (HS act q (repeat 0%Z (length act)) pol).
