(* Model of the OUTPUT GLUE of gophersat's command line tool (/repo/main.go):
   decimal printing/reading, the "v" lines, the rendering of a stream of
   solver.Result into competition-format lines, the flag/suffix decision tree
   of main(), and a strict reader of the tool's standard output ([read_answer])
   meant to be extracted and run on the REAL tool's stdout by a judge.

   Definitions only (CONVENTIONS.md).  Everything is executable and total.
   Strings are Coq [string]; a line never contains its newline.

   Modelling choices (all documented where they occur):
   - stdout is a [list string] of lines; [unlines]/[lines_of] relate it to the
     byte stream (split on LF, one trailing empty piece dropped).
   - verbose "c ..." lines are OMITTED from the render functions; Proofs/Cli.v
     proves that [read_answer] ignores comment lines wherever they occur, which
     covers every interleaving of verbose lines.
   - the RUP certificate printed on stdout by -certified (watcher.go:249,261,
     solver.go:526) is NOT rendered (see Proofs/Cli.v, certified_stdout_refuted).
   - stderr, exit codes, help text and the -mus output are not rendered.      *)
From Coq Require Import List ZArith Bool NArith String Ascii.
Import ListNotations.
Open Scope string_scope.
Open Scope Z_scope.

(* ------------------------------------------------------------------ *)
(* 0. Characters, splitting.                                           *)

Definition sp : ascii := " "%char.
Definition nl : ascii := "010"%char.

Definition is_empty (s : string) : bool :=
  match s with EmptyString => true | String _ _ => false end.

(* Raw split of [s] on the separator [sep]: always a non-empty list, pieces may
   be empty ("a  b" gives ["a"; ""; "b"]).  Structural recursion. *)
Fixpoint split_on (sep : ascii) (s : string) : list string :=
  match s with
  | EmptyString => [EmptyString]
  | String c r =>
    if Ascii.eqb c sep then EmptyString :: split_on sep r
    else match split_on sep r with
         | [] => [String c EmptyString]          (* never happens *)
         | t :: ts => String c t :: ts
         end
  end.

Definition split_sp (s : string) : list string := split_on sp s.

(* Tokens: split on single spaces, drop empty pieces (tolerates the trailing
   space of the optimisation "v" line and runs of spaces). *)
Definition tokens (s : string) : list string :=
  filter (fun t => negb (is_empty t)) (split_sp s).

(* stdout as a byte stream: every line is followed by LF (fmt.Println). *)
Fixpoint unlines (ls : list string) : string :=
  match ls with
  | [] => EmptyString
  | l :: r => (l ++ String nl (unlines r))%string
  end.

Fixpoint drop_last_empty (l : list string) : list string :=
  match l with
  | [] => []
  | t :: r =>
    match r with
    | [] => if is_empty t then [] else [t]
    | _ :: _ => t :: drop_last_empty r
    end
  end.

Definition lines_of (s : string) : list string := drop_last_empty (split_on nl s).

(* [strip_prefix p s] = Some r iff s = p ++ r. *)
Fixpoint strip_prefix (p s : string) : option string :=
  match p with
  | EmptyString => Some s
  | String c p' =>
    match s with
    | EmptyString => None
    | String d s' => if Ascii.eqb c d then strip_prefix p' s' else None
    end
  end.

(* [strip_suffix suf s] = Some r iff s = r ++ suf. *)
Fixpoint strip_suffix (suf s : string) : option string :=
  if String.eqb s suf then Some EmptyString
  else match s with
       | EmptyString => None
       | String c r => option_map (String c) (strip_suffix suf r)
       end.

Fixpoint drop (n : nat) (s : string) : string :=
  match n with
  | O => s
  | S k => match s with EmptyString => EmptyString | String _ r => drop k r end
  end.

(* strings.HasSuffix(s, suffix): len(s) >= len(suffix) &&
   s[len(s)-len(suffix):] == suffix.  Argument order as in Go. *)
Definition has_suffix (s suffix : string) : bool :=
  (String.length suffix <=? String.length s)%nat &&
  String.eqb (drop (String.length s - String.length suffix) s) suffix.

(* ------------------------------------------------------------------ *)
(* 1. Decimal printer and reader (Go's %d).                            *)

Definition digit_of_nat (k : nat) : ascii :=
  match k with
  | 0%nat => "0" | 1%nat => "1" | 2%nat => "2" | 3%nat => "3" | 4%nat => "4"
  | 5%nat => "5" | 6%nat => "6" | 7%nat => "7" | 8%nat => "8" | _ => "9"
  end%char.

Definition digit_val (c : ascii) : option Z :=
  match c with
  | "0" => Some 0 | "1" => Some 1 | "2" => Some 2 | "3" => Some 3 | "4" => Some 4
  | "5" => Some 5 | "6" => Some 6 | "7" => Some 7 | "8" => Some 8 | "9" => Some 9
  | _ => None
  end%char.

(* Pushes the decimal digits of n >= 0 in front of acc, least significant
   first.  Out of fuel: returns what has been accumulated. *)
Fixpoint digits_fuel (fuel : nat) (n : Z) (acc : string) : string :=
  match fuel with
  | O => acc
  | S f =>
    let acc' := String (digit_of_nat (Z.to_nat (n mod 10))) acc in
    if n <? 10 then acc' else digits_fuel f (n / 10) acc'
  end.

(* Decimal representation of n >= 0 ("0" for 0, no leading zeros).  A number
   below 2^k has at most k decimal digits, so log2 n + 1 is enough fuel. *)
Definition print_nat (n : Z) : string :=
  digits_fuel (S (Z.to_nat (Z.log2 n))) n EmptyString.

Definition print_Z (z : Z) : string :=
  if z <? 0 then String "-"%char (print_nat (- z)) else print_nat z.

Fixpoint read_digits (s : string) (acc : Z) : option Z :=
  match s with
  | EmptyString => Some acc
  | String c r =>
    match digit_val c with
    | Some d => read_digits r (10 * acc + d)
    | None => None
    end
  end.

(* Canonical unsigned decimal: at least one digit, only digits, no leading
   zero except for "0" itself.  ("007" and "" are rejected.) *)
Definition read_nat (s : string) : option Z :=
  match s with
  | EmptyString => None
  | String c r =>
    if Ascii.eqb c "0"%char && negb (is_empty r) then None else read_digits s 0
  end.

(* Canonical signed decimal = exactly the image of print_Z: optional "-" then
   a canonical unsigned decimal; "-0", "+1", "01", "-", "" are rejected. *)
Definition read_Z (s : string) : option Z :=
  match s with
  | EmptyString => None
  | String c r =>
    if Ascii.eqb c "-"%char then
      match read_nat r with
      | Some n => if n =? 0 then None else Some (- n)
      | None => None
      end
    else read_nat s
  end.

(* ------------------------------------------------------------------ *)
(* 2. solver.Result (interface.go:8-12), solver.Status (types.go:9-14). *)

Inductive status := Indet | Sat | Unsat.     (* Indet = 0, Sat = 1, Unsat = 2 *)

Definition status_eqb (a b : status) : bool :=
  match a, b with
  | Indet, Indet | Sat, Sat | Unsat, Unsat => true
  | _, _ => false
  end.

Record result := MkResult { r_status : status; r_model : list bool; r_weight : Z }.

(* Go zero value of solver.Result (var res solver.Result). *)
Definition zero_result : result :=
  {| r_status := Indet; r_model := []; r_weight := 0 |}.

(* ------------------------------------------------------------------ *)
(* 3. The "v" lines.                                                   *)

(* every token followed by one space: fmt.Printf("%d ", val) in a loop *)
Fixpoint concat_sp (ts : list string) : string :=
  match ts with
  | [] => EmptyString
  | t :: r => (t ++ String sp (concat_sp r))%string
  end.

(* main.go:226-232: val := i+1; if !res.Model[i] { val = -i-1 }.  [k] = i+1. *)
Fixpoint lit_tokens (k : Z) (m : list bool) : list string :=
  match m with
  | [] => []
  | b :: r => print_Z (if b then k else - k) :: lit_tokens (k + 1) r
  end.

(* main.go:225-233: "v " then "%d " for every variable then "0".
   print_v [true;false;true] = "v 1 -2 3 0", print_v [] = "v 0". *)
Definition print_v (m : list bool) : string :=
  ("v " ++ concat_sp (lit_tokens 1 m) ++ "0")%string.

(* main.go:253-261: "x%d" or "-x%d" then "%s " *)
Fixpoint x_tokens (k : Z) (m : list bool) : list string :=
  match m with
  | [] => []
  | b :: r => ((if b then "x" else "-x") ++ print_Z k)%string :: x_tokens (k + 1) r
  end.

(* main.go:252-262: "v " then every "x<i> " / "-x<i> "; NO terminating 0, and
   a trailing space.  print_vx [true;false] = "v x1 -x2 ", print_vx [] = "v ". *)
Definition print_vx (m : list bool) : string :=
  ("v " ++ concat_sp (x_tokens 1 m))%string.

(* solver.go:186-206 method OutputModel of Solver -- NOT used by main.go.  Mirrored as
   it is: the "v" line has NO terminating 0 ("v 1 -2 "), and the third status
   line is "s INDETERMINATE" (not the conventional "s UNKNOWN").
   [st] = s.status, [has_last] = (s.lastModel != nil), [m] = the sign pattern of
   the model that gets printed (a value < 0 prints negative; solver.go:194). *)
Definition output_model_v (m : list bool) : string :=
  ("v " ++ concat_sp (lit_tokens 1 m))%string.

Definition print_output_model (st : status) (has_last : bool) (m : list bool)
  : list string :=
  if status_eqb st Sat || has_last then ["s SATISFIABLE"; output_model_v m]
  else if status_eqb st Unsat then ["s UNSATISFIABLE"]
  else ["s INDETERMINATE"].

(* ------------------------------------------------------------------ *)
(* 4. Strict readers of the two "v" formats.                           *)

(* ts = remaining tokens, k = the variable expected next.  The LAST token must
   be exactly "0"; every other token must be the canonical decimal of k or -k. *)
Fixpoint read_lits (k : Z) (ts : list string) : option (list bool) :=
  match ts with
  | [] => None                                   (* missing terminator *)
  | t :: rest =>
    match rest with
    | [] => if String.eqb t "0" then Some [] else None
    | _ :: _ =>
      match read_Z t with
      | Some z =>
        if z =? k then option_map (cons true) (read_lits (k + 1) rest)
        else if z =? - k then option_map (cons false) (read_lits (k + 1) rest)
        else None
      | None => None
      end
    end
  end.

Definition read_v (s : string) : option (list bool) :=
  match tokens s with
  | t :: rest => if String.eqb t "v" then read_lits 1 rest else None
  | [] => None
  end.

(* "x<k>" -> (true, k); "-x<k>" -> (false, k); k a canonical unsigned decimal *)
Definition read_xtok (t : string) : option (bool * Z) :=
  match t with
  | EmptyString => None
  | String c r =>
    if Ascii.eqb c "x"%char then option_map (pair true) (read_nat r)
    else if Ascii.eqb c "-"%char then
      match r with
      | EmptyString => None
      | String c2 r2 =>
        if Ascii.eqb c2 "x"%char then option_map (pair false) (read_nat r2) else None
      end
    else None
  end.

Fixpoint read_xlits (k : Z) (ts : list string) : option (list bool) :=
  match ts with
  | [] => Some []
  | t :: rest =>
    match read_xtok t with
    | Some (b, z) =>
      if z =? k then option_map (cons b) (read_xlits (k + 1) rest) else None
    | None => None
    end
  end.

Definition read_vx (s : string) : option (list bool) :=
  match tokens s with
  | t :: rest => if String.eqb t "v" then read_xlits 1 rest else None
  | [] => None
  end.

(* ------------------------------------------------------------------ *)
(* 5. Rendering.  The argument [stream] is everything received from the
      results channel until it is closed.                               *)

Definition last_result (stream : list result) : result := List.last stream zero_result.

(* main.go:216-237 printDecisionResults: `for res = range results {}` keeps the
   last result, or the zero value (Indet) when nothing was sent. *)
Definition render_decision (stream : list result) : list string :=
  let res := last_result stream in
  match r_status res with
  | Unsat => ["s UNSATISFIABLE"]                             (* main.go:222 *)
  | Sat => ["s SATISFIABLE"; print_v (r_model res)]          (* main.go:224-233 *)
  | Indet => ["s UNKNOWN"]                                   (* main.go:235 *)
  end.

Definition is_sat_result (r : result) : bool := status_eqb (r_status r) Sat.

Definition o_line (w : Z) : string := ("o " ++ print_Z w)%string.

(* main.go:240-266 printOptimizationResults: an "o" line for every result whose
   status is Sat, in stream order; then the status of the LAST result. *)
Definition render_optim (stream : list result) : list string :=
  let res := last_result stream in
  (map (fun r => o_line (r_weight r)) (filter is_sat_result stream) ++   (* main.go:242-246 *)
   match r_status res with
   | Unsat => ["s UNSATISFIABLE"]                            (* main.go:249 *)
   | Sat => ["s OPTIMUM FOUND"; print_vx (r_model res)]      (* main.go:251-262 *)
   | Indet => ["s UNKNOWN"]                                  (* main.go:264 *)
   end)%list.

(* main.go:106-113 countModels: nb counts the models received, fmt.Println(nb).
   (Go's int overflow is not modelled; nb is a natural number.) *)
Definition render_count (nb : N) : list string := [print_Z (Z.of_N nb)].

(* byte-wise lexicographic order = Go's string `<` used by sort.StringSlice *)
Fixpoint str_leb (a b : string) : bool :=
  match a, b with
  | EmptyString, _ => true
  | String _ _, EmptyString => false
  | String c a', String d b' =>
    let x := N_of_ascii c in let y := N_of_ascii d in
    if (x <? y)%N then true else if (y <? x)%N then false else str_leb a' b'
  end.

Fixpoint insert_kv (x : string * bool) (l : list (string * bool)) : list (string * bool) :=
  match l with
  | [] => [x]
  | y :: r => if str_leb (fst x) (fst y) then x :: l else y :: insert_kv x r
  end.

Definition sort_kv (l : list (string * bool)) : list (string * bool) :=
  fold_right insert_kv [] l.

Definition bf_line (kv : string * bool) : string :=
  (fst kv ++ ": " ++ (if snd kv then "true" else "false"))%string.   (* "%s: %t" *)

(* main.go:199-213 solveBF.  The Go map is given as an association list (keys
   are distinct in Go); it is sorted HERE by key (insertion sort, main.go:208). *)
Definition render_bf (r : option (list (string * bool))) : list string :=
  match r with
  | None => ["UNSATISFIABLE"]
  | Some kvs => "SATISFIABLE" :: map bf_line (sort_kv kvs)
  end.

(* main.go:51: fmt.Printf("c solving %s\n", path), printed for every action
   except -help and -mus, BEFORE the file is opened or its suffix is examined.
   NOTE: if [path] contains a newline the header spans several physical lines
   (see Proofs/Cli.v header_newline_refuted). *)
Definition header (path : string) : string := ("c solving " ++ path)%string.
Definition with_header (path : string) (lines : list string) : list string :=
  header path :: lines.

(* ------------------------------------------------------------------ *)
(* 6. Flags and the decision tree of main().                           *)

Record flags := MkFlags {
  f_verbose : bool; f_certified : bool; f_mus : bool;
  f_count : bool; f_cp : bool; f_help : bool }.

Inductive fmt := FCnf | FOpb.

Inductive action :=
| AHelp                                   (* main.go:41-46, exit 0 *)
| AMus                                    (* main.go:48-49 extractMUS; no header *)
| ABf                                     (* main.go:52-56 parseAndSolveBF *)
| AWcnf                                   (* main.go:57-61 parseAndSolveWCNF *)
| ACount (f : fmt)                        (* main.go:66-67 countModels *)
| ASolveCnf (cert cp : bool)              (* main.go:69 solve, printDecisionResults *)
| ASolveOpb (cert cp : bool)              (* main.go:69 solve, printOptimizationResults *)
| AErrFormat                              (* main.go:196 "invalid file format", exit 1 *)
| APanicBf.                               (* main.go:175-180; unreachable from main *)

(* main.go:169-197 parse, as far as the path decides (the file is assumed to
   exist and to be well formed: os.Open at main.go:170 and the parsers may fail
   first, which gives exit 1 as well). *)
Inductive parse_res := PBfPanic | PFmt (f : fmt) | PErrFormat.

Definition parse_path (path : string) : parse_res :=
  if has_suffix path ".bf" then PBfPanic                     (* main.go:175 *)
  else if has_suffix path ".cnf" then PFmt FCnf              (* main.go:182 *)
  else if has_suffix path ".opb" then PFmt FOpb              (* main.go:189 *)
  else PErrFormat.                                           (* main.go:196 *)

Definition dispatch (path : string) (fl : flags) : action :=
  if f_help fl then AHelp                                    (* main.go:41 *)
  else if f_mus fl then AMus                                 (* main.go:48 *)
  else if has_suffix path ".bf" then ABf                     (* main.go:52 *)
  else if has_suffix path ".wcnf" then AWcnf                 (* main.go:57 *)
  else match parse_path path with                            (* main.go:63 *)
       | PBfPanic => APanicBf
       | PErrFormat => AErrFormat                            (* main.go:63-65 *)
       | PFmt f =>
         if f_count fl then ACount f                         (* main.go:66 *)
         else match f with                                   (* main.go:69 *)
              | FCnf => ASolveCnf (f_certified fl) (f_cp fl)
              | FOpb => ASolveOpb (f_certified fl) (f_cp fl)
              end
       end.

Inductive action' :=
| AUsageError                             (* main.go:35-40, exit 1 *)
| ARun (a : action).

(* main.go:35-47: [args] = flag.Args() *)
Definition dispatch_args (args : list string) (fl : flags) : action' :=
  if negb (f_help fl) && negb (List.length args =? 1)%nat then AUsageError
  else if f_help fl then ARun AHelp
  else match args with
       | p :: _ => ARun (dispatch p fl)                      (* path := flag.Args()[0] *)
       | [] => AUsageError                                   (* impossible here *)
       end.

(* What the tool computed, to be rendered. *)
Inductive payload :=
| PStream (s : list result)
| PCount (nb : N)
| PBf (r : option (list (string * bool))).

(* stdout of a run, for -certified=false and -verbose=false.  None = not
   modelled (help text, MUS output, panic) or payload of the wrong kind. *)
Definition render (path : string) (a : action) (p : payload) : option (list string) :=
  match a, p with
  | ABf, PBf r => Some (with_header path (render_bf r))
  | AWcnf, PStream s => Some (with_header path (render_optim s))
  | ACount _, PCount nb => Some (with_header path (render_count nb))
  | ASolveCnf _ _, PStream s => Some (with_header path (render_decision s))
  | ASolveOpb _ _, PStream s => Some (with_header path (render_optim s))
  | AErrFormat, _ => Some (with_header path [])             (* header, then stderr *)
  | _, _ => None
  end.

(* ------------------------------------------------------------------ *)
(* 7. Reader of the tool's standard output.                            *)

Inductive sline := SSat | SUnsat | SOptimum | SUnknown.

Record answer := MkAnswer {
  a_status : option sline;
  a_model : option (list bool);
  a_costs : list Z;
  a_count : option Z }.

Definition empty_answer : answer :=
  {| a_status := None; a_model := None; a_costs := []; a_count := None |}.

(* comment line: "c" alone or starting with "c " *)
Definition is_comment (l : string) : bool :=
  String.eqb l "c" || match strip_prefix "c " l with Some _ => true | None => false end.

Inductive lkind :=
| LIgnore | LStatus (s : sline) | LModel (m : list bool)
| LCost (w : Z) | LCount (k : Z) | LBad.

Definition read_sline (r : string) : lkind :=
  if String.eqb r "SATISFIABLE" then LStatus SSat
  else if String.eqb r "UNSATISFIABLE" then LStatus SUnsat
  else if String.eqb r "OPTIMUM FOUND" then LStatus SOptimum
  else if String.eqb r "UNKNOWN" then LStatus SUnknown
  else LBad.

Definition classify (l : string) : lkind :=
  if is_empty l then LIgnore
  else if is_comment l then LIgnore
  else match strip_prefix "s " l with
  | Some r => read_sline r
  | None =>
    if String.eqb l "v" || match strip_prefix "v " l with Some _ => true | None => false end
    then match read_v l with
         | Some m => LModel m
         | None => match read_vx l with Some m => LModel m | None => LBad end
         end
    else match strip_prefix "o " l with
    | Some r => match read_Z r with Some w => LCost w | None => LBad end
    | None => match read_nat l with Some k => LCount k | None => LBad end
    end
  end.

Definition add_line (l : string) (a : answer) : option answer :=
  match classify l with
  | LIgnore => Some a
  | LStatus s =>
    match a_status a with
    | None => Some {| a_status := Some s; a_model := a_model a;
                      a_costs := a_costs a; a_count := a_count a |}
    | Some _ => None
    end
  | LModel m =>
    match a_model a with
    | None => Some {| a_status := a_status a; a_model := Some m;
                      a_costs := a_costs a; a_count := a_count a |}
    | Some _ => None
    end
  | LCost w => Some {| a_status := a_status a; a_model := a_model a;
                       a_costs := w :: a_costs a; a_count := a_count a |}
  | LCount k =>
    match a_count a with
    | None => Some {| a_status := a_status a; a_model := a_model a;
                      a_costs := a_costs a; a_count := Some k |}
    | Some _ => None
    end
  | LBad => None
  end.

(* The lines are folded from the right, so that "o" costs come out in the
   order of the lines; the result does not depend on the direction otherwise
   (a duplicated s/v/count line is rejected either way). *)
Fixpoint read_answer (ls : list string) : option answer :=
  match ls with
  | [] => Some empty_answer
  | l :: r =>
    match read_answer r with
    | Some a => add_line l a
    | None => None
    end
  end.

(* With -certified the RUP certificate (clause lines "1 -2 0", the empty clause
   "0") is printed on stdout between the header and the "s" line
   (watcher.go:249,261; solver.go:526).  [split_cert] separates the lines that
   belong to the answer (empty, comment, "s ...", "v ...", "o ...") from the
   others, in order; a judge reads the first component with [read_answer] and
   replays the second as a certificate.  Only meaningful without -count. *)
Definition has_prefix (p l : string) : bool :=
  match strip_prefix p l with Some _ => true | None => false end.

Definition is_answer_line (l : string) : bool :=
  is_empty l || is_comment l || has_prefix "s " l || String.eqb l "v" ||
  has_prefix "v " l || has_prefix "o " l.

Definition split_cert (ls : list string) : list string * list string :=
  partition is_answer_line ls.

(* Convenience for a judge holding the raw stdout. *)
Definition read_stdout (out : string) : option answer := read_answer (lines_of out).

(* Reader of the .bf output: leading comment lines are skipped, then either
   "UNSATISFIABLE" alone, or "SATISFIABLE" followed by "name: true|false". *)
Fixpoint drop_comments (ls : list string) : list string :=
  match ls with
  | [] => []
  | l :: r => if is_comment l then drop_comments r else ls
  end.

Definition read_binding (l : string) : option (string * bool) :=
  match strip_suffix ": true" l with
  | Some k => Some (k, true)
  | None =>
    match strip_suffix ": false" l with
    | Some k => Some (k, false)
    | None => None
    end
  end.

Fixpoint read_bindings (ls : list string) : option (list (string * bool)) :=
  match ls with
  | [] => Some []
  | l :: r =>
    match read_binding l, read_bindings r with
    | Some b, Some bs => Some (b :: bs)
    | _, _ => None
    end
  end.

Definition read_bf_answer (ls : list string) : option (option (list (string * bool))) :=
  match drop_comments ls with
  | [] => None
  | l :: r =>
    if String.eqb l "UNSATISFIABLE" then
      match r with [] => Some None | _ :: _ => None end
    else if String.eqb l "SATISFIABLE" then option_map Some (read_bindings r)
    else None
  end.
