(* Model/SearchPB.v -- the cutting-planes search loop of gophersat as a
   NONDETERMINISTIC transition system: solver/solver.go propagateAndSearchPB
   (committed version 0a73d0f, the function right after propagateAndSearch; the
   tracing calls s.verifQuiet / s.verifConflict / s.verifCP are no-ops), with
   search / Solve around it, and what it calls: chooseLit, unifyLiteral,
   unifyLiterals (watcher.go), cleanupBindings, reduceLearnedPB, and
   cuttingPlanes, which is Model.CPSearch.cutting_planes_full.

   As in Model/Search.v every heuristic choice is left open (the literal that
   is decided, which constraints propagate, in which order and when -- lazy
   propagation is allowed --, when a restart happens, which learned constraints
   are forgotten).  What is NOT left open is what the code does with a
   conflict: the successor is COMPUTED by [conflict_succ] from
   cutting_planes_full (the result AND the model it leaves behind, with the
   entries zeroed by its trail walk), cleanupBindings, and the pushes.

   A running configuration is a [pstate]: trail, model (signed levels), reasons
   (the three state components of Model.CPSearch), the learned constraints
   still held (s.wl.learned), the decision level lvl (1 = top level, the first
   decision is made at level 2), [ghost] (see FORGETTING below), and [pending]:
   the units of the loop
   "for _, unit := range propagated" (newLvl == 1) that have not been treated
   yet; propagation happens between two of them (unifyLiteral), so they are
   treated one at a time (St_next_unit).

   UNITS THAT ARE ALREADY FACTS.  Before commit 0a73d0f the newLvl == 1 branch
   pushed every unit on the trail, also one that was already true at level 1:
   the real trail received second copies of literals (observed).  Since 0a73d0f
   such a unit is skipped ("continue"), and this model does the same
   (units_succ): the trail of the model is the trail of the solver as far as
   this loop is concerned.  Second copies can still come from solver.New when
   the problem repeats a unit constraint (initial trail); the initial trail of
   the model (init_pconfig, init_okb) has distinct variables, i.e. it is the
   real one without the later copies (Judge.J21.dedup_trail).
   The push itself is modelled as the code does it (model entry set, literal
   appended), without testing that the variable is free: Proofs/SearchPB.v shows
   that it is.

   FORGETTING.  reduceLearnedPB (watcher.go) removes the lower half of
   s.wl.learned (sorted by lbd, then activity) "unless c.isLocked()".  But
   isLocked() is  lbdValue&bothMasks == bothMasks  (clause.go): it needs the
   LEARNED flag as well as the locked flag, and the constraints learned by
   cuttingPlanes are built by pb.clause() = NewPBClause, which never sets
   learnedMask (only NewLearnedClause does).  So learnt.lock() sets bit 30 and
   isLocked() stays false: reduceLearnedPB deletes (unwatchPB) constraints that
   are the reason of a bound literal; the pointer stays in s.reason and is still
   read by cuttingPlanes and unlocked by cleanupBindings.  (For the same reason
   Learned() is false, so clauseBumpActivity never bumps them: their activity
   stays 0 and the order of deletion is the order of the unstable sort.)
   St_forget therefore lets ANY learned constraints go.  To state the invariant
   the configuration has a GHOST component [ps_ghost]: every constraint ever
   learned (conflict_succ adds the new one to ps_learned and to ps_ghost,
   St_forget only shrinks ps_learned); no step reads it.  Conflicts and
   propagations take their constraint from P ++ ps_learned.
   Nothing was found that deleting a reason breaks in the Go code: the deleted
   constraint was watched by watchPB (pbData is never nil for NewPBClause), so
   unwatchPB finds it; afterwards it is only read.

   Definitions only; the proofs are in Proofs/SearchPB.v. *)
From Coq Require Import List ZArith Lia Bool.
From GS Require Import Spec.Base Spec.PB Model.PBNorm Model.CP Model.CPSearch.
Import ListNotations.
Open Scope Z_scope.

Record pstate := PState {
  ps_trail   : list lit;
  ps_model   : list Z;
  ps_reason  : list (option pbc);
  ps_learned : list pbc;
  ps_lvl     : Z;
  ps_pending : list lit;
  ps_ghost   : list pbc      (* ghost: every constraint ever learned (not read by the loop) *)
}.

Inductive panswer :=
| PSat (m : list bool)      (* the loop ends with Sat; m is s.Model() *)
| PUnsat.                   (* setUnsat()                             *)

Inductive pconfig :=
| PRunning (s : pstate)
| PFinal (a : panswer)
| PCrashed.                 (* cuttingPlanes panicked (or the model ran out of fuel) *)

(* the state handed to cuttingPlanes *)
Definition cp_state (s : pstate) (c : pbc) : state :=
  State (ps_trail s) (ps_model s) (ps_reason s) c (ps_lvl s).

(* c, seen as a pbSet over n variables, is well formed and falsified by the
   bindings: the first two conjuncts of Model.CPSearch.state_wfb *)
Definition confl_chk (n : nat) (md : list Z) (c : pbc) : bool :=
  pbc_ok n c && conflicting md (pbset_of n c).

(* c propagates the free literal l: after the binding, c is an acceptable
   reason of l (Model.CPSearch.reason_okb: c contains l, slack < weight) *)
Definition prop_chk (n : nat) (md : list Z) (c : pbc) (l : lit) (lvl : Z) : bool :=
  free_lit md l && reason_okb n (push md l lvl) c l.

(* solver.go, newLvl == 1 (commit 0a73d0f), "for _, unit := range propagated":
     if abs(s.model[unit.Var()]) == 1 && s.litStatus(unit) == Unsat { return s.setUnsat() }
     if abs(s.model[unit.Var()]) == 1 { continue }        // already a fact
     s.cleanupBindings(1); s.addLearnedUnit(unit); s.model[...] = ...; s.unifyLiteral(unit, 1)
   [md] is the model at that point (the one left by cuttingPlanes for the first
   units).  The units that are already facts are skipped at once (no
   propagation happens between them); the first other one is bound at level 1
   after cleanupBindings(1), and the rest of the list is left pending, since
   unifyLiteral propagates before the next unit is looked at.  When the list is
   exhausted the loop goes on with the bindings as they are (lit = chooseLit(),
   lvl = 2). *)
Fixpoint units_succ (s : pstate) (md : list Z) (us : list lit) : pconfig :=
  match us with
  | [] => PRunning (PState (ps_trail s) md (ps_reason s) (ps_learned s) 1 [] (ps_ghost s))
  | u :: rest =>
    if (Z.abs (model_at md u) =? 1) && lit_false md u then PFinal PUnsat
    else if Z.abs (model_at md u) =? 1 then units_succ s md rest
    else
      let '(tr1, md1, rs1) := cleanup_bindings 1 (ps_trail s) md (ps_reason s) in
      PRunning (PState (tr1 ++ [u]) (push md1 u 1) rs1 (ps_learned s) 1 rest (ps_ghost s))
  end.

(* solver.go, the body of "for conflict != nil":
     learnt, propagated, newLvl := s.cuttingPlanes(conflict, lvl)
     if newLvl == -1 { return s.setUnsat() }
     if newLvl == 1 { <units> } else {
       s.addLearned(learnt); learnt.lock(); lvl = newLvl; s.cleanupBindings(lvl)
       for _, lit := range propagated { s.reason[lit.Var()] = learnt }
       conflict = s.unifyLiterals(propagated, lvl) ... } *)
Definition conflict_succ (s : pstate) (c : pbc) : pconfig :=
  match cutting_planes_full (cp_state s c) with
  | (CPPanic, _) | (CPPanicArith, _) | (CPFuel, _) => PCrashed
  | (CPUnsat, _) => PFinal PUnsat
  | (CPUnits us, md') => units_succ s md' us
  | (CPLearn c' props nl, md') =>
    if nl =? 1 then units_succ s md' props
    else
      let '(tr1, md1, rs1) := cleanup_bindings nl (ps_trail s) md' (ps_reason s) in
      PRunning (PState (tr1 ++ props)
                       (fold_left (fun m l => push m l nl) props md1)
                       (fold_left (fun r l => set_nth_g (vidx l) (Some c') r) props rs1)
                       (c' :: ps_learned s) nl [] (c' :: ps_ghost s))
  end.

(* ---- the same before commit 0a73d0f (only used to state the repetition that
   the commit repairs, Properties/C14c.v): every unit was pushed, already a fact
   or not (here: when free, i.e. on the de-duplicated trail), and cuttingPlanes
   ended with cp_finish_v1 ---- *)
Definition unit_step_old (tr : list lit) (md : list Z) (rs : list (option pbc)) (u : lit)
  : option (list lit * list Z * list (option pbc)) :=
  if (Z.abs (model_at md u) =? 1) && lit_false md u then None
  else
    let '(tr1, md1, rs1) := cleanup_bindings 1 tr md rs in
    if free_lit md1 u then Some (tr1 ++ [u], push md1 u 1, rs1)
    else Some (tr1, md1, rs1).

Definition units_succ_old (s : pstate) (md : list Z) (us : list lit) : pconfig :=
  match us with
  | [] => PRunning (PState (ps_trail s) md (ps_reason s) (ps_learned s) 1 [] (ps_ghost s))
  | u :: rest =>
    match unit_step_old (ps_trail s) md (ps_reason s) u with
    | None => PFinal PUnsat
    | Some (tr1, md1, rs1) => PRunning (PState tr1 md1 rs1 (ps_learned s) 1 rest (ps_ghost s))
    end
  end.

Definition conflict_succ_old (s : pstate) (c : pbc) : pconfig :=
  match cutting_planes_mid_full (cp_state s c) with
  | (CPPanic, _) | (CPPanicArith, _) | (CPFuel, _) => PCrashed
  | (CPUnsat, _) => PFinal PUnsat
  | (CPUnits us, md') => units_succ_old s md' us
  | (CPLearn c' props nl, md') =>
    if nl =? 1 then units_succ_old s md' props
    else
      let '(tr1, md1, rs1) := cleanup_bindings nl (ps_trail s) md' (ps_reason s) in
      PRunning (PState (tr1 ++ props)
                       (fold_left (fun m l => push m l nl) props md1)
                       (fold_left (fun r l => set_nth_g (vidx l) (Some c') r) props rs1)
                       (c' :: ps_learned s) nl [] (c' :: ps_ghost s))
  end.

(* Solver.Model(): variable v is true iff its level is > 0 *)
Definition read_model (md : list Z) : list bool := map (fun a => 0 <? a) md.

Definition all_assigned (md : list Z) : bool := forallb (fun a => negb (a =? 0)) md.

(* a learned constraint may go unless it is a reason (isLocked) *)
Definition reasons_in (P : problem) (L : list pbc) (rs : list (option pbc)) : Prop :=
  forall i c, nth i rs None = Some c -> In c (P ++ L).

Section Steps.
Variable P : problem.     (* the original constraints           *)
Variable n : nat.         (* the number of variables (s.nbVars) *)

Inductive pstep : pconfig -> pconfig -> Prop :=
(* lit = s.chooseLit(); lvl++; s.unifyLiteral(lit, lvl): any free literal *)
| St_decide : forall tr md rs L lvl G l,
    free_lit md l = true ->
    pstep (PRunning (PState tr md rs L lvl [] G))
          (PRunning (PState (tr ++ [l]) (push md l (lvl + 1)) rs L (lvl + 1) [] G))
(* propagate: a constraint of the problem or a learned one that forces a free
   literal binds it at the current level with itself as reason *)
| St_propagate : forall tr md rs L lvl pend G l c,
    In c (P ++ L) -> prop_chk n md c l lvl = true ->
    pstep (PRunning (PState tr md rs L lvl pend G))
          (PRunning (PState (tr ++ [l]) (push md l lvl)
                            (set_nth_g (vidx l) (Some c) rs) L lvl pend G))
(* a conflict is analysed by cuttingPlanes *)
| St_conflict : forall tr md rs L lvl G c,
    In c (P ++ L) -> confl_chk n md c = true ->
    pstep (PRunning (PState tr md rs L lvl [] G))
          (conflict_succ (PState tr md rs L lvl [] G) c)
(* the next unit of the newLvl == 1 loop *)
| St_next_unit : forall tr md rs L lvl G u rest,
    pstep (PRunning (PState tr md rs L lvl (u :: rest) G))
          (units_succ (PState tr md rs L lvl (u :: rest) G) md (u :: rest))
(* a conflict met while a unit is propagated at level 1: setUnsat at once *)
| St_top_conflict : forall tr md rs L pend G c,
    In c (P ++ L) -> confl_chk n md c = true ->
    pstep (PRunning (PState tr md rs L 1 pend G)) (PFinal PUnsat)
(* Luby restart: cleanupBindings(1), return Indet, Solve calls search() again *)
| St_restart : forall tr md rs L lvl G,
    pstep (PRunning (PState tr md rs L lvl [] G))
          (let '(tr1, md1, rs1) := cleanup_bindings 1 tr md rs in
           PRunning (PState tr1 md1 rs1 L 1 [] G))
(* reduceLearnedPB: any learned constraints go -- INCLUDING reasons of bound
   literals: isLocked() is never true for a constraint learned by cuttingPlanes
   (see the header) *)
| St_forget : forall tr md rs L lvl pend G L',
    incl L' L ->
    pstep (PRunning (PState tr md rs L lvl pend G)) (PRunning (PState tr md rs L' lvl pend G))
(* chooseLit() = -1: every variable is bound; propagation ended without
   conflict: no constraint of the problem is falsified *)
| St_answer_sat : forall tr md rs L lvl G,
    all_assigned md = true ->
    (forall c, In c P -> falsified_by md c = false) ->
    pstep (PRunning (PState tr md rs L lvl [] G)) (PFinal (PSat (read_model md))).

Inductive prun : pconfig -> pconfig -> Prop :=
| prun_refl : forall a, prun a a
| prun_step : forall a b c, prun a b -> pstep b c -> prun a c.

End Steps.

(* ------------------------------------------------------------------ *)
(* The initial configuration: the unit facts of the problem (parser_pb.go:
   the literals of the constraints whose weights add up to their degree;
   solver.go New: on the trail at level 1 without reason).               *)

Definition init_pstate (n : nat) (units : list lit) : pstate :=
  PState units (fold_left (fun m l => push m l 1) units (repeat 0 n)) (repeat None n) [] 1 [] [].

Definition init_pconfig (n : nat) (units : list lit) : pconfig := PRunning (init_pstate n units).

(* the units are free one after the other (non-zero, in range, distinct
   variables), and each is forced by a constraint of P on its own (under the
   empty assignment) *)
Fixpoint init_free (md : list Z) (units : list lit) : bool :=
  match units with
  | [] => true
  | u :: r => free_lit md u && init_free (push md u 1) r
  end.

Definition init_okb (P : problem) (n : nat) (units : list lit) : bool :=
  init_free (repeat 0 n) units &&
  forallb (fun u => existsb (fun c => prop_chk n (repeat 0 n) c u 1) P) units.

(* every variable of the problem is among 1..n *)
Definition pvars_inb (n : nat) (P : problem) : bool :=
  forallb (fun c => forallb (fun t : term => (1 <=? Z.abs (snd t)) && (Z.abs (snd t) <=? Z.of_nat n))
                            (terms c)) P.

(* ------------------------------------------------------------------ *)
(* Executable replay of a run given as a list of commands; every side
   condition is checked.  Constraints are named by their index in
   P ++ learned.                                                        *)

Inductive pcmd :=
| KDecide (l : lit)
| KPropagate (l : lit) (i : nat)
| KConflict (i : nat)
| KNextUnit
| KTopConflict (i : nat)
| KRestart
| KForget (keep : list bool)        (* one flag per learned constraint *)
| KAnswerSat.

Fixpoint pselect_mask {A : Type} (mask : list bool) (l : list A) : list A :=
  match mask, l with
  | b :: ms, x :: xs => if b then x :: pselect_mask ms xs else pselect_mask ms xs
  | _, _ => []
  end.

Definition no_pending (s : pstate) : bool := match ps_pending s with [] => true | _ => false end.

Definition preplay_step (P : problem) (n : nat) (s : pstate) (k : pcmd) : option pconfig :=
  let tr := ps_trail s in let md := ps_model s in let rs := ps_reason s in
  let L := ps_learned s in let lvl := ps_lvl s in let G := ps_ghost s in
  match k with
  | KDecide l =>
    if no_pending s && free_lit md l
    then Some (PRunning (PState (tr ++ [l]) (push md l (lvl + 1)) rs L (lvl + 1) [] G))
    else None
  | KPropagate l i =>
    match nth_error (P ++ L) i with
    | Some c =>
      if prop_chk n md c l lvl
      then Some (PRunning (PState (tr ++ [l]) (push md l lvl)
                                  (set_nth_g (vidx l) (Some c) rs) L lvl (ps_pending s) G))
      else None
    | None => None
    end
  | KConflict i =>
    match nth_error (P ++ L) i with
    | Some c => if no_pending s && confl_chk n md c
                then Some (conflict_succ (PState tr md rs L lvl [] G) c) else None
    | None => None
    end
  | KNextUnit =>
    match ps_pending s with
    | [] => None
    | u :: rest => Some (units_succ s md (u :: rest))
    end
  | KTopConflict i =>
    match nth_error (P ++ L) i with
    | Some c => if (lvl =? 1) && confl_chk n md c then Some (PFinal PUnsat) else None
    | None => None
    end
  | KRestart =>
    if no_pending s
    then Some (let '(tr1, md1, rs1) := cleanup_bindings 1 tr md rs in
               PRunning (PState tr1 md1 rs1 L 1 [] G))
    else None
  | KForget keep =>
    Some (PRunning (PState tr md rs (pselect_mask keep L) lvl (ps_pending s) G))
  | KAnswerSat =>
    if no_pending s && all_assigned md && forallb (fun c => negb (falsified_by md c)) P
    then Some (PFinal (PSat (read_model md)))
    else None
  end.

Fixpoint preplay_from (P : problem) (n : nat) (cf : pconfig) (ks : list pcmd) : option pconfig :=
  match ks with
  | [] => Some cf
  | k :: r =>
    match cf with
    | PRunning s =>
      match preplay_step P n s k with
      | Some cf' => preplay_from P n cf' r
      | None => None
      end
    | _ => None        (* no step after the final answer *)
    end
  end.

Definition replay_pb (P : problem) (n : nat) (units : list lit) (ks : list pcmd) : option pconfig :=
  if init_okb P n units then preplay_from P n (init_pconfig n units) ks else None.
