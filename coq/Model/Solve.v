(* Composition of the mirrored front ends with the verified reference search:
   what "gophersat's answer" is when the CDCL core is replaced by [ref_solve]
   (Spec/PB.v), which satisfies the same contract ([solver_ok]).

     solve_cnf     ParseSliceNb (parser.go:22-73)       + search
     solve_dimacs  ParseCNF     (parser.go:141-193)     + search
     solve_card    ParseCardConstrs (parser_pb.go:13-66) + search
     solve_pb      ParsePBConstrs (parser_pb.go:76-130) + search
     solve_user    the public constructors GtEq / LtEq / Eq (pb.go:63-113),
                   then ParsePBConstrs, then search
   Definitions only; proofs in Proofs/Solve.v. *)
From Coq Require Import List ZArith Bool String.
From GS Require Import Spec.Base Spec.PB Model.PBNorm Model.Text Model.Simplify.
Import ListNotations.
Open Scope Z_scope.

(* The residual problem of a Go Problem whose Status is not Unsat: the unit
   literals as unit clauses, then the remaining constraints. *)
Definition gc_pbc (c : gclause) : pbc := PBC (gc_terms c) (gc_card c).

Definition gp_problem (g : gproblem) : problem :=
  map (fun u => clause_pbc [u]) (gp_units g) ++ map gc_pbc (gp_clauses g).

(* solver.New(pb).Solve() with the search replaced by the reference search:
   Status Unsat is answered at once (solver.go: "if pb.Status == Unsat"),
   otherwise a total model over pb.NbVars variables is looked for. *)
Definition solve_gproblem (g : gproblem) : status * option (list bool) :=
  if is_unsat g then (Unsat, None)
  else match ref_solve (Z.to_nat (gp_nbvars g)) (gp_problem g) with
       | Some m => (Sat, Some m)
       | None => (Unsat, None)
       end.

(* ---- ParseSliceNb route ------------------------------------------------ *)

Definition solve_cnf (n : Z) (F : cnf) : status * option (list bool) :=
  solve_gproblem (ParseSliceNb F n).

(* ---- ParseCNF route (parser.go:141-193) --------------------------------
   The reader does NOT go through parseSlice: the header allocates
   pb.Model = make([]decLevel, NbVars) (l.160), every clause -- unit and empty
   ones included -- is appended to pb.Clauses with NewClause (l.168, l.176),
   pb.Units stays empty, pb.Status stays Indet, and simplify2 runs (l.191).
   [n] and [F] are the two components returned by [parse_dimacs] (Model/Text.v):
   the declared number of variables and the clauses just before simplify2. *)
Definition cnf_initial (n : Z) (F : cnf) : gproblem :=
  GP n Indet [] (repeat 0 (Z.to_nat n)) (map (fun c => GC c None 1) F).

Definition parse_cnf_full (fuel : nat) (n : Z) (F : cnf) : gproblem * bool :=
  s2_loop fuel (cnf_initial n F).

Definition parse_cnf (fuel : nat) (n : Z) (F : cnf) : gproblem := fst (parse_cnf_full fuel n F).
Definition parse_cnf_done (fuel : nat) (n : Z) (F : cnf) : bool := snd (parse_cnf_full fuel n F).

(* every restart of simplify2 has removed a clause: |F| + 1 passes suffice *)
Definition parse_cnf_problem (n : Z) (F : cnf) : gproblem := parse_cnf (S (List.length F)) n F.

(* None = the reader returned an error (or panicked) *)
Definition solve_dimacs (text : string) : option (status * option (list bool)) :=
  match parse_dimacs text with
  | None => None
  | Some (n, F) => Some (solve_gproblem (parse_cnf_problem n F))
  end.

(* ---- cardinality and pseudo-boolean constraints ------------------------ *)

Definition solve_card (cs : list cardconstr) : status * option (list bool) :=
  solve_gproblem (ParseCardConstrs cs).

Definition solve_pb (cs : list pbconstr) : status * option (list bool) :=
  solve_gproblem (ParsePBConstrs cs).

(* the same Go struct PBConstr, as named in Model/PBNorm.v and in Model/Simplify.v *)
Definition gopb_pbconstr (g : gopb) : pbconstr := PBCo (g_lits g) (g_ws g) (g_atleast g).

(* user-level constraints, each sent through the matching constructor
   (GtEq / LtEq / Eq), the resulting PBConstr values given to ParsePBConstrs *)
Definition user_pbconstrs (ucs : list uc) : list pbconstr :=
  map gopb_pbconstr (flat_map norm_uc ucs).

Definition solve_user (ucs : list uc) : status * option (list bool) :=
  solve_pb (user_pbconstrs ucs).
