(* Model of the arithmetic of the cutting-planes strategy,
   solver/learn_pb.go: pbSet, pbSet.clause, clash, slack, falsifies,
   backtrackLevel, roundToOne, divideBy.  The trail walk [cuttingPlanes]
   itself is not modelled.  Definitions only. *)
From Coq Require Import List ZArith Bool.
From GS Require Import Spec.Base Spec.PB.
Import ListNotations.
Open Scope Z_scope.

(* learn_pb.go:7-10.  weights: one signed weight per variable (index i is
   variable i+1; negative = the literal is negated; 0 = absent), and the
   degree [card]. *)
Definition pbset := (list Z * Z)%type.

(* learn_pb.go:31-49  pbSet.clause(): the terms in variable order.
   (NewPBClause then sorts them by decreasing weight, which does not change
   the meaning, and panics when card < 1.) *)
Fixpoint set_terms (v : Z) (ws : list Z) : list term :=
  match ws with
  | [] => []
  | w :: r =>
    if w =? 0 then set_terms (v + 1) r
    else (if w <? 0 then (- w, - v) else (w, v)) :: set_terms (v + 1) r
  end.

Definition set_clause (s : pbset) : pbc := PBC (set_terms 1 (fst s)) (snd s).

(* NewPBClause (clause.go:66) panics on card < 1 *)
Definition set_clause_go (s : pbset) : option pbc :=
  if snd s <? 1 then None else Some (set_clause s).

(* meaning of a pbSet: the meaning of the constraint it denotes *)
Definition sat_pbset (m : model) (s : pbset) : bool := sat_pbc m (set_clause s).

Fixpoint set_nth (i : nat) (x : Z) (l : list Z) {struct l} : list Z :=
  match l with
  | [] => []
  | y :: r => match i with O => x :: r | S k => y :: set_nth k x r end
  end.

(* learn_pb.go:14-29  Solver.pbSet: n = s.nbVars = len(buffer).  A later term
   on the same variable overwrites an earlier one.  (A variable > n panics in
   Go; here the term is ignored.) *)
Definition pbset_of (n : nat) (c : pbc) : pbset :=
  (fold_left (fun ws (t : term) =>
                set_nth (Z.to_nat (Z.abs (snd t) - 1))
                        (if 0 <? snd t then fst t else - fst t) ws)
             (terms c) (repeat 0 n),
   degree c).

(* learn_pb.go:54-63  clash: pb1.card += pb2.card; for each i:
   pb1.weights[i] += w2; if w1*w2 < 0 then pb1.card -= min(|w1|,|w2|).
   Returns the new weights and the total subtracted.  (If pb2 is shorter than
   pb1 Go panics; here the missing weights are 0.  If it is longer the extra
   weights are ignored, as in Go.) *)
Fixpoint clash_ws (w1 w2 : list Z) : list Z * Z :=
  match w1 with
  | [] => ([], 0)
  | a :: r1 =>
    let b := hd 0 w2 in
    let '(r, k) := clash_ws r1 (tl w2) in
    (a + b :: r, (if a * b <? 0 then Z.min (Z.abs a) (Z.abs b) else 0) + k)
  end.

Definition clash (s1 s2 : pbset) : pbset :=
  let '(w, k) := clash_ws (fst s1) (fst s2) in (w, snd s1 + snd s2 - k).

(* learn_pb.go:92-99  falsifies: does the negation of [l] appear in pb ? *)
Definition falsifies (s : pbset) (l : lit) : bool :=
  let w := nth (Z.to_nat (Z.abs l - 1)) (fst s) 0 in
  if w =? 0 then false else Bool.eqb (w <? 0) (0 <? l).

(* s.model: for each variable a signed decision level
   (> 0 true, < 0 false, 0 unassigned). *)

(* a literal of signed weight w (w <> 0) is not falsified under assign a:
   learn_pb.go:208  assign == 0 || ((assign > 0) == (wj > 0)) *)
Definition not_falsified (a w : Z) : bool := (a =? 0) || Bool.eqb (0 <? a) (0 <? w).

(* learn_pb.go:69-88  slack *)
Fixpoint slack_ws (assign ws : list Z) (lvl : Z) : Z :=
  match ws with
  | [] => 0
  | w :: r =>
    let a := hd 0 assign in
    (if w =? 0 then 0
     else if not_falsified a w || (lvl <? Z.abs a) then Z.abs w else 0)
    + slack_ws (tl assign) r lvl
  end.

Definition slack (assign : list Z) (lvl : Z) (s : pbset) : Z :=
  - snd s + slack_ws assign (fst s) lvl.

(* learn_pb.go:162-175  backtrackLevel; v is the 0-based variable of the
   falsified literal *)
Fixpoint backtrack_ws (i v : nat) (lvl : Z) (assign ws : list Z) (maxl : Z) : Z :=
  match ws with
  | [] => maxl
  | w :: r =>
    let li := Z.abs (hd 0 assign) in
    let maxl' :=
      if (w =? 0) || Nat.eqb i v then maxl
      else if (maxl <? li) && negb (li =? lvl) then li else maxl in
    backtrack_ws (S i) v lvl (tl assign) r maxl'
  end.

Definition backtrack_level (assign : list Z) (v : nat) (s : pbset) : Z :=
  backtrack_ws 0 v (Z.abs (nth v assign 0)) assign (fst s) 1.

(* learn_pb.go:220-238  divideBy.  Go's / and % truncate toward zero. *)
Definition div_w (c w : Z) : Z :=
  if w =? 0 then w
  else if Z.rem w c =? 0 then Z.quot w c
  else if 0 <? w then Z.quot w c + 1
  else Z.quot w c - 1.

Definition div_card (c d : Z) : Z :=
  if Z.rem d c =? 0 then Z.quot d c else Z.quot d c + 1.

Definition divide_by (c : Z) (s : pbset) : pbset :=
  (map (div_w c) (fst s), div_card c (snd s)).

(* one weakening step, learn_pb.go:210-211 *)
Definition weaken_at (j : nat) (s : pbset) : pbset :=
  (set_nth j 0 (fst s), snd s - Z.abs (nth j (fst s) 0)).

(* learn_pb.go:203-213: the weakening loop of roundToOne; returns the new
   weights and the total subtracted from card *)
Fixpoint weaken_ws (wi : Z) (assign ws : list Z) : list Z * Z :=
  match ws with
  | [] => ([], 0)
  | wj :: r =>
    let a := hd 0 assign in
    let '(r', k) := weaken_ws wi (tl assign) r in
    if wj =? 0 then (wj :: r', k)
    else if negb (Z.rem wj wi =? 0) && not_falsified a wj
         then (0 :: r', Z.abs wj + k)
         else (wj :: r', k)
  end.

Definition weaken_round (wi : Z) (assign : list Z) (s : pbset) : pbset :=
  let '(w, k) := weaken_ws wi assign (fst s) in (w, snd s - k).

(* learn_pb.go:198-215  roundToOne; [locked] is a 0-based variable.
   None = Go panics (index out of range, or integer division by zero when
   the locked variable has weight 0). *)
Definition round_to_one (assign : list Z) (locked : nat) (s : pbset) : option pbset :=
  let wi := Z.abs (nth locked (fst s) 0) in
  if wi =? 1 then Some s
  else if wi =? 0 then None
  else Some (divide_by wi (weaken_round wi assign s)).

(* ------------------------------------------------------------------ *)
Fixpoint nodup_z (l : list Z) : bool :=
  match l with
  | [] => true
  | x :: r => negb (existsb (Z.eqb x) r) && nodup_z r
  end.

(* constraint on which Solver.pbSet is meaningful: distinct variables, all in
   1..n, non-negative weights *)
Definition pbc_ok (n : nat) (c : pbc) : bool :=
  nodup_z (map (fun t : term => Z.abs (snd t)) (terms c)) &&
  forallb (fun t : term => (0 <=? fst t) && (1 <=? Z.abs (snd t)) &&
                           (Z.abs (snd t) <=? Z.of_nat n)) (terms c).
