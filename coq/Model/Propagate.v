(* Model of the constraint propagation rules of the CDCL engine,
   solver/watcher.go:
     watchClause (l.90-121), watchPB (l.123-137), watchCardAMO (l.139-148),
     propagate (l.289-326), unifyLiteral (l.329-333), propagateUnit (l.348-355),
     simplifyPropClauses (l.357-401), simplifyCardConstr (l.405-447),
     simplifyCardAMOConstr (l.452-473), swapFalse (l.477-503),
     slackSum (l.511-529), propagateAll (l.532-538),
     simplifyPseudoBool (l.540-565), updateWatchPB (l.567-597)
   and solver/solver.go litStatus (l.210-219).
   Definitions only; proofs in Proofs/Propagate.v.

   Conventions.
   * Literals stay DIMACS integers (Go's 2v/2v+1 encoding is a bijection with
     the non-zero integers); [- l] is Lit.Negation().
   * [assignment] is Go's [s.model []decLevel]: slot i is variable i+1,
     0 = unbound, > 0 true (at that level), < 0 false (at that level).
     Go panics when a variable is >= len(model); here such a slot reads 0 and
     a write to it is ignored.  The theorems that need the write to happen
     carry the hypothesis [in_range].
   * propagateUnit writes the model at once, so the literals examined later in
     the same loop see the new binding: every simplify* function threads the
     assignment and returns the final one together with its outcome.
   * A Go run-time panic (index out of range) is the outcome [Crash]; a loop
     whose fuel ran out is [NoFuel].
   * int overflow is not modelled (numbers are Z).
   * The ORDER inside a watcher list (insertion order perturbed by
     swap-with-last removals) is not modelled: [propagate] examines, for the
     literal taken from the trail, the constraints that watch its negation in
     the order of the constraint list (binary clauses, then long clauses, then
     cardinality/PB constraints, as in Go).  Reasons, clause locking and
     activities are not modelled. *)
From Coq Require Import List ZArith Bool.
From GS Require Import Spec.Base Spec.PB.
Import ListNotations.
Open Scope Z_scope.

(* ------------------------------------------------------------------ *)
(* Partial assignments and literal status                               *)

Definition assignment := list Z.

(* types.go:10-14; the names are prefixed because Model/Simplify.v already
   has Indet | Sat | Unsat for the status of a problem *)
Inductive lstatus := LIndet | LSat | LUnsat.

Definition lstatus_eqb (x y : lstatus) : bool :=
  match x, y with
  | LIndet, LIndet | LSat, LSat | LUnsat, LUnsat => true
  | _, _ => false
  end.

(* l.Var() as an index in s.model *)
Definition vidx (l : lit) : nat := Z.to_nat (Z.abs l - 1).

(* s.model[l.Var()] *)
Definition aget (a : assignment) (l : lit) : Z := nth (vidx l) a 0.

(* solver.go:210-219 litStatus *)
Definition lit_status (a : assignment) (l : lit) : lstatus :=
  let x := aget a l in
  if x =? 0 then LIndet
  else if Bool.eqb (0 <? x) (0 <? l) then LSat else LUnsat.

Definition is_indet (a : assignment) (l : lit) : bool := lstatus_eqb (lit_status a l) LIndet.
Definition is_sat (a : assignment) (l : lit) : bool := lstatus_eqb (lit_status a l) LSat.
Definition is_unsat (a : assignment) (l : lit) : bool := lstatus_eqb (lit_status a l) LUnsat.
Definition non_false (a : assignment) (l : lit) : bool := negb (is_unsat a l).

(* watcher.go:269-274 lvlToSignedLvl *)
Definition lvl_to_signed (l : lit) (lvl : Z) : Z := if 0 <? l then lvl else - lvl.

Fixpoint list_set {A} (l : list A) (i : nat) (x : A) : list A :=
  match l, i with
  | [], _ => []
  | _ :: t, O => x :: t
  | h :: t, S i' => h :: list_set t i' x
  end.

(* "s.model[v] = lvlToSignedLvl(unit, lvl)" of propagateUnit / unifyLiteral *)
Definition assign (a : assignment) (lvl : Z) (l : lit) : assignment :=
  list_set a (vidx l) (lvl_to_signed l lvl).

Definition assign_all (a : assignment) (lvl : Z) (ls : list lit) : assignment :=
  fold_left (fun a l => assign a lvl l) ls a.

Definition in_range (a : assignment) (ls : list lit) : Prop :=
  forall l, In l ls -> (vidx l < length a)%nat.
Definition in_rangeb (a : assignment) (ls : list lit) : bool :=
  forallb (fun l => Nat.ltb (vidx l) (length a)) ls.

(* A total model (Spec/Base.v) extends a partial assignment. *)
Definition extends (m : model) (a : assignment) : Prop :=
  forall i, (0 < nth i a 0 -> nth i m false = true) /\
            (nth i a 0 < 0 -> nth i m false = false).

Definition extendsb (m : model) (a : assignment) : bool :=
  forallb (fun i => let x := nth i a 0 in
                    if 0 <? x then nth i m false
                    else if x <? 0 then negb (nth i m false) else true)
          (seq 0 (length a)).

(* a' binds at least what a binds, in the same way *)
Definition a_le (a a' : assignment) : Prop :=
  forall i, (0 < nth i a 0 -> 0 < nth i a' 0) /\ (nth i a 0 < 0 -> nth i a' 0 < 0).

(* the total model that follows [a] where it is bound and [f] elsewhere *)
Definition complete (a : assignment) (f : nat -> bool) (n : nat) : list bool :=
  map (fun i => let x := nth i a 0 in
                if 0 <? x then true else if x <? 0 then false else f i)
      (seq 0 n).

(* ------------------------------------------------------------------ *)
(* Outcomes                                                             *)

Inductive outcome :=
| Conflict                 (* the function returned false / the conflict clause *)
| Props (ls : list lit)    (* no conflict; the literals pushed on the trail, in order *)
| Crash                    (* Go run-time panic *)
| NoFuel.

Definition ocons (l : lit) (o : outcome) : outcome :=
  match o with Props ls => Props (l :: ls) | x => x end.
Definition oapp (ps : list lit) (o : outcome) : outcome :=
  match o with Props ls => Props (ps ++ ls) | x => x end.

(* ------------------------------------------------------------------ *)
(* Constraints                                                          *)

(* clause.go:16.  [c_pb] is "pbData != nil"; for the other constraints Go has
   no weights (Weight(i) = 1) and the weights stored in [c_body] are ignored. *)
Record constr := CN { c_pb : bool; c_body : pbc }.

Inductive kind := KClause | KCard | KPB.

Definition c_lits (c : constr) : list lit := map snd (terms (c_body c)).
Definition c_card (c : constr) : Z := degree (c_body c).

(* the tests of watchClause (l.91, l.93) and of propagate (l.307) *)
Definition c_kind (c : constr) : kind :=
  if c_pb c then KPB else if 1 <? c_card c then KCard else KClause.

(* Clause.Weight (clause.go:156) *)
Definition c_terms (c : constr) : list term :=
  if c_pb c then terms (c_body c) else unit_terms (c_lits c).

(* what the constraint means *)
Definition c_pbc (c : constr) : pbc := PBC (c_terms c) (c_card c).

Definition mk_clause (ls : list lit) : constr := CN false (clause_pbc ls).
Definition mk_card (ls : list lit) (k : Z) : constr := CN false (card_pbc ls k).
Definition mk_pb (ts : list term) (k : Z) : constr := CN true (PBC ts k).

(* ------------------------------------------------------------------ *)
(* Counting and weighing literals under an assignment                   *)

Fixpoint count_st (st : lstatus) (a : assignment) (ls : list lit) : Z :=
  match ls with
  | [] => 0
  | l :: r => (if lstatus_eqb (lit_status a l) st then 1 else 0) + count_st st a r
  end.

Fixpoint wsum (f : lit -> bool) (ts : list term) : Z :=
  match ts with
  | [] => 0
  | t :: r => (if f (snd t) then fst t else 0) + wsum f r
  end.

(* The slack: weights of the non-falsified literals minus the degree
   (comment of slackSum, l.505-510). *)
Definition slack (a : assignment) (ts : list term) (card : Z) : Z :=
  wsum (non_false a) ts - card.

Definition false_lits (a : assignment) (ls : list lit) : list lit := filter (is_unsat a) ls.

(* The clause that conflict analysis (learn.go:23, l.78) reads off an
   antecedent: the propagated literal and the falsified literals of [c]. *)
Definition reason_clause (a : assignment) (l : lit) (c : constr) : clause :=
  l :: false_lits a (c_lits c).
Definition conflict_clause (a : assignment) (c : constr) : clause := false_lits a (c_lits c).

(* The slack rule on a whole constraint. *)
Definition conflicting (a : assignment) (c : constr) : Prop :=
  slack a (c_terms c) (c_card c) < 0.
Definition propagating (a : assignment) (c : constr) : Prop :=
  exists t, In t (c_terms c) /\ lit_status a (snd t) = LIndet /\
            slack a (c_terms c) (c_card c) < fst t.

Definition conflictingb (a : assignment) (c : constr) : bool :=
  slack a (c_terms c) (c_card c) <? 0.
Definition propagatingb (a : assignment) (c : constr) : bool :=
  existsb (fun t => is_indet a (snd t) && (slack a (c_terms c) (c_card c) <? fst t)) (c_terms c).

(* no literal together with its negation *)
Definition no_compl (ls : list lit) : Prop := forall l, In l ls -> ~ In (- l) ls.
Definition no_complb (ls : list lit) : bool :=
  forallb (fun l => negb (existsb (Z.eqb (- l)) ls)) ls.

(* ------------------------------------------------------------------ *)
(* propagateUnit / propagateAll                                         *)

(* l.532-538 propagateAll, and the second loop of simplifyCardAMOConstr
   (l.466-471): every literal that is unbound WHEN IT IS REACHED is pushed. *)
Fixpoint prop_unbound (a : assignment) (lvl : Z) (ls : list lit) : list lit * assignment :=
  match ls with
  | [] => ([], a)
  | l :: r =>
    if is_indet a l then
      let '(ps, a') := prop_unbound (assign a lvl l) lvl r in (l :: ps, a')
    else prop_unbound a lvl r
  end.

(* ------------------------------------------------------------------ *)
(* Binary clauses: the first loop of propagate (l.293-302)              *)

Definition bin_step (a : assignment) (other : lit) : outcome :=
  match lit_status a other with
  | LIndet => Props [other]
  | LUnsat => Conflict
  | LSat => Props []
  end.

(* ------------------------------------------------------------------ *)
(* simplifyPropClauses (l.357-401), one watcher of wlist[lit]           *)

(* l.378-386: first literal from position 2 on that is not false *)
Fixpoint find_nonfalse (a : assignment) (ls : list lit) : option (list lit * lit * list lit) :=
  match ls with
  | [] => None
  | l :: r =>
    if non_false a l then Some ([], l, r)
    else match find_nonfalse a r with
         | Some (pre, x, post) => Some (l :: pre, x, post)
         | None => None
         end
  end.

Record cstep := CS {
  cs_lits : list lit;          (* the literals of the clause after the step *)
  cs_other : lit;              (* the blocking literal of the watcher after the step *)
  cs_moved : option lit;       (* Some k: the watcher left wlist[lit] for wlist[-k] *)
  cs_out : outcome
}.

Definition clause_step (a : assignment) (tl other : lit) (c : list lit) : cstep :=
  if is_sat a other then CS c other None (Props [])                      (* l.361 *)
  else
    match c with
    | x :: y :: rest =>
      let '(first, second) := if x =? - tl then (y, x) else (x, y) in    (* l.368 *)
      match lit_status a first with
      | LSat => CS (first :: second :: rest) first None (Props [])       (* l.373 *)
      | fs =>
        match find_nonfalse a rest with
        | Some (pre, k, post) =>                                         (* l.380 swap(1,k) *)
          CS (first :: k :: pre ++ second :: post) first (Some k) (Props [])
        | None =>
          CS (first :: second :: rest) first None
             (match fs with LUnsat => Conflict | _ => Props [first] end) (* l.390-395 *)
        end
      end
    | _ => CS c other None Crash          (* c.First()/c.Second() on a shorter clause *)
    end.

(* ------------------------------------------------------------------ *)
(* simplifyCardConstr (l.405-447)                                       *)

Inductive count_res :=
| CSat                       (* l.418: return true *)
| CConfl                     (* l.424: return false *)
| CDone (nbTrue nbUnb : Z).  (* the loop ended, or broke at l.427 *)

Fixpoint card_count (a : assignment) (len card : Z) (ls : list lit)
         (nbT nbF nbU : Z) : count_res :=
  match ls with
  | [] => CDone nbT nbU
  | l :: r =>
    match lit_status a l with
    | LIndet =>
      let nbU := nbU + 1 in
      if card <? nbU + nbT then CDone nbT nbU else card_count a len card r nbT nbF nbU
    | LSat =>
      let nbT := nbT + 1 in
      if nbT =? card then CSat
      else if card <? nbU + nbT then CDone nbT nbU else card_count a len card r nbT nbF nbU
    | LUnsat =>
      let nbF := nbF + 1 in
      if len - nbF <? card then CConfl
      else if card <? nbU + nbT then CDone nbT nbU else card_count a len card r nbT nbF nbU
    end
  end.

(* l.433-442: "i := 0; for nbUnb > 0 { lit := Get(i); if model[lit.Var()] == 0
   { propagateUnit; nbUnb-- } else { i++ } }".  After a propagation the same
   index is read again, found bound, and skipped: the model moves on at once.
   Running past the end of the clause is Go's index-out-of-range panic. *)
Fixpoint card_prop (a : assignment) (lvl : Z) (ls : list lit) (nbU : Z) : outcome * assignment :=
  match ls with
  | [] => if nbU <=? 0 then (Props [], a) else (Crash, a)
  | l :: r =>
    if nbU <=? 0 then (Props [], a)
    else if aget a l =? 0 then
      let '(o, a') := card_prop (assign a lvl l) lvl r (nbU - 1) in (ocons l o, a')
    else card_prop a lvl r nbU
  end.

(* swapFalse (l.477-503).  [W] is the watched prefix still to scan (index i),
   [R] the literals from index j on.  None = clause.Get out of range. *)
Fixpoint swapf (a : assignment) (W R : list lit) : option (list lit * list lit) :=
  match W with
  | [] => Some ([], R)
  | w :: W' =>
    if is_unsat a w then
      match find_nonfalse a R with
      | None => None
      | Some (pre, x, post) =>
        match swapf a W' post with
        | Some (W2, R2) => Some (x :: W2, pre ++ w :: R2)
        | None => None
        end
      end
    else
      match swapf a W' R with
      | Some (W2, R2) => Some (w :: W2, R2)
      | None => None
      end
  end.

Definition swap_false (a : assignment) (card : Z) (ls : list lit) : option (list lit) :=
  let n := Z.to_nat (card + 1) in
  if Nat.ltb (length ls) n then None
  else match swapf a (firstn n ls) (skipn n ls) with
       | Some (W, R) => Some (W ++ R)
       | None => None
       end.

(* outcome, final assignment, literals of the constraint in their new order *)
Definition simplify_card (a : assignment) (lvl : Z) (ls : list lit) (card : Z)
  : outcome * assignment * list lit :=
  match card_count a (Z.of_nat (length ls)) card ls 0 0 0 with
  | CSat => (Props [], a, ls)
  | CConfl => (Conflict, a, ls)
  | CDone nbT nbU =>
    if nbU + nbT =? card then
      let '(o, a') := card_prop a lvl ls nbU in (o, a', ls)
    else match swap_false a card ls with
         | Some ls' => (Props [], a, ls')
         | None => (Crash, a, ls)
         end
  end.

(* ------------------------------------------------------------------ *)
(* simplifyCardAMOConstr (l.452-473)                                    *)

(* l.456-464: the second false literal returns false; reading index Len
   panics.  [seen] is foundFalse. *)
Fixpoint amo_scan (a : assignment) (n : nat) (ls : list lit) (seen : bool) : outcome :=
  match n with
  | O => Props []
  | S n' =>
    match ls with
    | [] => Crash
    | l :: r =>
      if is_unsat a l then (if seen then Conflict else amo_scan a n' r true)
      else amo_scan a n' r seen
    end
  end.

Definition simplify_card_amo (a : assignment) (lvl : Z) (ls : list lit) (card : Z)
  : outcome * assignment :=
  let n := Z.to_nat (card + 1) in
  match amo_scan a n ls false with
  | Props _ => let '(ps, a') := prop_unbound a lvl (firstn n ls) in (Props ps, a')
  | o => (o, a)
  end.

(* ------------------------------------------------------------------ *)
(* slackSum (l.511-529)                                                 *)

Fixpoint slack_sum_go (a : assignment) (card : Z) (ts : list term) (sl sum : Z) : Z * bool :=
  match ts with
  | [] => (sl, false)
  | t :: r =>
    match lit_status a (snd t) with
    | LIndet => slack_sum_go a card r (sl + fst t) sum
    | LSat =>
      if card <=? sum + fst t then (sl + fst t, true)
      else slack_sum_go a card r (sl + fst t) (sum + fst t)
    | LUnsat => slack_sum_go a card r sl sum
    end
  end.

Definition slack_sum (a : assignment) (ts : list term) (card : Z) : Z * bool :=
  slack_sum_go a card ts (- card) 0.

(* ------------------------------------------------------------------ *)
(* simplifyPseudoBool (l.540-565)                                       *)

(* l.555-561: one pass over the literals with the slack computed before it *)
Fixpoint pb_pass (a : assignment) (lvl sl : Z) (ts : list term) : list lit * assignment :=
  match ts with
  | [] => ([], a)
  | t :: r =>
    if is_indet a (snd t) && (sl <? fst t) then
      let '(ps, a') := pb_pass (assign a lvl (snd t)) lvl sl r in (snd t :: ps, a')
    else pb_pass a lvl sl r
  end.

(* outcome, final assignment, "updateWatchPB was called" *)
Fixpoint simplify_pb (fuel : nat) (a : assignment) (lvl : Z) (ts : list term) (card : Z)
  : outcome * assignment * bool :=
  match fuel with
  | O => (NoFuel, a, false)
  | S f =>
    let '(sl, sat) := slack_sum a ts card in
    if sat then (Props [], a, false)                                     (* l.544 *)
    else if sl <? 0 then (Conflict, a, false)                            (* l.547 *)
    else if sl =? 0 then                                                 (* l.550 *)
      let '(ps, a') := prop_unbound a lvl (map snd ts) in (Props ps, a', false)
    else
      let '(ps, a') := pb_pass a lvl sl ts in
      match ps with
      | [] => (Props [], a', true)                                       (* l.563 *)
      | _ => let '(o, a'', u) := simplify_pb f a' lvl ts card in (oapp ps o, a'', u)
      end
  end.

Definition pb_fuel (ts : list term) : nat := S (length ts).

Definition simplifyPseudoBool (a : assignment) (lvl : Z) (ts : list term) (card : Z) :=
  simplify_pb (pb_fuel ts) a lvl ts card.

(* ------------------------------------------------------------------ *)
(* Watches                                                              *)

(* watchPB (l.123-137): the flags pbData.watched *)
Fixpoint watch_pb_go (goal sum : Z) (ts : list term) : list bool :=
  match ts with
  | [] => []
  | t :: r =>
    if sum <? goal then true :: watch_pb_go goal (sum + fst t) r
    else map (fun _ => false) ts
  end.

(* c.Weight(0) panics on an empty constraint; 0 here *)
Definition pb_goal (ts : list term) (card : Z) : Z :=
  match ts with [] => 0 | t :: _ => fst t end + card.

Definition watch_pb (ts : list term) (card : Z) : list bool :=
  watch_pb_go (pb_goal ts card) 0 ts.

(* updateWatchPB (l.567-597): the new flags (they do not depend on the old
   ones, which only say which watcher lists are touched) *)
Fixpoint update_watch_go (a : assignment) (card ww : Z) (ts : list term) : list bool :=
  match ts with
  | [] => []
  | t :: r =>
    if ww <=? card then
      if is_unsat a (snd t) then false :: update_watch_go a card ww r
      else true :: update_watch_go a card (ww + fst t) r
    else map (fun _ => false) ts
  end.

Definition update_watch_pb (a : assignment) (ts : list term) (card : Z) : list bool :=
  update_watch_go a card 0 ts.

Fixpoint select {A} (fl : list bool) (l : list A) : list A :=
  match fl, l with
  | true :: f, x :: r => x :: select f r
  | false :: f, _ :: r => select f r
  | _, _ => []
  end.

(* the branch taken by watchClause *)
Inductive wkind := WPB | WAMO | WCard | WBin | WLong.

Definition watch_kind (c : constr) : wkind :=
  if c_pb c then WPB
  else if 1 <? c_card c then
         (if c_card c =? Z.of_nat (length (c_lits c)) + 1 then WAMO else WCard)
  else if Z.of_nat (length (c_lits c)) =? 2 then WBin else WLong.

(* the literals whose negation gets the constraint in a watcher list;
   None = clause.Get out of range in the watching loop *)
Definition take_watch (n : nat) (ls : list lit) : option (list lit) :=
  if Nat.ltb (length ls) n then None else Some (firstn n ls).

Definition watch_clause (c : constr) : option (list lit) :=
  match watch_kind c with
  | WPB => Some (select (watch_pb (c_terms c) (c_card c)) (c_lits c))
  | WAMO => take_watch (Z.to_nat (c_card c + 1)) (c_lits c)      (* watchCardAMO *)
  | WCard => take_watch (Z.to_nat (c_card c + 1)) (c_lits c)     (* l.98-102 *)
  | WBin | WLong => take_watch 2 (c_lits c)
  end.

(* total version: the watched literals of a constraint in its initial state *)
Definition watched_lits (c : constr) : list lit :=
  match c_kind c with
  | KClause => firstn 2 (c_lits c)
  | KCard => firstn (Z.to_nat (c_card c + 1)) (c_lits c)
  | KPB => select (watch_pb (c_terms c) (c_card c)) (c_lits c)
  end.

Definition none_false (a : assignment) (ls : list lit) : Prop :=
  forall l, In l ls -> lit_status a l <> LUnsat.
Definition none_falseb (a : assignment) (ls : list lit) : bool := forallb (non_false a) ls.

(* the largest weight comes first (NewPBClause sorts; removeLit in
   problem.go/AppendClause does not keep the order) *)
Definition head_max (ts : list term) : Prop :=
  match ts with [] => True | t :: _ => forall u, In u ts -> fst u <= fst t end.
Definition head_maxb (ts : list term) : bool :=
  match ts with [] => true | t :: _ => forallb (fun u => fst u <=? fst t) ts end.

(* ------------------------------------------------------------------ *)
(* propagate (l.289-326) on a list of constraints                       *)

(* A watched constraint: the literals in their current order, the PB flags,
   and the blocking literals of the watchers of positions 0 and 1. *)
Record wconstr := WC {
  w_c : constr;
  w_flags : list bool;       (* pbData.watched; meaningful for PB only *)
  w_other0 : lit;            (* blocking literal of the watcher of position 0 *)
  w_other1 : lit             (* blocking literal of the watcher of position 1 *)
}.

Definition w_lits (w : wconstr) := c_lits (w_c w).

Definition set_lits (c : constr) (ls : list lit) : constr :=
  (* only used for non-PB constraints: the weights are all 1 *)
  CN (c_pb c) (PBC (unit_terms ls) (c_card c)).

(* watchClause on a new constraint (watchers as created at l.110-119) *)
Definition watch_init (c : constr) : wconstr :=
  WC c (if c_pb c then watch_pb (c_terms c) (c_card c) else [])
     (nth 1 (c_lits c) 0) (nth 0 (c_lits c) 0).

(* is the constraint in the watcher list of [lit] (one of the four)? *)
Definition watches (w : wconstr) (tl : lit) : bool :=
  match c_kind (w_c w) with
  | KClause => existsb (Z.eqb (- tl)) (firstn 2 (w_lits w))
  | KCard => existsb (Z.eqb (- tl)) (firstn (Z.to_nat (c_card (w_c w) + 1)) (w_lits w))
  | KPB => existsb (Z.eqb (- tl)) (select (w_flags w) (w_lits w))
  end.

(* a binary clause found in wlistBin[tl] (l.293-302); [x; y] are its literals *)
Definition examine_bin (a : assignment) (lvl : Z) (tl : lit) (w : wconstr) (x y : lit)
  : wconstr * outcome * assignment :=
  let other := if x =? - tl then y else x in
  let o := bin_step a other in
  (w, o, match o with Props ps => assign_all a lvl ps | _ => a end).

(* a longer clause found in wlist[tl] (simplifyPropClauses) *)
Definition examine_long (a : assignment) (lvl : Z) (tl : lit) (w : wconstr) (ls : list lit)
  : wconstr * outcome * assignment :=
  (* the watcher found in wlist[tl] is the one of the position holding -tl *)
  let other := if nth 0 ls 0 =? - tl then w_other0 w else w_other1 w in
  let st := clause_step a tl other ls in
  let o := cs_out st in
  (* after the step -tl is at position 1 (unless the blocker was true) *)
  let w' := if is_sat a other then w
            else WC (set_lits (w_c w) (cs_lits st)) (w_flags w)
                    (if nth 0 ls 0 =? - tl then w_other1 w else w_other0 w)
                    (cs_other st) in
  (w', o, match o with Props ps => assign_all a lvl ps | _ => a end).

(* examine one constraint for the true literal [tl]: the new constraint
   state, the outcome and the assignment *)
Definition examine (a : assignment) (lvl : Z) (tl : lit) (w : wconstr)
  : wconstr * outcome * assignment :=
  let c := w_c w in
  match c_kind c with
  | KPB =>
    let '(o, a', u) := simplifyPseudoBool a lvl (c_terms c) (c_card c) in
    (WC c (if u then update_watch_pb a' (c_terms c) (c_card c) else w_flags w)
        (w_other0 w) (w_other1 w), o, a')
  | KCard =>
    let '(o, a', ls') := simplify_card a lvl (c_lits c) (c_card c) in
    (WC (set_lits c ls') (w_flags w) (w_other0 w) (w_other1 w), o, a')
  | KClause =>
    match c_lits c with
    | [x; y] => examine_bin a lvl tl w x y                       (* wlistBin *)
    | ls => examine_long a lvl tl w ls                           (* wlist *)
    end
  end.

(* the constraints of one group, in list order; stops at the first conflict
   (the untouched rest is kept) *)
Fixpoint examine_all (sel : wconstr -> bool) (a : assignment) (lvl : Z) (tl : lit)
         (ws : list wconstr) : list wconstr * outcome * assignment :=
  match ws with
  | [] => ([], Props [], a)
  | w :: r =>
    if sel w && watches w tl then
      let '(w', o, a') := examine a lvl tl w in
      match o with
      | Props ps =>
        let '(r', o', a'') := examine_all sel a' lvl tl r in (w' :: r', oapp ps o', a'')
      | _ => (w' :: r, o, a')
      end
    else
      let '(r', o', a'') := examine_all sel a lvl tl r in (w :: r', o', a'')
  end.

Definition is_bin (w : wconstr) : bool :=
  match c_kind (w_c w), w_lits w with KClause, [_; _] => true | _, _ => false end.
Definition is_long (w : wconstr) : bool :=
  match c_kind (w_c w) with KClause => negb (is_bin w) | _ => false end.
Definition is_pbcard (w : wconstr) : bool :=
  match c_kind (w_c w) with KClause => false | _ => true end.

(* the body of the loop of propagate for one trail literal (l.291-321);
   wlistCardAMO is always empty (see Proofs: watch_amo_dead) *)
Definition propagate_lit (a : assignment) (lvl : Z) (tl : lit) (ws : list wconstr)
  : list wconstr * outcome * assignment :=
  let '(ws1, o1, a1) := examine_all is_bin a lvl tl ws in
  match o1 with
  | Props p1 =>
    let '(ws2, o2, a2) := examine_all is_long a1 lvl tl ws1 in
    match o2 with
    | Props p2 =>
      let '(ws3, o3, a3) := examine_all is_pbcard a2 lvl tl ws2 in
      (ws3, oapp (p1 ++ p2) o3, a3)
    | _ => (ws2, o2, a2)
    end
  | _ => (ws1, o1, a1)
  end.

(* propagate (l.289-326): [todo] is trail[ptr:], [pushed] accumulates the
   literals appended to the trail.  The outcome is Props (all new trail
   literals) when nil is returned. *)
Fixpoint propagate (fuel : nat) (a : assignment) (lvl : Z) (todo : list lit)
         (ws : list wconstr) : list wconstr * outcome * assignment :=
  match fuel with
  | O => (ws, NoFuel, a)
  | S f =>
    match todo with
    | [] => (ws, Props [], a)
    | tl :: rest =>
      let '(ws', o, a') := propagate_lit a lvl tl ws in
      match o with
      | Props ps =>
        let '(ws'', o', a'') := propagate f a' lvl (rest ++ ps) ws' in (ws'', oapp ps o', a'')
      | _ => (ws', o, a')
      end
    end
  end.

(* unifyLiteral (l.329-333) *)
Definition unify_literal (fuel : nat) (a : assignment) (lvl : Z) (tl : lit)
           (ws : list wconstr) : list wconstr * outcome * assignment :=
  propagate fuel (assign a lvl tl) lvl [tl] ws.

(* ------------------------------------------------------------------ *)
(* Predicates used in the statements of Proofs/Propagate.v              *)

(* wall ts: the sum of all the weights.
   pb_wf: weights >= 0 and every zero-weight literal is bound (propagateAll
     pushes zero-weight literals, which nothing implies).
   pb_fixpoint: what simplifyPseudoBool should leave: the constraint is
     satisfied by the true literals, or the slack is >= 0 and exceeds no
     weight of an unbound literal.
   watch_wf: what makes the INITIAL watches complete (clause of >= 2 literals,
     card+1 <= len, PB: weights >= 0, largest weight first, goal reachable).
   lits_ok / wc_ok / ws_ok: literals non-zero and inside the model array,
     clauses have cardinality 1, PB constraints satisfy pb_wf.
   ex_post / all_post: what examining one / several constraints guarantees.
   ante_post: the implicit reason and conflict clauses follow from the constraint. *)
Definition wall (ts : list term) : Z := wsum (fun _ => true) ts.

Definition pb_wf (a : assignment) (ts : list term) : Prop :=
  nonneg_terms ts = true /\
  forall t, In t ts -> fst t <= 0 -> lit_status a (snd t) <> LIndet.

Definition pb_fixpoint (a : assignment) (ts : list term) (card : Z) : Prop :=
  card <= wsum (is_sat a) ts \/
  (0 <= slack a ts card /\
   forall t, In t ts -> lit_status a (snd t) = LIndet -> fst t <= slack a ts card).

(* the invariant updateWatchPB establishes *)
Definition pb_watch_inv (a : assignment) (fl : list bool) (ts : list term) (card : Z) : Prop :=
  length fl = length ts /\ none_false a (select fl (map snd ts)) /\ card < wall (select fl ts).

Definition watch_wf (c : constr) : Prop :=
  match c_kind c with
  | KClause => (2 <= length (c_lits c))%nat
  | KCard => c_card c + 1 <= Z.of_nat (length (c_lits c))
  | KPB => nonneg_terms (c_terms c) = true /\ head_max (c_terms c) /\
           pb_goal (c_terms c) (c_card c) <= wall (c_terms c)
  end.

Definition lits_ok (a : assignment) (ls : list lit) : Prop :=
  forall l, In l ls -> l <> 0 /\ (vidx l < length a)%nat.

Definition wc_ok (a : assignment) (w : wconstr) : Prop :=
  lits_ok a (w_lits w) /\
  match c_kind (w_c w) with
  | KPB => pb_wf a (c_terms (w_c w))
  | KCard => True
  | KClause => c_card (w_c w) = 1
  end.

Definition ws_ok (a : assignment) (ws : list wconstr) : Prop := forall w, In w ws -> wc_ok a w.
Definition ws_sat (m : list bool) (ws : list wconstr) : Prop :=
  forall w, In w ws -> sat_pbc m (c_pbc (w_c w)) = true.

Definition ex_post (a : assignment) (w : wconstr) (w' : wconstr) (o : outcome) (a' : assignment) : Prop :=
  a_le a a' /\ length a' = length a /\ wc_ok a' w' /\
  (forall m, sat_pbc m (c_pbc (w_c w')) = sat_pbc m (c_pbc (w_c w))) /\
  (forall ps, o = Props ps -> forall l, In l ps -> l <> 0 /\ lit_status a' l = LSat) /\
  (forall m, extends m a -> sat_pbc m (c_pbc (w_c w)) = true ->
     o <> Conflict /\ (forall ps, o = Props ps -> extends m a')).

Definition all_post (a : assignment) (ws ws' : list wconstr) (o : outcome) (a' : assignment) : Prop :=
  a_le a a' /\ length a' = length a /\ ws_ok a' ws' /\
  (forall m, ws_sat m ws -> ws_sat m ws') /\
  (forall ps, o = Props ps -> forall l, In l ps -> l <> 0 /\ lit_status a' l = LSat) /\
  (forall m, extends m a -> ws_sat m ws ->
     o <> Conflict /\ (forall ps, o = Props ps -> extends m a')).

Definition ante_post (a' : assignment) (w : wconstr) (o : outcome) : Prop :=
  forall m, sat_pbc m (c_pbc (w_c w)) = true ->
    (o = Conflict -> sat_clause m (conflict_clause a' (w_c w)) = true) /\
    (forall ps l, o = Props ps -> In l ps -> sat_clause m (reason_clause a' l (w_c w)) = true).

(* boolean versions, for the examples and for tests by computation *)
Definition lits_okb (a : assignment) (ls : list lit) : bool :=
  forallb (fun l => negb (l =? 0) && Nat.ltb (vidx l) (length a)) ls.
Definition pb_wfb (a : assignment) (ts : list term) : bool :=
  nonneg_terms ts && forallb (fun t => (0 <? fst t) || negb (is_indet a (snd t))) ts.
Definition wc_okb (a : assignment) (w : wconstr) : bool :=
  lits_okb a (w_lits w) &&
  match c_kind (w_c w) with
  | KPB => pb_wfb a (c_terms (w_c w))
  | KCard => true
  | KClause => c_card (w_c w) =? 1
  end.
Definition ws_okb (a : assignment) (ws : list wconstr) : bool := forallb (wc_okb a) ws.
Definition watch_wfb (c : constr) : bool :=
  match c_kind c with
  | KClause => Nat.leb 2 (length (c_lits c))
  | KCard => c_card c + 1 <=? Z.of_nat (length (c_lits c))
  | KPB => nonneg_terms (c_terms c) && head_maxb (c_terms c) &&
           (pb_goal (c_terms c) (c_card c) <=? wall (c_terms c))
  end.

(* the valuation used to build a total extension in which all the unbound
   literals of [ls] are true, except [l] which is false *)
Definition witness_f (ls : list lit) (l : lit) (i : nat) : bool :=
  match find (fun x => Nat.eqb (vidx x) i) ls with
  | Some x => if x =? l then negb (0 <? l) else 0 <? x
  | None => false
  end.

(* ------------------------------------------------------------------ *)
(* Small instances used by the Examples and the refutations             *)

(* 2 x1 + 2 x2 + 0 x3 >= 2 with x1 false: slack 0, propagateAll pushes x3 *)
Definition ex_zero_ts : list term := [(2, 1); (2, 2); (0, 3)].
Definition ex_zero_a : assignment := [-1; 0; 0].
Definition ex_zero_m : list bool := [false; true; false].

(* 1 x2 + 2 x3 + 1 ~x2 >= 2 with x3 false (what ParsePBConstrs leaves of
   3 ~x5 + 1 ~x5 + 2 x3 + 1 ~x2 + 1 x2 >= 6) *)
Definition ex_compl_ts : list term := [(1, 2); (2, 3); (1, -2)].
Definition ex_compl_a : assignment := [0; 0; -1].

(* x3 + ~x2 + ~x2 >= 2 with x3 false: watcher.go:435 panics *)
Definition ex_dup_lits : list lit := [3; -2; -2].
Definition ex_dup_a : assignment := [0; 0; -2].

(* 2 x1 + 2 x2 + 1 x3 + 1 x4 >= 2: after x1 became false updateWatchPB
   watches x2, x3; x4 then becomes false unnoticed and x2 is implied *)
Definition ex_upd_ts : list term := [(2, 1); (2, 2); (1, 3); (1, 4)].
Definition ex_upd_a : assignment := [-1; 0; 0; 0].
Definition ex_upd_a' : assignment := [-1; 0; 0; -2].

(* at-most-one as written in problem.go:235: 3 literals, card 2 *)
Definition ex_amo_lits : list lit := [1; 2; 3].

(* a small mixed problem: x1 | x2,  ~x2 | x3 | x4,  x1 + ~x3 + x4 >= 2,
   2 x1 + ~x4 + x3 >= 2; deciding ~x1 ends in a conflict *)
Definition ex_ws : list wconstr :=
  map watch_init [mk_clause [1; 2]; mk_clause [-2; 3; 4]; mk_card [1; -3; 4] 2;
                  mk_pb [(2, 1); (1, -4); (1, 3)] 2].
Definition ex_a0 : assignment := [0; 0; 0; 0].
