(* L1 model: the public constraint constructors of gophersat and their
   normalisation (solver/pb.go, solver/card.go, solver/clause.go).
   Definitions only; the proofs are in Proofs/PBNorm.v.

   Go [int] is [Z] (no overflow is modelled), a Go slice is a list, a Go
   panic is either outside the domain of the theorems (and said so in the
   comment) or an explicit [None]. *)
From Coq Require Import List ZArith Bool.
From GS Require Import Spec.Base Spec.PB.
Import ListNotations.
Open Scope Z_scope.

(* pb.go:4-8   type PBConstr struct { Lits []int; Weights []int; AtLeast int }
   [g_ws = None] is Go's [Weights == nil] ("If nil, all lits == 1"). *)
Record gopb := GoPB { g_lits : list Z; g_ws : option (list Z); g_atleast : Z }.

(* card.go:5-8  type CardConstr struct { Lits []int; AtLeast int } *)
Record gocard := GoCard { c_lits : list Z; c_atleast : Z }.

Fixpoint zsum (l : list Z) : Z :=
  match l with [] => 0 | x :: r => x + zsum r end.

(* pb.go:11-20  func (c PBConstr) WeightSum() int *)
Definition weight_sum (c : gopb) : Z :=
  match g_ws c with
  | None => Z.of_nat (length (g_lits c))
  | Some ws => zsum ws
  end.

(* pb.go:40-42  PropClause *)
Definition prop_clause (lits : list Z) : gopb := GoPB lits None 1.

(* pb.go:46-48  AtLeast *)
Definition at_least (lits : list Z) (n : Z) : gopb := GoPB lits None n.

(* pb.go:52-58  AtMost: every literal negated, AtLeast = len(lits) - n *)
Definition at_most (lits : list Z) (n : Z) : gopb :=
  GoPB (map Z.opp lits) None (Z.of_nat (length lits) - n).

(* pb.go:67-78  the in-place loop of GtEq.

     for i := 0; i < len(weights); i++ {
         if weights[i] < 0 { weights[i] = -weights[i]; n += weights[i]; lits[i] = -lits[i] }
         if weights[i] == 0 { delete index i of weights and of lits; i-- }
     }

   The deletion [append(s[:i], s[i+1:]...)] keeps the order of the other
   elements and the [i--] cancels the [i++] of the loop header, so that the
   element that has just moved to index i is examined next: every pair
   (lits[i], weights[i]) of the input is examined exactly once, from left to
   right.  That is a structural recursion on the two lists.  ([gt_eq_idx]
   below is the literal index-based transcription; Proofs/PBNorm.v shows that
   both compute the same thing.)
   Result: (lits, weights, n) at loop exit.
   The guard pb.go:64 makes Go panic unless len(weights) = 0 or
   len(lits) = len(weights); the branch [lits = []] with a weight left is
   therefore unreachable in Go and only there to make the function total. *)
Fixpoint gt_eq_loop (lits ws : list Z) (n : Z) {struct ws} : list Z * list Z * Z :=
  match ws with
  | [] => (lits, [], n)
  | w :: ws' =>
    match lits with
    | [] => ([], [], n)
    | l :: lits' =>
      let w1 := if w <? 0 then - w else w in
      let n1 := if w <? 0 then n + w1 else n in
      let l1 := if w <? 0 then - l else l in
      if w1 =? 0 then gt_eq_loop lits' ws' n1
      else
        match gt_eq_loop lits' ws' n1 with
        | (ls, wss, n2) => (l1 :: ls, w1 :: wss, n2)
        end
    end
  end.

(* pb.go:63-80  GtEq.  A Go slice of length 0 is modelled as the nil slice:
   [GtEq(lits, nil, n)] returns [PBConstr{Lits: lits, Weights: nil}] (all
   weights 1).  A non-empty [weights] stays non-nil even when every weight is
   deleted ([Some []], Go prints Weights:[] with Weights != nil). *)
Definition gt_eq (lits ws : list Z) (n : Z) : gopb :=
  match ws with
  | [] => GoPB lits None n
  | _ :: _ =>
    match gt_eq_loop lits ws n with
    | (ls, wss, n') => GoPB ls (Some wss) n'
    end
  end.

(* Literal transcription of the same loop with an index, for comparison.
   State: (i, lits, weights, n).  [fuel] bounds the number of iterations
   (len(weights) is enough: each iteration either increments i or shortens
   weights); out of fuel returns the current state. *)
Fixpoint set_nth (i : nat) (x : Z) (l : list Z) : list Z :=
  match l with
  | [] => []
  | y :: r => match i with O => x :: r | S k => y :: set_nth k x r end
  end.

Fixpoint del_nth (i : nat) (l : list Z) : list Z :=
  match l with
  | [] => []
  | y :: r => match i with O => r | S k => y :: del_nth k r end
  end.

Fixpoint gt_eq_idx (fuel : nat) (i : nat) (lits ws : list Z) (n : Z)
  : list Z * list Z * Z :=
  match fuel with
  | O => (lits, ws, n)
  | S f =>
    if Nat.ltb i (length ws) then
      let w := nth i ws 0 in
      let ws1 := if w <? 0 then set_nth i (- w) ws else ws in
      let n1 := if w <? 0 then n + nth i ws1 0 else n in
      let lits1 := if w <? 0 then set_nth i (- nth i lits 0) lits else lits in
      if nth i ws1 0 =? 0
      then gt_eq_idx f i (del_nth i lits1) (del_nth i ws1) n1      (* i--; i++ *)
      else gt_eq_idx f (S i) lits1 ws1 n1
    else (lits, ws, n)
  end.

(* pb.go:85-93  LtEq: negates every literal, sum := sum of weights[i] for i in
   range lits, n := sum - n, then GtEq.  (Go panics if len(weights) < len(lits).) *)
Definition lt_eq (lits ws : list Z) (n : Z) : gopb :=
  gt_eq (map Z.opp lits) ws (zsum (firstn (length lits) ws) - n).

(* pb.go:98-113  Eq: GtEq on copies, LtEq on the originals, and only the
   constraints whose AtLeast is > 0 are returned (0, 1 or 2 constraints). *)
Definition eq_ (lits ws : list Z) (n : Z) : list gopb :=
  let ge := gt_eq lits ws n in
  let le := lt_eq lits ws n in
  (if 0 <? g_atleast ge then [ge] else []) ++
  (if 0 <? g_atleast le then [le] else []).

(* card.go:12-14  AtLeast1 *)
Definition at_least1 (lits : list Z) : gocard := GoCard lits 1.

(* card.go:17-23  AtMost1 *)
Definition at_most1 (lits : list Z) : gocard :=
  GoCard (map Z.opp lits) (Z.of_nat (length lits) - 1).

(* card.go:26-28  Exactly1 *)
Definition exactly1 (lits : list Z) : list gocard := [at_least1 lits; at_most1 lits].

(* Meaning of a Go constraint as a normalised constraint (sum >= degree).
   nil weights = all 1.  [combine] stops at the shorter list, as the Go code
   would index out of range otherwise. *)
Definition pbc_of_gopb (g : gopb) : pbc :=
  match g_ws g with
  | None => PBC (unit_terms (g_lits g)) (g_atleast g)
  | Some ws => PBC (combine ws (g_lits g)) (g_atleast g)
  end.

Definition pbc_of_gocard (c : gocard) : pbc := PBC (unit_terms (c_lits c)) (c_atleast c).

(* pb.go:28-33  "Saturate weights": every weight above AtLeast becomes AtLeast. *)
Definition cap (d w : Z) : Z := if d <? w then d else w.

Definition saturate (c : pbc) : pbc :=
  PBC (map (fun t => (cap (degree c) (fst t), snd t)) (terms c)) (degree c).

(* clause.go:55,69-70  sort.Sort with Less(i,j) = weights[i] > weights[j].
   sort.Sort is not stable in general; all that is used of it is that the
   result is a permutation sorted by decreasing weight.  The model is the
   stable insertion sort (this is exactly what sort.Sort does for fewer than
   13 elements, cf. insertionSort in sort/zsortinterface.go). *)
Fixpoint ins_term (t : term) (s : list term) : list term :=
  match s with
  | [] => [t]
  | h :: r => if fst h <? fst t then t :: h :: r else h :: ins_term t r
  end.

(* the accumulator is the sorted prefix, elements are taken from left to right
   and moved left past strictly smaller weights only *)
Fixpoint sort_terms_acc (acc ts : list term) : list term :=
  match ts with
  | [] => acc
  | t :: r => sort_terms_acc (ins_term t acc) r
  end.

Definition sort_terms (ts : list term) : list term := sort_terms_acc [] ts.

(* clause.go:42-47  NewCardClause: panics (None) unless 1 <= card <= len(lits). *)
Definition new_card_clause (lits : list Z) (card : Z) : option pbc :=
  if (card <? 1) || (Z.of_nat (length lits) <? card) then None
  else Some (card_pbc lits card).

(* clause.go:65-79  NewPBClause: panics (None) if card < 1; sorts; nil weights
   become all 1. *)
Definition new_pb_clause (g : gopb) : option pbc :=
  if g_atleast g <? 1 then None
  else Some (PBC (sort_terms (terms (pbc_of_gopb g))) (g_atleast g)).

(* pb.go:23-35  PBConstr.Clause: saturation (a no-op on nil weights: the loop
   ranges over c.Weights), then NewPBClause. *)
Definition pb_clause (g : gopb) : option pbc :=
  new_pb_clause
    (GoPB (g_lits g)
          (match g_ws g with
           | None => None
           | Some ws => Some (map (cap (g_atleast g)) ws)
           end)
          (g_atleast g)).

(* clause.go:250-280  Clause.SimplifyPB on a PB clause (terms sorted by
   decreasing weight, pbData != nil).
   Result: None           = (nil, nil, false)
           Some (us, None)   = (us, nil, true)
           Some (us, Some c) = (us, c, true). *)

(* clause.go:258-263  the prefix of the literals whose weight is > thresh *)
Fixpoint split_units (thresh : Z) (ts : list term) : list term * list term :=
  match ts with
  | [] => ([], [])
  | t :: r =>
    if thresh <? fst t
    then match split_units thresh r with (u, s) => (t :: u, s) end
    else ([], ts)
  end.

(* clause.go:275-278
       i = 0
       for newWeights[i] > card { newWeights[i] = card }
   i is never incremented: only the first weight is capped (after one
   assignment the loop test is false).  On an empty slice Go would panic;
   [simplify_pb] never calls it on [] (Proofs/PBNorm.v, simplify_pb_rest_nonempty). *)
Definition cap_first (card : Z) (ts : list term) : list term :=
  match ts with
  | [] => []
  | t :: r => (cap card (fst t), snd t) :: r
  end.

Definition simplify_pb (c : pbc) : option (list lit * option pbc) :=
  let card := degree c in
  let thresh := zsum (map fst (terms c)) - card in
  if thresh <? 0 then None
  else
    match split_units thresh (terms c) with
    | (us, rest) =>
      let card' := card - zsum (map fst us) in
      if card' <=? 0 then Some (map snd us, None)
      else Some (map snd us, Some (PBC (sort_terms (cap_first card' rest)) card'))
    end.

(* A user constraint sent through the matching constructor. *)
Definition norm_uc (c : uc) : list gopb :=
  let lits := map snd (u_terms c) in
  let ws := map fst (u_terms c) in
  match u_rel c with
  | Ge => [gt_eq lits ws (u_rhs c)]
  | Le => [lt_eq lits ws (u_rhs c)]
  | Eq => eq_ lits ws (u_rhs c)
  end.

Definition sat_gopbs (m : model) (gs : list gopb) : bool :=
  forallb (fun g => sat_pbc m (pbc_of_gopb g)) gs.

Definition sat_gocards (m : model) (cs : list gocard) : bool :=
  forallb (fun c => sat_pbc m (pbc_of_gocard c)) cs.

(* Go panics on a literal 0 (IntToLit); executable check that there is none. *)
Definition wf_litsb (c : list Z) : bool := forallb (fun l => negb (l =? 0)) c.
