(* Executable mirror of gophersat's package bf (bf/bf.go): the formula AST,
   the public constructors (Implies, Eq, Xor, Unique), nnf(), asCnf/cnfRec,
   cnf.solve, Dimacs and Eval.  Definitions only (see Proofs/Bf.v).

   Conventions specific to this file
   - a Go [variable{name, dummy}] is the record [var]; the Go maps
     [vars.all] / [vars.pb] (keyed by that struct) are association lists kept
     in insertion order ([tbl_set] has the semantics of a Go map assignment:
     overwrite an existing key, otherwise insert);
   - Go panics are not values: [cnf_rec] returns a junk value on the branches
     where cnfRec panics and [cnf_ok] says whether cnfRec runs without
     panicking (Proofs/Bf.v, [nnf_cnf_ok]: cnf_ok (nnf f) = true for every f);
   - sqrt(float64(n)) is replaced by the integer square root [N.sqrt]
     (nbLines = int(sqrt+0.5), nbCols = int(ceil(sqrt)); see [nb_lines]). *)
From Coq Require Import List ZArith NArith Bool String Ascii Arith DecimalString.
From GS Require Import Spec.Base Spec.PB Spec.Solver.
Import ListNotations.
Open Scope Z_scope.

(* ------------------------------------------------------------------ *)
(* bf.go:94-105  variable, pbVar, dummyVar                              *)

Record var := V { vname : string; vdummy : bool }.

Definition pb_var (name : string) : var := V name false.
Definition dummy_var (name : string) : var := V name true.

Definition var_eqb (a b : var) : bool :=
  String.eqb (vname a) (vname b) && Bool.eqb (vdummy a) (vdummy b).

(* ------------------------------------------------------------------ *)
(* bf.go:70-255, 327  the AST: trueConst, falseConst, variable, lit, not,
   and, or, unique (an exactly-one group, kept as a node until nnf()) *)

Inductive form :=
| FVar (v : var)
| FLit (v : var) (signed : bool)
| FNot (f : form)
| FAnd (l : list form)
| FOr (l : list form)
| FTrue
| FFalse
| FUnique (vs : list var).

Fixpoint count_true (l : list bool) : nat :=
  match l with [] => O | b :: r => ((if b then 1 else 0) + count_true r)%nat end.

Definition exactly_one (l : list bool) : bool := (count_true l =? 1)%nat.

(* Standard semantics (the specification; empty And = true, empty Or = false). *)
Fixpoint eval (env : var -> bool) (f : form) : bool :=
  match f with
  | FVar v => env v
  | FLit v s => if s then negb (env v) else env v
  | FNot g => negb (eval env g)
  | FAnd l => forallb (eval env) l
  | FOr l => existsb (eval env) l
  | FTrue => true
  | FFalse => false
  | FUnique vs => exactly_one (map env vs)
  end.

(* bf.go:77,87,115-121,139-145,194-196,236-248,288-298  Eval on a
   map[string]bool.  The lookup is by NAME only (the dummy flag is ignored);
   a missing binding panics: None.  Go evaluates every sub-formula (no short
   cut), so a panic anywhere is a panic of the whole. *)
Fixpoint assoc_str (m : list (string * bool)) (s : string) : option bool :=
  match m with
  | [] => None
  | (k, b) :: r => if String.eqb k s then Some b else assoc_str r s
  end.

Fixpoint eval_go (m : list (string * bool)) (f : form) : option bool :=
  match f with
  | FVar v => assoc_str m (vname v)
  | FLit v s => option_map (fun b => if s then negb b else b) (assoc_str m (vname v))
  | FNot g => option_map negb (eval_go m g)
  | FAnd l =>
      fold_left (fun acc s => match acc, eval_go m s with
                              | Some a, Some b => Some (a && b)
                              | _, _ => None end) l (Some true)
  | FOr l =>
      fold_left (fun acc s => match acc, eval_go m s with
                              | Some a, Some b => Some (a || b)
                              | _, _ => None end) l (Some false)
  | FTrue => Some true
  | FFalse => Some false
  | FUnique vs =>    (* bf.go:338-346: counts the true variables *)
      option_map exactly_one
        (fold_right (fun v acc => match assoc_str m (vname v), acc with
                                  | Some b, Some l => Some (b :: l)
                                  | _, _ => None end) (Some []) vs)
  end.

(* ------------------------------------------------------------------ *)
(* bf.go:300-313  Implies, Eq, Xor                                      *)

Definition f_implies (f1 f2 : form) : form := FOr [FNot f1; f2].
Definition f_eq (f1 f2 : form) : form := FAnd [FOr [FNot f1; f2]; FOr [f1; FNot f2]].
Definition f_xor (f1 f2 : form) : form := FAnd [FOr [FNot f1; FNot f2]; FOr [f1; f2]].

(* ------------------------------------------------------------------ *)
(* bf.go:315-409  Unique, uniqueSmall, uniqueRec                        *)

(* "%d" of a non-negative int *)
Definition dec (n : N) : string := NilEmpty.string_of_uint (N.to_uint n).

(* bf.go:357-361  for i < j: Or(Not(v_i), Not(v_j)), i outer, j inner *)
Fixpoint pairs_neg (l : list var) : list form :=
  match l with
  | [] => []
  | v :: r => map (fun w => FOr [FNot (FVar v); FNot (FVar w)]) r ++ pairs_neg r
  end.

(* bf.go:350-363 *)
Definition unique_small (vars : list var) : form :=
  FAnd (FOr (map FVar vars) :: pairs_neg vars).

(* bf.go:370-371,386  with k = floor(sqrt n) (exact integer square root):
     int(sqrt(n) + 0.5) = k  iff sqrt n < k + 1/2 iff n <= k*k + k ;
     int(ceil(sqrt n))  = k  iff n = k*k.
   Checked against the float64 code for 5 <= n <= 400 (Properties/C12.v,
   go_sqrt); nbLines * nbCols >= n is [grid_covers] in Proofs/Bf.v. *)
Definition isqrt (n : nat) : nat := N.to_nat (N.sqrt (N.of_nat n)).
Definition nb_lines (n : nat) : nat :=
  let k := isqrt n in if (n <=? k * k + k)%nat then k else S k.
Definition nb_cols (n : nat) : nat :=
  let k := isqrt n in if (n =? k * k)%nat then k else S k.

(* the elements of l whose index (counted from i) satisfies p, in order:
   the result of "for i, v := range vars { bucket[key(i)] = append(..., v) }"
   for one bucket *)
Fixpoint select {A} (p : nat -> bool) (i : nat) (l : list A) : list A :=
  match l with
  | [] => []
  | x :: r => if p i then x :: select p (S i) r else select p (S i) r
  end.

Definition grid_name (kind : string) (i : nat) (full : string) : string :=
  (kind ++ dec (N.of_nat i) ++ "-" ++ full)%string.

(* bf.go:382-385 / 388-392 *)
Definition grid_vars (kind : string) (count : nat) (full : string) : list var :=
  map (fun i => dummy_var (grid_name kind i full)) (seq 0 count).

(* bf.go:394-397  linesF / colsF *)
Definition lines_of (vars : list var) (nbl nbc : nat) : list (list var) :=
  map (fun i => select (fun p => (p / nbc =? i)%nat) 0 vars) (seq 0 nbl).
Definition cols_of (vars : list var) (nbc : nat) : list (list var) :=
  map (fun j => select (fun p => (p mod nbc =? j)%nat) 0 vars) (seq 0 nbc).

(* bf.go:398-403  Eq(lines[i], Or(linesF[i]...)) *)
Fixpoint grid_defs (ds : list var) (members : list (list var)) : list form :=
  match ds, members with
  | d :: ds', l :: members' => f_eq (FVar d) (FOr (map FVar l)) :: grid_defs ds' members'
  | _, _ => []
  end.

(* strconv.Quote (bf.go:376), byte by byte.  Exact for every byte below 0x80:
   the double quote and the backslash are escaped with a backslash, the control
   characters print as \a \b \f \n \r \t \v or \xhh (lower-case hex; also 0x7f),
   the other printable ASCII characters are kept.  Bytes >= 0x80 are kept as
   they are: this is what Go does for the UTF-8 encoding of a printable rune
   (unicode.IsPrint); for invalid UTF-8 and for non-printable runes Go prints
   \xhh, \uhhhh or \Uhhhhhhhh instead -- names containing such bytes are
   outside the model (checked against Go on a sample, Properties/C12.v). *)
Definition hex_digit (n : N) : ascii :=
  nth (N.to_nat n)
      ["0"; "1"; "2"; "3"; "4"; "5"; "6"; "7"; "8"; "9"; "a"; "b"; "c"; "d"; "e"; "f"]%char
      "0"%char.

Definition ch_bs : ascii := "092"%char.   (* backslash *)
Definition ch_dq : ascii := "034"%char.   (* double quote *)

Definition esc (c : ascii) : string :=
  let n := N_of_ascii c in
  if (n =? 34)%N then String ch_bs (String ch_dq EmptyString)
  else if (n =? 92)%N then String ch_bs (String ch_bs EmptyString)
  else if (n =? 7)%N then String ch_bs (String "a" EmptyString)
  else if (n =? 8)%N then String ch_bs (String "b" EmptyString)
  else if (n =? 12)%N then String ch_bs (String "f" EmptyString)
  else if (n =? 10)%N then String ch_bs (String "n" EmptyString)
  else if (n =? 13)%N then String ch_bs (String "r" EmptyString)
  else if (n =? 9)%N then String ch_bs (String "t" EmptyString)
  else if (n =? 11)%N then String ch_bs (String "v" EmptyString)
  else if (n <? 32)%N || (n =? 127)%N then
    String ch_bs (String "x" (String (hex_digit (n / 16)) (String (hex_digit (n mod 16)) EmptyString)))
  else String c EmptyString.

Fixpoint qbody (s : string) : string :=
  match s with
  | EmptyString => EmptyString
  | String c r => (esc c ++ qbody r)%string
  end.

Definition quote (s : string) : string := String ch_dq (qbody s ++ String ch_dq EmptyString)%string.

(* a name given by its bytes (for names with control characters) *)
Definition string_of_bytes (l : list nat) : string :=
  fold_right (fun n s => String (ascii_of_nat n) s) EmptyString l.

(* bf.go:374-381  fullName: the quoted names, a nested group of dummies being
   marked with a "d", joined with "-" *)
Definition qname (v : var) : string :=
  if vdummy v then String "d" (quote (vname v)) else quote (vname v).

Definition full_name (vars : list var) : string :=
  String.concat "-" (map qname vars).

(* bf.go:365-409.  The recursion is on lists that get strictly shorter
   (nbLines, nbCols < nbVars when nbVars > 4): fuel = number of variables is
   enough (Proofs/Bf.v); FFalse is the out-of-fuel value. *)
Fixpoint unique_rec (fuel : nat) (vars : list var) : form :=
  let n := List.length vars in
  if (n <=? 4)%nat then unique_small vars else
  match fuel with
  | O => FFalse
  | S k =>
    let nbl := nb_lines n in
    let nbc := nb_cols n in
    let full := full_name vars in
    let lines := grid_vars "line-" nbl full in
    let cols := grid_vars "col-" nbc full in
    FAnd (grid_defs lines (lines_of vars nbl nbc)
          ++ grid_defs cols (cols_of vars nbc)
          ++ [unique_rec k lines; unique_rec k cols])
  end.

(* bf.go:317-323: Unique(names...) = unique(pbVar(names)...) *)
Definition f_unique (names : list string) : form := FUnique (map pb_var names).

(* ------------------------------------------------------------------ *)
(* The public API as a syntax (what a user of the package can build), its
   standard semantics over assignments of the NAMES, and its translation
   into the Go AST by the constructors above. *)

Inductive sform :=
| SVar (name : string)
| STrue
| SFalse
| SNot (f : sform)
| SAnd (l : list sform)
| SOr (l : list sform)
| SImplies (a b : sform)
| SEq (a b : sform)
| SXor (a b : sform)
| SUnique (names : list string).

Fixpoint seval (env : string -> bool) (f : sform) : bool :=
  match f with
  | SVar s => env s
  | STrue => true
  | SFalse => false
  | SNot g => negb (seval env g)
  | SAnd l => forallb (seval env) l
  | SOr l => existsb (seval env) l
  | SImplies a b => implb (seval env a) (seval env b)
  | SEq a b => Bool.eqb (seval env a) (seval env b)
  | SXor a b => xorb (seval env a) (seval env b)
  | SUnique names => exactly_one (map env names)
  end.

Fixpoint desugar (f : sform) : form :=
  match f with
  | SVar s => FVar (pb_var s)
  | STrue => FTrue
  | SFalse => FFalse
  | SNot g => FNot (desugar g)
  | SAnd l => FAnd (map desugar l)
  | SOr l => FOr (map desugar l)
  | SImplies a b => f_implies (desugar a) (desugar b)
  | SEq a b => f_eq (desugar a) (desugar b)
  | SXor a b => f_xor (desugar a) (desugar b)
  | SUnique names => f_unique names
  end.

(* ------------------------------------------------------------------ *)
(* bf.go:75,85,107-109,128-130,154-188,205-226,257-278  nnf()           *)

(* bf.go:206-218: the loop of and.nnf over the already normalised subs.
   None = "return False" (line 214). *)
Fixpoint and_collect (l : list form) : option (list form) :=
  match l with
  | [] => Some []
  | x :: r =>
    match x with
    | FFalse => None
    | FTrue => and_collect r
    | FAnd xs => option_map (app xs) (and_collect r)
    | _ => option_map (cons x) (and_collect r)
    end
  end.

(* bf.go:219-225 *)
Definition and_fold (l : list form) : form :=
  match and_collect l with
  | None => FFalse
  | Some [] => FTrue
  | Some [x] => x
  | Some res => FAnd res
  end.

(* bf.go:258-270 *)
Fixpoint or_collect (l : list form) : option (list form) :=
  match l with
  | [] => Some []
  | x :: r =>
    match x with
    | FTrue => None
    | FFalse => or_collect r
    | FOr xs => option_map (app xs) (or_collect r)
    | _ => option_map (cons x) (or_collect r)
    end
  end.

(* bf.go:271-277 *)
Definition or_fold (l : list form) : form :=
  match or_collect l with
  | None => FTrue
  | Some [] => FFalse
  | Some [x] => x
  | Some res => FOr res
  end.

(* [nnfp false f] is f.nnf(); [nnfp true f] is not{f}.nnf() (bf.go:154-188).
   In the two De Morgan cases Go builds or(subs) / and(subs) from the
   normalised negated subs and calls .nnf() on it, which normalises every
   sub a second time: that second pass is the identity (Proofs/Bf.v,
   [nnf_idem]), so the fold is applied directly.
   [uq neg vs] is the translation of an exactly-one group. *)
Fixpoint nnfp_gen (uq : bool -> list var -> form) (neg : bool) (f : form) : form :=
  match f with
  | FVar v => FLit v neg
  | FLit v s => FLit v (if neg then negb s else s)
  | FNot g => nnfp_gen uq (negb neg) g
  | FAnd l => if neg then or_fold (map (nnfp_gen uq true) l) else and_fold (map (nnfp_gen uq false) l)
  | FOr l => if neg then and_fold (map (nnfp_gen uq true) l) else or_fold (map (nnfp_gen uq false) l)
  | FTrue => if neg then FFalse else FTrue
  | FFalse => if neg then FTrue else FFalse
  | FUnique vs => uq neg vs
  end.

(* nnf() on the formulas built by uniqueSmall / uniqueRec, which contain no
   unique node (Proofs/Bf.v, [no_unique_rec]): the last case is never reached. *)
Definition nnfp0 : bool -> form -> form := nnfp_gen (fun _ _ => FFalse).

(* bf.go:330-332: unique.nnf() = uniqueRec(u...).nnf(), with line/col dummies
   when the group has more than 4 variables;
   bf.go:177-180: not{unique}.nnf() = not{uniqueSmall(u...)}.nnf(), pairwise,
   without dummies, whatever the size. *)
Definition uq_go (neg : bool) (vs : list var) : form :=
  if neg then nnfp0 true (unique_small vs)
  else nnfp0 false (unique_rec (List.length vs) vs).

Definition nnfp : bool -> form -> form := nnfp_gen uq_go.

Definition nnf (f : form) : form := nnfp false f.

(* The literal mirror of the De Morgan cases, with the second pass, on fuel
   (None = out of fuel).  Proofs/Bf.v, [nnf_go_nnf]: for a formula without
   unique node, nnf_go k f = Some (nnf f) as soon as k > 2 * depth f. *)
Fixpoint nnf_go (fuel : nat) (f : form) : option form :=
  match fuel with
  | O => None
  | S k =>
    let all (l : list form) : option (list form) :=
      fold_right (fun s acc => match nnf_go k s, acc with
                               | Some x, Some r => Some (x :: r)
                               | _, _ => None end) (Some []) l in
    match f with
    | FVar v => Some (FLit v false)
    | FLit v s => Some (FLit v s)
    | FTrue => Some FTrue
    | FFalse => Some FFalse
    | FAnd l => option_map and_fold (all l)
    | FOr l => option_map or_fold (all l)
    | FUnique vs => nnf_go k (unique_rec (List.length vs) vs)
    | FNot g =>
      match g with
      | FVar v => Some (FLit v true)
      | FLit v s => Some (FLit v (negb s))
      | FNot h => nnf_go k h
      | FAnd l => match all (map FNot l) with
                  | Some subs => nnf_go k (FOr subs)
                  | None => None end
      | FOr l => match all (map FNot l) with
                 | Some subs => nnf_go k (FAnd subs)
                 | None => None end
      | FTrue => Some FFalse
      | FFalse => Some FTrue
      | FUnique vs => nnf_go k (FNot (unique_small vs))
      end
    end
  end.

(* The shape of an NNF: literals, And, Or; no And directly in an And, no Or
   directly in an Or, at least two operands, constants only as the whole
   formula. *)
Inductive kind := KTop | KAnd | KOr.

Fixpoint nnf_sub (parent : kind) (f : form) : bool :=
  match f with
  | FLit _ _ => true
  | FAnd l => match parent with KAnd => false | _ => true end
              && (2 <=? List.length l)%nat && forallb (nnf_sub KAnd) l
  | FOr l => match parent with KOr => false | _ => true end
             && (2 <=? List.length l)%nat && forallb (nnf_sub KOr) l
  | _ => false
  end.

Definition is_nnf (f : form) : bool :=
  match f with FTrue | FFalse => true | _ => nnf_sub KTop f end.

(* ------------------------------------------------------------------ *)
(* bf.go:411-437  vars, litValue, dummy                                 *)

Definition table := list (var * Z).

Fixpoint tbl_get (t : table) (v : var) : option Z :=
  match t with
  | [] => None
  | (w, x) :: r => if var_eqb w v then Some x else tbl_get r v
  end.

(* m[v] = x *)
Fixpoint tbl_set (t : table) (v : var) (x : Z) : table :=
  match t with
  | [] => [(v, x)]
  | (w, y) :: r => if var_eqb w v then (w, x) :: r else (w, y) :: tbl_set r v x
  end.

Record vars := Vars { v_all : table; v_pb : table }.

Definition tbl_len (t : table) : Z := Z.of_nat (List.length t).

(* bf.go:418-429 *)
Definition lit_value (vs : vars) (v : var) (signed : bool) : Z * vars :=
  match tbl_get (v_all vs) v with
  | Some val => ((if signed then - val else val), vs)
  | None =>
    let val := tbl_len (v_all vs) + 1 in
    ((if signed then - val else val),
     Vars (tbl_set (v_all vs) v val) (tbl_set (v_pb vs) v val))
  end.

Definition tseitin_var (val : Z) : var :=
  dummy_var ("dummy-" ++ dec (Z.to_N val))%string.

(* v is named like a variable of vars.dummy(): dummy flag and "dummy-..." *)
Definition tseitin_name (v : var) : bool := vdummy v && prefix "dummy-" (vname v).

(* bf.go:432-436.  The key is never already in the map (Proofs/Bf.v,
   [new_dummy_spec]), so the assignment is an insertion. *)
Definition new_dummy (vs : vars) : Z * vars :=
  let val := tbl_len (v_all vs) + 1 in
  (val, Vars (tbl_set (v_all vs) (tseitin_var val) val) (v_pb vs)).

(* ------------------------------------------------------------------ *)
(* bf.go:476-516  cnfRec                                                *)

(* "for _, sub := range l { res = append(res, step(sub, vars)...) }" *)
Definition thread {A} (step : A -> vars -> list clause * vars)
  : list A -> vars -> list clause * vars :=
  fix go (l : list A) (vs : vars) : list clause * vars :=
    match l with
    | [] => ([], vs)
    | x :: r =>
      let '(c1, vs1) := step x vs in
      let '(c2, vs2) := go r vs1 in
      (c1 ++ c2, vs2)
    end.

(* bf.go:498-500 *)
Definition guard (d : Z) (cs : list clause) : list clause :=
  map (fun c => c ++ [- d]) cs.

(* bf.go:489-506: the loop of the "or" case; returns (res, lits, vars).
   A sub that is neither a lit nor an and is a panic (line 504). *)
Definition or_thread (rec : form -> vars -> list clause * vars)
  : list form -> vars -> list clause * list lit * vars :=
  fix go (l : list form) (vs : vars) : list clause * list lit * vars :=
    match l with
    | [] => ([], [], vs)
    | sub :: r =>
      match sub with
      | FLit v s =>
        let '(x, vs1) := lit_value vs v s in
        let '(res, lits, vs2) := go r vs1 in
        (res, x :: lits, vs2)
      | FAnd l2 =>
        let '(d, vs1) := new_dummy vs in
        let '(cs, vs2) :=
          thread (fun sub2 vs => let '(c, vs') := rec sub2 vs in (guard d c, vs')) l2 vs1 in
        let '(res, lits, vs3) := go r vs2 in
        (cs ++ res, d :: lits, vs3)
      | _ => go r vs (* panic("unexpected or in or") *)
      end
    end.

Fixpoint cnf_rec (f : form) (vs : vars) {struct f} : list clause * vars :=
  match f with
  | FLit v s => let '(x, vs') := lit_value vs v s in ([[x]], vs')
  | FAnd l => thread cnf_rec l vs
  | FOr l =>
    let '(res, lits, vs') := or_thread cnf_rec l vs in (res ++ [lits], vs')
  | FTrue => ([], vs)
  | FFalse => ([[]], vs)
  | _ => ([], vs) (* panic("invalid NNF formula") *)
  end.

(* the variables of a formula, in order of occurrence *)
Fixpoint fvars (f : form) : list var :=
  match f with
  | FVar v => [v]
  | FLit v _ => [v]
  | FNot g => fvars g
  | FAnd l => flat_map fvars l
  | FOr l => flat_map fvars l
  | FTrue => []
  | FFalse => []
  | FUnique vs => vs
  end.

(* no variable of f can be mistaken for a dummy-k variable (always true of
   the formulas built with the public constructors: their dummies are named
   "line-..." and "col-...") *)
Definition fv_okb (f : form) : bool := forallb (fun v => negb (tseitin_name v)) (fvars f).

(* cnfRec does not panic *)
Fixpoint cnf_ok (f : form) : bool :=
  match f with
  | FLit _ _ => true
  | FTrue => true
  | FFalse => true
  | FAnd l => forallb cnf_ok l
  | FOr l =>
    forallb (fun sub => match sub with
                        | FLit _ _ => true
                        | FAnd l2 => forallb cnf_ok l2
                        | _ => false end) l
  | _ => false
  end.

(* bf.go:440-443, 466-470 *)
Record bfcnf := BfCnf { c_vars : vars; c_clauses : list clause }.

Definition as_cnf (f : form) : bfcnf :=
  let '(cls, vs) := cnf_rec (nnf f) (Vars [] []) in BfCnf vs cls.

(* the assignment of the formula variables read off a model of the clauses
   through the table; variables that are not in the table get [dflt] *)
Definition env_tbl (t : table) (m : model) (dflt : var -> bool) (v : var) : bool :=
  match tbl_get t v with Some i => var_val m i | None => dflt v end.

Definition env_of (c : bfcnf) : model -> (var -> bool) -> var -> bool :=
  env_tbl (v_all (c_vars c)).

(* ------------------------------------------------------------------ *)
(* bf.go:24-26, 449-463  Solve / cnf.solve.
   solver.ParseSlice derives the number of variables from the clauses; it is
   len(vars.all) because every variable of the table occurs in a clause
   (Proofs/Bf.v, [as_cnf_used]).  The Go result is a map name -> bool filled
   by ranging over vars.pb and skipping the dummy variables (the line/col
   variables of Unique; the dummy-k variables are not in vars.pb at all);
   here: the list of bindings in insertion order.  The names are pairwise
   distinct (Proofs/Bf.v, [solve_names_nodup]), so the map does not depend
   on the iteration order. *)
Definition bf_solve (solve : solver) (f : form) : option (list (string * bool)) :=
  let c := as_cnf f in
  match solve (List.length (v_all (c_vars c))) (cnf_problem (c_clauses c)) with
  | None => None
  | Some m =>
    Some (map (fun e : var * Z => (vname (fst e), var_val m (snd e)))
              (filter (fun e : var * Z => negb (vdummy (fst e))) (v_pb (c_vars c))))
  end.

Definition solve_ref (f : form) : option (list (string * bool)) := bf_solve ref_solve f.

(* the returned map completed on the names it does not mention *)
Definition complete (mp : list (string * bool)) (dflt : string -> bool) (s : string) : bool :=
  match assoc_str mp s with Some b => b | None => dflt s end.

(* ------------------------------------------------------------------ *)
(* bf.go:34-67  Dimacs (the structure; the bytes are printed elsewhere)  *)

Fixpoint insert_str (s : string) (l : list string) : list string :=
  match l with
  | [] => [s]
  | x :: r => if String.leb s x then s :: l else x :: insert_str s r
  end.

(* sort.Strings: ascending byte-wise order *)
Definition sort_strings (l : list string) : list string := fold_right insert_str [] l.

Record dimacs := Dimacs {
  d_nbvars : Z;                    (* "p cnf <nbvars> <nbclauses>" *)
  d_nbclauses : Z;
  d_names : list (string * Z);     (* "c <name>=<index>", in this order *)
  d_clauses : list clause }.

Definition dimacs_export (f : form) : dimacs :=
  let c := as_cnf f in
  let pb := v_pb (c_vars c) in
  let names := map vname (filter (fun v => negb (vdummy v)) (map fst pb)) in
  Dimacs (tbl_len (v_all (c_vars c)))
         (Z.of_nat (List.length (c_clauses c)))
         (map (fun s => (s, match tbl_get pb (pb_var s) with Some i => i | None => 0 end))
              (sort_strings names))
         (c_clauses c).

(* ------------------------------------------------------------------ *)
(* Side conditions on the public-API formulas used by the theorems.     *)

(* The definitions "dummy = Or(members)" that uniqueRec generates
   (bf.go:398-403), in the order of the recursion. *)
Fixpoint unique_defs (fuel : nat) (vars : list var) : list (var * list var) :=
  let n := List.length vars in
  if (n <=? 4)%nat then [] else
  match fuel with
  | O => []
  | S k =>
    let nbl := nb_lines n in
    let nbc := nb_cols n in
    let full := full_name vars in
    let lines := grid_vars "line-" nbl full in
    let cols := grid_vars "col-" nbc full in
    combine lines (lines_of vars nbl nbc) ++ combine cols (cols_of vars nbc)
    ++ unique_defs k lines ++ unique_defs k cols
  end.

(* env gives every defined dummy the value of the disjunction of its members *)
Definition consistentb (env : var -> bool) (defs : list (var * list var)) : bool :=
  forallb (fun e : var * list var => Bool.eqb (env (fst e)) (existsb env (snd e))) defs.

(* all the definitions that the groups of a formula can generate *)
Fixpoint fdefs (f : form) : list (var * list var) :=
  match f with
  | FNot g => fdefs g
  | FAnd l => flat_map fdefs l
  | FOr l => flat_map fdefs l
  | FUnique vs => unique_defs (List.length vs) vs
  | _ => []
  end.

(* no unique node *)
Fixpoint no_unique (f : form) : bool :=
  match f with
  | FNot g => no_unique g
  | FAnd l => forallb no_unique l
  | FOr l => forallb no_unique l
  | FUnique _ => false
  | _ => true
  end.

Fixpoint vars_eqb (a b : list var) : bool :=
  match a, b with
  | [], [] => true
  | x :: a', y :: b' => var_eqb x y && vars_eqb a' b'
  | _, _ => false
  end.

(* The dummies of a group are named from the quoted names of its variables
   (bf.go:374-381).  Two groups with the same list of variables share their
   dummies, with identical definitions: harmless.  [functional_defs]: two
   definitions of the same dummy have the same members.  It always holds
   (Proofs/Bf.v, [clash_free_all]). *)
Fixpoint functional_defs (defs : list (var * list var)) : bool :=
  match defs with
  | [] => true
  | (d, l) :: rest =>
    forallb (fun e : var * list var =>
               if var_eqb (fst e) d then vars_eqb (snd e) l else true) rest
    && functional_defs rest
  end.

Definition clash_free (f : sform) : bool := functional_defs (fdefs (desugar f)).

(* (No theorem needs it any more: since bf.go:177-180 a negated group is
   translated pairwise.)  Exactly-one groups of more than 4 names occur only
   positively ([pol] = true: the current position is positive).  Both sides
   of Eq and Xor, and the left of Implies, occur under a negation (bf.go:301-313). *)
Fixpoint pos_unique (pol : bool) (f : sform) : bool :=
  match f with
  | SNot g => pos_unique (negb pol) g
  | SAnd l => forallb (pos_unique pol) l
  | SOr l => forallb (pos_unique pol) l
  | SImplies a b => pos_unique (negb pol) a && pos_unique pol b
  | SEq a b => pos_unique true a && pos_unique false a && pos_unique true b && pos_unique false b
  | SXor a b => pos_unique true a && pos_unique false a && pos_unique true b && pos_unique false b
  | SUnique names => pol || (List.length names <=? 4)%nat
  | _ => true
  end.

Definition positive_unique (f : sform) : bool := pos_unique true f.

(* the assignment of the names read off a model of the clauses *)
Definition names_of (c : bfcnf) (m : model) (dflt : string -> bool) (s : string) : bool :=
  env_of c m (fun v => dflt (vname v)) (pb_var s).

(* the assignment of the names read off a model of the exported problem
   through the "c name=index" comments *)
Fixpoint assoc_idx (l : list (string * Z)) (s : string) : option Z :=
  match l with
  | [] => None
  | (k, i) :: r => if String.eqb k s then Some i else assoc_idx r s
  end.

Definition restrict (d : dimacs) (m : model) (dflt : string -> bool) (s : string) : bool :=
  match assoc_idx (d_names d) s with Some i => var_val m i | None => dflt s end.

(* nesting depth of a formula: [nnf_go] needs fuel > 2 * depth *)
Definition maxd (d : form -> nat) (l : list form) : nat :=
  fold_right (fun x acc => Nat.max (d x) acc) 0%nat l.

Fixpoint depth (f : form) : nat :=
  match f with
  | FNot g => S (depth g)
  | FAnd l => S (maxd depth l)
  | FOr l => S (maxd depth l)
  | _ => 1%nat
  end.

(* a Go map[string]bool as an assignment of the variables (by name) *)
Definition env_map (m : list (string * bool)) (v : var) : bool :=
  match assoc_str m (vname v) with Some b => b | None => false end.
