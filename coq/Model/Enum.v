(* Model of model enumeration / counting: solver.go Enumerate (:644-686),
   CountModels (:689-759), decisionLits (:764-783), addCurrentModels
   (:901-925), countCurrentModels (:932-940).

   The CDCL search is NOT modelled: it is the parameter [solveD].  One call
   of [solveD n P] stands for "run s.search() until s.status is Sat or Unsat"
   on a solver whose constraint database is [P]; on Sat it returns the
   binding array s.lastModel (a *partial* model: when the problem was
   already trivially satisfied when the solver was built, New copies
   problem.Status = Sat and no search happens, so the variables that are not
   unit facts are unbound) together with the decision literals (the literals
   of s.trail that have no reason and a level > 1; decisionLits returns their
   negations).

   Definitions only; proofs are in Proofs/Enum.v. *)
From Coq Require Import List ZArith Bool NArith.
From GS Require Import Spec.Base Spec.PB Spec.Solver.
Import ListNotations.
Open Scope Z_scope.

(* s.lastModel: None = unbound (lvl == 0), Some b = bound to b. *)
Definition pmodel := list (option bool).

(* addCurrentModels, solver.go:901-925.  The models sent on the channel for
   one binding array, in the order of the Go loop: model number i gives to
   the j-th unbound variable the j-th bit of i, so the first unbound
   variable toggles fastest. *)
Fixpoint completions (pm : pmodel) : list model :=
  match pm with
  | [] => [[]]
  | Some b :: r => map (cons b) (completions r)
  | None :: r => flat_map (fun t => [false :: t; true :: t]) (completions r)
  end.

(* countCurrentModels, solver.go:932-940: nb := 1; nb *= 2 for each unbound. *)
Definition count_current (pm : pmodel) : N :=
  fold_left (fun nb o => match o with None => (2 * nb)%N | Some _ => nb end) pm 1%N.

(* m is one of the total models a binding array stands for *)
Fixpoint agrees (pm : pmodel) (m : model) : bool :=
  match pm, m with
  | [], [] => true
  | o :: r, b :: t =>
      (match o with Some b' => Bool.eqb b' b | None => true end) && agrees r t
  | _, _ => false
  end.

(* The clause built from decisionLits(): the negation of every decision. *)
Definition block (ds : list lit) : pbc := clause_pbc (map Z.opp ds).

(* solver.go:667-682.  One decision: propagateUnits(lits) makes the negated
   decision a top-level fact (semantically the unit clause); two or more:
   appendClause(NewClause(lits)) adds the blocking clause to origClauses. *)
Definition next_problem (P : problem) (ds : list lit) : problem :=
  match ds with
  | [d] => P ++ [clause_pbc [- d]]
  | _ => P ++ [block ds]
  end.

Section Loop.

Variable solveD : nat -> problem -> option (pmodel * list lit).

(* Enumerate, solver.go:652-684.  [None] = out of fuel (the Go loop would
   still be running and the channel would still be open); [Some l] = the
   models written on the channel, in order, before it was closed. *)
Fixpoint enum_loop (fuel : nat) (n : nat) (P : problem) : option (list model) :=
  match fuel with
  | O => None
  | S f =>
    match solveD n P with
    | None => Some []                               (* s.status == Unsat *)
    | Some (pm, ds) =>
      match ds with
      | [] => Some (completions pm)                 (* case 0: s.status = Unsat *)
      | _ =>
        match enum_loop f n (next_problem P ds) with
        | Some r => Some (completions pm ++ r)
        | None => None
        end
      end
    end
  end.

(* CountModels, solver.go:722-753 (and the value returned by Enumerate). *)
Fixpoint count_loop (fuel : nat) (n : nat) (P : problem) : option N :=
  match fuel with
  | O => None
  | S f =>
    match solveD n P with
    | None => Some 0%N
    | Some (pm, ds) =>
      match ds with
      | [] => Some (count_current pm)
      | _ =>
        match count_loop f n (next_problem P ds) with
        | Some r => Some (count_current pm + r)%N
        | None => None
        end
      end
    end
  end.

(* 2^n + 1 iterations always suffice (Proofs/Enum.v, enum_fuel_enough). *)
Definition enum_fuel (n : nat) : nat := S (Nat.pow 2 n).

Definition enumerate_pm (n : nat) (P : problem) : option (list model) :=
  enum_loop (enum_fuel n) n P.
Definition count_pm (n : nat) (P : problem) : option N :=
  count_loop (enum_fuel n) n P.

End Loop.

(* A search that always returns total models. *)
Definition lift_total (solveD : nat -> problem -> option (model * list lit))
  : nat -> problem -> option (pmodel * list lit) :=
  fun n P => match solveD n P with
             | Some (m, ds) => Some (map Some m, ds)
             | None => None
             end.

Definition enumerate (solveD : nat -> problem -> option (model * list lit))
           (n : nat) (P : problem) : option (list model) :=
  enumerate_pm (lift_total solveD) n P.
Definition model_count (solveD : nat -> problem -> option (model * list lit))
           (n : nat) (P : problem) : option N :=
  count_pm (lift_total solveD) n P.

(* The set the results are compared with. *)
Definition sols (n : nat) (P : problem) : list model :=
  filter (fun m => sat_problem m P) (all_models n).

(* ------------------------------------------------------------------ *)
(* Contracts of the abstract search (used as Section hypotheses).       *)

Definition solveD_ok (solveD : nat -> problem -> option (model * list lit)) : Prop :=
  forall n P,
    match solveD n P with
    | Some (m, ds) =>
        length m = n /\ sat_problem m P = true /\
        Forall (fun d => d <> 0 /\ lit_val m d = true) ds /\
        (forall m', length m' = n -> sat_problem m' P = true ->
                    Forall (fun d => lit_val m' d = true) ds -> m' = m)
    | None => forall m, length m = n -> sat_problem m P = false
    end.

Definition solveD_pm_ok (solveD : nat -> problem -> option (pmodel * list lit)) : Prop :=
  forall n P,
    match solveD n P with
    | Some (pm, ds) =>
        length pm = n /\
        Forall (fun d => d <> 0) ds /\
        (forall m, agrees pm m = true ->
                   sat_problem m P = true /\ Forall (fun d => lit_val m d = true) ds) /\
        (forall m', length m' = n -> sat_problem m' P = true ->
                    Forall (fun d => lit_val m' d = true) ds -> agrees pm m' = true)
    | None => forall m, length m = n -> sat_problem m P = false
    end.

(* ------------------------------------------------------------------ *)
(* Executable instances built on the verified reference search.         *)

(* literal of variable i+1 with value b *)
Definition lit_of (i : nat) (b : bool) : lit :=
  if b then Z.of_nat (S i) else - Z.of_nat (S i).

Fixpoint model_lits_from (i : nat) (m : model) : list lit :=
  match m with
  | [] => []
  | b :: r => lit_of i b :: model_lits_from (S i) r
  end.
Definition model_lits (m : model) : list lit := model_lits_from 0 m.

(* every variable is a decision *)
Definition solveD_all (n : nat) (P : problem) : option (model * list lit) :=
  match ref_solve n P with
  | Some m => Some (m, model_lits m)
  | None => None
  end.

Definition unit_lits (ls : list lit) : problem := map (fun l => clause_pbc [l]) ls.

(* Drop every literal that the problem and the other remaining literals
   entail: what is left is an irredundant set of "decisions". *)
Fixpoint minimize (n : nat) (P : problem) (kept todo : list lit) : list lit :=
  match todo with
  | [] => kept
  | d :: r =>
    match ref_solve n (P ++ unit_lits (kept ++ r) ++ [clause_pbc [- d]]) with
    | None => minimize n P kept r
    | Some _ => minimize n P (kept ++ [d]) r
    end
  end.

Definition solveD_min (n : nat) (P : problem) : option (model * list lit) :=
  match ref_solve n P with
  | Some m => Some (m, minimize n P [] (model_lits m))
  | None => None
  end.

(* A constraint that holds whatever the assignment (as after parsing a
   problem whose constraints were all simplified away). *)
Definition trivial_pbc (c : pbc) : bool := nonneg_terms (terms c) && (degree c <=? 0).

(* Partial-model instance: a trivially satisfied problem is reported Sat with
   nothing bound and no decision (New copies problem.Status = Sat);
   otherwise the minimised total search. *)
Definition solveD_ref (n : nat) (P : problem) : option (pmodel * list lit) :=
  if forallb trivial_pbc P then Some (repeat None n, [])
  else lift_total solveD_min n P.

Definition enumerate_ref (n : nat) (P : problem) : option (list model) :=
  enumerate_pm solveD_ref n P.
Definition count_ref (n : nat) (P : problem) : option N :=
  count_pm solveD_ref n P.
